"""C20 — descriptions are interpreted consistently and invalid setups are rejected.

Tie to /repo (every run), all with the REAL classes (testequation0d, generic_implicit, mesh_to_mesh,
controller_nonMPI, the convergence-controller base class, FrozenClass, RegisterParams):

  1. valid descriptions from a grammar (1-4 levels, every per-level key as scalar / full list / short
     list with the last entry repeating, list-valued classes, extra user keys): the hierarchy the real
     controller builds (level count, classes, vars(level.params), vars(sweep.params), the problem's
     registered parameters) is compared EXACTLY with `build` of the Coq model (kernel-evaluated), and a
     short run must succeed;  an implementation-side oracle recomputes "longest list / last entry
     repeats / scalars shared" directly (independent of the model);
  2. single-fault (and some double-fault) perturbations of those descriptions: phase
     (construction / first use) and exception class are compared with the model's verdict;  oracle:
     a fault the property lists must raise — construction and a first run both succeeding is a
     violation ("silently ignored");
  3. convergence controllers: synthetic controller classes with random defaults, dependencies and
     user parameters registered on the real controller -> instance list, parameters and call order
     compared with the model `cc_build` / `cc_order`;  real controller classes: oracle only (one
     instance per class, ascending control_order, user parameters win);
  4. FrozenClass / RegisterParams: random scripts of attribute assignments, add_attr and hasattr on
     the real params/status objects and problems compared with `fz_run` / `rp_setattr`; oracle:
     undeclared assignments and read-only changes must raise.
"""
import contextlib
import io
import logging
import re
import traceback
import warnings
from concurrent.futures import ThreadPoolExecutor
from fractions import Fraction as F

import numpy as np

from harness.common import coq_list, zlit, parse_coq_value, eval_outputs, float_to_dy

LEVEL = 'proof'

HEADER = ('From Coq Require Import String List ZArith Bool.\n'
          'From PySDC Require Import Model.Descr.\n'
          'Import ListNotations.\nOpen Scope string_scope.\n\n')

SAFE_QI = ['IE', 'LU', 'MIN', 'MIN-SR-S', 'MIN-SR-NS', 'IEpar', 'Qpar', 'PIC', 'TRAP', 'MIN-SR-FLEX']
RIGHT = ['LOBATTO', 'RADAU-RIGHT']


# ----------------------------------------------------------------------------- python -> Coq terms

def cstr(s):
    assert '"' not in s
    return '"%s"' % s


class Registry:
    """Objects that the model treats as opaque (classes, arrays, tuples, dicts with non-string keys)."""

    def __init__(self):
        from pySDC.core.base_transfer import BaseTransfer
        from pySDC.core.collocation import CollBase
        self.objs = [BaseTransfer, (), CollBase]

    def index(self, o):
        for i, x in enumerate(self.objs):
            if x is o or (type(x) is tuple and type(o) is tuple and x == o):
                return i
        self.objs.append(o)
        return len(self.objs) - 1


def atom(v, reg):
    if v is None:
        return 'ANone'
    if type(v) is bool:
        return '(ABool %s)' % ('true' if v else 'false')
    if type(v) is int:
        return '(AInt %s)' % zlit(v)
    if type(v) is float:
        m, e = float_to_dy(v)
        return '(AFlt %s %s)' % (zlit(m), zlit(e))
    if type(v) is str:
        return '(AStr %s)' % cstr(v)
    return '(AObj %d)' % reg.index(v)


def pv(v, reg):
    if type(v) is list:
        return '(PList %s)' % coq_list([atom(x, reg) for x in v])
    return '(Scalar %s)' % atom(v, reg)


def adict(d, reg):
    return coq_list(['(%s, %s)' % (cstr(k), atom(v, reg)) for k, v in d.items()])


def pdict(d, reg):
    return coq_list(['(%s, %s)' % (cstr(k), pv(v, reg)) for k, v in d.items()])


def descr_term(d, reg):
    items = []
    for k, v in d.items():
        if type(v) is dict and all(type(kk) is str for kk in v):
            items.append('(%s, DD %s)' % (cstr(k), pdict(v, reg)))
        else:
            items.append('(%s, DV %s)' % (cstr(k), pv(v, reg)))
    return coq_list(items)


def atom_value(a, reg):
    """parsed Coq atom -> ('kind', python value)"""
    if a == 'ANone':
        return ('none', None)
    tag = a[0]
    if tag == 'AInt':
        return ('int', a[1])
    if tag == 'AFlt':
        return ('float', F(a[1]) * F(2) ** a[2])
    if tag == 'AStr':
        return ('str', a[1])
    if tag == 'ABool':
        return ('bool', a[1] in (True, 'true'))
    if tag == 'AObj':
        return ('obj', reg.objs[a[1]])
    raise ValueError(a)


def same(a, v, reg):
    """does the model's atom denote the python value v (type and value)"""
    kind, x = atom_value(a, reg)
    if kind == 'none':
        return v is None
    if kind == 'int':
        return type(v) is int and v == x
    if kind == 'float':
        return isinstance(v, float) and np.isfinite(v) and F(float(v)) == x
    if kind == 'str':
        return type(v) is str and v == x
    if kind == 'bool':
        return type(v) is bool and v == x
    if x is v:
        return True
    try:
        if isinstance(x, np.ndarray) or isinstance(v, np.ndarray):
            return np.array_equal(np.asarray(x), np.asarray(v))
        return type(x) is type(v) and x == v
    except Exception:
        return False


def show_val(v):
    if isinstance(v, np.ndarray):
        return 'array(%s)' % v.tolist()
    if isinstance(v, type):
        return v.__name__
    return repr(v)



# ----------------------------------------------------------------------------- recording wrappers

class Recorder:
    """Records, independently of the registries kept by the objects themselves,
       (a) every FrozenClass.add_attr(cls, key): which class an extra attribute was declared for, and
       (b) every RegisterParams._makeAttributeAndRegister(obj, *names, readOnly=...) call of every object.
    Installed before the first controller is built, removed at the end of run()."""

    def __init__(self):
        self.attrs = {}     # frozen class -> [keys declared through add_attr]
        self.calls = {}     # id(object) -> [(names, readOnly)]
        self.keep = []      # keeps recorded objects alive (ids stay unique)
        self.installed = False

    def install(self):
        from pySDC.helpers.pysdc_helper import FrozenClass
        from pySDC.core.common import RegisterParams
        rec = self
        self._orig_add = FrozenClass.__dict__['add_attr']
        self._orig_reg = RegisterParams.__dict__['_makeAttributeAndRegister']
        orig_add = self._orig_add.__func__
        orig_reg = self._orig_reg

        def add_attr(cls, key, raise_error_if_exists=False):
            lst = rec.attrs.setdefault(cls, [])
            if key not in lst:
                lst.append(key)
            return orig_add(cls, key, raise_error_if_exists)

        def _makeAttributeAndRegister(self_, *names, localVars=None, readOnly=False):
            if id(self_) not in rec.calls:
                rec.keep.append(self_)
            rec.calls.setdefault(id(self_), []).append((tuple(names), bool(readOnly)))
            return orig_reg(self_, *names, localVars=localVars, readOnly=readOnly)

        # state present before recording started (normally none: nothing is declared at import time)
        def subclasses(c):
            for sc in c.__subclasses__():
                yield sc
                yield from subclasses(sc)
        for sc in subclasses(FrozenClass):
            if getattr(sc, 'attrs', None):
                self.attrs.setdefault(sc, list(sc.attrs))
        FrozenClass.add_attr = classmethod(add_attr)
        RegisterParams._makeAttributeAndRegister = _makeAttributeAndRegister
        self.installed = True

    def uninstall(self):
        if self.installed:
            from pySDC.helpers.pysdc_helper import FrozenClass
            from pySDC.core.common import RegisterParams
            FrozenClass.add_attr = self._orig_add
            RegisterParams._makeAttributeAndRegister = self._orig_reg
            self.installed = False

    def declared(self, cls):
        return list(self.attrs.get(cls, []))


REC = Recorder()

# ----------------------------------------------------------------------------- classes used

from pySDC.implementations.problem_classes.TestEquation_0D import testequation0d
from pySDC.implementations.problem_classes.HeatEquation_ND_FD import heatNd_unforced
from pySDC.implementations.sweeper_classes.generic_implicit import generic_implicit
from pySDC.implementations.transfer_classes.TransferMesh import mesh_to_mesh


# module-level subclasses (dill copies the steps; importable classes are pickled by reference)
class testequation0d_b(testequation0d):
    pass


class heatNd_unforced_b(heatNd_unforced):
    pass


class generic_implicit_b(generic_implicit):
    pass


class mesh_to_mesh_b(mesh_to_mesh):
    pass


def classes():
    return dict(P=[testequation0d, testequation0d_b], H=[heatNd_unforced, heatNd_unforced_b],
                S=[generic_implicit, generic_implicit_b], T=[mesh_to_mesh, mesh_to_mesh_b])


def prob_matches(prob, k, v):
    """does the problem carry the stated parameter (nvars=int is stored as a 1-tuple by the n-d problems)"""
    got = getattr(prob, k, '<missing>')
    if k in ('nvars', 'freq') and type(v) is int and type(got) is tuple:
        return len(got) >= 1 and all(type(g) is int and g == v for g in got)
    return _val_eq(got, v)


def problem_kwargs(cls):
    import inspect
    return [p for p in inspect.signature(cls.__init__).parameters if p != 'self']


# ----------------------------------------------------------------------------- grammar of valid descriptions

def shape(rng, n, gen, force_full=False, scalar_ok=True):
    """a per-level entry: scalar, list of length n, or shorter list (last entry repeats)"""
    r = rng.random()
    if force_full or r < 0.35:
        return [gen(i) for i in range(n)], n
    if r < 0.55 and n > 1:
        k = rng.randint(1, n - 1)
        return [gen(i) for i in range(k)], k
    if r < 0.62:
        return [gen(0)], 1
    if scalar_ok:
        return gen(0), 0
    return [gen(0)], 1


def gen_valid(rng, CL):
    n = rng.choice([1, 1, 2, 2, 3, 3, 4])
    nprocs = rng.choice([1, 1, 2, 3])
    pfasst = nprocs > 1 and n > 1
    nlam = rng.randint(1, 3)
    quads = RIGHT if pfasst else ['GAUSS', 'RADAU-LEFT', 'RADAU-RIGHT', 'LOBATTO']
    dtbase = rng.choice([0.1, 0.05, 0.125, 0.2])

    heat = rng.random() < 0.3
    entries = {}   # (section, key) -> generator of the value at level i
    if heat:   # genuine spatial coarsening: 1-d heat equation, homogeneous Dirichlet, nvars halved per level
        # (7 is the smallest grid on which mesh_to_mesh can build its order-6 interpolation)
        entries[('problem_params', 'nvars')] = lambda i: [63, 31, 15, 7][min(i, 3)]
        entries[('problem_params', 'nu')] = lambda i: rng.choice([0.1, 0.5, 1.0])
        entries[('problem_params', 'freq')] = lambda i: rng.choice([1, 2, 3])
        entries[('problem_params', 'bc')] = lambda i: 'dirichlet-zero'
    else:
        entries[('problem_params', 'lambdas')] = lambda i: np.array([-(1.0 + rng.randint(0, 8) / 4.0) for _ in range(nlam)])
        entries[('problem_params', 'u0')] = lambda i: float(rng.randint(1, 8)) / 4.0
    entries[('level_params', 'dt')] = lambda i: dtbase * (1.0 + i * 2.0 ** -20)
    entries[('level_params', 'restol')] = lambda i: rng.choice([-1.0, 1e-30])
    entries[('level_params', 'nsweeps')] = lambda i: rng.choice([1, 1, 2, 3])
    # (relative residuals divide by |u[0]|, which the 'zero' initial guess makes 0 on later steps: keep them to one step)
    entries[('level_params', 'residual_type')] = lambda i: rng.choice(['full_abs', 'last_abs', 'full_rel', 'last_rel'] if nprocs == 1 else ['full_abs', 'last_abs'])
    entries[('level_params', 'user_note')] = lambda i: 'note%d' % rng.randint(0, 99)
    entries[('sweeper_params', 'num_nodes')] = lambda i: rng.randint(2, 4)
    entries[('sweeper_params', 'quad_type')] = lambda i: rng.choice(quads)
    entries[('sweeper_params', 'node_type')] = lambda i: rng.choice(['LEGENDRE', 'EQUID', 'CHEBY-1'])
    entries[('sweeper_params', 'QI')] = lambda i: rng.choice(SAFE_QI)
    entries[('sweeper_params', 'initial_guess')] = lambda i: rng.choice(['spread', 'spread', 'copy', 'zero', 'random'])
    entries[('sweeper_params', 'do_coll_update')] = lambda i: rng.choice([True, False])
    entries[('sweeper_params', 'random_seed')] = lambda i: rng.randint(1, 1000)
    # a tuple is a scalar for __dict_to_list (type(v) is list), whatever its length
    entries[('sweeper_params', 'skip_residual_computation')] = lambda i: tuple(rng.sample(['IT_FINE', 'IT_UP'], rng.randint(1, 2)))
    entries[('', 'problem_class')] = lambda i: rng.choice(CL['H'] if heat else CL['P'])
    entries[('', 'sweeper_class')] = lambda i: rng.choice(CL['S'])
    entries[('', 'space_transfer_class')] = lambda i: rng.choice(CL['T'])
    optional = {('problem_params', 'u0'): 0.7, ('problem_params', 'nu'): 0.7, ('problem_params', 'freq'): 0.5, ('level_params', 'restol'): 0.5, ('level_params', 'nsweeps'): 0.6,
                ('level_params', 'residual_type'): 0.6, ('level_params', 'user_note'): 0.25,
                ('sweeper_params', 'node_type'): 0.4, ('sweeper_params', 'QI'): 0.75,
                ('sweeper_params', 'initial_guess'): 0.6, ('sweeper_params', 'do_coll_update'): 0.3,
                ('sweeper_params', 'random_seed'): 0.15, ('sweeper_params', 'skip_residual_computation'): 0.3,
                ('', 'space_transfer_class'): 1.0 if n > 1 else 0.2}
    present = [k for k in entries if rng.random() < optional.get(k, 1.0)]
    forced = rng.choice(present) if n > 1 else None
    d = {'problem_params': {}, 'level_params': {}, 'sweeper_params': {}}
    shapes = {}
    for key in present:
        sec, name = key
        val, ln = shape(rng, n, entries[key], force_full=(key == forced))
        shapes[name] = ln
        if sec:
            d[sec][name] = val
        else:
            d[name] = val
    # the coarsest level may only do one sweep in a multi-level setup
    if n > 1 and 'nsweeps' in d['level_params']:
        v = d['level_params']['nsweeps']
        if type(v) is list:
            if len(v) <= n:
                v[-1] = 1 if len(v) == n or True else v[-1]
        else:
            d['level_params']['nsweeps'] = 1
    d['step_params'] = {'maxiter': rng.randint(1, 3)}
    if rng.random() < 0.3:
        d['step_params']['user_flag'] = True
    if n > 1 or rng.random() < 0.2:
        if rng.random() < 0.5:
            d['space_transfer_params'] = rng.choice([{}, {'rorder': 2, 'iorder': rng.choice([2, 4, 6])}, {'periodic': False}])
        if rng.random() < 0.4:
            d['base_transfer_params'] = rng.choice([{}, {'finter': True}, {'finter': False}])
        if rng.random() < 0.2:
            from pySDC.core.base_transfer import BaseTransfer
            d['base_transfer_class'] = BaseTransfer
    # random key order of the description (dict order must not matter)
    ks = list(d.keys())
    rng.shuffle(ks)
    d = {k: d[k] for k in ks}
    cp = {'logger_level': 30}
    r = rng.random()
    if r < 0.25:
        cp['predict_type'] = None
    elif r < 0.45:
        cp['predict_type'] = 'fine_only'
    elif r < 0.65:
        cp['predict_type'] = 'pfasst_burnin'
    if rng.random() < 0.3:
        cp['mssdc_jac'] = rng.choice([True, False])
    if rng.random() < 0.2:
        cp['dump_setup'] = rng.choice([True, False])
    if rng.random() < 0.15:
        cp['user_controller_key'] = 3
    return {'n': n, 'nprocs': nprocs, 'cp': cp, 'd': d, 'shapes': shapes}


def copy_descr(d):
    """fresh dicts / lists (the constructor mutates them), same leaf objects"""
    out = {}
    for k, v in d.items():
        if type(v) is dict:
            out[k] = {kk: (list(vv) if type(vv) is list else vv) for kk, vv in v.items()}
        elif type(v) is list:
            out[k] = list(v)
        else:
            out[k] = v
    return out


# ----------------------------------------------------------------------------- faults

def set_at_level(v, n, lvl, bad):
    """entry such that level `lvl` gets `bad` and other levels keep their value"""
    cur = [(v[min(i, len(v) - 1)] if type(v) is list else v) for i in range(n)]
    cur[lvl] = bad
    return cur if n > 1 or type(v) is list else bad


def faults_for(rng, base, CL):
    """list of (label, spec_rejects, case) ; spec_rejects: True (property lists it: must raise),
    False (must be accepted), None (no claim by the property: correspondence only)"""
    n, nprocs = base['n'], base['nprocs']
    out = []

    def variant(label, rej, f, nprocs_=None, info=None):
        d = copy_descr(base['d'])
        cp = dict(base['cp'])
        res = f(d, cp)
        if res is False:
            return
        out.append((label, rej, {'n': n, 'nprocs': nprocs_ if nprocs_ is not None else nprocs, 'cp': cp, 'd': d, 'info': info}, f))

    def drop(sec, key=None):
        def f(d, cp):
            if key is None:
                if sec not in d:
                    return False
                del d[sec]
            else:
                if key not in d.get(sec, {}):
                    return False
                del d[sec][key]
        return f

    def put(sec, key, val):
        def f(d, cp):
            if sec == 'cp':
                cp[key] = val
            elif sec == '':
                d[key] = val
            else:
                d.setdefault(sec, {})[key] = val
        return f

    def at_level(sec, key, lvl, bad, default):
        def f(d, cp):
            if sec not in d:
                return False
            cur = d[sec].get(key, default)
            if type(cur) is list and not cur:
                return False
            d[sec][key] = set_at_level(cur, n, lvl, bad)
        return f

    for k in ['problem_class', 'sweeper_class', 'sweeper_params', 'level_params']:
        variant('drop:' + k, True, drop(k))
    variant('drop:step_params', None, drop('step_params'))
    variant('deprecated:dtype_u', True, put('', 'dtype_u', CL['P'][0].dtype_u))
    variant('deprecated:dtype_f', True, put('', 'dtype_f', CL['P'][0].dtype_f))
    variant('deprecated:predict', True, put('cp', 'predict', rng.choice([True, False])))
    if n > 1:
        variant('drop:space_transfer_class', True, drop('space_transfer_class'))
        variant('falsy:space_transfer_class', True, put('', 'space_transfer_class', rng.choice([None, {}, []])))
        variant('unknown:predict_type', True, put('cp', 'predict_type', 'bogus_predictor'))
        variant('unknown:predict_type:fmg', True, put('cp', 'predict_type', 'fmg'))
        lvl = rng.randint(1, n - 1)
        variant('unused:initial_guess:coarse', True, at_level('sweeper_params', 'initial_guess', lvl, 'bogus_guess', 'spread'),
                info={'level': lvl})
        variant('conflict:coarse_nsweeps', True, at_level('level_params', 'nsweeps', n - 1, rng.choice([2, 3]), 1))
        bad_q = rng.choice(['GAUSS', 'RADAU-LEFT'])
        lvl = rng.randint(0, n - 1)
        variant('conflict:pfasst_right_node', True, at_level('sweeper_params', 'quad_type', lvl, bad_q, None),
                nprocs_=max(2, nprocs), info={'level': lvl})
        variant('transfer:odd_order', None, put('', 'space_transfer_params', {rng.choice(['rorder', 'iorder']): rng.choice([1, 3])}))
    else:
        variant('unknown:predict_type:single_level', None, put('cp', 'predict_type', 'bogus_predictor'))
    lvl = rng.randint(0, n - 1)
    variant('unknown:residual_type', True, at_level('level_params', 'residual_type', lvl, 'bogus_residual', 'full_abs'), info={'level': lvl})
    variant('unknown:initial_guess', True, at_level('sweeper_params', 'initial_guess', 0, 'bogus_guess', 'spread'))
    lvl = rng.randint(0, n - 1)
    variant('unknown:quad_type', True, at_level('sweeper_params', 'quad_type', lvl, 'bogus_quad', None), info={'level': lvl})
    variant('drop:quad_type', True, drop('sweeper_params', 'quad_type'))
    lvl = rng.randint(0, n - 1)
    variant('unknown:node_type', True, at_level('sweeper_params', 'node_type', lvl, 'bogus_nodes', 'LEGENDRE'), info={'level': lvl})
    lvl = rng.randint(0, n - 1)
    variant('unknown:QI', True, at_level('sweeper_params', 'QI', lvl, 'bogus_QI', 'IE'), info={'level': lvl})
    variant('drop:num_nodes', True, drop('sweeper_params', 'num_nodes'))
    lvl = rng.randint(0, n - 1)
    variant('bad:num_nodes:nonpositive', True, at_level('sweeper_params', 'num_nodes', lvl, rng.choice([0, -1]), None), info={'level': lvl})
    variant('bad:num_nodes:tuple', None, put('sweeper_params', 'num_nodes', (3, 2)))
    variant('bad:num_nodes:none', None, put('sweeper_params', 'num_nodes', None))
    sec, key = rng.choice([('sweeper_params', 'num_nodes'), ('level_params', 'dt'), ('problem_params', 'lambdas'),
                           ('', 'problem_class'), ('', 'sweeper_class'), ('level_params', 'nsweeps')])
    variant('empty_list:%s' % key, None, put(sec, key, []))
    variant('unknown:problem_kwarg', None, put('problem_params', 'bogus_kwarg', 1))
    variant('bad:logger_level', None, put('cp', 'logger_level', rng.choice(['30', 30.0, None])))
    variant('drop:dt', True, drop('level_params', 'dt'))
    variant('drop:maxiter', True, drop('step_params', 'maxiter'))
    variant('accepted:unknown_level_key', False, put('level_params', 'undeclared_user_key', 1))
    variant('accepted:unknown_sweeper_key', False, put('sweeper_params', 'undeclared_user_key', 1))
    # double faults (order of the checks): two edits applied one after the other
    singles = [o for o in out if o[1] is not False]
    doubles = []
    for _ in range(3):
        fa, fb = rng.sample(singles, 2)
        d = copy_descr(base['d'])
        cp = dict(base['cp'])
        if fa[3](d, cp) is False or fb[3](d, cp) is False:
            continue
        doubles.append(('double:%s+%s' % (fa[0], fb[0]), None,
                        {'n': n, 'nprocs': max(fa[2]['nprocs'], fb[2]['nprocs']), 'cp': cp, 'd': d, 'info': None}))
    return [o[:3] for o in out] + doubles


# ----------------------------------------------------------------------------- running the real code

class Capture:
    def __init__(self):
        self.buf = io.StringIO()

    def __enter__(self):
        self.cm = contextlib.redirect_stdout(self.buf)
        self.cm.__enter__()
        self.w = warnings.catch_warnings()
        self.w.__enter__()
        warnings.simplefilter('ignore')
        self.np = np.errstate(all='ignore')
        self.np.__enter__()
        return self

    def __exit__(self, *a):
        self.np.__exit__(*a)
        self.w.__exit__(*a)
        self.cm.__exit__(*a)
        # drop handlers bound to the buffer
        root = logging.getLogger('')
        for h in root.handlers[:]:
            root.removeHandler(h)
        return False


def real_outcome(case, run=True):
    """construct (and run one block of) the real controller; returns dict(phase, exc, msg, controller, log)"""
    from pySDC.implementations.controller_classes.controller_nonMPI import controller_nonMPI
    d = copy_descr(case['d'])
    cp = dict(case['cp'])
    res = {'phase': 'ok', 'exc': None, 'msg': '', 'controller': None, 'where': ''}
    cap = Capture()
    with cap:
        try:
            C = controller_nonMPI(case['nprocs'], cp, d)
            res['controller'] = C
        except Exception as e:
            tb = traceback.extract_tb(e.__traceback__)[-1]
            res.update(phase='construct', exc=type(e).__name__, msg=str(e)[:200], where='%s:%s' % (tb.filename.split('/')[-1], tb.name))
        if res['controller'] is not None and run:
            try:
                C = res['controller']
                P = C.MS[0].levels[0].prob
                u0 = P.dtype_u(P.init, val=1.0)
                dt = C.MS[0].levels[0].params.dt
                Tend = (dt if isinstance(dt, float) else 0.1) * case['nprocs']
                C.run(u0, 0.0, Tend)
            except Exception as e:
                tb = traceback.extract_tb(e.__traceback__)[-1]
                res.update(phase='first_use', exc=type(e).__name__, msg=str(e)[:200], where='%s:%s' % (tb.filename.split('/')[-1], tb.name))
    res['log'] = cap.buf.getvalue()
    return res


def public_vars(o):
    return {k: v for k, v in vars(o).items() if not k.startswith('_')}


def observe_levels(C):
    """per level: classes and parameter objects of step 0, plus a consistency check over all steps"""
    S0 = C.MS[0]
    obs = []
    for L in S0.levels:
        obs.append({'pcls': type(L.prob), 'scls': type(L.sweep), 'lp': public_vars(L.params), 'sp': public_vars(L.sweep.params),
                    'prob': L.prob, 'right': bool(L.sweep.coll.right_is_node), 'M': L.sweep.coll.num_nodes,
                    'quad': L.sweep.coll.quad_type, 'level_index': L.level_index})
    return obs


# ----------------------------------------------------------------------------- oracle (independent of the model)

def oracle_distribution(case, C):
    """longest list decides the level count; level l gets v[min(l, len-1)] of lists, scalars are shared"""
    d = case['d']
    lens = [1]
    for k, v in d.items():
        if k in ('problem_params', 'level_params', 'sweeper_params'):
            lens += [len(x) for x in v.values() if type(x) is list]
        elif type(v) is list:
            lens.append(len(v))
    bad = []
    for S in C.MS:
        if len(S.levels) != max(lens):
            bad.append('levels=%d expected %d' % (len(S.levels), max(lens)))
            continue
        for l, L in enumerate(S.levels):
            def want(v):
                return v[min(l, len(v) - 1)] if type(v) is list else v
            for k, v in d.get('level_params', {}).items():
                if k != 'dt_initial' and not _val_eq(getattr(L.params, k, '<missing>'), want(v)):
                    bad.append('level %d params.%s = %r, description says %r' % (l, k, getattr(L.params, k, None), want(v)))
            for k, v in d.get('sweeper_params', {}).items():
                if k == 'collocation_class':
                    continue
                w = want(v)
                got = getattr(L.sweep.params, k, '<missing>')
                if k == 'do_coll_update' and not L.sweep.coll.right_is_node:
                    w = True
                if not _val_eq(got, w):
                    bad.append('level %d sweeper params.%s = %r, description says %r' % (l, k, got, w))
            for k, v in d.get('problem_params', {}).items():
                if not prob_matches(L.prob, k, want(v)):
                    bad.append('level %d problem.%s = %s, description says %s' % (l, k, show_val(getattr(L.prob, k, None)), show_val(want(v))))
            if 'sweeper_params' in d and 'num_nodes' in d['sweeper_params'] and L.sweep.coll.num_nodes != want(d['sweeper_params']['num_nodes']):
                bad.append('level %d has %d nodes' % (l, L.sweep.coll.num_nodes))
            if 'quad_type' in d.get('sweeper_params', {}) and L.sweep.coll.quad_type != want(d['sweeper_params']['quad_type']):
                bad.append('level %d quad_type %s' % (l, L.sweep.coll.quad_type))
            if type(L.prob) is not want(d['problem_class']):
                bad.append('level %d problem class %s' % (l, type(L.prob).__name__))
            if type(L.sweep) is not want(d['sweeper_class']):
                bad.append('level %d sweeper class %s' % (l, type(L.sweep).__name__))
            if L.level_index != l:
                bad.append('level %d has level_index %r' % (l, L.level_index))
            if L.params.dt_initial != L.params.dt:
                bad.append('level %d dt_initial %r != dt %r' % (l, L.params.dt_initial, L.params.dt))
    return bad


def _val_eq(a, b):
    if a is b:
        return True
    if isinstance(a, str) and a == '<missing>':
        return False
    try:
        if isinstance(a, np.ndarray) or isinstance(b, np.ndarray):
            return np.array_equal(np.asarray(a), np.asarray(b))
        return type(a) is type(b) and a == b
    except Exception:
        return False


# ----------------------------------------------------------------------------- Coq evaluation

def env_term(reg, CL):
    from qmat.qdelta import QDELTA_GENERATORS
    import qmat.nodes as qn
    pk = coq_list(['(%d%%nat, %s)' % (reg.index(c), coq_list([cstr(k) for k in problem_kwargs(c)])) for c in CL['P'] + CL['H']])
    return ('{| e_quad := %s; e_node := %s; e_QI := %s; e_pkeys := %s |}'
            % (coq_list([cstr(s) for s in qn.QUAD_TYPES]), coq_list([cstr(s) for s in qn.NODE_TYPES]),
               coq_list([cstr(s) for s in sorted(QDELTA_GENERATORS.keys())]), pk))


SHOW = ('Definition show (o : outcome) := match o with\n'
        '  | Built lvs => inl (map (fun L => (lv_pcls L, lv_scls L, lv_lp L, lv_sp L, lv_pp L, lv_right_is_node L)) lvs)\n'
        '  | Rejected ph e r => inr (ph, e, r) end.\n')


def eval_cases(ck, cases, reg, CL, tag):
    """cases: list of case dicts; returns parsed outcomes (same order)"""
    chunks = [cases[i:i + 150] for i in range(0, len(cases), 150)]
    files = []
    # terms first (registers objects), environment afterwards
    chunk_terms = []
    for chunk in chunks:
        chunk_terms.append(['(%d%%nat, %s, %s)' % (c['nprocs'], adict(c['cp'], reg), descr_term(c['d'], reg)) for c in chunk])
    E = env_term(reg, CL)
    for ci, terms in enumerate(chunk_terms):
        L = [HEADER, SHOW, 'Definition E : env := %s.\n' % E,
             'Definition cases : list (nat * dict atom * descr) := [\n' + ';\n'.join('  ' + t for t in terms) + '\n].\n',
             "Eval vm_compute in map (fun c => (show (build E (fst (fst c)) (snd (fst c)) (snd c)), nlevels (snd c))) cases.\n"]
        files.append(ck.write_gen('Cases_%s_%d.v' % (tag, ci), ''.join(L)))
    outs = []
    with ThreadPoolExecutor(max_workers=8) as ex:
        results = list(ex.map(lambda f: ck.coqc(f, timeout=900), files))
    for f, (rc, out) in zip(files, results):
        if rc != 0:
            ck.obligation('%s evaluates' % f.split('/')[-1], False, out[-1500:])
            ck.violation('generated Coq cases do not compile', {'file': f, 'log': out[-3000:]}, match={'kind': 'gen'}, no_input=True)
            return None
        outs += parse_coq_value(eval_outputs(out)[0])
    assert len(outs) == len(cases), (len(outs), len(cases))
    return outs


def model_verdict(o):
    """parsed (show outcome, nlevels) -> dict"""
    sh, nl = o
    if sh[0] == 'inl':
        return {'phase': 'ok', 'exc': None, 'levels': sh[1], 'nlevels': nl, 'reason': None}
    ph, e, r = sh[1]
    return {'phase': 'construct' if ph == 'Construct' else 'first_use', 'exc': e, 'levels': None, 'nlevels': nl,
            'reason': r if isinstance(r, str) else ' '.join(str(x) for x in r)}


def describe(case):
    def enc(v):
        if type(v) is dict:
            return {str(getattr(k, '__name__', k)): enc(x) for k, x in v.items()}
        if type(v) is list:
            return [enc(x) for x in v]
        if type(v) in (int, float, str, bool, type(None)):
            return v
        return show_val(v)
    return {'num_procs': case['nprocs'], 'controller_params': enc(case['cp']), 'description': enc(case['d'])}


def compare_levels(mv, obs, reg):
    """model levels vs observed levels; list of differences"""
    diffs = []
    if len(mv['levels']) != len(obs):
        return ['model has %d levels, implementation %d' % (len(mv['levels']), len(obs))]
    for l, (ml, ol) in enumerate(zip(mv['levels'], obs)):
        pcls, scls, lp, sp, pp, right = ml
        if not same(pcls, ol['pcls'], reg):
            diffs.append('level %d: problem class %s' % (l, ol['pcls'].__name__))
        if not same(scls, ol['scls'], reg):
            diffs.append('level %d: sweeper class %s' % (l, ol['scls'].__name__))
        if right != ol['right']:
            diffs.append('level %d: right_is_node %s' % (l, ol['right']))
        for name, md, od in (('level.params', lp, ol['lp']), ('sweep.params', sp, ol['sp'])):
            mk = {k for k, _ in md}
            if mk != set(od.keys()):
                diffs.append('level %d: %s keys %s vs model %s' % (l, name, sorted(od.keys()), sorted(mk)))
                continue
            for k, a in md:
                if not same(a, od[k], reg):
                    diffs.append('level %d: %s.%s = %s, model %s' % (l, name, k, show_val(od[k]), atom_value(a, reg)[1] if a != 'ANone' else None))
        for k, a in pp:
            got = getattr(ol['prob'], k, '<missing>')
            if k in ('nvars', 'freq') and type(got) is tuple and len(set(got)) == 1 and a != 'ANone' and a[0] == 'AInt':
                got = got[0]
            if not same(a, got, reg):
                diffs.append('level %d: problem.%s = %s, model %s' % (l, k, show_val(got), show_val(atom_value(a, reg)[1])))
    return diffs


# ----------------------------------------------------------------------------- part 1+2: descriptions

def part_descriptions(ck, CL):
    rng = ck.rng
    thorough = ck.tier == 'thorough'
    nbase = 260 if thorough else 56
    reg = Registry()
    valid = [gen_valid(rng, CL) for _ in range(nbase)]
    # hand-written corner cases first
    lam = np.array([-1.0, -2.0])
    valid.insert(0, {'n': 1, 'nprocs': 1, 'cp': {'logger_level': 30},
                     'd': {'problem_class': CL['P'][0], 'sweeper_class': CL['S'][0], 'sweeper_params': {'num_nodes': 3, 'quad_type': 'RADAU-RIGHT'},
                           'level_params': {'dt': 0.1}, 'step_params': {'maxiter': 2}}, 'shapes': {}})
    valid.insert(1, {'n': 4, 'nprocs': 2, 'cp': {'logger_level': 30, 'predict_type': 'pfasst_burnin'},
                     'd': {'problem_class': CL['P'][0], 'problem_params': {'lambdas': [lam, lam * 0.5], 'u0': 1.0},
                           'sweeper_class': [CL['S'][0], CL['S'][1], CL['S'][0]], 'space_transfer_class': CL['T'][0],
                           'sweeper_params': {'num_nodes': [4, 3, 2, 2], 'quad_type': 'RADAU-RIGHT', 'QI': ['LU', 'IE']},
                           'level_params': {'dt': 0.125, 'nsweeps': [2, 1]}, 'step_params': {'maxiter': 2}}, 'shapes': {}})
    cases = []       # (kind, label, spec_rejects, case)
    for b in valid:
        cases.append(('valid', 'valid', False, b))
    nf = 0
    for bi, b in enumerate(valid):
        fl = faults_for(rng, b, CL)
        if not thorough:
            # keep every fault kind well represented without running all faults of all bases
            keep = [f for j, f in enumerate(fl) if (j + bi) % 3 == 0 or bi < 6]
            fl = keep
        for label, rej, c in fl:
            cases.append(('fault', label, rej, c))
            nf += 1
    ck.log('descriptions: %d valid, %d perturbed' % (len(valid), nf))

    outs = eval_cases(ck, [c[3] for c in cases], reg, CL, 'descr')
    if outs is None:
        return
    hist = {}
    ncorr_bad = 0
    silently = 0
    info_counts = {}
    for (kind, label, rej, case), o in zip(cases, outs):
        mv = model_verdict(o)
        real = real_outcome(case)
        ck.traces += 1
        fkind = re.sub(r'^double:.*', 'double', label)
        hist[fkind] = hist.get(fkind, 0) + 1
        shape_key = tuple(sorted((k, type(v) is list and len(v)) for sec in ('problem_params', 'level_params', 'sweeper_params')
                                 for k, v in case['d'].get(sec, {}).items()))
        ck.case(key=(label, case['n'], case['nprocs'], shape_key), nontrivial=True,
                sample={'kind': label, 'input': describe(case), 'model': {k: mv[k] for k in ('phase', 'exc', 'reason', 'nlevels')},
                        'implementation': {'phase': real['phase'], 'exc': real['exc']}} if len(ck.samples) < 6 and (kind == 'fault') == (len(ck.samples) % 2 == 1) else None)
        replay = dict(describe(case), fault=label, model={k: mv[k] for k in ('phase', 'exc', 'reason', 'nlevels')},
                      implementation={'phase': real['phase'], 'exception': real['exc'], 'message': real['msg'], 'raised_in': real['where']})
        fault_family = label.split(':')[0] + ':' + label.split(':')[1] if ':' in label else label
        # ---- oracle: listed faults must not be silently ignored
        if rej is True and real['phase'] == 'ok':
            silently += 1
            ck.violation('invalid setup silently accepted: %s (construction and a first run succeeded)' % label, replay,
                         match={'kind': 'silently-ignored', 'fault': label, 'levels': case['n']})
            continue
        if rej is False and real['phase'] != 'ok':
            ck.violation('valid description rejected (%s in %s): %s: %s' % (label, real['phase'], real['exc'], real['msg']), replay,
                         match={'kind': 'valid-rejected', 'fault': label, 'exception': real['exc']})
            continue
        # ---- single-level unknown predictor: accepted, but must not be silent (warning at construction)
        if label == 'unknown:predict_type:single_level' and real['phase'] == 'ok':
            info_counts['single_level_predictor_ignored_with_warning'] = info_counts.get('single_level_predictor_ignored_with_warning', 0) + 1
            if 'predictor will be ignored' not in real['log']:
                ck.violation('unknown predict_type on a single level is ignored without any warning', replay,
                             match={'kind': 'silently-ignored', 'fault': label, 'levels': 1})
                continue
        if label == 'unused:initial_guess:coarse' and real['phase'] == 'ok':
            info_counts['coarse_initial_guess_never_used'] = info_counts.get('coarse_initial_guess_never_used', 0) + 1
        # ---- correspondence with the model: phase and exception class
        if (mv['phase'], mv['exc']) != (real['phase'], real['exc']):
            ncorr_bad += 1
            # the implementation still rejects where the model rejects -> property not violated by this input
            both_reject = mv['phase'] != 'ok' and real['phase'] != 'ok'
            ck.violation('model and implementation disagree on %s: model %s/%s (%s), implementation %s/%s (%s)'
                         % (label, mv['phase'], mv['exc'], mv['reason'], real['phase'], real['exc'], real['msg'][:80]), replay,
                         match={'kind': 'verdict-correspondence', 'fault': fault_family, 'model': str(mv['exc']), 'impl': str(real['exc'])},
                         no_input=both_reject or rej is None)
            continue
        # ---- accepted: compare the hierarchy exactly + independent oracle
        if real['phase'] == 'ok':
            C = real['controller']
            obs = observe_levels(C)
            orc = oracle_distribution(case, C)
            if orc:
                ck.violation('hierarchy does not follow the description: ' + '; '.join(orc[:3]), dict(replay, differences=orc[:20]),
                             match={'kind': 'distribution', 'what': re.sub(r'[0-9]+', 'N', orc[0])[:60]})
                continue
            if mv['nlevels'] != len(obs):
                ck.violation('number of levels %d differs from the longest list %d' % (len(obs), mv['nlevels']), replay,
                             match={'kind': 'distribution', 'what': 'nlevels'})
                continue
            diffs = compare_levels(mv, obs, reg)
            if diffs:
                ncorr_bad += 1
                ck.violation('instantiated hierarchy differs from the model: ' + '; '.join(diffs[:3]), dict(replay, differences=diffs[:20]),
                             match={'kind': 'hierarchy-correspondence', 'what': re.sub(r'[0-9]+', 'N', diffs[0])[:60]}, no_input=True)
                continue
            for S in C.MS[1:]:
                if [public_vars(L.params) for L in S.levels] != [public_vars(L.params) for L in C.MS[0].levels]:
                    ck.violation('steps of one controller differ in their level parameters', replay, match={'kind': 'steps-differ'})
    ck.cov['fault_histogram'] = hist
    ck.cov['accepted_by_design'] = info_counts
    ck.obligation('build (Coq model) = real construction/first-run verdict and hierarchy on %d descriptions' % len(cases), ncorr_bad == 0)
    ck.obligation('no listed fault silently accepted (%d perturbed descriptions)' % nf, silently == 0)


# ----------------------------------------------------------------------------- part 3: convergence controllers

def base_descr(CL, **over):
    d = dict(problem_class=CL['P'][0], problem_params={'lambdas': np.array([-1.0]), 'u0': 1.0},
             sweeper_class=CL['S'][0], sweeper_params={'num_nodes': 2, 'quad_type': 'RADAU-RIGHT', 'QI': 'IE'},
             level_params={'dt': 0.1}, step_params={'maxiter': 2})
    d.update(over)
    return d


def make_cc_classes(rng, K):
    """K synthetic convergence controller classes forming a class forest: class i may DERIVE from an
    earlier class (chains, siblings) and may depend on classes j > i (which may be base or derived
    classes of others).  Every class has its own setup()/dependencies()."""
    from pySDC.core.convergence_controller import ConvergenceController
    specs = []
    for i in range(K):
        defaults = {'control_order': rng.choice([-50, 0, 90, 90, 95, 100, 150, 200, 200, 300])}
        if rng.random() < 0.15:
            del defaults['control_order']
        for k in rng.sample(['alpha', 'beta', 'gamma'], rng.randint(0, 2)):
            defaults[k] = rng.choice([1, 2, 0.5, 'x', True, None])
        deps = []
        for j in rng.sample(range(i + 1, K), min(K - i - 1, rng.choice([0, 0, 1, 1, 2]))):
            p = {}
            for k in rng.sample(['alpha', 'beta', 'control_order'], rng.randint(0, 2)):
                p[k] = rng.choice([7, 8, 91, 199]) if k == 'control_order' else rng.choice([3, 'dep', False])
            deps.append((j, p))
        base = rng.randrange(i) if i > 0 and rng.random() < 0.5 else None
        specs.append({'defaults': defaults, 'deps': deps, 'base': base})
    clss = []
    for i in range(K):
        def setup(self, controller, params, description, _i=i, **kw):
            return {**specs[_i]['defaults'], **ConvergenceController.setup(self, controller, params, description, **kw)}

        def dependencies(self, controller, description, _i=i, **kw):
            for j, p in specs[_i]['deps']:
                controller.add_convergence_controller(clss[j], description=description, params=dict(p))
        parent = ConvergenceController if specs[i]['base'] is None else clss[specs[i]['base']]
        clss.append(type('SynthCC%d' % i, (parent,), {'setup': setup, 'dependencies': dependencies}))
    return specs, clss


def cc_closure(specs, roots):
    """indices of the synthetic classes that have to exist: the requested ones and, transitively, their dependencies"""
    todo, seen = list(roots), set()
    while todo:
        i = todo.pop()
        if i not in seen:
            seen.add(i)
            todo += [j for j, _ in specs[i]['deps']]
    return seen


def part_controllers(ck, CL):
    from pySDC.implementations.controller_classes.controller_nonMPI import controller_nonMPI
    rng = ck.rng
    thorough = ck.tier == 'thorough'
    reg = Registry()
    # base controllers of the pristine controller (their classes and default control orders)
    with Capture():
        C0 = controller_nonMPI(1, {'logger_level': 30}, base_descr(CL))
    base_classes = list(C0.base_convergence_controllers)
    inst0 = {type(c): c for c in C0.convergence_controllers}
    spreader = inst0[base_classes[1]].params.step_size_spreader

    def base_tree(cls, deps=''):
        return 'CC %d%%nat [("control_order", AInt %s)] [%s]' % (reg.index(cls), zlit(inst0[cls].params.control_order), deps)
    base_terms = [base_tree(base_classes[0]),
                  base_tree(base_classes[1], '([("spread_from_first_restarted", ABool true)], %s)' % base_tree(spreader))]

    ncases = 120 if thorough else 40
    cases = []
    for ci in range(ncases):
        K = rng.randint(2, 9)
        specs, clss = make_cc_classes(rng, K)
        chosen = rng.sample(range(K), rng.randint(1, min(K, 5)))
        derived = [i for i in range(K) if specs[i]['base'] is not None]
        if derived and rng.random() < 0.6:      # a derived class listed before (one of) its base classes
            dcls = rng.choice(derived)
            anc = specs[dcls]['base']
            while specs[anc]['base'] is not None and rng.random() < 0.4:
                anc = specs[anc]['base']
            chosen = [dcls] + [i for i in chosen if i not in (dcls, anc)][:3] + [anc]
        user = {}
        for i in chosen:
            p = {}
            for k in rng.sample(['alpha', 'beta', 'delta', 'control_order'], rng.randint(0, 3)):
                p[k] = rng.choice([-60, 5, 90, 95, 200, 250]) if k == 'control_order' else rng.choice([11, 'user', 2.5, False])
            user[clss[i]] = p
        # sometimes the user also parametrises a base controller
        if rng.random() < 0.35:
            b = rng.choice(base_classes + [spreader])
            user[b] = {'control_order': rng.choice([-100, 96, 101, 400])}
            ks = list(user.keys())
            rng.shuffle(ks)
            user = {k: user[k] for k in ks}
        cases.append((specs, clss, user))

    def tree(i, specs, clss):
        deps = coq_list(['(%s, %s)' % (adict(p, reg), tree(j, specs, clss)) for j, p in specs[i]['deps']])
        return '(CC %d%%nat %s %s)' % (reg.index(clss[i]), adict(specs[i]['defaults'], reg), deps)

    terms = []
    for specs, clss, user in cases:
        uterm = coq_list(['(%d%%nat, %s)' % (reg.index(c), adict(p, reg)) for c, p in user.items()])
        cterm = []
        for c in user:
            if c in clss:
                cterm.append(tree(clss.index(c), specs, clss))
            elif c is spreader:
                cterm.append('(%s)' % base_tree(spreader))
            else:
                cterm.append('(%s)' % base_terms[base_classes.index(c)])
        terms.append('(%s, %s)' % (uterm, coq_list(cterm)))
    src = [HEADER,
           'Definition base : list cctree := %s.\n' % coq_list(['(%s)' % t for t in base_terms]),
           'Definition cases : list (list (nat * dict atom) * list cctree) := [\n' + ';\n'.join('  ' + t for t in terms) + '\n].\n',
           'Definition run1 (c : list (nat * dict atom) * list cctree) :=\n'
           '  let st := cc_build (fst c) (ABool false) (snd c) base in\n'
           '  (map (fun i => (ci_id i, ci_params i, control_order i)) st, cc_order st).\n',
           'Eval vm_compute in map run1 cases.\n']
    rc, out = ck.coqc(ck.write_gen('Cases_cc.v', ''.join(src)), timeout=900)
    if rc != 0:
        ck.obligation('Cases_cc.v evaluates', False, out[-1500:])
        ck.violation('generated Coq cases do not compile', {'log': out[-3000:]}, match={'kind': 'gen'}, no_input=True)
        return
    res = parse_coq_value(eval_outputs(out)[0])
    nbad = 0
    for (specs, clss, user), (mst, morder) in zip(cases, res):
        d = base_descr(CL, convergence_controllers={c: dict(p) for c, p in user.items()})
        replay = {'user': {c.__name__: p for c, p in user.items()},
                  'classes': {clss[i].__name__: {'defaults': s['defaults'], 'dependencies': [(clss[j].__name__, p) for j, p in s['deps']]} for i, s in enumerate(specs)}}
        with Capture():
            try:
                C = controller_nonMPI(1, {'logger_level': 30}, d)
                err = None
            except Exception as e:
                err = '%s: %s' % (type(e).__name__, e)
        ck.case(key=('cc', len(user), tuple(sorted((len(s['deps']) for s in specs))), tuple(sorted(str(p) for p in user.values()))), nontrivial=True,
                sample={'kind': 'convergence-controllers', 'input': replay} if len(ck.samples) < 6 else None)
        ck.traces += 1
        if err:
            ck.violation('controller with synthetic convergence controllers raised ' + err, replay, match={'kind': 'cc-raise'})
            continue
        replay['inheritance'] = {clss[i].__name__: clss[sp['base']].__name__ for i, sp in enumerate(specs) if sp['base'] is not None}
        needed = [clss[i] for i in sorted(cc_closure(specs, [clss.index(c) for c in user if c in clss]))] + base_classes + [spreader]
        orc = oracle_cc(C, user, needed)
        if not orc and len(user) > 1:
            orc = oracle_cc_order(CL, C, user, needed, rng)
        if orc:
            ck.violation('convergence controllers: ' + '; '.join(orc[:3]), dict(replay, problems=orc), match={'kind': 'cc-oracle', 'what': orc[0].split(':')[0]})
            continue
        # correspondence
        diffs = []
        real_ids = [reg.index(type(c)) for c in C.convergence_controllers]
        if real_ids != [m[0] for m in mst]:
            diffs.append('instance list %s vs model %s' % ([type(c).__name__ for c in C.convergence_controllers], [reg.objs[m[0]].__name__ for m in mst]))
        else:
            synth = set(clss)
            for c, (mid, mpars, mord) in zip(C.convergence_controllers, mst):
                if c.params.control_order != mord:
                    diffs.append('%s.control_order = %r, model %r' % (type(c).__name__, c.params.control_order, mord))
                if type(c) in synth:
                    pv_ = public_vars(c.params)
                    if {k for k, _ in mpars} != set(pv_.keys()):
                        diffs.append('%s params keys %s vs model %s' % (type(c).__name__, sorted(pv_), sorted(k for k, _ in mpars)))
                    else:
                        for k, a in mpars:
                            if not same(a, pv_[k], reg):
                                diffs.append('%s.params.%s = %r differs from model' % (type(c).__name__, k, pv_[k]))
            orders = [m[2] for m in mst]
            ro = [int(i) for i in C.convergence_controller_order]
            if len(set(orders)) == len(orders):
                if ro != morder:
                    diffs.append('call order %s vs model %s' % (ro, morder))
            elif [orders[i] for i in ro] != [orders[i] for i in morder]:
                diffs.append('call order %s vs model %s (ties)' % (ro, morder))
        if diffs:
            nbad += 1
            ck.violation('convergence controllers differ from the model: ' + '; '.join(diffs[:3]), dict(replay, differences=diffs),
                         match={'kind': 'cc-correspondence', 'what': diffs[0].split(' ')[0]}, no_input=True)
    ck.obligation('cc_build/cc_order (Coq model) = real registration on %d synthetic controller sets' % len(cases), nbad == 0)

    # ---- real controller classes: oracle only
    import pySDC.implementations.convergence_controller_classes as pkg
    import importlib
    pool = [('adaptive_collocation', 'AdaptiveCollocation', {}), ('estimate_contraction_factor', 'EstimateContractionFactor', {}),
            ('estimate_embedded_error', 'EstimateEmbeddedError', {}), ('estimate_embedded_error', 'EstimateEmbeddedErrorCollocation', {}),
            ('estimate_polynomial_error', 'EstimatePolynomialError', {}), ('interpolate_between_restarts', 'InterpolateBetweenRestarts', {}),
            ('inexactness', 'NewtonInexactness', {}), ('step_size_limiter', 'StepSizeLimiter', {'dt_max': 1.0, 'dt_slope_max': 2.0}),
            ('step_size_limiter', 'StepSizeRounding', {}), ('step_size_limiter', 'StepSizeSlopeLimiter', {'dt_rel_min_slope': 2.0}),
            ('crash', 'StopAtMaxRuntime', {'max_runtime': 1e6}), ('crash', 'StopAtNan', {'thresh': 1e10}), ('store_uold', 'StoreUOld', {}),
            ('adaptivity', 'Adaptivity', {'e_tol': 1e-6}), ('spread_step_sizes', 'SpreadStepSizesBlockwiseNonMPI', {}),
            ('basic_restarting', 'BasicRestartingNonMPI', {'max_restarts': 3}), ('check_convergence', 'CheckConvergence', {})]
    real = []
    for mod, name, p in pool:
        try:
            real.append((getattr(importlib.import_module(pkg.__name__ + '.' + mod), name), p))
        except Exception:
            pass
    nreal = 60 if thorough else 24
    hist = {}
    for _ in range(nreal):
        sel = rng.sample(real, rng.randint(1, 6))
        adaptive = any(c.__name__ == 'Adaptivity' for c, _ in sel)
        if adaptive:   # Adaptivity wants restol < 0, the collocation-switching controllers want restol > 0
            sel = [(c, p) for c, p in sel if c.__name__ not in ('AdaptiveCollocation', 'EstimateEmbeddedErrorCollocation')]
        user = {}
        for c, p in sel:
            q = dict(p)
            if rng.random() < 0.5:
                q['control_order'] = rng.choice([-200, -77, 93, 94, 96, 201, 1000])
            user[c] = q
        d = base_descr(CL, convergence_controllers={c: dict(p) for c, p in user.items()}, level_params={'dt': 0.1, 'restol': -1.0 if adaptive else 1e-9})
        replay = {'user': {c.__name__: p for c, p in user.items()}}
        with Capture():
            try:
                C = controller_nonMPI(rng.choice([1, 2]), {'logger_level': 30, 'mssdc_jac': False}, d)
                err = None
            except Exception as e:
                err = '%s: %s' % (type(e).__name__, str(e)[:150])
        ck.case(key=('cc-real', tuple(sorted(c.__name__ for c in user)), tuple(sorted(str(p.get('control_order')) for p in user.values()))), nontrivial=True)
        ck.traces += 1
        if err:
            ck.violation('controller with real convergence controllers raised ' + err, replay, match={'kind': 'cc-raise', 'real': True})
            continue
        for c in C.convergence_controllers:
            hist[type(c).__name__] = hist.get(type(c).__name__, 0) + 1
        orc = oracle_cc(C, user, base_classes + [spreader])
        if orc:
            ck.violation('convergence controllers (real classes): ' + '; '.join(orc[:3]), dict(replay, problems=orc),
                         match={'kind': 'cc-oracle', 'what': orc[0].split(':')[0], 'real': True})
    ck.cov['real_convergence_controller_histogram'] = hist

    # ---- shipped (derived, base) pairs: both requested, in both orders, alone and next to other controllers
    import inspect
    import pkgutil
    from pySDC.core.convergence_controller import ConvergenceController
    hints = {'Adaptivity': {'e_tol': 1e-6}, 'AdaptivityRK': {'e_tol': 1e-6}, 'AdaptivityResidual': {'e_tol': 1e-6}, 'AdaptivityCollocation': {'e_tol': 1e-6},
             'AdaptivityExtrapolationWithinQ': {'e_tol': 1e-6}, 'AdaptivityPolynomialError': {'e_tol': 1e-6},
             'HotRod': {'HotRod_tol': 1.0}, 'StepSizeLimiter': {'dt_max': 1.0}, 'StopAtMaxRuntime': {'max_runtime': 1e6},
             'CheckIterationEstimatorNonMPI': {'errtol': 1e-6}}
    shipped = {}
    for m in pkgutil.iter_modules(pkg.__path__):
        try:
            mod = importlib.import_module(pkg.__name__ + '.' + m.name)
        except Exception:
            continue
        for n, c in inspect.getmembers(mod, inspect.isclass):
            if issubclass(c, ConvergenceController) and c.__module__ == mod.__name__:
                shipped[n] = c

    def try_build(userd, nprocs=1):
        adaptive = any(n.__name__.startswith('Adaptivity') or n.__name__ == 'HotRod' for n in userd)
        d_ = base_descr(CL, convergence_controllers={c: dict(p) for c, p in userd.items()}, level_params={'dt': 0.1, 'restol': -1.0 if adaptive else 1e-9})
        with Capture():
            try:
                return controller_nonMPI(nprocs, {'logger_level': 30, 'mssdc_jac': False}, d_), None
            except Exception as e:
                return None, '%s: %s' % (type(e).__name__, str(e)[:120])
    alone = {}
    for n, c in sorted(shipped.items()):
        Cc, err = try_build({c: dict(hints.get(n, {}))})
        alone[n] = Cc is not None and c in [type(x) for x in Cc.convergence_controllers]
    pairs = [(dn, bn) for dn, dc in sorted(shipped.items()) for bn, bc in sorted(shipped.items())
             if dc is not bc and issubclass(dc, bc) and alone[dn] and alone[bn]]
    tested = []
    extras = [shipped[n] for n in ('StoreUOld', 'StepSizeLimiter', 'StopAtNan') if alone.get(n)]
    for dn, bn in pairs:
        for order in ((dn, bn), (bn, dn)):
            for extra in ([], [rng.choice(extras)] if extras else []):
                userd = {shipped[n]: dict(hints.get(n, {}), **({'control_order': rng.choice([-300, 97, 350])} if rng.random() < 0.5 else {})) for n in order}
                for e in extra:
                    userd[e] = dict(hints.get(e.__name__, {}))
                Cc, err = try_build(userd)
                replay = {'user': {c.__name__: p for c, p in userd.items()}, 'subclass_pair': {'derived': dn, 'base': bn}}
                ck.case(key=('cc-subclass-pair', dn, bn, order[0], len(extra)), nontrivial=True)
                ck.traces += 1
                if err:
                    # constructible alone but not together: only a problem when the other order / the singles work -> report as raise
                    ck.violation('controller with %s and %s raised %s' % (dn, bn, err), replay, match={'kind': 'cc-raise', 'real': True, 'pair': dn})
                    continue
                orc = oracle_cc(Cc, userd, base_classes + [spreader])
                if orc:
                    ck.violation('convergence controllers (shipped derived/base pair %s/%s, %s listed first): %s' % (dn, bn, order[0], '; '.join(orc[:3])),
                                 dict(replay, problems=orc), match={'kind': 'cc-oracle', 'what': orc[0].split(':')[0], 'real': True, 'pair': dn})
        tested.append('%s < %s' % (dn, bn))
    # the library-only triple of the HotRod family: HotRod loads the linearized (derived) estimator first
    trip = [n for n in ('HotRod', 'Adaptivity', 'EstimateEmbeddedError') if alone.get(n)]
    if len(trip) == 3:
        for order in (trip, trip[::-1], [trip[1], trip[0], trip[2]]):
            userd = {shipped[n]: dict(hints.get(n, {})) for n in order}
            userd[shipped['EstimateEmbeddedError']]['rel_error'] = True
            Cc, err = try_build(userd)
            replay = {'user': {c.__name__: p for c, p in userd.items()}}
            ck.case(key=('cc-hotrod-triple', tuple(order)), nontrivial=True)
            ck.traces += 1
            if err:
                ck.notes.append('HotRod triple %s not constructible: %s' % (order, err))
                continue
            orc = oracle_cc(Cc, userd, base_classes + [spreader])
            if orc:
                ck.violation('convergence controllers (HotRod, Adaptivity, EstimateEmbeddedError; %s first): %s' % (order[0], '; '.join(orc[:3])),
                             dict(replay, problems=orc), match={'kind': 'cc-oracle', 'what': orc[0].split(':')[0], 'real': True, 'pair': 'HotRod-triple'})
    ck.cov['shipped_subclass_pairs_tested'] = tested
    ck.cov['shipped_controllers_constructible_alone'] = sorted(n for n, ok in alone.items() if ok)


def oracle_cc(C, user, needed=()):
    """one instance per class, every requested class (user-supplied, dependency, controller default) present as an
    instance of EXACTLY that class, call order ascending in control_order, user parameters win"""
    bad = []
    types = [type(c) for c in C.convergence_controllers]
    for t in set(types):
        if types.count(t) != 1:
            bad.append('duplicate: %s instantiated %d times' % (t.__name__, types.count(t)))
    for c in user:
        if c not in types:
            stand_in = [t.__name__ for t in types if issubclass(t, c)]
            bad.append('missing: user-supplied %s not instantiated%s' % (c.__name__, ' (only its subclass %s is)' % stand_in if stand_in else ''))
    for c in needed:
        if c not in types and c not in user:
            stand_in = [t.__name__ for t in types if issubclass(t, c)]
            bad.append('missing: requested %s (dependency / controller default) not instantiated%s'
                       % (c.__name__, ' (only its subclass %s is)' % stand_in if stand_in else ''))
    order = [int(i) for i in C.convergence_controller_order]
    if sorted(order) != list(range(len(types))):
        bad.append('order: convergence_controller_order %s is not a permutation of the %d controllers' % (order, len(types)))
    else:
        seq = [C.convergence_controllers[i].params.control_order for i in order]
        if any(a > b for a, b in zip(seq, seq[1:])):
            bad.append('order: controllers are not called in ascending control_order: %s' % seq)
    for c, p in user.items():
        for inst in C.convergence_controllers:
            if type(inst) is c:
                for k, v in p.items():
                    got = getattr(inst.params, k, '<missing>')
                    if not _val_eq(got, v):
                        bad.append('override: %s.params.%s = %r although the user supplied %r' % (c.__name__, k, got, v))
    return bad


def oracle_cc_order(CL, C, user, needed, rng):
    """the set of instantiated classes and the user-supplied parameter values do not depend on the key order of
    description['convergence_controllers'] (list order and parameters passed by dependencies may)"""
    from pySDC.implementations.controller_classes.controller_nonMPI import controller_nonMPI
    ks = list(user.keys())[::-1]
    user2 = {k: dict(user[k]) for k in ks}
    with Capture():
        try:
            C2 = controller_nonMPI(1, {'logger_level': 30}, base_descr(CL, convergence_controllers={c: dict(p) for c, p in user2.items()}))
        except Exception as e:
            return ['key-order: reversed key order raises %s: %s' % (type(e).__name__, str(e)[:100])]
    bad = ['key-order (reversed): ' + b for b in oracle_cc(C2, user2, needed)]
    t1 = sorted(type(c).__name__ for c in C.convergence_controllers)
    t2 = sorted(type(c).__name__ for c in C2.convergence_controllers)
    if t1 != t2:
        bad.append('key-order: instantiated classes depend on the key order: %s vs %s (reversed)' % (t1, t2))
    return bad


# ----------------------------------------------------------------------------- part 4: frozen classes, read-only parameters

def part_frozen(ck, CL):
    from pySDC.implementations.controller_classes.controller_nonMPI import controller_nonMPI
    rng = ck.rng
    thorough = ck.tier == 'thorough'
    with Capture():
        C = controller_nonMPI(2, {'logger_level': 30},
                              base_descr(CL, problem_params={'lambdas': [np.array([-1.0]), np.array([-2.0])], 'u0': 1.0},
                                         space_transfer_class=CL['T'][0]))
    S = C.MS[0]
    L = S.levels[0]
    targets = [('level.params', L.params), ('level.status', L.status), ('step.params', S.params), ('step.status', S.status),
               ('sweeper.params', L.sweep.params), ('controller.params', C.params), ('base_transfer.params', S.base_transfer.params),
               ('space_transfer.params', S.base_transfer.space_transfer.params), ('level', L), ('step', S)]
    for cc in C.convergence_controllers:
        targets.append(('%s.params' % type(cc).__name__, cc.params))
    counter = [0]
    scripts = []
    reps = 6 if thorough else 2
    for name, obj in targets:
        for _ in range(reps):
            cls = type(obj)
            fields = [k for k in vars(obj).keys()]
            classnames = [k for k in dir(cls)]
            ops = []
            fresh_added = []
            for _ in range(rng.randint(4, 9)):
                r = rng.random()
                counter[0] += 1
                if r < 0.3:
                    ops.append(('set', 'verif_undeclared_%d' % counter[0]))
                elif r < 0.45 and fields:
                    ops.append(('set', rng.choice([f for f in fields])))
                elif r < 0.6:
                    k = 'verif_added_%d' % counter[0]
                    fresh_added.append(k)
                    ops.append(('add', k, rng.choice([True, False])))
                elif r < 0.7 and fresh_added:
                    ops.append(('add', rng.choice(fresh_added), rng.choice([True, False])))
                elif r < 0.85 and fresh_added:
                    ops.append(('set', rng.choice(fresh_added)))
                elif r < 0.9:
                    ops.append(('set', rng.choice(['get', 'attrs', '_freeze', 'add_attr'])))
                else:
                    ops.append(('has', rng.choice(fresh_added + ['verif_undeclared_%d' % counter[0]] + fields[:2])))
            scripts.append((name, obj, REC.declared(cls), classnames, fields, ops))
    # model
    terms = []
    for name, obj, attrs, classnames, fields, ops in scripts:
        opt = coq_list(['FSet %s' % cstr(o[1]) if o[0] == 'set' else ('FAdd %s %s' % (cstr(o[1]), 'true' if o[2] else 'false') if o[0] == 'add' else 'FHas %s' % cstr(o[1]))
                        for o in ops])
        terms.append('({| fz_attrs := %s; fz_class := %s; fz_fields := %s; fz_frozen := true |}, %s)'
                     % (coq_list([cstr(a) for a in attrs]), coq_list([cstr(a) for a in classnames]), coq_list([cstr(a) for a in fields]), opt))
    src = [HEADER, 'Definition scripts : list (frozen * list fz_op) := [\n' + ';\n'.join('  ' + t for t in terms) + '\n].\n',
           'Eval vm_compute in map (fun s => fz_run (fst s) (snd s)) scripts.\n']
    rc, out = ck.coqc(ck.write_gen('Cases_frozen.v', ''.join(src)), timeout=900)
    if rc != 0:
        ck.obligation('Cases_frozen.v evaluates', False, out[-1500:])
        ck.violation('generated Coq cases do not compile', {'log': out[-3000:]}, match={'kind': 'gen'}, no_input=True)
        return
    vals = [parse_coq_value(v) for v in eval_outputs(out)]
    nbad = 0
    for (name, obj, attrs, classnames, fields, ops), mres in zip(scripts, vals[0]):
        cls = type(obj)
        real = []
        for o in ops:
            try:
                if o[0] == 'set':
                    cur = getattr(obj, o[1], None) if o[1] in fields else 12345
                    setattr(obj, o[1], cur)
                    real.append((None, True))
                elif o[0] == 'add':
                    cls.add_attr(o[1], raise_error_if_exists=o[2])
                    real.append((None, True))
                else:
                    real.append((None, hasattr(obj, o[1])))
            except Exception as e:
                real.append((type(e).__name__, False))
        model = [((m[0][1] if isinstance(m[0], tuple) else None), m[1]) for m in mres]
        ck.case(key=('frozen', name, tuple((o[0],) + (('u' if 'undeclared' in o[1] else 'a' if 'added' in o[1] else 'f'),) for o in ops)), nontrivial=True)
        ck.traces += 1
        replay = {'object': name, 'class_attrs': attrs, 'ops': ops, 'implementation': real, 'model': model}
        # oracle: undeclared assignment on a frozen object must raise TypeError; declared ones must work
        for o, r in zip(ops, real):
            if o[0] == 'set' and 'verif_undeclared' in o[1] and r[0] is None:
                ck.violation('assignment to undeclared attribute %s.%s accepted' % (name, o[1]), replay,
                             match={'kind': 'frozen', 'object': name.split('.')[-1], 'what': 'undeclared-accepted'})
                break
            if o[0] == 'set' and o[1] in fields and r[0] is not None:
                ck.violation('assignment to declared attribute %s.%s raised %s' % (name, o[1], r[0]), replay,
                             match={'kind': 'frozen', 'object': name.split('.')[-1], 'what': 'declared-rejected'})
                break
            if o[0] == 'set' and 'verif_added' in o[1] and r[0] is not None and \
                    any(p[0] == 'add' and p[1] == o[1] and q[0] is None for p, q in zip(ops[:ops.index(o)], real)):
                ck.violation('attribute %s declared through add_attr cannot be assigned on %s (%s)' % (o[1], name, r[0]), replay,
                             match={'kind': 'frozen', 'object': name.split('.')[-1], 'what': 'add_attr-ignored'})
                break
        else:
            if real != model:
                nbad += 1
                ck.violation('FrozenClass script on %s differs from the model' % name, replay,
                             match={'kind': 'frozen-correspondence', 'object': name.split('.')[-1]}, no_input=True)
        # clean up instance fields we created
        for o in ops:
            if o[0] == 'set' and o[1] not in fields:
                try:
                    object.__delattr__(obj, o[1])
                except Exception:
                    pass
    ck.obligation('fz_run (Coq model) = FrozenClass behaviour on %d scripts' % len(scripts), nbad == 0)
# ----------------------------------------------------------------------------- part 5: attributes declared for one holder stay with it

def part_holders(ck, CL):
    """Names declared through add_attr (add_status_variable_to_step / _to_level of the convergence
    controllers) must be accepted on the holder class they were declared for and rejected on every other
    frozen holder (step status vs level status vs the various params objects ...)."""
    import importlib
    from pySDC.implementations.controller_classes.controller_nonMPI import controller_nonMPI
    pkg = 'pySDC.implementations.convergence_controller_classes.'

    def cc(mod, name):
        return getattr(importlib.import_module(pkg + mod), name)
    setups = [
        ({cc('adaptivity', 'Adaptivity'): {'e_tol': 1e-6}}, {'restol': -1.0}, 1),
        ({cc('estimate_contraction_factor', 'EstimateContractionFactor'): {}, cc('step_size_limiter', 'StepSizeLimiter'): {'dt_max': 1.0},
          cc('interpolate_between_restarts', 'InterpolateBetweenRestarts'): {}}, {}, 2),
        ({cc('estimate_polynomial_error', 'EstimatePolynomialError'): {}, cc('crash', 'StopAtNan'): {}}, {}, 1),
        ({cc('estimate_embedded_error', 'EstimateEmbeddedErrorCollocation'): {}}, {'restol': 1e-9}, 2),
    ]
    controllers = []
    for user, lp, nlev in setups:
        d = base_descr(CL, convergence_controllers={c: dict(p) for c, p in user.items()}, level_params=dict({'dt': 0.1}, **lp))
        if nlev > 1:
            d['sweeper_params'] = {'num_nodes': [3, 2], 'quad_type': 'RADAU-RIGHT', 'QI': 'IE'}
            d['space_transfer_class'] = CL['T'][0]
        with Capture():
            try:
                controllers.append(controller_nonMPI(2, {'logger_level': 30, 'mssdc_jac': False}, d))
            except Exception as e:
                ck.notes.append('part_holders: setup %s not constructible (%s: %s)' % ([c.__name__ for c in user], type(e).__name__, str(e)[:80]))
    holders = []     # (name, object)
    for ci, C in enumerate(controllers):
        holders.append(('controller.params', C.params))
        for cv in C.convergence_controllers:
            holders.append(('%s.params' % type(cv).__name__, cv.params))
            if hasattr(cv, 'status') and hasattr(type(cv.status), 'attrs'):
                holders.append(('%s.status' % type(cv).__name__, cv.status))
        for si, S in enumerate(C.MS):
            holders += [('step.status', S.status), ('step.params', S.params), ('step', S)]
            if S.base_transfer is not None:
                holders += [('base_transfer.params', S.base_transfer.params), ('space_transfer.params', S.base_transfer.space_transfer.params)]
            for L in S.levels:
                holders += [('level.status', L.status), ('level.params', L.params), ('sweeper.params', L.sweep.params), ('level', L)]
    declared = {cls: list(keys) for cls, keys in REC.attrs.items()}
    names = sorted({k for keys in declared.values() for k in keys if not k.startswith('verif_')})
    never = ['verif_never_declared_a', 'verif_never_declared_b']
    ck.cov['declared_status_variables'] = {('%s.%s' % (c.__module__.split('.')[-1], c.__name__)): [k for k in keys if not k.startswith('verif_')]
                                           for c, keys in declared.items()}
    nbad = 0
    seen = set()
    for hname, h in holders:
        cls = type(h)
        own = set(declared.get(cls, []))
        fields = set(vars(h).keys())
        on_class = set(dir(cls))
        for k in names + never:
            expect_ok = k in own or k in fields or k in on_class
            had = k in fields
            try:
                setattr(h, k, vars(h).get(k))
                got_ok, exc = True, None
            except Exception as e:
                got_ok, exc = False, type(e).__name__
            if got_ok and not had:
                try:
                    object.__delattr__(h, k)
                except Exception:
                    pass
            key = (hname, k, expect_ok)
            if key not in seen:
                seen.add(key)
                ck.case(key=('holder',) + key, nontrivial=True)
            else:
                ck.evaluations += 1
            if got_ok != expect_ok or (not got_ok and exc != 'TypeError'):
                nbad += 1
                declared_for = ['%s.%s' % (c.__module__.split('.')[-1], c.__name__) for c, keys in declared.items() if k in keys]
                rep = {'holder': hname, 'holder_class': '%s.%s' % (cls.__module__, cls.__name__), 'attribute': k, 'declared_for': declared_for,
                       'accepted': got_ok, 'exception': exc, 'expected_accepted': expect_ok,
                       'how': 'controller_nonMPI with convergence controllers %s; then setattr(%s, %r, ...)' % (
                           sorted({type(c).__name__ for C in controllers for c in C.convergence_controllers}), hname, k)}
                if got_ok and not expect_ok:
                    ck.violation('attribute %r, declared only for %s, is accepted on %s (%s)' % (k, declared_for or 'nobody', hname, rep['holder_class']), rep,
                                 match={'kind': 'frozen', 'object': hname.split('.')[-1], 'what': 'cross-holder-accepted', 'holder': hname})
                else:
                    ck.violation('attribute %r declared for %s is rejected on it (%s)' % (k, hname, exc), rep,
                                 match={'kind': 'frozen', 'object': hname.split('.')[-1], 'what': 'declared-rejected', 'holder': hname})
                if nbad > 12:
                    break
        if nbad > 12:
            break
    ck.traces += len(controllers)
    ck.obligation('declared attributes accepted on their holder class only (%d holders x %d names)' % (len(holders), len(names) + len(never)), nbad == 0)


# ----------------------------------------------------------------------------- part 6: read-only registry = union over all registration calls

def part_readonly(ck, CL):
    from pySDC.implementations.controller_classes.controller_nonMPI import controller_nonMPI
    import importlib
    probs = []      # (label, problem, calls)
    with Capture():
        C1 = controller_nonMPI(2, {'logger_level': 30},
                               base_descr(CL, problem_params={'lambdas': [np.array([-1.0]), np.array([-2.0])], 'u0': 1.0}, space_transfer_class=CL['T'][0]))
        C2 = controller_nonMPI(2, {'logger_level': 30},
                               base_descr(CL, problem_class=[CL['H'][0], CL['H'][1]], problem_params={'nvars': [15, 7], 'nu': 0.5, 'freq': 2, 'bc': 'dirichlet-zero'},
                                          space_transfer_class=CL['T'][0]))
    for C in (C1, C2):
        for si, S in enumerate(C.MS):
            for li, L in enumerate(S.levels):
                # steps > 0 are dill copies (no __init__): they must carry what the original of the same level registered
                calls = REC.calls.get(id(C.MS[0].levels[li].prob), [])
                probs.append(('%s MS[%d].levels[%d].prob' % (type(L.prob).__name__, si, li), L.prob, calls))
    standalone = [('AdvectionEquation_ND_FD', 'advectionNd', {'nvars': 16, 'bc': 'periodic'}),
                  ('HeatEquation_ND_FD', 'heatNd_forced', {'nvars': 15, 'bc': 'dirichlet-zero', 'freq': 2}),
                  ('Van_der_Pol_implicit', 'vanderpol', {}), ('LogisticEquation', 'logistics_equation', {}),
                  ('AllenCahn_1D_FD', 'allencahn_front_fullyimplicit', {'nvars': 15}),
                  ('AllenCahn_1D_FD', 'allencahn_front_semiimplicit', {'nvars': 15}),
                  ('AllenCahn_1D_FD', 'allencahn_periodic_fullyimplicit', {'nvars': 16}),
                  ('HeatEquation_ND_FD', 'heatNd_unforced', {'nvars': (8, 8), 'freq': (2, 2)}),
                  ('Auzinger_implicit', 'auzinger', {}), ('PenningTrap_3D', 'penningtrap', None)]
    for mod, name, kw in standalone:
        if kw is None:
            continue
        try:
            with Capture():
                P = getattr(importlib.import_module('pySDC.implementations.problem_classes.' + mod), name)(**kw)
        except Exception as e:
            ck.notes.append('part_readonly: %s not constructible here (%s)' % (name, type(e).__name__))
            continue
        probs.append((name, P, REC.calls.get(id(P), [])))
    # model: registries as union over the recorded calls
    sigs = []
    for _, P, calls in probs:
        if calls not in sigs:
            sigs.append(calls)
    src = [HEADER, 'Definition callsets : list (list (list string * bool)) := %s.\n' % coq_list(
        [coq_list(['(%s, %s)' % (coq_list([cstr(n) for n in names]), 'true' if ro else 'false') for names, ro in calls]) for calls in sigs]),
        'Eval vm_compute in map (fun c => (rp_register c, map (rp_setattr (fst (rp_register c))) (rp_params c ++ ["verif_new_attribute"; "work_counters"]%list))) callsets.\n']
    rc, out = ck.coqc(ck.write_gen('Cases_readonly.v', ''.join(src)), timeout=600)
    if rc != 0:
        ck.obligation('Cases_readonly.v evaluates', False, out[-1500:])
        ck.violation('generated Coq cases do not compile', {'log': out[-3000:]}, match={'kind': 'gen'}, no_input=True)
        return
    mres = parse_coq_value(eval_outputs(out)[0])
    nbad = 0
    nas = 0
    hist = {}
    for label, P, calls in probs:
        mro, mrw, mverd = mres[sigs.index(calls)]
        mro, mrw = list(mro), list(mrw)
        cname = type(P).__name__
        exp_ro = [n for names, ro in calls if ro for n in names]
        exp_rw = [n for names, ro in calls if not ro for n in names]
        hist[cname] = {'registration_calls': len(calls), 'read_only': sorted(set(exp_ro))}
        rep0 = {'problem': label, 'class': '%s.%s' % (type(P).__module__, cname),
                'registration_calls': [[list(n), ro] for n, ro in calls]}
        ck.case(key=('readonly-registry', cname, len(calls)), nontrivial=len(calls) >= 1)
        if not calls:
            ck.violation('no registration call recorded for %s' % label, rep0, match={'kind': 'read-only-recording', 'class': cname}, no_input=True)
            continue
        bad_here = False
        # oracle 1: every name registered by ANY call is listed in params
        try:
            pkeys = set(P.params.keys())
        except Exception as e:
            pkeys = set()
            ck.violation('%s.params raised %s' % (label, type(e).__name__), rep0, match={'kind': 'read-only', 'what': 'params-raise', 'class': cname})
            bad_here = True
        missing = sorted(set(exp_ro + exp_rw) - pkeys)
        if missing and not bad_here:
            bad_here = True
            ck.violation('registered parameters %s are missing from %s.params' % (missing, label), dict(rep0, params=sorted(pkeys)),
                         match={'kind': 'read-only', 'what': 'params-incomplete', 'class': cname})
        # oracle 2: assigning any read-only name raises ReadOnlyError; other names are assignable
        for k in exp_ro + exp_rw + ['verif_new_attribute', 'work_counters']:
            before = getattr(P, k, None)
            try:
                setattr(P, k, before)
                r = None
            except Exception as e:
                r = type(e).__name__
            nas += 1
            ck.case(key=('readonly', cname, k), nontrivial=True)
            m_ = mverd[(mro + mrw + ['verif_new_attribute', 'work_counters']).index(k)]
            m_ = m_[1] if isinstance(m_, tuple) else None
            rep = dict(rep0, attribute=k, implementation=r, model=m_)
            if k in exp_ro and r is None:
                bad_here = True
                ck.violation('read-only problem parameter %s of %s can be changed (registered read-only by call %d of %d)'
                             % (k, label, [i for i, (n, ro) in enumerate(calls) if ro and k in n][0] + 1, len(calls)), rep,
                             match={'kind': 'read-only', 'attribute': k, 'class': cname})
            elif r != m_:
                bad_here = True
                ck.violation('RegisterParams.__setattr__(%s) on %s: %s, model %s' % (k, label, r, m_), rep,
                             match={'kind': 'read-only-correspondence', 'attribute': k, 'class': cname}, no_input=(k not in exp_ro))
            if r is None and k == 'verif_new_attribute':
                try:
                    object.__delattr__(P, k)
                except Exception:
                    pass
        # correspondence: the instance's registries are the model's unions
        if not bad_here and (set(mro) != set(P._parNamesReadOnly) or set(mrw) != set(P._parNames)):
            bad_here = True
            ck.violation('registries of %s differ from the union over its registration calls' % label,
                         dict(rep0, read_only=sorted(P._parNamesReadOnly), model_read_only=sorted(set(mro)), others=sorted(P._parNames), model_others=sorted(set(mrw))),
                         match={'kind': 'read-only-correspondence', 'what': 'registry', 'class': cname}, no_input=True)
        nbad += bad_here
    ck.traces += len(probs)
    ck.cov['read_only_parameters'] = hist
    ck.obligation('rp_register/rp_setattr (Coq model) = RegisterParams on %d problems (%d assignments); every read-only name of the class hierarchy rejected'
                  % (len(probs), nas), nbad == 0)


# ----------------------------------------------------------------------------- entry

def run(ck):
    if getattr(ck, 'replay_file', None):
        # a replay file names seed and tier of the run that produced it: the (deterministic) generators
        # are re-run from that state, which regenerates the failing case among the others
        import json
        import random
        with open(ck.replay_file) as f:
            rep = json.load(f)
        ck.seed, ck.tier = int(rep.get('seed', ck.seed)), rep.get('tier', ck.tier)
        ck.rng = random.Random('%s:%d' % (ck.pid, ck.seed))
        ck.notes.append('replay of %s: seed %d, tier %s' % (ck.replay_file, ck.seed, ck.tier))
    ck.rule = ('descriptions: grammar over per-level keys (num_nodes, quad_type, node_type, QI, initial_guess, dt, restol, nsweeps, residual_type, '
               'lambdas, u0, classes, transfer class) each as scalar / full list / short list, 1-4 levels, 1-3 steps, real classes; faults: one '
               '(or two) edits per valid description; distinct = new (fault label, levels, steps, list-shape signature); '
               'convergence controllers: random dependency forests of synthetic classes + subsets of the real classes; '
               'frozen classes: random scripts per real params/status object')
    ck.check_props(required=['C20_levels_eq_longest_list', 'C20_entry_selection', 'C20_scalar_shared',
                             'C20_controllers_sorted_unique', 'C20_validate_complete_partial', 'C20_readonly_union_over_calls'])
    CL = classes()
    REC.__init__()
    REC.install()      # before the first controller / problem is built
    try:
        part_descriptions(ck, CL)
        part_controllers(ck, CL)
        part_frozen(ck, CL)
        part_holders(ck, CL)
        part_readonly(ck, CL)
    finally:
        REC.uninstall()
