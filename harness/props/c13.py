"""C13 — data types have value semantics; runs never corrupt caller or logged data.

Tie to /repo (every run):
  * seeded random operation sequences over a pool of names are executed on the REAL classes (mesh with
    several shapes and real/complex dtype, imex_mesh, comp2_mesh, MeshDAE, particles / fields /
    acceleration) and, operation by operation, in the Coq model `Model/Heap.v` (kernel-evaluated
    `check_trace`): result/exception class, every live value (class, dtype, shape, cells), the identity
    classes (`is`) and the memory-sharing graph (np.shares_memory) must agree after EVERY operation;
  * implementation-side oracle, independent of the model: before each operation every live object
    (including the one a name is about to be rebound from) is snapshotted; afterwards no operation
    except __setitem__ may have changed any of them, __setitem__ may change only objects sharing memory
    with its target, results have the operands' class, copy-construction yields independent storage,
    component views alias their parent, abs() is the max norm recomputed from the raw cells;
  * run-level clause (observation + oracle): for a matrix of sweeper x controller configurations the
    caller's u0 is hashed before/after run(), and every object returned or logged (LogSolution,
    LogSolutionAfterIteration) is snapshotted when it is logged and compared at the end of the run.
"""
import concurrent.futures
import hashlib
import operator
import warnings

import numpy as np

from harness.common import coq_list, zlit, parse_coq_value, eval_outputs

LEVEL = 'proof'
POOL = 6
MAG = 10 ** 6          # cell magnitude bound keeping all float arithmetic exact (squares < 2^53)

KINDS = ['KNd', 'KMesh', 'KImex', 'KComp2', 'KDAE', 'KPos', 'KVel', 'KAcc', 'KElec', 'KMagn']
ERR = {'ValueError': 1, 'TypeError': 2, 'DataError': 3, 'AttributeError': 4, 'IndexError': 5,
       'NotImplementedError': 6, 'NameError': 7, 'Other': 98}
UFN = {'UAdd': (np.add, operator.add, operator.iadd), 'USub': (np.subtract, operator.sub, operator.isub),
       'UMul': (np.multiply, operator.mul, operator.imul), 'UMax': (np.maximum, None, None),
       'UNeg': (np.negative, operator.neg, None), 'UConj': (np.conjugate, None, None),
       'USquare': (np.square, None, None), 'UAbs': (np.absolute, None, None), 'UPos': (np.positive, operator.pos, None)}
BINARY = ['UAdd', 'USub', 'UMul', 'UMax']
UNARY = ['UNeg', 'UConj', 'USquare', 'UAbs', 'UPos']


class AbsSq(object):
    """abs() of a complex mesh: kept with its exact square for the comparison with the model."""

    def __init__(self, val, sq):
        self.val, self.sq = val, sq


def load_classes():
    from pySDC.implementations.datatype_classes.mesh import mesh, imex_mesh, comp2_mesh
    from pySDC.implementations.datatype_classes.particles import particles, fields, acceleration
    from pySDC.projects.DAE.misc.meshDAE import MeshDAE
    from pySDC.core.errors import DataError
    cls = {'KMesh': mesh, 'KImex': imex_mesh, 'KComp2': comp2_mesh, 'KDAE': MeshDAE, 'KPos': particles.position,
           'KVel': particles.velocity, 'KAcc': acceleration, 'KElec': fields.electric, 'KMagn': fields.magnetic}
    return cls, particles, fields, DataError


# ----------------------------------------------------------------------------- encoding of the real state
class Enc(object):
    def __init__(self, CLS, particles, fields):
        self.CLS, self.particles, self.fields = CLS, particles, fields
        self.kind_of = {v: KINDS.index(k) for k, v in CLS.items()}
        self.kind_of[np.ndarray] = 0

    def arr(self, a):
        if a.dtype == np.dtype('float64'):
            dt = 0
        elif a.dtype == np.dtype('complex128'):
            dt = 1
        else:
            dt = 50 + a.dtype.num      # a dtype the model does not know: forces a mismatch
            a = a.astype(complex) if a.dtype.kind in 'biufc' else np.zeros(a.shape, dtype=complex)
        if type(a) not in self.kind_of:
            self.kind_of[type(a)] = 900
        out = [self.kind_of[type(a)], dt, a.ndim] + [int(s) for s in a.shape]
        flat = np.asarray(a).reshape(-1)
        for x in flat.tolist():
            x = complex(x)
            if not (np.isfinite(x.real) and np.isfinite(x.imag)):
                out += [10 ** 30, 10 ** 30]
            elif not (float(x.real).is_integer() and float(x.imag).is_integer()):
                # cannot happen with exact integer inputs unless the arithmetic itself is wrong: force a mismatch
                out[0] = 1000 + self.kind_of[type(a)]
                out += [int(round(x.real * 2 ** 20)), int(round(x.imag * 2 ** 20))]
            else:
                out += [int(x.real), int(x.imag)]
        return out

    def value(self, v):
        if v is None:
            return [0]
        if isinstance(v, np.ndarray):
            return [1] + self.arr(v)
        if isinstance(v, self.particles):
            return [2] + self.arr(v.pos) + self.arr(v.vel) + self.arr(v.q) + self.arr(v.m)
        if isinstance(v, self.fields):
            return [3] + self.arr(v.elec) + self.arr(v.magn)
        if isinstance(v, AbsSq):
            return [4, 3, v.sq, 0]
        if type(v) in (float, np.float64):
            tag = 0 if type(v) is float else 1
            if not np.isfinite(v) or not float(v).is_integer():
                return [4, 100 + tag, int(round(float(v) * 2 ** 20)) if np.isfinite(v) else 10 ** 30, 0]
            return [4, tag, int(v), 0]
        if type(v) is np.complex128:
            if not (float(v.real).is_integer() and float(v.imag).is_integer()):
                return [4, 102, int(round(v.real * 2 ** 20)), int(round(v.imag * 2 ** 20))]
            return [4, 2, int(v.real), int(v.imag)]
        return [4, 199, 0, 0]          # a value of a class the model does not know: forces a mismatch

    def objs(self, v):
        if isinstance(v, np.ndarray):
            return [v]
        if isinstance(v, self.particles):
            return [v, v.pos, v.vel, v.q, v.m]
        if isinstance(v, self.fields):
            return [v, v.elec, v.magn]
        return []

    def dump(self, world):
        vals = [world.get(i) for i in range(POOL)]
        out = []
        objs = []
        for v in vals:
            out += self.value(v)
            objs += self.objs(v)
        out.append(-1)
        for i, o in enumerate(objs):
            out.append(next(j for j, p in enumerate(objs) if p is o))
        out.append(-2)
        for i in range(len(objs)):
            for j in range(i + 1, len(objs)):
                a, b = objs[i], objs[j]
                if isinstance(a, np.ndarray) and isinstance(b, np.ndarray) and np.shares_memory(a, b):
                    out += [i, j]
        return out


# ----------------------------------------------------------------------------- Coq literals
def c_nat(n):
    return '%d%%nat' % n


def c_cell(c):
    return '(%s,%s)' % (zlit(c[0]), zlit(c[1]))


def c_shape(sh):
    return coq_list([c_nat(s) for s in sh])


def c_operand(o):
    if o[0] == 'n':
        return '(ON %s)' % c_nat(o[1])
    if o[0] == 's':
        return '(OS %s %s)' % (o[1], c_cell(o[2]))
    return '(OA %s %s %s)' % (o[1], c_shape(o[2]), coq_list([c_cell(c) for c in o[3]]))


def c_sel(s):
    if s[0] == 'all':
        return 'SAll'
    if s[0] == 'range':
        return '(SRange %s %s)' % (c_nat(s[1]), c_nat(s[2]))
    return '(SIdx %s)' % c_nat(s[1])


def c_op(op):
    k = op[0]
    if k == 'new':
        return 'ONew %s %s %s %s %s' % (c_nat(op[1]), op[2], op[3], c_shape(op[4]), zlit(op[5]))
    if k == 'newpart':
        return 'ONewPart %s %s %s' % (c_nat(op[1]), c_shape(op[2]), ' '.join(zlit(v) for v in op[3]))
    if k == 'newfld':
        return 'ONewFld %s %s %s' % (c_nat(op[1]), c_shape(op[2]), ' '.join(zlit(v) for v in op[3]))
    if k == 'copy':
        ck = op[2] if op[2] in ('CPart', 'CFld') else '(CArr %s)' % op[2]
        return 'OCopy %s %s %s' % (c_nat(op[1]), ck, c_nat(op[3]))
    if k == 'assign':
        return 'OAssign %s %s' % (c_nat(op[1]), c_nat(op[2]))
    if k == 'ufunc':
        out = 'None' if op[4] is None else '(Some %s)' % c_nat(op[4])
        return 'OUfunc %s %s %s %s' % (c_nat(op[1]), op[2], coq_list([c_operand(a) for a in op[3]]), out)
    if k == 'bin':
        return 'OBin %s %s %s %s' % (c_nat(op[1]), op[2], c_operand(op[3]), c_operand(op[4]))
    if k == 'un':
        return 'OUn %s %s %s' % (c_nat(op[1]), op[2], c_operand(op[3]))
    if k == 'iop':
        return 'OIop %s %s %s' % (c_nat(op[1]), op[2], c_operand(op[3]))
    if k == 'set':
        return 'OSet %s %s %s' % (c_nat(op[1]), c_sel(op[2]), c_operand(op[3]))
    if k == 'get':
        return 'OGet %s %s %s' % (c_nat(op[1]), c_nat(op[2]), c_sel(op[3]))
    if k == 'comp':
        return 'OComp %s %s %s' % (c_nat(op[1]), c_nat(op[2]), c_nat(op[3]))
    if k in ('abs', 'mcopy', 'sum', 'sum0'):
        return '%s %s %s' % ({'abs': 'OAbs', 'mcopy': 'OMethCopy', 'sum': 'OSum', 'sum0': 'OSum0'}[k], c_nat(op[1]), c_nat(op[2]))
    if k == 'view':
        return 'OView %s %s %s %s' % (c_nat(op[1]), c_nat(op[2]), coq_list([c_nat(p) for p in op[3]]),
                                      coq_list(['(%s, %s, %s)' % (zlit(a), zlit(b), c_nat(c)) for a, b, c in op[4]]))
    if k == 'del':
        return 'ODel %s' % c_nat(op[1])
    raise AssertionError(k)


# ----------------------------------------------------------------------------- executing one op on the real classes
class Real(object):
    """Executes operations of the little language on the real pySDC classes."""

    def __init__(self, CLS, particles, fields):
        self.CLS, self.particles, self.fields = CLS, particles, fields

    def operand(self, world, o):
        if o[0] == 'n':
            if o[1] not in world:
                raise NameError('name %d' % o[1])
            return world[o[1]]
        if o[0] == 's':
            re, im = o[2]
            return {'SInt': lambda: int(re), 'SFloat': lambda: float(re), 'SComplex': lambda: complex(re, im)}[o[1]]()
        dt = np.dtype('float64') if o[1] == 'DReal' else np.dtype('complex128')
        if o[1] == 'DReal':
            return np.array([float(c[0]) for c in o[3]], dtype=dt).reshape(tuple(o[2]))
        return np.array([complex(c[0], c[1]) for c in o[3]], dtype=dt).reshape(tuple(o[2]))

    @staticmethod
    def pysel(s):
        if s[0] == 'all':
            return slice(None)
        if s[0] == 'range':
            return slice(s[1], s[2])
        return s[1]

    def comp_name(self, v, c):
        if isinstance(v, self.particles):
            return (['pos', 'vel', 'q', 'm'] + ['nope'] * 8)[c]
        if isinstance(v, self.fields):
            return (['elec', 'magn'] + ['nope'] * 8)[c]
        comps = getattr(type(v), 'components', None)
        if comps and c < len(comps):
            return comps[c]
        return ['impl', 'expl', 'nope'][min(c, 2)]

    def run(self, world, op, flavour=0):
        """Returns the new binding (or None for set/del which bind nothing); raises what the code raises."""
        k = op[0]
        if k == 'new':
            _, d, kind, dt, sh, val = op
            init = (tuple(sh), None, np.dtype('float64') if dt == 'DReal' else np.dtype('complex128'))
            if flavour % 2 == 1:
                world[d] = self.CLS[kind](init, val=float(val), order='F')     # memory layout is not observable in the model
            else:
                world[d] = self.CLS[kind](init, val=float(val))
        elif k == 'newpart':
            _, d, sh, vals = op
            world[d] = self.particles((tuple(sh), None, np.dtype('float64')), val=tuple(float(v) for v in vals))
        elif k == 'newfld':
            _, d, sh, vals = op
            world[d] = self.fields((tuple(sh), None, np.dtype('float64')), val=tuple(float(v) for v in vals))
        elif k == 'copy':
            _, d, ck, s = op
            src = self.operand(world, ('n', s))
            cls = self.particles if ck == 'CPart' else self.fields if ck == 'CFld' else self.CLS[ck]
            world[d] = cls(src)
        elif k == 'assign':
            world[op[1]] = self.operand(world, ('n', op[2]))
        elif k == 'ufunc':
            _, d, f, args, out = op
            a = [self.operand(world, x) for x in args]
            if out is None:
                world[d] = UFN[f][0](*a)
            else:
                o = self.operand(world, ('n', out))
                if flavour % 2 == 0:
                    world[d] = UFN[f][0](*a, out=o)
                else:
                    world[d] = UFN[f][0](*a, o)         # positional out
        elif k == 'bin':
            _, d, f, x, y = op
            a, b = self.operand(world, x), self.operand(world, y)
            fn = UFN[f][1]
            if fn is None or (flavour % 2 == 1 and isinstance(a, np.ndarray) and isinstance(b, (np.ndarray, int, float, complex))):
                world[d] = UFN[f][0](a, b)
            else:
                world[d] = fn(a, b)
        elif k == 'un':
            _, d, f, x = op
            a = self.operand(world, x)
            fn = UFN[f][1]
            if fn is None or (flavour % 2 == 1 and isinstance(a, np.ndarray)):
                world[d] = UFN[f][0](a)
            else:
                world[d] = fn(a)
        elif k == 'iop':
            _, d, f, y = op
            a, b = self.operand(world, ('n', d)), self.operand(world, y)
            world[d] = UFN[f][2](a, b)               # exactly what `d op= y` does: d = type(d).__iop__(d, y) or fallback
        elif k == 'set':
            _, d, s, src = op
            t, v = self.operand(world, ('n', d)), self.operand(world, src)
            t[self.pysel(s)] = v
        elif k == 'get':
            _, d, s, sl = op
            world[d] = self.operand(world, ('n', s))[self.pysel(sl)]
        elif k == 'comp':
            _, d, s, c = op
            v = self.operand(world, ('n', s))
            world[d] = getattr(v, self.comp_name(v, c))
        elif k == 'abs':
            v = self.operand(world, ('n', op[2]))
            r = abs(v)
            if isinstance(v, np.ndarray) and v.dtype.kind == 'c':
                sq = int(round(r * r))
                r = AbsSq(r, sq if abs(r * r - sq) < 1e-6 * max(1, sq) else -1 - sq)
            world[op[1]] = r
        elif k == 'mcopy':
            world[op[1]] = self.operand(world, ('n', op[2])).copy()
        elif k == 'sum':
            world[op[1]] = np.sum(self.operand(world, ('n', op[2])))
        elif k == 'sum0':
            v = self.operand(world, ('n', op[2]))
            world[op[1]] = np.sum(v, axis=0) if flavour % 2 == 0 else v.sum(axis=0)
        elif k == 'view':
            _, d, s_, perm, sl = op
            v = self.operand(world, ('n', s_))
            idx = []
            for start, step, count in sl:
                stop = start + step * count
                idx.append(slice(start, stop if stop >= 0 else None, step))
            if flavour % 2 == 0 or list(perm) != sorted(perm):
                world[d] = v.transpose(tuple(perm))[tuple(idx)]
            else:
                world[d] = v[tuple(idx)]
        elif k == 'del':
            if op[1] not in world:
                raise NameError('name %d' % op[1])
            del world[op[1]]
        else:
            raise AssertionError(k)


# ----------------------------------------------------------------------------- generator
def mag(v):
    if isinstance(v, np.ndarray):
        return float(np.max(np.abs(np.asarray(v)))) if v.size else 0.0
    if isinstance(v, (int, float, complex)):
        return abs(v)
    if hasattr(v, 'pos'):
        return max(mag(v.pos), mag(v.vel))
    if hasattr(v, 'elec'):
        return max(mag(v.elec), mag(v.magn))
    return 0.0


class Gen(object):
    def __init__(self, rng, real, family):
        self.rng, self.real, self.family = rng, real, family
        self.base = rng.choice([(3,), (2,), (4,), (2, 3), (3, 2), (2, 2), (1, 3), (2, 1, 2)])

    # --- helpers
    def names(self, world, pred):
        return [i for i in range(POOL) if i in world and pred(world[i])]

    def is_mesh(self, v):
        return isinstance(v, np.ndarray) and type(v) is not np.ndarray

    def is_real_mesh(self, v):
        return self.is_mesh(v) and v.dtype.kind == 'f'

    def is_part(self, v):
        return isinstance(v, self.real.particles)

    def is_fld(self, v):
        return isinstance(v, self.real.fields)

    def scalar(self, allow_complex=True):
        r = self.rng
        t = r.choice(['SInt', 'SFloat', 'SFloat', 'SComplex'] if allow_complex else ['SInt', 'SFloat'])
        return ('s', t, (r.randint(-3, 3), r.randint(-2, 2) if t == 'SComplex' else 0))

    def literal(self, shape, cplx=False):
        r = self.rng
        n = int(np.prod(shape)) if len(shape) else 1
        return ('a', 'DComplex' if cplx else 'DReal', list(shape),
                [(r.randint(-3, 3), r.randint(-2, 2) if cplx else 0) for _ in range(n)])

    def partner(self, world, v, allow_complex=True):
        """an operand meant to combine with array v (mostly broadcast-compatible, sometimes not)"""
        r = self.rng
        c = r.random()
        cands = self.names(world, lambda w: isinstance(w, np.ndarray))
        if not allow_complex:
            cands = [i for i in cands if world[i].dtype.kind == 'f']
        if c < 0.5 and cands:
            good = [i for i in cands if self.compatible(world[i].shape, v.shape)]
            if good and r.random() < 0.85:
                return ('n', r.choice(good))
            return ('n', r.choice(cands))
        if c < 0.75:
            return self.scalar(allow_complex)
        sh = list(v.shape)
        m = r.random()
        if m < 0.3 and len(sh) > 1:
            sh = sh[1:]
        elif m < 0.4 and sh:
            sh[r.randrange(len(sh))] = 1
        elif m < 0.45:
            sh = [1] + sh
        elif m < 0.5 and sh:
            sh[-1] += 1           # not broadcastable
        return self.literal(sh, cplx=allow_complex and r.random() < 0.25)

    @staticmethod
    def compatible(s, t):
        try:
            np.broadcast_shapes(tuple(s), tuple(t))
            return True
        except ValueError:
            return False

    def sel_for(self, v):
        r = self.rng
        n = v.shape[0]
        c = r.random()
        if c < 0.35:
            return ('all',)
        if c < 0.7:
            lo = r.randint(0, n)
            hi = r.randint(lo, n + 1) if r.random() < 0.9 else r.randint(0, n)
            return ('range', lo, hi)
        return ('idx', r.randint(0, n - 1) if (n > 0 and r.random() < 0.95) else n + r.randint(0, 1))

    def fresh_target(self, world):
        r = self.rng
        free = [i for i in range(POOL) if i not in world]
        if free and r.random() < 0.6:
            return r.choice(free)
        return r.randrange(POOL)

    def bound_ok(self, world, f, operands):
        ms = [mag(self.real.operand(world, o)) if not (o[0] == 'n' and o[1] not in world) else 0 for o in operands]
        if f in ('UMul',):
            return 2 * ms[0] * ms[1] <= MAG
        if f == 'USquare':
            return 2 * ms[0] * ms[0] <= MAG
        return sum(ms) <= MAG

    # --- one operation
    def gen(self, world):
        r = self.rng
        meshes = self.names(world, self.is_mesh)
        arrays = self.names(world, lambda w: isinstance(w, np.ndarray))
        parts = self.names(world, self.is_part)
        flds = self.names(world, self.is_fld)
        for _ in range(200):
            c = r.random()
            d = self.fresh_target(world)
            if not world or c < 0.10 or (not arrays and not parts and not flds):
                fam = self.family
                cplx = fam in ('complex', 'mixed') and r.random() < (0.8 if fam == 'complex' else 0.4)
                if fam == 'particles' and r.random() < 0.75:
                    sh = list(self.base if r.random() < 0.8 else self.base[-1:])
                    if r.random() < 0.6:
                        return ('newpart', d, sh, [r.randint(-3, 3) for _ in range(4)])
                    return ('newfld', d, sh, [r.randint(-3, 3) for _ in range(2)])
                kind = r.choice(['KMesh', 'KMesh', 'KImex', 'KComp2', 'KDAE', 'KAcc', 'KPos'] if fam != 'multi'
                                else ['KMesh', 'KImex', 'KImex', 'KComp2', 'KDAE'])
                sh = list(self.base)
                if kind not in ('KImex', 'KComp2', 'KDAE') and r.random() < 0.2:
                    sh = [2] + sh if r.random() < 0.5 else sh[1:] or sh
                return ('new', d, kind, 'DComplex' if cplx else 'DReal', sh, r.randint(-3, 3))
            if c < 0.30 and meshes:                       # binary arithmetic
                x = r.choice(meshes)
                f = r.choice(BINARY)
                y = self.partner(world, world[x], allow_complex=f != 'UMax')
                if f == 'UMax' and world[x].dtype.kind != 'f':
                    continue
                ops = [('n', x), y]
                if r.random() < 0.4:
                    ops.reverse()
                if not self.bound_ok(world, f, ops):
                    continue
                if r.random() < 0.3:
                    out = r.choice(arrays) if r.random() < 0.8 else None
                    return ('ufunc', d, f, ops, out)
                return ('bin', d, f, ops[0], ops[1])
            if c < 0.42 and meshes:                       # augmented assignment
                x = r.choice(meshes)
                f = r.choice(['UAdd', 'USub', 'UMul'])
                y = self.partner(world, world[x])
                if not self.bound_ok(world, f, [('n', x), y]):
                    continue
                return ('iop', x, f, y)
            if c < 0.50 and meshes:                       # unary
                x = r.choice(meshes)
                f = r.choice(UNARY)
                if f == 'UAbs' and world[x].dtype.kind != 'f':
                    continue
                if not self.bound_ok(world, f, [('n', x)]):
                    continue
                if r.random() < 0.25 and f != 'UConj':
                    return ('ufunc', d, f, [('n', x)], r.choice(arrays))
                return ('un', d, f, ('n', x))
            if c < 0.66 and arrays:                       # setitem
                x = r.choice(arrays)
                v = world[x]
                if v.ndim == 0:
                    continue
                s = self.sel_for(v)
                try:
                    tshape = v[self.real.pysel(s)].shape
                except IndexError:
                    tshape = ()
                if r.random() < 0.5:
                    src = self.scalar()
                else:
                    src = self.partner(world, np.zeros(tshape)) if tshape != () else self.scalar()
                return ('set', x, s, src)
            if c < 0.70 and arrays:                       # slicing / indexing on the first axis
                x = r.choice(arrays)
                if world[x].ndim == 0:
                    continue
                return ('get', d, x, self.sel_for(world[x]))
            if c < 0.76 and arrays:                       # strided / reversed / sub-block / transposed views
                multis = [i for i in arrays if getattr(type(world[i]), 'components', None) and world[i].ndim >= 2 and world[i].shape[0] == 2]
                x = r.choice(multis) if multis and r.random() < 0.7 else r.choice(arrays)
                v = world[x]
                if v.ndim == 0 or v.size == 0:
                    continue
                keep0 = x in multis and r.random() < 0.9           # keep the component axis where it is
                perm = list(range(v.ndim))
                if v.ndim >= 2 and r.random() < 0.4:
                    rest = perm[1:] if keep0 else perm[:]
                    r.shuffle(rest)
                    perm = ([0] + rest) if keep0 else rest
                sl = []
                for kax, p in enumerate(perm):
                    n = v.shape[p]
                    m = r.random()
                    if (keep0 and kax == 0) or m < 0.25:
                        sl.append((0, 1, n))
                    elif m < 0.45:
                        sl.append((n - 1, -1, n))
                    elif m < 0.65:
                        st = r.randint(0, min(1, n - 1))
                        sl.append((st, 2, (n - st + 1) // 2))
                    elif m < 0.85:
                        lo = r.randint(0, n - 1)
                        sl.append((lo, 1, r.randint(1, n - lo)))
                    else:
                        hi = r.randint(0, n - 1)
                        sl.append((hi, -2, hi // 2 + 1))
                return ('view', d, x, perm, sl)
            if c < 0.82:                                  # component access
                multi = self.names(world, lambda w: hasattr(type(w), 'components') and type(w).components and
                                   (w.ndim >= 2 or w.shape[0] != 2))
                noncontig = [i for i in multi if not world[i].flags.c_contiguous and world[i].shape[0] == 2]
                if noncontig and r.random() < 0.5:          # components of strided / transposed / F-ordered parents
                    return ('comp', d, r.choice(noncontig), r.randrange(2))
                pool = multi + parts + flds
                if pool and r.random() < 0.92:
                    x = r.choice(pool)
                    v = world[x]
                    nc = 4 if self.is_part(v) else 2
                    return ('comp', d, x, r.randrange(nc) if r.random() < 0.95 else nc)
                if meshes and r.random() < 0.5:
                    x = r.choice(meshes)
                    if hasattr(type(world[x]), 'components') and type(world[x]).components:
                        continue
                    return ('comp', d, x, r.randrange(2))
                continue
            if c < 0.88:                                  # copy construction
                pool = meshes + parts + flds
                if not pool:
                    continue
                s = r.choice(pool)
                v = world[s]
                if self.is_part(v):
                    ck = 'CPart' if r.random() < 0.9 else r.choice(['CFld', 'KMesh'])
                elif self.is_fld(v):
                    ck = 'CFld' if r.random() < 0.9 else r.choice(['CPart', 'KMesh'])
                else:
                    own = KINDS[self.enc_kind(v)]
                    ck = own if r.random() < 0.6 else r.choice(['KMesh', 'KImex', 'KComp2', 'KDAE', 'KAcc', 'KPos', 'KElec'])
                    if r.random() < 0.03:
                        ck = r.choice(['CPart', 'CFld'])
                return ('copy', d, ck, s)
            if c < 0.91 and world:
                return ('assign', d, r.choice(sorted(world)))
            if c < 0.94 and (meshes or parts):            # abs
                pool = [i for i in meshes if world[i].size > 0 or r.random() < 0.3] + parts + (flds if r.random() < 0.2 else [])
                if not pool:
                    continue
                return ('abs', d, r.choice(pool))
            if c < 0.96 and arrays:
                return ('mcopy', d, r.choice(arrays + (parts if r.random() < 0.1 else [])))
            if c < 0.98 and meshes:
                x = r.choice(meshes)
                if world[x].ndim >= 2 and r.random() < 0.6:
                    return ('sum0', d, x)
                if mag(world[x]) * max(1, world[x].size) > MAG:
                    continue
                return ('sum', d, x)
            if c < 0.99 and len(world) > 2:
                return ('del', r.choice(sorted(world)))
            # particles / fields arithmetic
            if parts or flds:
                pool = parts + flds
                x = r.choice(pool)
                same = parts if x in parts else flds
                m = r.random()
                if m < 0.45:
                    y = r.choice(same) if r.random() < 0.9 else r.choice(pool)
                    f = r.choice(['UAdd', 'USub'])
                    if r.random() < 0.3:
                        return ('iop', x, f, ('n', y))
                    return ('bin', d, f, ('n', x), ('n', y))
                if m < 0.85:
                    s = ('s', 'SFloat' if r.random() < 0.85 else r.choice(['SInt', 'SComplex']), (r.randint(-3, 3), 0))
                    if not self.bound_ok(world, 'UMul', [s, ('n', x)]):
                        continue
                    if r.random() < 0.85:
                        return ('bin', d, 'UMul', s, ('n', x))
                    return ('bin', d, r.choice(['UMul', 'UAdd', 'USub']), ('n', x), s)
                if m < 0.95:
                    return ('un', d, r.choice(['UNeg', 'UPos']), ('n', x))
                return ('iop', x, 'UMul', ('s', 'SFloat', (2, 0)))
        return ('new', 0, 'KMesh', 'DReal', list(self.base), 1)

    def enc_kind(self, v):
        for k, cls in self.real.CLS.items():
            if type(v) is cls:
                return KINDS.index(k)
        return 0


def gen_particle_op(g, world):
    """particle-family sequences: bias towards particle arithmetic"""
    r = g.rng
    parts = g.names(world, g.is_part)
    flds = g.names(world, g.is_fld)
    if (parts or flds) and r.random() < 0.35:
        pool = parts + flds
        x = r.choice(pool)
        same = parts if x in parts else flds
        d = g.fresh_target(world)
        m = r.random()
        if m < 0.5:
            y = r.choice(same) if r.random() < 0.92 else r.choice(pool)
            f = r.choice(['UAdd', 'USub'])
            if not g.bound_ok(world, f, [('n', x), ('n', y)]):
                return None
            if r.random() < 0.3:
                return ('iop', x, f, ('n', y))
            return ('bin', d, f, ('n', x), ('n', y))
        if m < 0.9:
            s = ('s', 'SFloat' if r.random() < 0.85 else r.choice(['SInt', 'SComplex']), (r.randint(-3, 3), 0))
            if not g.bound_ok(world, 'UMul', [s, ('n', x)]):
                return None
            if r.random() < 0.85:
                return ('bin', d, 'UMul', s, ('n', x))
            return ('bin', d, r.choice(['UMul', 'UAdd', 'USub']), ('n', x), s)
        if m < 0.95:
            return ('un', d, r.choice(['UNeg', 'UPos']), ('n', x))
        return ('iop', x, 'UMul', ('s', 'SFloat', (2, 0)))
    return None


# ----------------------------------------------------------------------------- oracle (implementation side)
def snap(o):
    """bytes-level snapshot of an object (arrays: class, dtype, shape, raw cells)"""
    if isinstance(o, np.ndarray):
        return (type(o).__name__, str(o.dtype), o.shape, np.asarray(o).tobytes())
    if hasattr(o, 'pos'):
        return ('particles', snap(o.pos), snap(o.vel), snap(o.q), snap(o.m), id(o.pos), id(o.vel))
    if hasattr(o, 'elec'):
        return ('fields', snap(o.elec), snap(o.magn), id(o.elec), id(o.magn))
    if isinstance(o, AbsSq):
        return ('abssq', o.val)
    return ('num', repr(o))


def arrays_of(o):
    if isinstance(o, np.ndarray):
        return [o]
    if hasattr(o, 'pos'):
        return [o.pos, o.vel, o.q, o.m]
    if hasattr(o, 'elec'):
        return [o.elec, o.magn]
    return []


def oracle_step(g, op, before_objs, before_snaps, world, exc, views):
    """Property clauses evaluated on the real objects only.  Returns list of (what, match-kind)."""
    bad = []
    k = op[0]
    real = g.real
    if k == 'set' and exc is None:
        tgt = world[op[1]]
        for o, s in zip(before_objs, before_snaps):
            touched = any(np.shares_memory(a, tgt) for a in arrays_of(o))
            if not touched and snap(o) != s:
                bad.append(('__setitem__ changed an object that does not share memory with its target', 'setitem-frame'))
    else:
        for o, s in zip(before_objs, before_snaps):
            if snap(o) != s:
                bad.append(('operation %r modified an existing object (operand or bystander) of class %s'
                            % (k, type(o).__name__), 'operand-modified'))
                break
    if exc is not None:
        return bad
    # result class = class of the operands when they agree
    if k in ('bin', 'ufunc', 'un', 'iop'):
        d = op[1]
        res = world.get(d)
        if k == 'bin':
            operands = [op[3], op[4]]
        elif k == 'ufunc':
            operands = list(op[3])
        elif k == 'un':
            operands = [op[3]]
        else:
            operands = [op[2 + 1]]
        vals = []
        for o in operands:
            if o[0] == 'n':
                # the name may just have been rebound: take the pre-state object
                vals.append(before_world_get(before_objs, g, o[1]))
        if k == 'iop':
            vals.append(g._old_dst)
        if k == 'ufunc' and op[4] is not None:
            vals.append(g._before_world.get(op[4]))      # numpy consults the class of `out` as well
        classes = {type(v) for v in vals if v is not None and (g.is_mesh(v) or g.is_part(v) or g.is_fld(v))}
        if len(classes) == 1 and res is not None:
            cls = classes.pop()
            if type(res) is not cls:
                bad.append(('result of %s has class %s, operands have class %s' % (op[2], type(res).__name__, cls.__name__), 'result-class'))
        if k == 'iop' and g._old_dst is not None and isinstance(g._old_dst, np.ndarray) and isinstance(res, np.ndarray):
            if np.shares_memory(res, g._old_dst) or res is g._old_dst:
                bad.append(('augmented assignment wrote in place / result aliases the old object', 'iop-inplace'))
    if k == 'copy':
        res, src = world[op[1]], g._src_obj
        for a in arrays_of(res):
            for b in arrays_of(src):
                if np.shares_memory(a, b) or a is b:
                    bad.append(('copy-constructed object shares storage with its source', 'copy-shares'))
        ra, sa = arrays_of(res), arrays_of(src)
        if len(ra) != len(sa) or any(x.shape != y.shape or not np.array_equal(np.asarray(x), np.asarray(y)) for x, y in zip(ra, sa)):
            bad.append(('copy-constructed object differs from its source', 'copy-values'))
        want = real.particles if op[2] == 'CPart' else real.fields if op[2] == 'CFld' else real.CLS[op[2]]
        if type(res) is not want:
            bad.append(('copy construction returned class %s, not %s' % (type(res).__name__, want.__name__), 'copy-class'))
    if k == 'comp':
        res, src = world[op[1]], g._src_obj
        if isinstance(src, np.ndarray):
            c = op[3]
            if not (isinstance(res, np.ndarray) and res.shape == src.shape[1:] and res.flags.writeable
                    and (res.size == 0 or np.shares_memory(res, src)) and np.array_equal(np.asarray(res), np.asarray(src)[c])):
                bad.append(('component access does not return a writable view of the parent buffer', 'component-view'))
            else:
                views.append((res, src, c))
    if k == 'view':
        res, src = world[op[1]], g._before_world.get(op[2])
        if not (isinstance(res, np.ndarray) and type(res) is type(src) and (res.size == 0 or np.shares_memory(res, src))):
            bad.append(('a strided / transposed slice is not a view of the same class sharing the buffer', 'slice-view'))
    if k == 'abs':
        src = g._src_obj
        res = world[op[1]]
        cells = [complex(x) for a in (arrays_of(src)[:2] if not isinstance(src, np.ndarray) else [src]) for x in np.asarray(a).reshape(-1).tolist()]
        if not cells:
            pass                         # abs() of an empty mesh: no norm to compare with (the model expects ValueError)
        elif isinstance(res, AbsSq):
            want = max(int(x.real) ** 2 + int(x.imag) ** 2 for x in cells)
            if res.sq != want:
                bad.append(('abs() is not the maximum modulus of the cells', 'abs'))
        else:
            want = max(abs(x.real) for x in cells)
            if float(res) != want:
                bad.append(('abs() = %r is not the maximum norm %r of the cells' % (res, want), 'abs'))
    # component views taken earlier still alias their parents (whatever was written through either)
    for res, src, c in views:
        if not np.array_equal(np.asarray(res), np.asarray(src)[c]):
            bad.append(('a component view no longer shows the parent buffer', 'component-view'))
            break
    return bad


def before_world_get(before_objs, g, name):
    return g._before_world.get(name)


# ----------------------------------------------------------------------------- one sequence
def make_sequence(ck, rng, real, enc, family, length):
    g = Gen(rng, real, family)
    world = {}
    graveyard = []          # every object ever bound (kept alive so that identity comparisons are meaningful)
    views = []
    trace = []
    findings = []
    for step in range(length):
        op = None
        if family == 'particles':
            op = gen_particle_op(g, world)
        if op is None:
            op = g.gen(world)
        flavour = rng.randrange(4)
        live = []
        for v in list(world.values()) + graveyard[-12:]:
            if not any(v is o for o in live):
                live.append(v)
        snaps = [snap(o) for o in live]
        g._before_world = dict(world)
        g._old_dst = world.get(op[1]) if op[0] == 'iop' else None
        g._src_obj = world.get(op[3]) if op[0] == 'copy' else world.get(op[2]) if op[0] in ('comp', 'abs') else None
        exc = None
        old = world.get(op[1])
        try:
            with warnings.catch_warnings():
                warnings.simplefilter('ignore')
                real.run(world, op, flavour)
        except Exception as e:   # the code under test raises: part of the behaviour being compared
            exc = next((c.__name__ for c in type(e).__mro__ if c.__name__ in ERR), 'Other')
        if old is not None and not any(old is o for o in graveyard):
            graveyard.append(old)
        code = 0 if exc is None else ERR[exc]
        bad = oracle_step(g, op, live, snaps, world, exc, views)
        dump = enc.dump(world)
        trace.append((op, code, dump, flavour))
        for what, kind in bad:
            findings.append((step, what, kind))
        if findings:
            break
    return trace, findings


def op_signature(op):
    """coarse class of an operation for coverage accounting"""
    k = op[0]
    if k in ('bin', 'un', 'iop'):
        return '%s:%s' % (k, op[2])
    if k == 'ufunc':
        return 'ufunc:%s:%s' % (op[2], 'out' if op[4] is not None else 'noout')
    if k == 'copy':
        return 'copy:%s' % op[2]
    if k == 'new':
        return 'new:%s:%s' % (op[2], op[3])
    if k == 'set' or k == 'get':
        return '%s:%s' % (k, op[2][0] if k == 'set' else op[3][0])
    if k == 'view':
        kinds = set()
        if list(op[3]) != sorted(op[3]):
            kinds.add('T')
        for a, b, c in op[4]:
            kinds.add('rev' if b == -1 else 'step' if b == 2 else 'revstep' if b == -2 else 'blk')
        return 'view:' + '+'.join(sorted(kinds))
    return k


def trace_to_coq(name, trace):
    items = ['  (%s, %s, %s)' % (c_op(op), zlit(code), coq_list([zlit(z) for z in dump])) for op, code, dump, _ in trace]
    return 'Definition %s : list (op * Z * list Z) := [\n%s\n].' % (name, ';\n'.join(items))


HEADER = ['From Coq Require Import ZArith List.', 'From PySDC Require Import Model.Heap.', 'Import ListNotations.',
          'Open Scope Z_scope.', '']


class Capped(object):
    """at most `cap` violations per match kind are written (the count of all of them is kept)"""

    def __init__(self, ck, cap=6):
        self.ck, self.cap, self.n = ck, cap, {}

    def violation(self, what, replay, match, no_input=False):
        k = match.get('kind')
        self.n[k] = self.n.get(k, 0) + 1
        if self.n[k] <= self.cap:
            self.ck.violation(what, replay, match=match, no_input=no_input)
        self.ck.cov['violations_by_kind'] = dict(self.n)


def run_sequences(ck, nseq, length):
    vio = Capped(ck)
    CLS, particles, fields, DataError = load_classes()
    real = Real(CLS, particles, fields)
    enc = Enc(CLS, particles, fields)
    fams = ['real', 'complex', 'mixed', 'multi', 'particles', 'mixed', 'multi', 'particles']
    seqs = []
    hist = {}
    errs = 0
    nops = 0
    for i in range(nseq):
        fam = fams[i % len(fams)]
        trace, findings = make_sequence(ck, ck.rng, real, enc, fam, length)
        seqs.append((i, fam, trace, findings))
        for op, code, dump, fl in trace:
            hist[op_signature(op)] = hist.get(op_signature(op), 0) + 1
            errs += code != 0
            nops += 1
    ck.cov['op_histogram'] = dict(sorted(hist.items()))
    ck.cov['ops_executed'] = nops
    ck.cov['ops_raising'] = errs
    # oracle findings
    for i, fam, trace, findings in seqs:
        for step, what, kind in findings:
            vio.violation('%s (sequence %d, step %d: %s)' % (what, i, step, c_op(trace[step][0])),
                         {'family': fam, 'ops': [c_op(t[0]) for t in trace[:step + 1]], 'flavours': [t[3] for t in trace[:step + 1]],
                          'failing_step': step, 'note': 'ops are in the syntax of coq/theories/Model/Heap.v; harness/props/c13.py Real.run executes them'},
                         match={'kind': kind, 'op': trace[step][0][0]})
    # Coq correspondence
    per_file = 25
    files = []
    for fi in range(0, len(seqs), per_file):
        chunk = seqs[fi:fi + per_file]
        L = list(HEADER)
        for i, fam, trace, _ in chunk:
            L.append(trace_to_coq('t%d' % i, trace))
        L.append('Eval vm_compute in %s.' % coq_list(['check_trace %d%%nat empty_heap 0%%nat t%d' % (POOL, i) for i, _, _, _ in chunk]))
        files.append((chunk, ck.write_gen('Cases_%d.v' % (fi // per_file), '\n'.join(L) + '\n')))
    with concurrent.futures.ThreadPoolExecutor(max_workers=12) as ex:
        outs = list(ex.map(lambda f: ck.coqc(f[1], timeout=900), files))
    nbad = 0
    for (chunk, path), (rc, out) in zip(files, outs):
        if rc != 0:
            ck.obligation('%s evaluates' % path.split('/')[-1], False, out[-1500:])
            ck.violation('generated correspondence cases do not compile', {'file': path, 'log': out[-3000:]}, match={'kind': 'gen'}, no_input=True)
            continue
        res = parse_coq_value(eval_outputs(out)[0])
        assert len(res) == len(chunk), (len(res), len(chunk))
        for (i, fam, trace, findings), r in zip(chunk, res):
            nontriv = sum(1 for t in trace if t[1] == 0) >= 3
            ck.case(key=('seq', fam, hashlib.sha1(repr([t[0] for t in trace]).encode()).hexdigest()[:16]), nontrivial=nontriv,
                    sample={'kind': 'op-sequence', 'family': fam, 'ops': [c_op(t[0]) for t in trace[:6]]})
            ck.traces += 1
            if r == 'None':
                continue
            nbad += 1
            _, (step, mcode, mdump) = r
            op, code, dump, fl = trace[step]
            what = ('real classes and Coq heap model disagree at step %d of sequence %d: %s (impl result code %d, model %d)'
                    % (step, i, c_op(op), code, mcode))
            replay = {'family': fam, 'ops': [c_op(t[0]) for t in trace[:step + 1]], 'flavours': [t[3] for t in trace[:step + 1]],
                      'failing_step': step, 'impl_code': code, 'model_code': mcode, 'impl_dump': dump, 'model_dump': list(mdump),
                      'dump_format': 'per name: 0 | 1 arr | 2 particles | 3 fields | 4 num ; arr = kind dtype ndim shape.. cells(re,im).. ; -1 identity classes ; -2 sharing pairs'}
            # verdict logic: the oracle ran on this very sequence; if it found nothing the disagreement has no failing input
            vio.violation(what, replay, match={'kind': 'correspondence', 'op': op[0]}, no_input=not findings)
    ck.obligation('heap model = real classes on %d operation sequences (%d operations)' % (len(seqs), nops), nbad == 0)


# ----------------------------------------------------------------------------- abs() at extreme scales (oracle only)
def abs_extreme_oracle(ck):
    """abs() must be the max norm over the WHOLE floating-point range of every supported dtype, not only for the
    small integers of the heap correspondence: value = max_i |u_i| (exact rational reference, a few ulp of the array's
    own precision), abs(u) == 0 iff u == 0, finite for finite data with representable moduli, homogeneous for powers
    of two, triangle inequality.  Independent of the Coq model."""
    from fractions import Fraction as F
    CLS, particles, fields, DataError = load_classes()
    rng = ck.rng
    vio = Capped(ck, cap=4)
    thorough = ck.tier == 'thorough'
    DT = {'float64': (np.float64, 2.0 ** -52, 5e-324, (-300, -160), (150, 300), 1022),
          'complex128': (np.float64, 2.0 ** -52, 5e-324, (-300, -160), (150, 300), 1022),
          'float32': (np.float32, 2.0 ** -23, 1.4e-45, (-37, -23), (19, 37), 126),
          'complex64': (np.float32, 2.0 ** -23, 1.4e-45, (-37, -23), (19, 37), 126)}
    ULPS = 4
    ncase = 0
    nbad = 0
    nhom = [0, 0]
    supported = {}

    def draw(regime, n, base, lo, hi, sub):
        out = []
        for _ in range(n):
            r = regime if regime != 'mixed' else rng.choice(['tiny', 'ordinary', 'zero', 'denormal'])
            sgn = rng.choice([-1.0, 1.0])
            if r == 'tiny':
                v = sgn * rng.uniform(1, 10) * 10.0 ** rng.uniform(*lo)
            elif r == 'huge':
                v = sgn * rng.uniform(1, 10) * 10.0 ** rng.uniform(hi[0], hi[1] - 1)
            elif r == 'denormal':
                v = sgn * sub * rng.randint(1, 2 ** 20)
            elif r == 'zero':
                v = 0.0
            else:
                v = sgn * rng.uniform(0.001, 1000.0)
            out.append(float(base(v)))        # rounded to the component precision
        return out

    def make(cls, kind, dtype, shape, comps):
        u = cls((shape, None, np.dtype(dtype)))
        full = u.shape
        if np.dtype(dtype).kind == 'c':
            data = np.array([complex(a, b) for a, b in comps], dtype=dtype).reshape(full)
        else:
            data = np.array([a for a, b in comps], dtype=dtype).reshape(full)
        u[:] = data
        return u

    def modsq_max(u):
        flat = np.asarray(u).reshape(-1).tolist()
        return max(F(complex(x).real) ** 2 + F(complex(x).imag) ** 2 for x in flat)

    def within(r, m2, eps, sub, ulps):
        """r approximates sqrt(m2) to `ulps` ulp (relative eps, absolute `sub` in the subnormal range)"""
        r = F(r)
        lo = max(r * (1 - ulps * F(eps)) - ulps * F(sub), F(0))
        hi = r * (1 + ulps * F(eps)) + ulps * F(sub)
        return lo * lo <= m2 <= hi * hi

    def report(clause, kind, dtype, shape, u, extra):
        nonlocal nbad
        nbad += 1
        vio.violation('abs() is not the maximum norm at extreme scale: %s (class %s, dtype %s)' % (clause, CLS[kind].__name__ if kind in CLS else kind, dtype),
                      dict(extra, cls=CLS[kind].__module__ + '.' + CLS[kind].__qualname__ if kind in CLS else kind, dtype=dtype, shape=list(shape),
                           data=[repr(complex(x)) for x in np.asarray(u).reshape(-1).tolist()],
                           how="u = cls((shape, None, numpy.dtype(dtype))); u[:] = data.reshape(u.shape); abs(u)"),
                      match={'kind': 'abs-extreme', 'clause': clause.split(':')[0], 'dtype': dtype})

    shapes = [(3,), (2, 2)] + ([(1,), (2, 1, 3)] if thorough else [])
    regimes = ['tiny', 'huge', 'denormal', 'mixed', 'ordinary', 'zero', 'single-min']
    for kind, cls in sorted(CLS.items()):
        for dtype, (base, eps, sub, lo, hi, emax) in DT.items():
            try:
                probe = cls(((2,), None, np.dtype(dtype)))
                assert probe.dtype == np.dtype(dtype)
                supported[dtype] = supported.get(dtype, 0) + 1
            except Exception:
                continue
            cplx = np.dtype(dtype).kind == 'c'
            for shape in shapes:
                n = int(np.prod(cls((shape, None, np.dtype(dtype))).shape))
                for regime in regimes:
                    for rep in range(2 if thorough else 1):
                        if regime == 'single-min':
                            comps = [(0.0, 0.0)] * n
                            k = rng.randrange(n)
                            comps[k] = (0.0, -sub) if (cplx and rng.random() < 0.5) else (sub, 0.0)
                        else:
                            re = draw(regime, n, base, lo, hi, sub)
                            im = draw(regime, n, base, lo, hi, sub) if cplx else [0.0] * n
                            comps = list(zip(re, im))
                        with warnings.catch_warnings(), np.errstate(all='ignore'):
                            warnings.simplefilter('ignore')
                            u = make(cls, kind, dtype, shape, comps)
                            r = abs(u)
                            ncase += 1
                            ck.case(key=('abs-extreme', kind, dtype, shape, regime, rep), nontrivial=regime != 'zero')
                            m2 = modsq_max(u)
                            allzero = m2 == 0
                            if type(r) is not float:
                                report('type: abs() returned %s' % type(r).__name__, kind, dtype, shape, u, {'abs': repr(r)})
                                continue
                            if not np.isfinite(r):
                                report('finite: abs(u) = %r for finite data with representable modulus' % r, kind, dtype, shape, u, {'abs': repr(r)})
                                continue
                            if (r == 0.0) != allzero:
                                report('definite: abs(u) = %r but u %s 0' % (r, '==' if allzero else '!='), kind, dtype, shape, u, {'abs': repr(r)})
                                continue
                            if r < 0 or not within(r, m2, eps, sub, ULPS):
                                report('value: abs(u) = %r differs from max|u_i| = %r by more than %d ulp' % (r, float(m2) ** 0.5 if m2 < F(10) ** 600 else 'huge', ULPS),
                                       kind, dtype, shape, u, {'abs': repr(r)})
                                continue
                            # homogeneity for a power of two that keeps every entry a normal number (scaling is then exact)
                            flat = np.abs(np.asarray(u).reshape(-1).view(base))
                            nz = flat[flat > 0]
                            if nz.size:
                                e_lo = int(np.floor(np.log2(float(nz.min()))))
                                e_hi = int(np.floor(np.log2(float(nz.max())))) + 1
                                kmin, kmax = -(emax - 2) - e_lo, (emax - 2) - e_hi
                                normal = e_lo >= -emax
                                if normal and kmin <= kmax:
                                    k = rng.randint(kmin, kmax)
                                    c = float(2.0 ** max(min(k, 1000), -1000))
                                    k = int(np.log2(c))
                                    cu = c * u if rng.random() < 0.5 else u * c
                                    exact_scaled = np.array_equal(np.asarray(cu), np.asarray(u).astype(np.clongdouble if cplx else np.longdouble) * np.longdouble(c))
                                    if exact_scaled and type(cu) is type(u) and cu.dtype == u.dtype:
                                        rc = abs(cu)
                                        nhom[0] += 1
                                        ok = (rc == c * r) if not cplx else (np.isfinite(rc) and abs(F(rc) - F(c) * F(r)) <= 2 * F(eps) * F(c) * F(r))
                                        if not ok:
                                            report('homogeneous: abs(2^%d u) = %r but 2^%d abs(u) = %r' % (k, rc, k, c * r), kind, dtype, shape, u,
                                                   {'abs': repr(r), 'c': c, 'abs_cu': repr(rc)})
                                            continue
                            # triangle inequality with a second array of the same regime
                            if regime != 'single-min':
                                re2 = draw(regime, n, base, lo, hi, sub)
                                im2 = draw(regime, n, base, lo, hi, sub) if cplx else [0.0] * n
                                # halve so that the sum stays representable
                                v = make(cls, kind, dtype, shape, list(zip(re2, im2)))
                                uh, vh = (0.5 * u, 0.5 * v) if regime == 'huge' else (u, v)
                                ru, rv, rs = abs(uh), abs(vh), abs(uh + vh)
                                nhom[1] += 1
                                if not (F(rs) <= (F(ru) + F(rv)) * (1 + 2 * ULPS * F(eps)) + 2 * ULPS * F(sub)):
                                    report('triangle: abs(u+v) = %r > abs(u) + abs(v) = %r' % (rs, ru + rv), kind, dtype, shape, uh,
                                           {'v': [repr(complex(x)) for x in np.asarray(vh).reshape(-1).tolist()]})
    # particles.__abs__ = max over positions and velocities (float64 only: the class fixes nothing else)
    for regime in ['tiny', 'huge', 'denormal', 'mixed']:
        base, eps, sub, lo, hi, emax = DT['float64']
        with warnings.catch_warnings(), np.errstate(all='ignore'):
            warnings.simplefilter('ignore')
            p = particles(((3, 2), None, np.dtype('float64')), val=(0.0, 0.0, 1.0, 1.0))
            p.pos[:] = np.array(draw(regime, 6, base, lo, hi, sub)).reshape(3, 2)
            p.vel[:] = np.array(draw(regime, 6, base, lo, hi, sub)).reshape(3, 2)
            r = abs(p)
            want = max(abs(x) for x in np.asarray(p.pos).reshape(-1).tolist() + np.asarray(p.vel).reshape(-1).tolist())
            ncase += 1
            ck.case(key=('abs-extreme', 'particles', regime))
            if float(r) != want:
                nbad += 1
                vio.violation('particles.__abs__ = %r is not the maximum %r over positions and velocities' % (r, want),
                              {'pos': np.asarray(p.pos).tolist(), 'vel': np.asarray(p.vel).tolist()},
                              match={'kind': 'abs-extreme', 'clause': 'value', 'dtype': 'particles'})
    ck.cov['abs_extreme_cases'] = ncase
    ck.cov['abs_extreme_dtypes_supported'] = supported
    ck.cov['abs_extreme_ulps'] = ULPS
    ck.cov['abs_extreme_homogeneity_checks'], ck.cov['abs_extreme_triangle_checks'] = nhom
    ck.obligation('abs() = max|u_i| (exact rational reference, %d ulp), definite, finite, homogeneous (2^k), triangle on %d extreme-scale arrays'
                  % (ULPS, ncase), nbad == 0)


REQUIRED = ['C13_ops_preserve_objects', 'C13_ops_preserve_others', 'C13_value_semantics_seq', 'C13_wf_reachable',
            'C13_iop_rebinds_never_writes', 'C13_ufunc_result_class', 'C13_binop_same_class', 'C13_iop_keeps_class',
            'C13_setitem_frame', 'C13_setitem_preserves_disjoint', 'C13_copy_independent', 'C13_component_views_alias',
            'C13_component_view_tracks_parent', 'C13_abs_is_maxnorm', 'C13_maxnorm_triangle', 'C13_maxnorm_homogeneous',
            'C13_maxnorm_zero_iff', 'C13_complex_maxnorm_triangle', 'C13_particles_result_independent_refuted',
            'C13_wfs_reachable', 'C13_setitem_reads_back', 'C13_strided_views_alias', 'C13_strided_component_write_seen_in_base', 'C13_component_write_seen_in_parent', 'C13_parent_write_seen_in_component']


def run_level(ck):
    """Run-level clause: observation of real runs + oracle (no model)."""
    from harness.c13_runs import configs, run_config
    thorough = ck.tier == 'thorough'
    skipped = []
    results = []
    reported = set()
    for label, build in configs(thorough) * (3 if thorough else 1):
        if isinstance(build, Exception):
            skipped.append((label, repr(build)))
            continue
        try:
            r = run_config(label, build, ck.rng)
        except Exception as e:       # a configuration the pinned tree cannot run is a harness matter, not a finding
            skipped.append((label, '%s: %s' % (type(e).__name__, e)))
            continue
        results.append(r)
        ck.case(key=('run', label, r['Tend']), nontrivial=r['nlogged'] >= 1, sample=None)
        r['findings'] = [f for f in r['findings'] if (label, f[1]) not in reported]
        reported.update((label, f[1]) for f in r['findings'])
        ck.traces += 1
        for what, kind, detail in r['findings']:
            if kind == 'component-detached':
                detail = dict(detail, reproducer="P = <problem class of this configuration>(...); f = P.eval_f(P.u_exact(0.), 0.); "
                              "numpy.asarray(f)[0] differs from f.impl; P.dtype_f(f).impl is the stale buffer")
            ck.violation('%s [%s]' % (what, label), {'configuration': label, 'detail': detail, 'Tend': r['Tend'],
                                                    'how': 'harness/c13_runs.py configs()[label] built and run by run_config'},
                         match={'kind': kind, 'config': label})
    # static scan: statements that rebind a component attribute of a multi-component mesh (sites the run-level
    # monitor can only confirm for importable problem classes; the others are listed for the record)
    try:
        from harness.c13_scan import Scanner
        from harness.common import REPO
        with warnings.catch_warnings():
            warnings.simplefilter('ignore')
            hits, nfiles = Scanner(REPO).scan()
        ck.cov['component_rebind_sites_static'] = ['%s:%d %s.%s %s.%s %s' % (h['file'], h['line'], h['cls'], h['method'], h['var'], h['component'], h['stmt'])
                                                    for h in hits]
        ck.cov['component_rebind_files_scanned'] = nfiles
    except Exception as e:
        ck.notes.append('static component-rebind scan failed: %r' % (e,))
    ck.cov['run_configs'] = len(results)
    ck.cov['run_configs_skipped'] = skipped
    ck.cov['run_logged_objects_checked'] = sum(r['nlogged'] for r in results)
    ck.obligation('caller u0 and %d logged/returned solutions unchanged in %d sweeper x controller runs'
                  % (sum(r['nlogged'] for r in results), len(results)), not any(r['findings'] for r in results))
    if len({r['label'] for r in results}) < 30:
        ck.violation('too few run configurations could be executed (%d)' % len(results), {'skipped': skipped}, match={'kind': 'harness-runs'}, no_input=True)


def run(ck):
    thorough = ck.tier == 'thorough'
    ck.rule = ('operation sequences: %d names, per sequence a family (real / complex / mixed dtypes, multi-component, particles) '
               'and a base shape; each operation drawn from the current state (classes, shapes) so that most succeed and some raise; '
               'a sequence is non-trivial when at least 3 operations succeed and distinct when its operation list is new; '
               'runs: one per (sweeper, controller, problem) configuration with seeded number of steps' % POOL)
    ck.check_props(required=REQUIRED)
    ck.log('property theorems checked')
    run_sequences(ck, 2000 if thorough else 200, 36 if thorough else 24)
    ck.log('operation sequences done')
    run_level(ck)
    ck.log('run-level clause done')
    abs_extreme_oracle(ck)
    ck.log('abs() at extreme scales done')
