"""C03 — reported residual = true collocation defect; stopping is sound.

Tie: the REAL controller_nonMPI (+ real CheckConvergence, real sweepers, real BaseTransfer) runs in exact
rational arithmetic (harness/exactrun.py) over seeded configurations; at every post_iteration /
post_step callback the defect is recomputed from the level's own u/f/tau in Fractions and compared
EXACTLY with the reported residual (all four residual types); the per-block histories of
(residual <= restol) flags are replayed through the Coq model Model/Stopping.v (kernel-evaluated)
and the iteration count at which each step finished must agree; stats 'niter' must equal the
number of pre_iteration callbacks.
"""
import logging
from fractions import Fraction as F

from harness.common import coq_list, coq_bool, parse_coq_value, eval_outputs
from harness import exactrun as er

LEVEL = 'proof'


def decision_cases(rng, n):
    """Direct differential of the decision rule: the REAL CheckConvergence.check_convergence on a live step whose
    status/params are set by hand (all IEEE specials: nan, +-inf, -0.0, values one ulp around restol), against
    Model/Stopping.conv fed with the booleans the property defines (res_ok := residual <= restol in IEEE arithmetic,
    i.e. false for nan)."""
    import math
    import numpy as np
    from pySDC.implementations.controller_classes.controller_nonMPI import controller_nonMPI
    from pySDC.implementations.convergence_controller_classes.check_convergence import CheckConvergence
    from pySDC.implementations.convergence_controller_classes.estimate_embedded_error import EstimateEmbeddedError
    from pySDC.implementations.problem_classes.TestEquation_0D import testequation0d
    from pySDC.implementations.sweeper_classes.generic_implicit import generic_implicit
    out = []
    for with_etol in (False, True):
        description = {'problem_class': testequation0d, 'problem_params': {'lambdas': np.array([-1.0 + 0j]), 'u0': 1.0 + 0j},
                       'sweeper_class': generic_implicit, 'sweeper_params': {'quad_type': 'RADAU-RIGHT', 'num_nodes': 2, 'QI': 'IE'},
                       'level_params': dict({'dt': 0.1, 'restol': -1.0}, **({'e_tol': 1e-3} if with_etol else {})),
                       'step_params': {'maxiter': 3},
                       'convergence_controllers': ({EstimateEmbeddedError: {}} if with_etol else {})}
        C = controller_nonMPI(num_procs=1, description=description, controller_params={'logger_level': 90, 'dump_setup': False})
        S = C.MS[0]
        L = S.levels[0]
        specials = [0.0, -0.0, 5e-324, 1e-300, 1e-12, 1.0, 1e300, math.inf, -math.inf, math.nan, -1.0]
        restols = [-1.0, 0.0, 1e-12, 1.0, math.inf, math.nan]
        for _ in range(n):
            restol = rng.choice(restols)
            around = [restol, math.nextafter(restol, math.inf), math.nextafter(restol, -math.inf)] if math.isfinite(restol) else []
            res = rng.choice(specials + around + around)
            maxiter = rng.choice([0, 1, 3])
            it = rng.choice([0, 1, 2, 3, 4])
            sweep = rng.choice([0, 1, 2])
            fd, fc = rng.random() < 0.2, rng.random() < 0.2
            etol = rng.choice([None, 0.0, 1e-3, math.inf]) if with_etol else None
            inc = rng.choice([None, 0.0, 1e-6, 1e-3, 1.0, math.nan]) if with_etol else None
            S.params.__dict__['maxiter'] = maxiter
            S.status.iter, S.status.force_done, S.status.force_continue = it, fd, fc
            L.params.__dict__['restol'] = restol
            L.status.residual, L.status.sweep = res, sweep
            if with_etol:
                L.params.__dict__['e_tol'] = etol
                L.status.increment = inc
            got = CheckConvergence.check_convergence(S)
            res_ok = bool(res <= restol)
            e_ok = bool(with_etol and etol and inc and inc < etol)
            out.append((dict(residual=repr(res), restol=repr(restol), maxiter=maxiter, iter=it, sweep=sweep, force_done=fd, force_continue=fc,
                             e_tol=repr(etol), increment=repr(inc)), (maxiter, it, sweep, res_ok, e_ok, fd, fc), bool(got), type(got).__name__))
    return out


def blowup_runs():
    """Real float runs whose iteration overflows to inf/nan (explicit SDC far outside its stability region): a step may only
    finish before maxiter if its reported residual really is <= restol (a nan residual is not)."""
    import numpy as np
    from pySDC.implementations.controller_classes.controller_nonMPI import controller_nonMPI
    from pySDC.implementations.problem_classes.TestEquation_0D import testequation0d
    from pySDC.implementations.sweeper_classes.explicit import explicit
    from pySDC.implementations.hooks.log_solution import LogSolution
    from pySDC.helpers.stats_helper import get_sorted
    from pySDC.core.hooks import Hooks

    class Rec(Hooks):
        log = []

        def post_step(self, step, level_number):
            Rec.log.append((step.time, step.status.iter, step.levels[0].status.residual))

    res = []
    for rtype in ('full_abs', 'last_abs', 'full_rel', 'last_rel'):
        for nprocs in (1, 2):
            for lam in (-1e60, -1e120):
                Rec.log = []
                description = {'problem_class': testequation0d, 'problem_params': {'lambdas': np.array([lam + 0j]), 'u0': 1.0 + 0j},
                               'sweeper_class': explicit, 'sweeper_params': {'quad_type': 'RADAU-RIGHT', 'num_nodes': 3},
                               'level_params': {'dt': 1.0, 'restol': 1e-10, 'residual_type': rtype}, 'step_params': {'maxiter': 12}}
                C = controller_nonMPI(num_procs=nprocs, description=description,
                                      controller_params={'logger_level': 90, 'dump_setup': False, 'hook_class': [Rec]})
                with np.errstate(all='ignore'):
                    import warnings
                    with warnings.catch_warnings():
                        warnings.simplefilter('ignore')
                        C.run(u0=C.MS[0].levels[0].prob.u_exact(0.0), t0=0.0, Tend=1.0 * nprocs)
                for t, it, r in Rec.log:
                    res.append((dict(residual_type=rtype, num_procs=nprocs, lam=lam, time=t, iter=it, residual=repr(float(r)), maxiter=12, restol=1e-10),
                                it, float(r)))
    return res


def rf(rng, lo=-3, hi=2, dens=(1, 2, 3, 4)):
    return F(rng.randint(lo, hi), rng.choice(dens))


def gen_cfg(rng, thorough):
    kind = rng.choice(['GI', 'GI', 'IMEX', 'EXPL', 'MI', 'MASS'])
    nl = rng.choice([1, 1, 2, 2, 3] if thorough else [1, 1, 2, 2])
    if kind == 'MASS':
        nl = 1          # the mass sweeper needs its own base transfer class for several levels; single-level (multi-step) runs here
    dim = rng.choice([1, 2])
    nn = sorted([rng.choice([2, 3, 4]) for _ in range(nl)], reverse=True)
    quad = rng.choice(['RADAU-RIGHT', 'RADAU-RIGHT', 'LOBATTO', 'GAUSS'])
    levels = []
    lam = tuple(rf(rng) for _ in range(dim)); c = tuple(rf(rng) for _ in range(dim))
    lamE = tuple(rf(rng, -2, 1) for _ in range(dim)); mu = tuple(F(0) for _ in range(dim))   # a quadratic term would double the digits of the exact rationals every evaluation
    for l in range(nl):
        lv = dict(num_nodes=nn[l], quad_type=quad, dim=dim, QI=rng.choice(['IE', 'LU', 'MIN-SR-S', 'TRAP', 'IEpar']))
        if kind == 'GI':
            lv.update(lam=lam, c=c)
        elif kind == 'EXPL':
            lv.update(lam=lam, c=c, QE=rng.choice(['EE', 'PIC']))
        elif kind == 'MI':
            lv.update(lam1=lam, c1=c, lam2=lamE, c2=c, Q1=lv['QI'], Q2=rng.choice(['IE', 'LU']))
        elif kind == 'MASS':
            lv.update(lamI=lam, cI=c, lamE=lamE, muE=mu, cE=c, QE=rng.choice(['EE', 'PIC']), mass=tuple(F(rng.randint(1, 4), 2) for _ in range(dim)),
                      QI=rng.choice(['IE', 'LU']))
        else:
            lv.update(lamI=lam, cI=c, lamE=lamE, muE=mu, cE=c, QE=rng.choice(['EE', 'PIC']))
        levels.append(lv)
    num_procs = rng.choice([1, 1, 2, 3])
    cfg = dict(kind=kind, levels=levels, num_procs=num_procs, maxiter=rng.choice([1, 2, 3, 4, 6]),
               restol=rng.choice([F(10), F(1, 10), F(1, 100), F(1, 10 ** 4), F(1, 10 ** 7), F(-1)]),
               residual_type=rng.choice(['full_abs', 'last_abs', 'full_rel', 'last_rel']),
               dt=F(1, rng.choice([2, 4, 8, 10])), mssdc_jac=rng.random() < 0.5,
               predict_type=rng.choice([None, None, 'fine_only', 'pfasst_burnin']) if (nl > 1 and num_procs > 1) else (rng.choice([None, 'fine_only']) if nl > 1 else None),
               nsweeps=rng.choice([1, 1, 2]) if nl == 1 else [rng.choice([1, 2])] + [1] * (nl - 1),
               initial_guess=rng.choice(['spread', 'spread', 'copy', 'zero']), all_to_done=rng.random() < 0.2,
               finter=rng.random() < 0.3, do_coll_update=(quad == 'GAUSS') or rng.random() < 0.2)
    if kind == 'MASS':
        cfg['do_coll_update'] = False
        for lv in cfg['levels']:
            lv['quad_type'] = 'RADAU-RIGHT'
    if kind in ('IMEX', 'MI') and cfg['finter']:
        cfg['finter'] = False     # FracF2 has no subtraction; values-only prolongation
    if cfg['num_procs'] > 1 and (quad == 'GAUSS' or cfg['do_coll_update']):
        # the controller (rightly) refuses PFASST/MSSDC unless uend = u_M: keep the configuration valid
        cfg['do_coll_update'] = False
        if quad == 'GAUSS':
            for lv in cfg['levels']:
                lv['quad_type'] = 'RADAU-RIGHT'
    nsteps = rng.choice([1, 2, 3]) * num_procs + rng.choice([0, 0, 1])
    u0 = [rf(rng, -3, 3) for _ in range(dim)]
    if all(v == 0 for v in u0):
        u0[0] = F(1)
    return cfg, u0, F(0), cfg['dt'] * nsteps


def defect_norm(snap, Q, M, rtype, imex, mass=None):
    u, f, tau, dt = snap['u'], snap['f'], snap['tau'], snap['dt']
    dim = len(u[0])
    mm = mass if mass is not None else [1] * dim      # imex_1st_order_mass (finest level): M (u0 - u_m) instead of u0 - u_m

    def ft(j, x):
        return (f[j][0][x] + f[j][1][x]) if imex else f[j][x]
    norms = []
    for m in range(1, M + 1):
        r = [mm[x] * (u[0][x] - u[m][x]) + dt * sum(Q[m][j] * ft(j, x) for j in range(1, M + 1)) + (tau[m - 1][x] if tau[m - 1] is not None else 0)
             for x in range(dim)]
        norms.append(max(abs(v) for v in r))
    n0 = max(abs(v) for v in u[0])
    if rtype == 'full_abs':
        return max(norms)
    if rtype == 'last_abs':
        return norms[-1]
    if rtype == 'full_rel':
        return max(norms) / n0
    return norms[-1] / n0


def run(ck):
    logging.disable(logging.CRITICAL)
    rng = ck.rng
    thorough = ck.tier == 'thorough'
    ck.rule = ('seeded controller configurations (sweeper kind, 1-3 levels, 1-3 steps per block, maxiter, restol reached at iteration 0..never, '
               'residual type, coupling, predictor, nsweeps, initial guess); distinct = configuration tuple; non-trivial = at least one '
               'iteration performed or stop at iteration 0')
    ck.check_props(required=['C03_residual_is_defect', 'C03_done_sound', 'C03_iter_le_maxiter', 'C03_sweep_guard_vacuous_refuted'])
    from pySDC.helpers.stats_helper import get_sorted
    nruns = 6000 if thorough else 240
    blocks = []     # (desc, maxiter, atd, nprocs, rounds(list of list of bool), observed finishing iters)
    n_events = 0
    hist = {}
    budget_hits = [0]
    for i in range(nruns):
        cfg, u0, t0, Tend = gen_cfg(rng, thorough)
        try:
            C, uend, stats, log = er.run(cfg, u0, t0, Tend)
        except ZeroDivisionError:
            continue
        except er.RunBudgetExceeded:
            budget_hits[0] += 1
            continue
        key = (cfg['kind'], len(cfg['levels']), cfg['num_procs'], cfg['maxiter'], str(cfg['restol']), cfg['residual_type'],
               cfg['mssdc_jac'], cfg['predict_type'], str(cfg['nsweeps']), cfg['initial_guess'], cfg['all_to_done'])
        ck.case(key=key, sample={k: (str(v) if not isinstance(v, (int, bool, str, type(None))) else v) for k, v in cfg.items() if k != 'levels'})
        imex = cfg['kind'] in ('IMEX', 'MI', 'MASS')      # two-part right-hand sides
        mass = list(cfg['levels'][0]['mass']) if cfg['kind'] == 'MASS' else None
        lvQ = [([[Lx.sweep.coll.Qmat[a, b] for b in range(Lx.sweep.coll.num_nodes + 1)] for a in range(Lx.sweep.coll.num_nodes + 1)], Lx.sweep.coll.num_nodes)
               for Lx in C.MS[0].levels]
        L0 = C.MS[0].levels[0]
        Q = [[L0.sweep.coll.Qmat[a, b] for b in range(L0.sweep.coll.num_nodes + 1)] for a in range(L0.sweep.coll.num_nodes + 1)]
        M = L0.sweep.coll.num_nodes
        restol, maxiter, rtype = L0.params.restol, cfg['maxiter'], cfg['residual_type']
        meta = {'cfg': {k: str(v) for k, v in cfg.items()}, 'u0': [str(v) for v in u0], 'Tend': str(Tend)}
        # ---- oracle 1: reported residual == recomputed defect at every post_iteration / post_step (level 0)
        per_step = {}     # (time) -> dict(checks: {k: residual}, n_pre_it, n_sweeps0, finish_iter)
        for e in log:
            if e['cb'] in ('post_iteration', 'post_step', 'pre_iteration'):
                s0 = e['levels'][0]
                ps = per_step.setdefault((e['time'], e['slot']), dict(checks={}, pre_it=0, sweeps=0, finish=None, order=len(per_step)))
                if e['cb'] == 'pre_iteration':
                    ps['pre_it'] += 1
                    ps['checks'].setdefault(e['iter'] - 1, s0['residual'])
                    continue
                n_events += 1
                ck.traces += 1
                want = defect_norm(s0, Q, M, rtype, imex, mass)
                if s0['residual'] != want:
                    ck.violation('reported residual differs from the defect recomputed from the level data (%s, %s, iter %d)' % (e['cb'], rtype, e['iter']),
                                 dict(meta, callback=e['cb'], slot=e['slot'], iter=e['iter'], reported=str(s0['residual']), recomputed=str(want)),
                                 match={'kind': 'residual_mismatch', 'residual_type': rtype, 'callback': e['cb']})
                ps['checks'][e['iter']] = s0['residual']
                if e['cb'] == 'post_step':
                    ps['finish'] = e['iter']
                    # ---- oracle 2: stopping soundness
                    if e['iter'] > maxiter:
                        ck.violation('iteration counter exceeds maxiter', dict(meta, iter=e['iter']), match={'kind': 'iter_gt_maxiter'})
                    if e['iter'] < maxiter and not (s0['residual'] <= restol):
                        ck.violation('step declared finished although residual > restol and budget not exhausted',
                                     dict(meta, iter=e['iter'], residual=str(s0['residual'])), match={'kind': 'unsound_stop'})
                    if e['iter'] == 0 and maxiter > 0 and ps['sweeps'] == 0:
                        ck.violation('step finished at iteration 0 on the initial guess without any sweep (restol=%s met by the predictor)' % restol,
                                     dict(meta, residual=str(s0['residual'])), match={'kind': 'zero_sweep_stop'})
            elif e['cb'] == 'post_sweep' and e['level'] is not None and e['level'] >= 1:
                # the residual REPORTED for a coarse level right after its sweep is the defect of that level INCLUDING its FAS correction tau
                sl = e['levels'][e['level']]
                Ql, Ml = lvQ[e['level']]
                n_events += 1
                ck.traces += 1
                wantl = defect_norm(sl, Ql, Ml, rtype, imex)
                if sl['residual'] != wantl:
                    ck.violation('reported residual of level %d differs from the defect (incl. tau) recomputed from the level data (post_sweep, %s, iter %d)' % (e['level'], rtype, e['iter']),
                                 dict(meta, callback='post_sweep', level=e['level'], slot=e['slot'], iter=e['iter'], reported=str(sl['residual']), recomputed=str(wantl)),
                                 match={'kind': 'residual_mismatch', 'residual_type': rtype, 'callback': 'post_sweep', 'level': 'coarse'})
            elif e['cb'] == 'post_sweep' and e['level'] == 0:
                for kk in per_step:
                    if kk == (e['time'], e['slot']):
                        per_step[kk]['sweeps'] += 1
            elif e['cb'] == 'pre_step':
                pass
        # ---- oracle 3: stats niter == number of pre_iteration callbacks == finishing iter
        niter = dict(get_sorted(stats, type='niter', sortby='time'))
        for (t, slot), ps in per_step.items():
            if ps['finish'] is None:
                continue
            got = niter.get(t)
            if got != ps['pre_it'] or ps['finish'] != ps['pre_it']:
                ck.violation('logged niter differs from the number of iterations performed', dict(meta, time=str(t), niter=got, pre_iteration_callbacks=ps['pre_it'], iter_at_post_step=ps['finish']),
                             match={'kind': 'niter_mismatch'})
        # ---- blocks for the Coq stopping model: steps grouped into blocks of num_procs by time order
        steps = sorted(per_step.items(), key=lambda kv: kv[0][0])
        P = cfg['num_procs']
        for b in range(0, len(steps), P):
            blk = steps[b:b + P]
            fins = [ps['finish'] for _, ps in blk]
            if any(f is None for f in fins):
                continue
            rounds = []
            k = 0
            while True:
                running = [ps for _, ps in blk if ps['finish'] >= k]
                if not running:
                    break
                rounds.append([bool(ps['checks'][k] <= restol) for ps in running])
                k += 1
            blocks.append((meta, maxiter, cfg['all_to_done'], len(blk), rounds, fins))
            hist[len(blk)] = hist.get(len(blk), 0) + 1
    ck.cov['residual_events_checked'] = n_events
    ck.cov['exact_runs_over_time_budget'] = budget_hits[0]
    if budget_hits[0] > nruns // 4:
        ck.violation('%d of %d exact runs exceeded the time budget (iterations no longer contract?)' % (budget_hits[0], nruns), {'over_budget': budget_hits[0]},
                     match={'kind': 'runs_over_budget'}, no_input=True)
    ck.cov['blocks_by_size'] = hist

    # ---- Coq: replay the residual histories through Model/Stopping.run_block
    L = ['From Coq Require Import List Arith Bool.', 'From PySDC Require Import Model.Stopping.', 'Import ListNotations.',
         'Definition inp (b : bool) := {| res_ok := b; e_ok := false; fdone := false; fcont := false |}.',
         'Definition blocks : list (nat * bool * nat * list (list bool)) := [']
    L.append(';\n'.join('  (%d, %s, %d, %s)' % (mx, coq_bool(atd), n, coq_list([coq_list([coq_bool(x) for x in r]) for r in rounds]))
                        for _, mx, atd, n, rounds, _ in blocks))
    L.append('].')
    L.append("Eval vm_compute in map (fun '(mx, atd, n, rs) => map (fun o => match o with Some k => Z.of_nat k | None => (-1)%Z end) "
             "(run_block mx 1 atd 0 n (map (map inp) rs))) blocks.")
    text = '\n'.join(L).replace('From Coq Require Import List Arith Bool.', 'From Coq Require Import List Arith Bool ZArith.') + '\n'
    rc, out = ck.coqc(ck.write_gen('Blocks.v', text), timeout=600)
    if rc != 0:
        ck.obligation('Blocks.v evaluates', False, out[-1500:])
        ck.violation('generated stopping cases do not compile', {'log': out[-3000:]}, match={'kind': 'gen'}, no_input=True)
        return
    res = parse_coq_value(eval_outputs(out)[0])
    nbad = 0
    for (meta, mx, atd, n, rounds, fins), r in zip(blocks, res):
        ck.traces += 1
        if list(r) != list(fins):
            nbad += 1
            ck.violation('iteration counts at which the steps of a block finished differ from the stopping model',
                         dict(meta, correspondence='Model/Stopping.run_block', rounds=rounds, observed=fins, model=list(r)),
                         match={'kind': 'stopping_correspondence'}, no_input=True)
    ck.obligation('stopping model = implementation on %d blocks' % len(blocks), nbad == 0)

    # ---- decision rule itself, with IEEE special values (nan/inf/-0.0/one ulp around restol) on the REAL check_convergence
    dc = decision_cases(rng, 4000 if thorough else 600)
    L = ['From Coq Require Import List Arith Bool.', 'From PySDC Require Import Model.Stopping.', 'Import ListNotations.',
         'Definition dcases : list (nat * nat * nat * bool * bool * bool * bool) := [',
         ';\n'.join('  (%d, %d, %d, %s, %s, %s, %s)' % ((m[0], m[1], m[2]) + tuple(coq_bool(b) for b in m[3:])) for _, m, _, _ in dc), '].',
         "Eval vm_compute in map (fun '(mx, it, sw, r, e, fd, fc) => conv mx it sw {| res_ok := r; e_ok := e; fdone := fd; fcont := fc |}) dcases."]
    rc, out = ck.coqc(ck.write_gen('Decide.v', '\n'.join(L) + '\n'), timeout=600)
    if rc != 0:
        ck.obligation('Decide.v evaluates', False, out[-1500:])
        ck.violation('generated decision cases do not compile', {'log': out[-3000:]}, match={'kind': 'gen'}, no_input=True)
        return
    model = parse_coq_value(eval_outputs(out)[0])
    nbad = 0
    kinds = {}
    for (desc, m, got, tname), want in zip(dc, model):
        ck.traces += 1
        ck.case(key=('decide',) + tuple(sorted(desc.items())), sample=desc)
        kinds[desc['residual']] = kinds.get(desc['residual'], 0) + 1
        if bool(want) != got or tname not in ('bool', 'bool_'):
            nbad += 1
            ck.violation('check_convergence decides %r (%s) but the stopping rule (Model/Stopping.conv with res_ok := residual <= restol) gives %r'
                         % (got, tname, bool(want)), dict(desc, implementation=got, model=bool(want)),
                         match={'kind': 'decision_rule', 'nan_residual': desc['residual'] == 'nan'})
    ck.cov['decision_cases_by_residual_value'] = kinds
    ck.obligation('check_convergence = Stopping.conv on %d hand-set states incl. nan/inf/ulp-neighbours of restol' % len(dc), nbad == 0)
    nb = 0
    for desc, it, r in blowup_runs():
        ck.traces += 1
        nb += 1
        if it < desc['maxiter'] and not (r <= desc['restol']):
            ck.violation('diverging float run: step declared finished after %d < maxiter iterations with residual %r which is not <= restol' % (it, r),
                         desc, match={'kind': 'unsound_stop', 'float_blowup': True})
    ck.cov['float_blowup_steps_checked'] = nb
