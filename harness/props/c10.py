"""C10 — coarse levels never change the fine fixed point (FAS consistency).

Tie (exact arithmetic, real code):
  A. the REAL BaseTransfer.restrict / prolong / prolong_f between two real levels (different node sets
     and counts, exact rational space transfer, with and without an inherited fine tau, both finter
     modes) vs the Coq model Model/Transfer.v (Qc instance TransferExec), every value compared exactly;
  B. oracle on the real outputs: coarse defect == Rcoll (x) Rs (fine defect) whenever the rows of Rcoll
     sum to one; prolongation adds exactly the interpolated coarse correction;
  C. the REAL controller_nonMPI with 2 and 3 levels is started at the exact fine collocation solution
     (computed by an independent Fraction solve): one full multilevel iteration must return it unchanged
     — exactly when Rcoll/Pcoll are the exact rational Lagrange matrices (row sums exactly one), linear
     and nonlinear (IMEX with quadratic explicit part) problems;
  D. float classes (mesh_to_mesh orders 2-8, mesh_to_mesh_fft, NoCoarse; heat/advection FD problems):
     drift of the fine collocation solution under one iteration within tolerance.
"""
import logging
from fractions import Fraction as F

import numpy as np

from harness.common import coq_list, coq_bool, zlit, parse_coq_value, eval_outputs
from harness import exact as ex
from harness import exactrun as er
from harness.props.c02 import qc, qcl, qcm, rfrac

LEVEL = 'proof'


def lagrange_matrix(dst, src):
    """exact interpolation matrix from nodes src to nodes dst (Fractions)"""
    Mx = []
    for x in dst:
        row = []
        for j, sj in enumerate(src):
            v = F(1)
            for k, sk in enumerate(src):
                if k != j:
                    v *= (x - sk) / (sj - sk)
            row.append(v)
        Mx.append(row)
    return Mx


def make_pair(rng, with_tau, exact_tables):
    from pySDC.core.base_transfer import BaseTransfer
    from pySDC.implementations.sweeper_classes.generic_implicit import generic_implicit
    Mf = rng.choice([2, 3, 3, 4]); Mc = rng.choice([m for m in (1, 2, 3, 4) if m <= Mf])
    quadf = rng.choice(['RADAU-RIGHT', 'LOBATTO', 'GAUSS']); quadc = rng.choice(['RADAU-RIGHT', 'LOBATTO', 'GAUSS'])
    if quadc == 'LOBATTO' and Mc < 2:
        quadc = 'RADAU-RIGHT'
    df = rng.choice([1, 2, 2, 4]); dc = df if rng.random() < 0.5 or df == 1 else df // 2
    dt = F(rng.randint(1, 4), rng.choice([4, 8])); t0 = rfrac(rng, -2, 2)
    lamf = [rfrac(rng, -3, 2) for _ in range(df)]; cf = [rfrac(rng, -2, 2) for _ in range(df)]
    lamc = [rfrac(rng, -3, 2) for _ in range(dc)]; cc = [rfrac(rng, -2, 2) for _ in range(dc)]
    LF = ex.make_level(generic_implicit, {'num_nodes': Mf, 'quad_type': quadf, 'QI': 'IE'}, ex.DiagProb, {'lam': lamf, 'c': cf}, dt, level_index=0)
    LG = ex.make_level(generic_implicit, {'num_nodes': Mc, 'quad_type': quadc, 'QI': 'IE'}, ex.DiagProb, {'lam': lamc, 'c': cc}, dt, level_index=1)
    finter = rng.random() < 0.4
    Rm = tuple(tuple(rfrac(rng, -1, 2, (1, 2)) for _ in range(df)) for _ in range(dc))
    Pm = tuple(tuple(rfrac(rng, -1, 2, (1, 2)) for _ in range(dc)) for _ in range(df))
    bt = BaseTransfer(LF, LG, {'finter': finter}, er.ExactSpaceTransfer, {'Rm': Rm, 'Pm': Pm})
    # exact_tables: small-rational surrogate tables (denominators <= 24) and the exact Lagrange matrices of those
    # nodes (row sums exactly one, moderate size); otherwise the exact images of the float tables (row sums ~ 1)
    small = 24 if exact_tables else None
    ex.exactify(LF, dt=dt, small=small); ex.exactify(LG, dt=dt, small=small)
    if exact_tables:
        nf = [F(x) for x in LF.sweep.coll.nodes]; nc = [F(x) for x in LG.sweep.coll.nodes]
        if Mf == Mc:
            bt.Pcoll = ex.frac_array(np.eye(Mf)); bt.Rcoll = ex.frac_array(np.eye(Mf))
        else:
            bt.Pcoll = np.array(lagrange_matrix(nf, nc), dtype=object)
            bt.Rcoll = np.array(lagrange_matrix(nc, nf), dtype=object)
    else:
        bt.Pcoll = ex.frac_array(bt.Pcoll); bt.Rcoll = ex.frac_array(bt.Rcoll)
    for L in (LF, LG):
        L.status.time = t0; L.status.unlocked = True; L.status.sweep = 1
    P = LF.prob
    for m in range(Mf + 1):
        LF.u[m] = ex.FracVec([rfrac(rng, -4, 4) for _ in range(df)])
        LF.f[m] = P.eval_f(LF.u[m], t0 if m == 0 else t0 + dt * LF.sweep.coll.nodes[m - 1])
    if with_tau:
        for m in range(Mf):
            LF.tau[m] = ex.FracVec([rfrac(rng, -2, 2) for _ in range(df)])
    meta = dict(Mf=Mf, Mc=Mc, quadf=quadf, quadc=quadc, df=df, dc=dc, finter=finter, tau=with_tau, exact_tables=exact_tables,
                dt=str(dt), t0=str(t0))
    return bt, LF, LG, (lamf, cf, lamc, cc, Rm, Pm), meta


def vecs(L, attr, rng_):
    return [list(getattr(L, attr)[m].v) for m in rng_]


def defect(L):
    sw = L.sweep; M = sw.coll.num_nodes
    ints = sw.integrate()
    out = []
    for m in range(M):
        r = ints[m] + (L.u[0] - L.u[m + 1])
        if L.tau[m] is not None:
            r = r + L.tau[m]
        out.append(list(r.v))
    return out


def part_AB(ck, rng, n):
    cases = []
    for i in range(n):
        with_tau = rng.random() < 0.5
        exact_tables = rng.random() < 0.7
        try:
            bt, LF, LG, coeffs, meta = make_pair(rng, with_tau, exact_tables)
        except Exception as e:
            ck.violation('BaseTransfer construction raised %s: %s' % (type(e).__name__, e), {}, match={'kind': 'raise-construct'})
            continue
        lamf, cf, lamc, cc, Rm, Pm = coeffs
        Mf, Mc, df, dc = meta['Mf'], meta['Mc'], meta['df'], meta['dc']
        Fu = vecs(LF, 'u', range(Mf + 1)); Ff = vecs(LF, 'f', range(Mf + 1))
        Ftau = [None] + [None if t is None else list(t.v) for t in LF.tau]
        fine_def = defect(LF)
        try:
            bt.restrict()
        except ZeroDivisionError:
            continue
        Gu = vecs(LG, 'u', range(Mc + 1)); Gf = vecs(LG, 'f', range(Mc + 1)); Gtau = [list(t.v) for t in LG.tau]
        Guold = vecs(LG, 'uold', range(1, Mc + 1))
        key = (Mf, Mc, meta['quadf'], meta['quadc'], df, dc, meta['finter'], with_tau, exact_tables)
        ck.case(key=key, nontrivial=True, sample=meta)
        # ---- oracle B1: coarse defect = Rcoll (x) Rs (fine defect) when rows sum to one
        coarse_def = defect(LG)
        R = bt.Rcoll
        for n_ in range(Mc):
            rowsum = sum(R[n_, m] for m in range(Mf))
            comb = [sum(R[n_, m] * sum(F(Rm[x][y]) * fine_def[m][y] for y in range(df)) for m in range(Mf)) for x in range(dc)]
            extra = [(1 - rowsum) * sum(F(Rm[x][y]) * Fu[0][y] for y in range(df)) for x in range(dc)]
            want = [a + b for a, b in zip(comb, extra)]
            if coarse_def[n_] != want:
                ck.violation('after restrict the coarse defect is not the restricted fine defect (coarse node %d)' % (n_ + 1),
                             dict(meta, node=n_ + 1, coarse_defect=[str(v) for v in coarse_def[n_]], expected=[str(v) for v in want]),
                             match={'kind': 'coarse_defect', 'tau': with_tau})
                break
        if Guold != Gu[1:]:
            ck.violation('uold snapshot differs from the restricted values', meta, match={'kind': 'uold'})
        # ---- arbitrary coarse work, then prolong
        P = LG.prob
        for m in range(1, Mc + 1):
            LG.u[m] = ex.FracVec([rfrac(rng, -4, 4) for _ in range(dc)])
            LG.f[m] = P.eval_f(LG.u[m], LG.time + LG.dt * LG.sweep.coll.nodes[m - 1])
        Gu_new = vecs(LG, 'u', range(Mc + 1)); Gf_new = vecs(LG, 'f', range(Mc + 1))
        (bt.prolong_f if meta['finter'] else bt.prolong)()
        Fu2 = vecs(LF, 'u', range(1, Mf + 1)); Ff2 = vecs(LF, 'f', range(1, Mf + 1))
        # ---- oracle B2: fine gets exactly the interpolated coarse correction
        Pc = bt.Pcoll
        for n_ in range(Mf):
            for x in range(df):
                want = Fu[n_ + 1][x] + sum(Pc[n_, m] * sum(F(Pm[x][y]) * (Gu_new[m + 1][y] - Gu[m + 1][y]) for y in range(dc)) for m in range(Mc))
                if Fu2[n_][x] != want:
                    ck.violation('prolongation does not add the interpolated coarse correction', dict(meta, node=n_ + 1, comp=x),
                                 match={'kind': 'prolong_correction', 'finter': meta['finter']})
                    break
        expected = sum(Gu, []) + sum(Gf, []) + sum(Gtau, []) + sum(Fu2, []) + sum(Ff2, [])
        zc = [0] * dc
        zf = [0] * df
        fields = [
            't_Mf := %d%%nat' % Mf, 't_Mc := %d%%nat' % Mc, 't_df := %d%%nat' % df, 't_dc := %d%%nat' % dc,
            't_dtf := %s' % qc(LF.params.dt), 't_dtc := %s' % qc(LG.params.dt), 't_t0 := %s' % qc(LF.time),
            't_nodes_f := %s' % qcl([0] + list(LF.sweep.coll.nodes)), 't_nodes_c := %s' % qcl([0] + list(LG.sweep.coll.nodes)),
            't_Qf := %s' % qcm(LF.sweep.coll.Qmat.tolist()), 't_Qc := %s' % qcm(LG.sweep.coll.Qmat.tolist()),
            't_Rs := %s' % qcm(Rm), 't_Ps := %s' % qcm(Pm),
            't_Rcoll := %s' % qcm([[0] * (Mf + 1)] + [[0] + list(r) for r in bt.Rcoll.tolist()]),
            't_Pcoll := %s' % qcm([[0] * (Mc + 1)] + [[0] + list(r) for r in bt.Pcoll.tolist()]),
            't_prob_f := {| p_dim := %d%%nat; p_lam := %s; p_mu := %s; p_c := %s |}' % (df, qcm([lamf]), qcm([zf]), qcm([cf])),
            't_prob_c := {| p_dim := %d%%nat; p_lam := %s; p_mu := %s; p_c := %s |}' % (dc, qcm([lamc]), qcm([zc]), qcm([cc])),
            't_Fu := %s' % qcm(Fu), 't_Ff := %s' % qcm(Ff),
            't_Ftau := %s' % coq_list(['None' if t is None else '(Some %s)' % qcl(t) for t in Ftau]),
            't_Gu_new := %s' % qcm(Gu_new), 't_Gf_new := %s' % qcm(Gf_new), 't_finter := %s' % coq_bool(meta['finter']),
        ]
        cases.append((meta, '({| %s |}, %s)' % ('; '.join(fields), qcl(expected))))
    return cases


def set_exact_lagrange(C):
    for S in C.MS:
        for key, meth in S._Step__transfer_dict.items():
            bt = meth.__self__
            nf = [F(x) for x in bt.fine.sweep.coll.nodes]; nc = [F(x) for x in bt.coarse.sweep.coll.nodes]
            if len(nf) == len(nc):
                bt.Pcoll = ex.frac_array(np.eye(len(nf))); bt.Rcoll = ex.frac_array(np.eye(len(nf)))
            else:
                bt.Pcoll = np.array(lagrange_matrix(nf, nc), dtype=object); bt.Rcoll = np.array(lagrange_matrix(nc, nf), dtype=object)


def part_C(ck, rng, n):
    """exact multilevel runs started at the fine collocation solution (loaded by a hook right after the
    predictor): one full iteration of the REAL controller (fine sweep, restrict, coarse sweeps with FAS tau,
    prolong, ...) must return it unchanged, exactly."""
    from pySDC.core.hooks import Hooks
    for i in range(n):
        kind = rng.choice(['GI', 'GI', 'IMEX'])
        nl = rng.choice([2, 2, 3])
        dim = rng.choice([1, 2])
        nn = sorted([rng.choice([2, 3, 4]) for _ in range(nl)], reverse=True)
        if rng.random() < 0.2:
            nn[-1] = 1                  # a coarse level with a single collocation node
        lam = tuple(rfrac(rng, -3, 1) for _ in range(dim)); c = tuple(rfrac(rng, -2, 2) for _ in range(dim))
        lamE = tuple(rfrac(rng, -2, 1) for _ in range(dim)); zero = tuple(F(0) for _ in range(dim))
        levels = []
        for l in range(nl):
            lv = dict(num_nodes=nn[l], quad_type='RADAU-RIGHT', dim=dim, QI=rng.choice(['IE', 'LU', 'MIN-SR-S']))
            # coarse problems may differ from the fine one (FAS must cope)
            lam_l = lam if (l == 0 or rng.random() < 0.5) else tuple(rfrac(rng, -3, 1) for _ in range(dim))
            if kind == 'GI':
                lv.update(lam=lam_l, c=c)
            else:
                lv.update(lamI=lam_l, cI=c, lamE=lamE, muE=zero, cE=c, QE='EE')
            levels.append(lv)
        dt = F(1, rng.choice([4, 8]))
        u0 = [rfrac(rng, -3, 3) for _ in range(dim)]
        holder = {}

        class Load(Hooks):
            def post_predict(self, step, level_number):
                L = step.levels[0]
                P = L.prob
                M = L.sweep.coll.num_nodes
                Q = [[L.sweep.coll.Qmat[a, b] for b in range(M + 1)] for a in range(M + 1)]
                nodes = [F(x) for x in L.sweep.coll.nodes]
                lt = [lam[x] + (lamE[x] if kind == 'IMEX' else 0) for x in range(dim)]
                ct = [c[x] * (2 if kind == 'IMEX' else 1) for x in range(dim)]
                U = [er.collocation_scalar(Q, nodes, L.dt, L.time, lt[x], ct[x], u0[x]) for x in range(dim)]
                for m in range(1, M + 1):
                    L.u[m] = ex.FracVec([U[x][m - 1] for x in range(dim)])
                    L.f[m] = P.eval_f(L.u[m], L.time + L.dt * L.sweep.coll.nodes[m - 1])
                holder['U'] = U

            def post_step(self, step, level_number):
                L = step.levels[0]
                holder['after'] = [[L.u[m].v[x] for m in range(1, L.sweep.coll.num_nodes + 1)] for x in range(dim)]
        cfg = dict(kind=kind, levels=levels, num_procs=1, maxiter=1, restol=F(-1), dt=dt, predict_type=None,
                   nsweeps=[1] + [rng.choice([1, 2]) for _ in range(nl - 2)] + [1], finter=(kind == 'GI' and rng.random() < 0.3),
                   hooks=[Load])
        try:
            C = er.build_controller(cfg)
            set_exact_lagrange(C)
            er.Recorder.log = []; er.Recorder.deep = False
            import signal
            def _al(signum, frame):
                raise er.RunBudgetExceeded()
            _old = signal.signal(signal.SIGALRM, _al); signal.setitimer(signal.ITIMER_REAL, 30)
            try:
                C.run(u0=ex.FracVec(u0), t0=F(0), Tend=dt)
            finally:
                signal.setitimer(signal.ITIMER_REAL, 0); signal.signal(signal.SIGALRM, _old)
        except (ZeroDivisionError, StopIteration):
            continue
        except er.RunBudgetExceeded:
            ck.violation('exact multilevel iteration did not finish within 30 s', dict(kind=kind, levels=nl, nodes=nn), match={'kind': 'cycle_timeout'}, no_input=True)
            continue
        ck.case(key=('cycle', kind, nl, tuple(nn), dim, cfg['finter'], str(cfg['nsweeps'])), nontrivial=True,
                sample=dict(kind=kind, levels=nl, nodes=nn, dim=dim))
        ck.traces += 1
        if holder.get('after') != holder.get('U'):
            drift = max(abs(a - b) for ra, rb in zip(holder['after'], holder['U']) for a, b in zip(ra, rb))
            ck.violation('a down-up cycle started at the fine collocation solution changed it (drift %.3e, exact arithmetic)' % float(drift),
                         dict(kind=kind, levels=nl, nodes=nn, dim=dim, dt=str(dt), finter=cfg['finter'], u0=[str(v) for v in u0], drift=float(drift)),
                         match={'kind': 'cycle_drift', 'levels': nl, 'sweeper': kind})



# ------------------------------------------------------------------------------------------------ part E
def ref_sweep(lv, u, f, tau):
    """one generic_implicit sweep in closed form (scalar problem f = lam*u + c*t), exact"""
    M, dt, Q, QI, lam, c, tn = lv['M'], lv['dt'], lv['Q'], lv['QI'], lv['lam'], lv['c'], lv['t']
    un, fn = list(u), list(f)
    for m in range(1, M + 1):
        rhs = u[0] + dt * sum((Q[m][j] - QI[m][j]) * f[j] for j in range(1, M + 1)) + (tau[m - 1] if tau else 0) \
            + dt * sum(QI[m][j] * fn[j] for j in range(1, m))
        a = dt * QI[m][m]
        un[m] = rhs if a == 0 else (rhs + a * c * tn[m]) / (1 - a * lam)
        fn[m] = lam * un[m] + c * tn[m]
    return un, fn


def ref_cycle(levels, R, P, nsweeps, u0, finter=False):
    """The multigrid-in-time iteration in explicit operator form, independent of the controller:
    spread; [restrict, mid sweeps]*, coarse sweep, [prolong, mid sweeps]*, fine sweeps. Scalar, exact."""
    nl = len(levels)
    st = []
    for lv in levels:
        st.append({'u': None, 'f': None, 'tau': None, 'uold': None})
    L0 = levels[0]
    st[0]['u'] = [u0] * (L0['M'] + 1)
    st[0]['f'] = [L0['lam'] * u0 + L0['c'] * L0['t'][m] for m in range(L0['M'] + 1)]

    def integ(lv, f):
        return [lv['dt'] * sum(lv['Q'][m][j] * f[j] for j in range(1, lv['M'] + 1)) for m in range(1, lv['M'] + 1)]

    def restrict(k):      # level k -> k+1
        F, G, Rc = levels[k], levels[k + 1], R[k]
        sF, sG = st[k], st[k + 1]
        gu = [sF['u'][0]] + [sum(Rc[n][m] * sF['u'][m + 1] for m in range(F['M'])) for n in range(G['M'])]
        gf = [G['lam'] * gu[m] + G['c'] * G['t'][m] for m in range(G['M'] + 1)]
        tF, tG = integ(F, sF['f']), integ(G, gf)
        tau = [sum(Rc[n][m] * tF[m] for m in range(F['M'])) - tG[n] for n in range(G['M'])]
        if sF['tau'] is not None:
            tau = [tau[n] + sum(Rc[n][m] * sF['tau'][m] for m in range(F['M'])) for n in range(G['M'])]
        sG.update(u=gu, f=gf, tau=tau, uold=list(gu), fold=list(gf))

    def prolong(k):       # level k+1 -> k
        F, G, Pc = levels[k], levels[k + 1], P[k]
        sF, sG = st[k], st[k + 1]
        for n in range(1, F['M'] + 1):
            sF['u'][n] = sF['u'][n] + sum(Pc[n - 1][m] * (sG['u'][m + 1] - sG['uold'][m + 1]) for m in range(G['M']))
            if finter:    # prolong_f: right-hand sides get the interpolated coarse correction, too
                sF['f'][n] = sF['f'][n] + sum(Pc[n - 1][m] * (sG['f'][m + 1] - sG['fold'][m + 1]) for m in range(G['M']))
            else:
                sF['f'][n] = F['lam'] * sF['u'][n] + F['c'] * F['t'][n]
    restrict(0)
    for l in range(1, nl - 1):
        for _ in range(nsweeps[l]):
            st[l]['u'], st[l]['f'] = ref_sweep(levels[l], st[l]['u'], st[l]['f'], st[l]['tau'])
        restrict(l)
    st[-1]['u'], st[-1]['f'] = ref_sweep(levels[-1], st[-1]['u'], st[-1]['f'], st[-1]['tau'])
    for l in range(nl - 1, 0, -1):
        prolong(l - 1)
        if l - 1 > 0:
            for _ in range(nsweeps[l - 1]):
                st[l - 1]['u'], st[l - 1]['f'] = ref_sweep(levels[l - 1], st[l - 1]['u'], st[l - 1]['f'], st[l - 1]['tau'])
    for _ in range(nsweeps[0]):
        st[0]['u'], st[0]['f'] = ref_sweep(levels[0], st[0]['u'], st[0]['f'], st[0]['tau'])
    return st


def part_E(ck, rng, n):
    """one real multilevel iteration (2-3 levels, level-dependent nsweeps / QI / problem coefficients) from the spread
    iterate equals the multigrid-in-time iteration in explicit operator form (independent exact re-implementation)"""
    mcases = []
    for i in range(n):
        nl = rng.choice([2, 3, 3, 4] if i % 7 == 0 else [2, 3, 3])
        nn = sorted([rng.choice([2, 3, 4]) for _ in range(nl)], reverse=True)
        if i % 6 == 4:
            nn[-1] = 1                  # a coarse level with a single collocation node
            if nl > 2 and rng.random() < 0.5:
                nn[-2] = 1
        nsw = [rng.choice([1, 2, 3]) for _ in range(nl - 1)] + [1]
        c = rfrac(rng, -2, 2)
        levels_cfg, lams = [], []
        # space dimensions: scalar (also checked against ref_cycle) or a vector hierarchy with halving / equal dims and the
        # rational averaging / injection space transfer of ExactSpaceTransfer
        dims = [1] * nl
        if i % 3 == 2:
            d = rng.choice([2, 4])
            dims = []
            for l in range(nl):
                dims.append(d)
                if d % 2 == 0 and rng.random() < 0.6:
                    d //= 2
        imex = (i % 5 == 3)
        for l in range(nl):
            lam = rfrac(rng, -3, 1)
            lams.append(lam)
            if dims[l] == 1:
                lamv, cv = (lam,), (c,)
            else:
                lamv, cv = tuple(rfrac(rng, -3, 1) for _ in range(dims[l])), tuple(rfrac(rng, -2, 2) for _ in range(dims[l]))
            lvc = dict(num_nodes=nn[l], quad_type='RADAU-RIGHT', dim=dims[l], QI=rng.choice(['IE', 'LU', 'MIN-SR-S', 'IEpar']))
            if imex:
                lvc.update(lamI=lamv, cI=cv, lamE=tuple(rfrac(rng, -2, 1) for _ in range(dims[l])), muE=tuple(F(0) for _ in range(dims[l])),
                           cE=tuple(rfrac(rng, -2, 2) for _ in range(dims[l])), QE='EE')
            else:
                lvc.update(lam=lamv, c=cv)
            levels_cfg.append(lvc)
        dt = F(1, rng.choice([4, 8]))
        u0 = rfrac(rng, -3, 3)
        u0v = [u0] if dims[0] == 1 else [rfrac(rng, -3, 3) for _ in range(dims[0])]
        scalar = all(d == 1 for d in dims) and not imex
        finter = (i % 4 == 1)
        cu = (i % 2 == 1)          # do_coll_update: the end point is the quadrature u0 + dt sum w f + tau[-1] on every level
        cfg = dict(kind='IMEX' if imex else 'GI', levels=levels_cfg, num_procs=1, maxiter=1, restol=F(-1), dt=dt, predict_type=None, nsweeps=nsw,
                   finter=finter, small_tables=24, do_coll_update=cu)
        try:
            C = er.build_controller(cfg)
            set_exact_lagrange(C)
            S = C.MS[0]
            lv = []
            for L in S.levels:
                M = L.sweep.coll.num_nodes
                if imex:
                    pl, pc = [list(L.prob.lamI), list(L.prob.lamE)], [list(L.prob.cI), list(L.prob.cE)]
                else:
                    pl, pc = [list(L.prob.lam)], [list(L.prob.c)]
                lv.append(dict(M=M, dt=L.params.dt, lam=pl[0][0], c=pc[0][0], pl=pl, pc=pc,
                               QE=([[L.sweep.QE[a, b] for b in range(M + 1)] for a in range(M + 1)] if imex else [[0] * (M + 1) for _ in range(M + 1)]),
                               Q=[[L.sweep.coll.Qmat[a, b] for b in range(M + 1)] for a in range(M + 1)],
                               QI=[[L.sweep.QI[a, b] for b in range(M + 1)] for a in range(M + 1)],
                               nodes=[F(0)] + [F(x) for x in L.sweep.coll.nodes],
                               t=[F(0)] + [L.params.dt * F(x) for x in L.sweep.coll.nodes]))
            R, P, RS, PS = [], [], [], []
            for k in range(nl - 1):
                bt = S._Step__transfer_dict[(S.levels[k], S.levels[k + 1])].__self__
                RS.append([list(r) for r in bt.space_transfer.Rm]); PS.append([list(r) for r in bt.space_transfer.Pm])
                R.append([[bt.Rcoll[a, b] for b in range(lv[k]['M'])] for a in range(lv[k + 1]['M'])])
                P.append([[bt.Pcoll[a, b] for b in range(lv[k + 1]['M'])] for a in range(lv[k]['M'])])
            er.Recorder.log = []; er.Recorder.deep = True
            C.run(u0=ex.FracVec(u0v), t0=F(0), Tend=dt)
            log = er.Recorder.log
            ref = ref_cycle(lv, R, P, nsw, u0, finter) if scalar else None
        except (ZeroDivisionError, StopIteration):
            continue
        # ---- FAS consistency of the END POINT (seeded C10-h): restrict the final state down the hierarchy; right after a restriction
        #      the coarse end point (with its tau correction of the whole interval when do_coll_update is set, u_M otherwise) is the
        #      space-restricted fine end point, exactly (Coq: C10_coarse_end_point_is_restricted)
        try:
            for k in range(nl - 1):
                S.transfer(source=S.levels[k], target=S.levels[k + 1])
            ends = []
            for L in S.levels:
                L.sweep.compute_end_point()
                ends.append(list(L.uend.v))
            for k in range(nl - 1):
                # hypotheses of the theorem, checked on the real objects: weights = last row of Q on both levels, last row of
                # Rcoll = unit vector of the last fine node
                hyp = (all([F(x) for x in S.levels[j].sweep.coll.weights] == [F(x) for x in lv[j]['Q'][-1][1:]] for j in (k, k + 1))
                       and [F(x) for x in R[k][-1]] == [F(0)] * (lv[k]['M'] - 1) + [F(1)])
                if not hyp:
                    ck.cov['end_point_fas_hypotheses_not_met'] = ck.cov.get('end_point_fas_hypotheses_not_met', 0) + 1
                    continue
                ck.cov['end_point_fas_checked'] = ck.cov.get('end_point_fas_checked', 0) + 1
                want = [sum((F(RS[k][a][b]) * ends[k][b] for b in range(dims[k])), F(0)) for a in range(dims[k + 1])]
                ck.traces += 1
                if ends[k + 1] != want:
                    dev = max(abs(a - b) for a, b in zip(ends[k + 1], want))
                    ck.violation('right after restriction the end point of coarse level %d is not the restricted end point of level %d (deviation %.3e, do_coll_update=%s)'
                                 % (k + 1, k, float(dev), cu),
                                 dict(levels=nl, nodes=nn, dims=dims, imex=imex, do_coll_update=cu, QI=[x['QI'] for x in levels_cfg], dt=str(dt), u0=[str(x) for x in u0v],
                                      level=k + 1, coarse_end=[str(x) for x in ends[k + 1]], restricted_fine_end=[str(x) for x in want]),
                                 match={'kind': 'end_point_fas', 'levels': nl, 'do_coll_update': cu})
                    break
        except (ZeroDivisionError, StopIteration):
            pass
        post = [e for e in log if e['cb'] == 'post_step'][0]
        ck.case(key=('mgrit', nl, tuple(nn), tuple(nsw), tuple(l['QI'] for l in levels_cfg), tuple(dims), finter, imex), nontrivial=True,
                sample=dict(levels=nl, nodes=nn, nsweeps=nsw, dims=dims, finter=finter))
        ck.traces += 1
        for l in (range(nl) if scalar else []):
            got = [v[0] for v in post['levels'][l]['u']]
            if got != ref[l]['u']:
                dev = max(abs(a - b) for a, b in zip(got, ref[l]['u']))
                ck.violation('one multilevel iteration of the controller differs from the multigrid-in-time iteration (level %d, max deviation %.3e)' % (l, float(dev)),
                             dict(levels=nl, nodes=nn, nsweeps=nsw, QI=[x['QI'] for x in levels_cfg], lam=[str(x) for x in lams], c=str(c), dt=str(dt), u0=str(u0),
                                  level=l, deviation=float(dev)),
                             match={'kind': 'iteration_matrix', 'levels': nl})
                break
        # ---- the same iteration through the Coq model Model/MultiLevel.vcycle (kernel-evaluated, exact):
        #      fine level: no pre-sweeps, nsweeps[0] post-sweeps (IT_FINE comes after IT_UP); middle levels nsweeps[l] before
        #      restricting and after prolonging; coarsest level one sweep
        def mlevel(l):
            d = lv[l]
            pre = 0 if l == 0 else (1 if l == nl - 1 else nsw[l])
            post = nsw[0] if l == 0 else (0 if l == nl - 1 else nsw[l])
            return ('{| ml_M := %d%%nat; ml_dt := %s; ml_nodes := %s; ml_Q := %s; ml_QI := %s; ml_QE := %s; '
                    'ml_prob := {| p_dim := %d%%nat; p_lam := %s; p_mu := %s; p_c := %s |}; ml_pre := %d%%nat; ml_post := %d%%nat |}'
                    % (d['M'], qc(d['dt']), qcl(d['nodes']), qcm(d['Q']), qcm(d['QI']), qcm(d['QE']), dims[l], qcm(d['pl']), qcm([[0] * dims[l]] * len(d['pl'])), qcm(d['pc']), pre, post))

        def mxfer(k):
            Mf, Mc = lv[k]['M'], lv[k + 1]['M']
            return ('{| mx_df := %d%%nat; mx_dc := %d%%nat; mx_Rs := %s; mx_Ps := %s; mx_Rcoll := %s; mx_Pcoll := %s; mx_finter := %s |}'
                    % (dims[k], dims[k + 1], qcm(RS[k]), qcm(PS[k]), qcm([[0] * (Mf + 1)] + [[0] + list(r) for r in R[k]]), qcm([[0] * (Mc + 1)] + [[0] + list(r) for r in P[k]]), coq_bool(finter)))
        pred = [e for e in log if e['cb'] == 'post_predict'][0]['levels'][0]
        def parts(fv):      # right-hand side of one node -> list of parts, each a list of components
            return fv if imex else [fv]
        expected = [x for v in post['levels'][0]['u'][1:] for x in v] + [x for fv in post['levels'][0]['f'][1:] for pt in parts(fv) for x in pt]
        mcases.append((dict(levels=nl, nodes=nn, nsweeps=nsw, dims=dims, finter=finter, imex=imex, QI=[x['QI'] for x in levels_cfg], lam=[str(x) for x in lams], c=str(c), dt=str(dt), u0=str(u0)),
                       '({| m_t0 := %s; m_imex := %s; m_fine := %s; m_rest := %s; m_u := %s; m_f := %s |}, %s)'
                       % (qc(F(0)), coq_bool(imex), mlevel(0), coq_list(['(%s, %s)' % (mxfer(k), mlevel(k + 1)) for k in range(nl - 1)]),
                          qcm(pred['u']), coq_list([qcm(parts(fv)) for fv in pred['f']]), qcl(expected))))
    return mcases


def eval_mcases(ck, mcases):
    import concurrent.futures as cf
    chunk = 2
    files = []
    for ci in range(0, len(mcases), chunk):
        body = ['From Coq Require Import List ZArith QArith Qcanon.',
                'From PySDC Require Import Model.Sweep Model.SweepExec Model.Transfer Model.TransferExec Model.MultiLevel Model.MultiLevelExec.',
                'Import ListNotations.', 'Definition cases : list (mcase * list Qc) := [', ';\n'.join(c[1] for c in mcases[ci:ci + chunk]), '].',
                'Eval vm_compute in map check_mcase cases.']
        files.append(ck.write_gen('MCases_%03d.v' % (ci // chunk), '\n'.join(body) + '\n'))
    with cf.ThreadPoolExecutor(max_workers=14) as pool:
        outs = list(pool.map(lambda f: ck.coqc(f, timeout=900), files))
    results = []
    for f, (rc, out) in zip(files, outs):
        if rc != 0:
            ck.obligation('model evaluation ' + f.split('/')[-1], False, out[-800:])
            ck.violation('generated multi-level cases do not compile/evaluate', {'file': f, 'log': out[-3000:]}, match={'kind': 'gen'}, no_input=True)
            return
        results += parse_coq_value(eval_outputs(out)[0])
    nd = 0
    for (meta, _), r in zip(mcases, results):
        ck.traces += 1
        if r != -1:
            nd += 1
            ck.violation('Model/MultiLevel.vcycle and one real multi-level iteration of controller_nonMPI differ at observable #%d (exact arithmetic)' % r,
                         dict(meta, correspondence='Model/MultiLevelExec.m_run vs controller_nonMPI it_down/it_coarse/it_up/it_fine', first_differing_observable=r),
                         match={'kind': 'vcycle_correspondence', 'levels': meta['levels']}, no_input=True)
    ck.obligation('exact correspondence Model/MultiLevel.vcycle = one real multi-level iteration on %d cases (2-4 levels)' % len(mcases), nd == 0)


def part_D(ck, rng, thorough):
    """float classes: drift of the fine collocation solution under one real multilevel iteration"""
    from pySDC.implementations.controller_classes.controller_nonMPI import controller_nonMPI
    from pySDC.implementations.problem_classes.HeatEquation_ND_FD import heatNd_unforced
    from pySDC.implementations.problem_classes.AdvectionEquation_ND_FD import advectionNd
    from pySDC.implementations.sweeper_classes.generic_implicit import generic_implicit
    from pySDC.implementations.transfer_classes.TransferMesh import mesh_to_mesh
    from pySDC.implementations.transfer_classes.TransferMesh_FFT import mesh_to_mesh_fft
    from pySDC.implementations.transfer_classes.TransferMesh_NoCoarse import mesh_to_mesh as mesh_to_mesh_nc
    from pySDC.core.hooks import Hooks
    import scipy.sparse as sp
    worst = 0.0
    configs = []
    for order in ([2, 4, 6, 8] if thorough else [2, 6]):
        configs.append(('heat', mesh_to_mesh, {'iorder': order, 'rorder': 2}, [31, 15], 'dirichlet-zero'))
        configs.append(('advection', mesh_to_mesh, {'iorder': order, 'rorder': 2, 'periodic': True}, [32, 16], 'periodic'))
    configs.append(('advdiff_fft', mesh_to_mesh_fft, {}, [32, 16], 'periodic'))
    configs.append(('heat', mesh_to_mesh_nc, {}, [31, 31], 'dirichlet-zero'))
    for name, tcls, tpar, nvars, bc in configs:
        for nodes in ([3, 2], [3, 3]):
            if name == 'advdiff_fft':
                from pySDC.implementations.problem_classes.AdvectionDiffusionEquation_1D_FFT import advectiondiffusion1d_implicit
                pcls = advectiondiffusion1d_implicit
                pp = {'nvars': nvars, 'nu': 0.05, 'c': 0.5, 'freq': 2}
            else:
                pcls = heatNd_unforced if name == 'heat' else advectionNd
                pp = {'nvars': nvars, 'bc': bc, 'freq': 2}
                if name == 'heat':
                    pp['nu'] = 0.1
                else:
                    pp['c'] = 0.5
            dt = 0.01
            desc = dict(problem_class=pcls, problem_params=pp, sweeper_class=generic_implicit,
                        sweeper_params={'num_nodes': nodes, 'quad_type': 'RADAU-RIGHT', 'QI': 'LU'},
                        level_params={'dt': dt, 'restol': -1}, step_params={'maxiter': 1},
                        space_transfer_class=tcls, space_transfer_params=tpar)
            holder = {}

            class Load(Hooks):
                def post_predict(self, step, level_number):
                    L = step.levels[0]
                    P = L.prob
                    M = L.sweep.coll.num_nodes
                    # the (linear) operator, probed column by column from the problem's own eval_f
                    n = int(np.asarray(L.u[0]).size)
                    A = np.zeros((n, n))
                    for j in range(n):
                        e = P.dtype_u(P.init, val=0.0)
                        e.ravel()[j] = 1.0
                        A[:, j] = np.asarray(P.eval_f(e, L.time)).ravel()
                    Qm = L.sweep.coll.Qmat[1:, 1:]
                    big = np.eye(M * n) - L.dt * np.kron(Qm, A)
                    rhs = np.tile(np.asarray(L.u[0]).ravel(), M)
                    U = np.linalg.solve(big, rhs).reshape(M, n)
                    for m in range(1, M + 1):
                        L.u[m][:] = U[m - 1].reshape(L.u[m].shape)
                        L.f[m] = P.eval_f(L.u[m], L.time + L.dt * L.sweep.coll.nodes[m - 1])
                    holder['U'] = U.copy()

                def post_step(self, step, level_number):
                    L = step.levels[0]
                    holder['after'] = np.array([np.asarray(L.u[m]).ravel() for m in range(1, L.sweep.coll.num_nodes + 1)])
            try:
                C = controller_nonMPI(num_procs=1, controller_params={'logger_level': 90, 'hook_class': [Load]}, description=desc)
                P0 = C.MS[0].levels[0].prob
                u0 = P0.u_exact(0.0)
                C.run(u0=u0, t0=0.0, Tend=dt)
            except Exception as e:
                ck.violation('float multilevel run raised %s: %s' % (type(e).__name__, e), {'config': [name, tcls.__module__, tpar, nvars, nodes]},
                             match={'kind': 'float-run-raise', 'transfer': tcls.__module__.split('.')[-1]})
                continue
            drift = float(np.max(np.abs(holder['after'] - holder['U'])))
            scale = float(np.max(np.abs(holder['U']))) + 1e-30
            worst = max(worst, drift / scale)
            ck.case(key=('float-cycle', name, tcls.__module__.split('.')[-1], str(tpar), tuple(nodes)), nontrivial=True, sample=None)
            ck.traces += 1
            if drift / scale > 1e-9:
                ck.violation('float multilevel iteration moves the fine collocation solution by %.3e (relative)' % (drift / scale),
                             {'problem': name, 'transfer': tcls.__module__, 'params': tpar, 'nvars': nvars, 'nodes': nodes, 'relative_drift': drift / scale},
                             match={'kind': 'float_cycle_drift', 'transfer': tcls.__module__.split('.')[-1]})
    ck.cov['float_cycle_worst_relative_drift'] = worst
    ck.cov['float_cycle_tolerance'] = 1e-9


def run(ck):
    logging.disable(logging.CRITICAL)
    rng = ck.rng
    thorough = ck.tier == 'thorough'
    ck.rule = ('A/B: seeded level pairs (node counts, quadrature types, space dims, finter, inherited tau, exact-rational vs float-image Rcoll/Pcoll); '
               'C: exact 2-3 level controller iterations started at the collocation solution; D: float transfer classes; distinct = configuration tuple')
    ck.check_props(required=['C10_coarse_defect_is_restricted_fine_defect', 'C10_coarse_end_point_is_restricted', 'C10_prolong_zero_correction',
                             'C10_two_level_cycle_fixed_point', 'C10_multilevel_cycle_fixed_point'])
    cases = part_AB(ck, rng, 1500 if thorough else 60)
    ck.log('A/B: %d real restrict/prolong cases run' % len(cases))
    chunk = 5
    import concurrent.futures as cf
    files = []
    for ci in range(0, len(cases), chunk):
        body = ['From Coq Require Import List ZArith QArith Qcanon.', 'From PySDC Require Import Model.Sweep Model.SweepExec Model.Transfer Model.TransferExec.',
                'Import ListNotations.', 'Definition cases : list (tcase * list Qc) := [', ';\n'.join(c[1] for c in cases[ci:ci + chunk]), '].',
                'Eval vm_compute in map check_tcase cases.']
        files.append(ck.write_gen('TCases_%03d.v' % (ci // chunk), '\n'.join(body) + '\n'))
    with cf.ThreadPoolExecutor(max_workers=14) as pool:
        outs = list(pool.map(lambda f: ck.coqc(f, timeout=900), files))
    results = []
    for f, (rc, out) in zip(files, outs):
        if rc != 0:
            ck.obligation('model evaluation ' + f.split('/')[-1], False, out[-800:])
            ck.violation('generated transfer cases do not compile/evaluate', {'file': f, 'log': out[-3000:]}, match={'kind': 'gen'}, no_input=True)
            return
        results += parse_coq_value(eval_outputs(out)[0])
    nd = 0
    for (meta, _), r in zip(cases, results):
        ck.traces += 1
        if r != -1:
            nd += 1
            ck.violation('model and real BaseTransfer differ at observable #%d' % r, {'correspondence': 'Model/TransferExec.t_run vs BaseTransfer', 'meta': meta, 'first_differing_observable': r},
                         match={'kind': 'correspondence'}, no_input=True)
    ck.obligation('exact correspondence model = BaseTransfer on %d restrict/prolong cases' % len(cases), nd == 0)
    ck.log('model evaluated')
    part_C(ck, rng, 1000 if thorough else 40)
    ck.log('part C done')
    mcases = part_E(ck, rng, 600 if thorough else 60)
    ck.log('part E done')
    # the kernel evaluation of the function-based model re-evaluates closures (no memoisation in the generic model): quick tier
    # evaluates the first 27 of the 60 iterations (scalar, vector-valued and 4-level ones alike), thorough all of them
    eval_mcases(ck, mcases if thorough else mcases[:27])
    ck.log('vcycle model evaluated')
    part_D(ck, rng, thorough)
    ck.log('part D done')
