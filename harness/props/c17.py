"""C17 — spectral helper matrices agree with exact polynomial / Fourier calculus.

Tie to /repo (every run):
  * every operator of ChebychevHelper / UltrasphericalHelper / FFTHelper is extracted from the live code
    (dense or sparse -> exact dyadic image of every float entry) for a set of resolutions N (thorough: 1..64),
    derivative orders 1-3, the reference interval and shifted/scaled intervals, and compared BY THE COQ KERNEL with
    the tables of the model `Model/Spectral.v` about which `Props/C17.v` proves the calculus theorems
    (zeros exactly, dyadic model values exactly where the code's float computation is exact, the rest within 2^-40);
  * the Chebyshev-Gauss grid is validated in exact dyadic arithmetic (N decreasing approximate roots of T_N) and
    `itransform` is compared with the exact value of the Chebyshev series on that grid (Coq kernel);
  * `SpectralHelper` 2-D/3-D operators are compared index by index with the Kronecker product of the 1-D ones
    (exact, Python) and small ones with the model's `kron` (Coq kernel).
Implementation-side oracle (independent of the Coq model): numpy.polynomial.chebyshev on `fractions.Fraction`
coefficient vectors (chebder, chebint, chebval, cheb2poly), Gegenbauer recurrences in Fractions, analytic Fourier
formulas; transform o itransform = id.
"""
import concurrent.futures
import itertools
import math
import warnings
from fractions import Fraction as F

import numpy as np

from harness.common import coq_list, dy_lit, zlit, q_lit, parse_coq_value, eval_outputs, coq_bool

LEVEL = 'proof'
T_EXP = -40            # kernel comparison: relative tolerance 2^-40 for entries that are not exact
INV_T_EXP = -36        # numerically inverted matrices: |d - q| <= 2^-36 (|q| + 1)
OR_TOL = F(1, 2 ** 38)  # oracle: defect relative to the sum of absolute contributions
FFT_TOL = 2.0 ** -36
MAX_PER_OP = 2        # replays written per failing (kind, operator); further failing configurations are counted

QUICK_N = [1, 2, 3, 4, 5, 6, 7, 8, 9, 12, 16, 17, 32, 33, 63, 64]


# ----------------------------------------------------------------------------------------------- helpers

def dens(M):
    if hasattr(M, 'todense'):
        return np.asarray(M.todense())
    return np.asarray(M)


def fr(x):
    return F(float(x))


def dl(x):
    x = float(x)
    return 'z' if x == 0.0 else dy_lit(x)


def rows_lit(A):
    return coq_list([coq_list([dl(x) for x in row]) for row in A])


def vec_lit(v):
    return coq_list([dl(x) for x in v])


def is_pow2(x):
    m, e = math.frexp(abs(float(x)))
    return m == 0.5


def fmat(A):
    """sparse exact image: list of rows, each a dict col -> Fraction (non-zeros only)"""
    return [{j: fr(x) for j, x in enumerate(row) if x != 0} for row in np.asarray(A, dtype=float)]


def fmv(Af, c):
    return [sum((a * c[j] for j, a in row.items()), F(0)) for row in Af]


def fmm(Af, Bf):
    """exact product and the entrywise sum of absolute contributions (rounding scale)"""
    out, sc = [], []
    for row in Af:
        acc, ab = {}, {}
        for m, a in row.items():
            for j, b in Bf[m].items():
                acc[j] = acc.get(j, F(0)) + a * b
                ab[j] = ab.get(j, F(0)) + abs(a * b)
        out.append(acc)
        sc.append(ab)
    return out, sc


def padd(p, q):
    n = max(len(p), len(q))
    return [(p[i] if i < len(p) else 0) + (q[i] if i < len(q) else 0) for i in range(n)]


def pder(p, k=1):
    p = list(p)
    for _ in range(k):
        p = [i * p[i] for i in range(1, len(p))]
    return p


def gegenbauer_table(lam, n):
    """monomial coefficient lists (Fractions) of C^(lam)_0..C^(lam)_{n-1}; lam = 0 gives Chebyshev T"""
    if lam == 0:
        P = [[F(1)], [F(0), F(1)]]
        for k in range(2, n):
            a = [F(0)] + [2 * x for x in P[k - 1]]
            P.append(padd(a, [-x for x in P[k - 2]]))
        return P[:n]
    P = [[F(1)], [F(0), F(2 * lam)]]
    for k in range(2, n):
        a = [F(0)] + [F(2 * (k + lam - 1), k) * x for x in P[k - 1]]
        P.append(padd(a, [-F(k + 2 * lam - 2, k) * x for x in P[k - 2]]))
    return P[:n]


class Mono:
    """monomial expansions in a basis together with the sum of absolute contributions (the rounding scale)"""

    def __init__(self, nmax):
        self.tab = {lam: gegenbauer_table(lam, nmax) for lam in range(4)}

    def expand(self, lam, y):
        val, scale = [], []
        for k, yk in enumerate(y):
            if yk == 0:
                continue
            b = self.tab[lam][k]
            val = padd(val, [yk * x for x in b])
            scale = padd(scale, [abs(yk * x) for x in b])
        return val, scale


def poly_defect(a, sa, b, sb):
    """max_m |a_m - b_m| / (sa_m + sb_m)"""
    n = max(len(a), len(b))
    worst = F(0)
    for m in range(n):
        am = a[m] if m < len(a) else F(0)
        bm = b[m] if m < len(b) else F(0)
        s = (sa[m] if m < len(sa) else F(0)) + (sb[m] if m < len(sb) else F(0))
        d = abs(am - bm)
        if d == 0:
            continue
        if s == 0:
            return F(1)
        worst = max(worst, d / s)
    return worst


def vec_defect(a, b, scale):
    worst = F(0)
    for x, y, s in zip(a, b, scale):
        d = abs(x - y)
        if d == 0:
            continue
        if s == 0:
            return F(1)
        worst = max(worst, d / s)
    return worst


def absmv(Af, c):
    return [sum((abs(a * c[j]) for j, a in row.items()), F(0)) for row in Af]


# ----------------------------------------------------------------------------------------------- the check

class Ctx:
    def __init__(self, ck):
        self.ck = ck
        self.cases = {}      # N -> list of (label, coq expression)
        self.oracle_bad = set()
        self.worst = {}
        self.rejected = []
        self.thorough = ck.tier == 'thorough'
        self.shape_reported = set()
        self.fail_count = {}

    def add(self, N, label, expr):
        self.cases.setdefault(N, []).append((label, expr))

    def slack(self, name, val):
        self.worst[name] = max(self.worst.get(name, 0.0), float(val))

    def oracle(self, ok, label, what, replay, kind):
        """an implementation-side oracle failure: a violation with the failing input; at most MAX_PER_OP replays per
        (kind, operator) are written (the first ones: smallest N), the rest are counted in the evidence"""
        if not ok:
            self.oracle_bad.add(label)
            key = (kind, str(label[0]))
            self.fail_count[key] = self.fail_count.get(key, 0) + 1
            if self.fail_count[key] <= MAX_PER_OP:
                self.ck.violation(what, replay, match={'kind': kind, 'op': label[0]})


def rand_coeffs(rng, N):
    return [F(rng.randint(-64, 64), 8) for _ in range(N)]


def interval_list(rng, N, thorough):
    x0 = round(rng.uniform(-4, 4), 3)
    x1 = x0 + round(rng.uniform(0.3, 6), 3)
    out = [(-1.0, 1.0), (0.0, 1.0), (x0, x1)]
    if not thorough and N > 33:
        out = [(-1.0, 1.0), (x0, x1)]
    if thorough:
        out.append((-1.0, 0.789))
        out.append((float(rng.randint(-3, 3)), float(rng.randint(4, 9))))
    return out


def cheb_cases(cx, mono, N, x0, x1, rng, ref_mats):
    """ChebychevHelper + UltrasphericalHelper on [x0, x1]"""
    from numpy.polynomial import chebyshev as Ch
    from pySDC.helpers.spectral_helper import ChebychevHelper, UltrasphericalHelper
    ck = cx.ck
    ref = (x0, x1) == (-1.0, 1.0)
    iv = (x0, x1)
    h = ChebychevHelper(N, x0=x0, x1=x1)
    u = UltrasphericalHelper(N, x0=x0, x1=x1)
    fac, off, L = float(h.lin_trf_fac), float(h.lin_trf_off), float(h.L)
    facF, LF = fr(fac), fr(L)
    # state: the affine map is the one of [x0, x1] (correctly rounded)
    if fac != float((fr(x1) - fr(x0)) / 2) or off != float((fr(x1) + fr(x0)) / 2) or L != float(fr(x1) - fr(x0)):
        cx.oracle(False, ('affine', N, iv), 'lin_trf_fac/off/L are not the affine map of [x0, x1]',
                  {'N': N, 'x0': x0, 'x1': x1, 'fac': fac, 'off': off, 'L': L}, 'affine')
    ex = coq_bool(is_pow2(fac))
    facq, Lq = q_lit(facF), q_lit(LF)
    c = rand_coeffs(rng, N)
    cobj = np.array(c, dtype=object)
    mats = {}

    def get(label, f):
        try:
            with warnings.catch_warnings():
                warnings.simplefilter('ignore')
                M = dens(f())
        except Exception as e:   # the code rejects this configuration (recorded; N = 1 for the eye(N, k=2) based ones)
            cx.rejected.append((label, N, iv, type(e).__name__))
            return None
        if np.iscomplexobj(M):
            if np.any(M.imag != 0):
                cx.oracle(False, (label, N, iv), '%s has a non-zero imaginary part' % label, {'N': N, 'interval': iv}, 'complex')
            M = M.real
        M = np.asarray(M, dtype=float)
        want = (N, N) if M.ndim == 2 else (N,)
        if M.shape != want:
            cx.oracle_bad.add((label, N, iv))
            if (label, N) not in cx.shape_reported:     # one report per (operator, N), not per interval
                cx.shape_reported.add((label, N))
                degenerate = label.startswith('uD') and N < int(label[2:])
                ck.violation('%s has shape %s instead of %s for N=%d' % (label, M.shape, want, N),
                             {'call': '%s(N=%d, x0=%r, x1=%r).get_differentiation_matrix(p=%s)' % ('UltrasphericalHelper', N, x0, x1, label[2:])
                              if label.startswith('uD') else label,
                              'operator': label, 'N': N, 'interval': iv, 'shape': list(M.shape), 'expected_shape': list(want)},
                             match={'kind': 'shape', 'op': label.rstrip('0123456789'), 'N_lt_p': bool(degenerate)})
            return None
        mats[label] = M
        return M

    def case(label, model, ex_=ex, inv=False):
        M = mats.get(label)
        if M is None:
            return
        lab = (label, N, iv)
        if M.ndim == 2:
            if inv:
                cx.add(N, lab, 'mat_cmp_inv TI %s (%s)' % (rows_lit(M), model))
            else:
                cx.add(N, lab, 'mat_cmp %s T %s (%s)' % (ex_, rows_lit(M), model))
        else:
            cx.add(N, lab, 'vec_cmp %s T %s (%s)' % (ex_, vec_lit(M), model))

    def same_as_ref(label):
        """operators that do not carry the interval map must be identical to the reference-interval ones"""
        M = mats.get(label)
        R = ref_mats.get(label)
        if M is None or R is None:
            return
        ck.evaluations += 1
        if not np.array_equal(M, R):
            cx.oracle(False, (label, N, iv), '%s depends on the interval although it carries no map' % label,
                      {'operator': label, 'N': N, 'interval': iv}, 'interval-dependence')

    # ------------------------------------------------------------------ extraction
    for p in (1, 2, 3):
        get('D%d' % p, lambda p=p: h.get_differentiation_matrix(p))
        get('uD%d' % p, lambda p=p: u.get_differentiation_matrix(p))
    get('ST', lambda: h.get_integration_matrix())
    get('wT', lambda: h.get_integration_weights())
    get('uSint', lambda: u.get_integration_matrix())
    nomap = ['T2U', 'U2T', 'D2T', 'T2D', 'Drec', 'integ', 'dir-1', 'dir0', 'dir1', 'neu-1', 'neu1', 'norm',
             'S0', 'S1', 'S2', 'bc01', 'bc02', 'bc03', 'bc12', 'bc13', 'bc23', 'bc10', 'bc20', 'bc30', 'bc21', 'bc31']
    for name in ('T2U', 'U2T', 'D2T', 'T2D'):
        get(name, lambda name=name: h.get_conv(name))
    get('Drec', lambda: h.get_Dirichlet_recombination_matrix())
    get('integ', lambda: h.get_BC('integral'))
    for x in (-1, 0, 1):
        get('dir%d' % x, lambda x=x: h.get_BC('dirichlet', x=x))
    for x in (-1, 1):
        get('neu%d' % x, lambda x=x: h.get_BC('neumann', x=x))
    get('norm', lambda: h.get_norm())
    for lam in (0, 1, 2):
        get('S%d' % lam, lambda lam=lam: u.get_S(lam))
    for a, b in ((0, 1), (0, 2), (0, 3), (1, 2), (1, 3), (2, 3), (1, 0), (2, 0), (3, 0), (2, 1), (3, 1)):
        get('bc%d%d' % (a, b), lambda a=a, b=b: u.get_basis_change_matrix(p_in=a, p_out=b))

    # ------------------------------------------------------------------ kernel comparison with the model
    for p in (1, 2, 3):
        case('D%d' % p, 'DTp_tab %d %s %d' % (N, facq, p))
        case('uD%d' % p, 'tab %d (UD %s %d)' % (N, facq, p))
    case('ST', 'tab %d (ST %s)' % (N, facq), ex_=coq_bool(ref))
    case('wT', 'tabv %d (wT %s)' % (N, Lq), ex_=coq_bool(ref))
    case('uSint', 'tab %d (USint %s)' % (N, facq))
    if ref:
        case('T2U', 'tab %d T2U' % N, 'true')
        case('U2T', 'tab %d U2T' % N, 'true')
        case('D2T', 'tab %d D2T' % N, 'true')
        case('T2D', 'tab %d T2D' % N, 'true')
        case('Drec', 'tab %d D2T' % N, 'true')
        case('integ', 'tabv %d integ_row' % N, 'true')
        case('dir-1', 'tabv %d (dir_row Bm1)' % N, 'true')
        case('dir0', 'tabv %d (dir_row B0)' % N, 'true')
        case('dir1', 'tabv %d (dir_row Bp1)' % N, 'true')
        case('neu-1', 'tabv %d (neu_row Bm1)' % N, 'true')
        case('neu1', 'tabv %d (neu_row Bp1)' % N, 'true')
        case('norm', 'tabv %d (normT %d)' % (N, N), 'true')
        for lam in (0, 1, 2):
            case('S%d' % lam, 'tab %d (US %d)' % (N, lam), 'true')
        for a, b in ((0, 1), (0, 2), (0, 3), (1, 2), (1, 3), (2, 3)):
            case('bc%d%d' % (a, b), 'Ubc_tab %d %d %d' % (N, a, b - a), coq_bool(b - a == 1))
        for a, b in ((1, 0), (2, 0), (3, 0), (2, 1), (3, 1)):
            case('bc%d%d' % (a, b), 'Ubc_inv_tab %d %d %d' % (N, b, a - b), inv=True)
        ref_mats.update(mats)
    else:
        for name in nomap:
            same_as_ref(name)

    # ------------------------------------------------------------------ implementation-side oracle (exact calculus)
    Fm = {k: fmat(v) if v.ndim == 2 else [fr(x) for x in v] for k, v in mats.items()}
    polyT, scaleT = mono.expand(0, c)

    def O(label, defect, what, extra=None):
        cx.slack('oracle:' + label.rstrip('0123456789-'), defect)
        ck.evaluations += 1
        if defect > OR_TOL:
            rp = {'operator': label, 'N': N, 'interval': iv, 'coefficients': [str(x) for x in c], 'relative_defect': float(defect)}
            rp.update(extra or {})
            cx.oracle(False, (label, N, iv), what + ' (N=%d, interval %s, defect %.3e)' % (N, iv, float(defect)), rp, 'oracle')

    for p in (1, 2, 3):
        # dense T differentiation: coefficients of the p-th derivative, chain rule 1/fac^p
        if 'D%d' % p in Fm:
            y = fmv(Fm['D%d' % p], c)
            exact = list(Ch.chebder(cobj, p, scl=1 / facF)) if N > p else []
            exact = exact + [F(0)] * (N - len(exact))
            sc = [s + abs(e) for s, e in zip(absmv(Fm['D%d' % p], c), exact)]
            O('D%d' % p, vec_defect(y, exact, sc), 'T differentiation matrix of order %d does not give the coefficients of the derivative' % p)
        # ultraspherical: sum_k (D_p c)_k C^(p)_k  =  d^p/dx^p sum_j c_j T_j / fac^p
        if 'uD%d' % p in Fm:
            y = fmv(Fm['uD%d' % p], c)
            a, sa = mono.expand(p, y)
            b = [x / facF ** p for x in pder(polyT, p)]
            sb = [x / facF ** p for x in pder(scaleT, p)]
            O('uD%d' % p, poly_defect(a, sa, b, sb), 'ultraspherical D_%d c is not the p-th derivative in the C^(%d) basis' % (p, p))
    # basis conversions: same polynomial in the new basis
    if 'T2U' in Fm:
        a, sa = mono.expand(1, fmv(Fm['T2U'], c))
        O('T2U', poly_defect(a, sa, polyT, scaleT), 'T2U c does not represent the same polynomial in the U basis')
    polyU, scaleU = mono.expand(1, c)
    if 'U2T' in Fm:
        a, sa = mono.expand(0, fmv(Fm['U2T'], c))
        O('U2T', poly_defect(a, sa, polyU, scaleU), 'U2T c does not represent the same polynomial in the T basis')
    for lam in (0, 1, 2):
        if 'S%d' % lam in Fm:
            src, ssrc = mono.expand(lam, c)
            a, sa = mono.expand(lam + 1, fmv(Fm['S%d' % lam], c))
            O('S%d' % lam, poly_defect(a, sa, src, ssrc), 'S_%d c does not represent the same polynomial in the C^(%d) basis' % (lam, lam + 1))
    for a_, b_ in ((0, 1), (0, 2), (0, 3), (1, 2), (1, 3), (2, 3), (1, 0), (2, 0), (3, 0), (2, 1), (3, 1)):
        nm = 'bc%d%d' % (a_, b_)
        if nm in Fm:
            src, ssrc = mono.expand(a_, c)
            a, sa = mono.expand(b_, fmv(Fm[nm], c))
            O(nm, poly_defect(a, sa, src, ssrc), 'basis change %d->%d does not preserve the polynomial' % (a_, b_))
    # D2T / Dirichlet recombination: basis functions T_k - T_{k-2} vanish at both ends for k >= 2
    for nm in ('D2T', 'Drec'):
        if nm in Fm and N >= 3:
            cc = [F(0), F(0)] + c[2:]
            t = fmv(Fm[nm], cc)
            v1 = sum(t)
            vm1 = sum(x * (-1) ** k for k, x in enumerate(t))
            sc = sum(abs(x) for x in t) or F(1)
            O(nm, max(abs(v1), abs(vm1)) / sc, 'Dirichlet recombination basis does not vanish at the boundary')
    for pair in (('T2U', 'U2T'), ('D2T', 'T2D'), ('bc01', 'bc10'), ('bc02', 'bc20'), ('bc03', 'bc30'), ('bc12', 'bc21'), ('bc13', 'bc31')):
        if pair[0] in Fm and pair[1] in Fm:
            P, Ps = fmm(Fm[pair[1]], Fm[pair[0]])
            worst = F(0)
            for k, row in enumerate(P):
                if k not in row:
                    worst = F(1)
                for j, x in row.items():
                    worst = max(worst, abs(x - (1 if j == k else 0)) / max(Ps[k][j], F(1)))
            O(pair[1], worst, '%s is not the inverse of %s' % (pair[1], pair[0]))
    # sparse ultraspherical = dense Chebyshev after conversion
    for p in (1, 2, 3):
        if 'bc0%d' % p in Fm and 'D%d' % p in Fm and 'uD%d' % p in Fm:
            P, Ps = fmm(Fm['bc0%d' % p], Fm['D%d' % p])
            Q = Fm['uD%d' % p]
            worst = F(0)
            for k in range(N):
                for j in set(P[k]) | set(Q[k]):
                    x, y = P[k].get(j, F(0)), Q[k].get(j, F(0))
                    if x != y:
                        worst = max(worst, abs(x - y) / (Ps[k].get(j, F(0)) + abs(y)))
            O('ultra-dense%d' % p, worst, 'S_%d...S_0 D_T^%d differs from the ultraspherical D_%d' % (p - 1, p, p))
    # integration weights: sum w_k c_k = integral over [x0, x1]
    if 'wT' in Fm:
        I = Ch.chebint(cobj)
        exact = facF * (Ch.chebval(F(1), I) - Ch.chebval(F(-1), I))
        got = sum(w * x for w, x in zip(Fm['wT'], c))
        sc = sum(abs(w * x) for w, x in zip(Fm['wT'], c)) + abs(exact)
        O('wT', abs(got - exact) / sc if sc else F(0), 'integration weights do not integrate the series over [x0, x1]')
    # ultraspherical integration (carries the map): antiderivative vanishing at the left end
    if 'uSint' in Fm and N >= 2:
        cc = c[:-1] + [F(0)]
        y = fmv(Fm['uSint'], cc)
        y0 = float_const = None
        yh = np.array([float(x) for x in y])
        y0 = fr(u.get_integration_constant(yh, axis=-1))
        exact = [facF * x for x in Ch.chebint(np.array(cc, dtype=object), lbnd=-1)][:N]
        sc = [s + abs(e) for s, e in zip(absmv(Fm['uSint'], cc), exact)]
        O('uSint', vec_defect(y[1:], exact[1:], sc[1:]), 'ultraspherical integration matrix is not the antiderivative')
        s0 = sum(abs(x) for x in y[1:]) + abs(exact[0])
        O('uSconst', abs(y0 - exact[0]) / s0 if s0 else F(0), 'integration constant does not make the antiderivative vanish at the left boundary')
    if ref:
        # reference-interval only operators
        if 'ST' in Fm and N >= 2:
            cc = c[:-1] + [F(0)]
            y = fmv(Fm['ST'], cc)
            exact = list(Ch.chebint(np.array(cc, dtype=object), lbnd=0))[:N]
            sc = [s + abs(e) for s, e in zip(absmv(Fm['ST'], cc), exact)]
            O('ST', vec_defect(y, exact, sc), 'T integration matrix is not the antiderivative from 0')
            if 'D1' in Fm:
                P, Ps = fmm(Fm['D1'], Fm['ST'])
                worst = F(0)
                for k in range(N):
                    for j in range(N - 1):
                        worst = max(worst, abs(P[k].get(j, F(0)) - (1 if j == k else 0)) / max(Ps[k].get(j, F(0)), F(1)))
                O('D*S', worst, 'D S differs from the identity on polynomials of degree < N-1')
        if 'integ' in Fm:
            I = Ch.chebint(cobj)
            exact = Ch.chebval(F(1), I) - Ch.chebval(F(-1), I)
            got = sum(w * x for w, x in zip(Fm['integ'], c))
            sc = sum(abs(w * x) for w, x in zip(Fm['integ'], c)) + abs(exact)
            O('integ', abs(got - exact) / sc if sc else F(0), 'integral BC row is not the integral over [-1, 1]')
        for x in (-1, 0, 1):
            if 'dir%d' % x in Fm:
                got = sum(w * y for w, y in zip(Fm['dir%d' % x], c))
                exact = Ch.chebval(F(x), cobj)
                sc = sum(abs(y) for y in c) or F(1)
                O('dir%d' % x, abs(got - exact) / sc, 'Dirichlet row at %d is not point evaluation' % x)
        for x in (-1, 1):
            if 'neu%d' % x in Fm:
                got = sum(w * y for w, y in zip(Fm['neu%d' % x], c))
                exact = Ch.chebval(F(x), Ch.chebder(cobj)) if N > 1 else F(0)
                sc = sum(abs(w * y) for w, y in zip(Fm['neu%d' % x], c)) + abs(exact)
                O('neu%d' % x, abs(got - exact) / sc if sc else F(0), 'Neumann row at %d is not the derivative at the boundary' % x)

    # ------------------------------------------------------------------ grid and transforms
    x = np.asarray(h.get_1dgrid(), dtype=float)
    xh = (x - off) / fac          # float un-mapping; the kernel check evaluates T_k exactly at these dyadic points
    amp = 1 + abs(off) / fac
    tol_grid = int(math.ceil(N * N * amp))          # * 2^-46
    cd = [F(rng.randint(-64, 64), 8) for _ in range(N)]
    cf = np.array([float(y) for y in cd])
    uu = np.asarray(h.itransform(cf.copy()), dtype=float)
    sabs = float(sum(abs(y) for y in cd)) or 1.0
    tol_ev = int(math.ceil(N * N * amp * sabs))     # * 2^-44
    # exact arithmetic on T_k(x) costs ~N^3 bit operations per point: in the quick tier large N are validated on the
    # reference interval only and itransform on a seeded sample of grid points
    full = cx.thorough or N <= 33
    if full or ref:
        cx.add(N, ('grid', N, iv), 'grid_cmp (Dy %d (-46)) %d %s' % (tol_grid, N, vec_lit(xh)))
    pts = list(range(N)) if full else sorted({0, N - 1} | set(rng.sample(range(N), 6)))
    cx.add(N, ('itransform', N, iv), 'eval_cmp (Dy %d (-44)) %s %s %s' % (tol_ev, vec_lit(cf), vec_lit(xh[pts]), vec_lit(uu[pts])))
    back = np.asarray(h.transform(uu.copy()), dtype=float)
    err = float(np.max(np.abs(back - cf))) / sabs
    cx.slack('transform-roundtrip', err)
    ck.evaluations += 1
    if not err <= 2.0 ** -40 * N:
        cx.oracle(False, ('transform', N, iv), 'transform(itransform(c)) != c (N=%d, error %.3e)' % (N, err),
                  {'N': N, 'interval': iv, 'coefficients': cf.tolist(), 'back': back.tolist()}, 'transform')
    # the 1-D helper applied along several axes at once (axes=None: all axes of the array): transform and itransform must
    # be the composition of the single-axis ones and mutually inverse (fix 0cd7390: itransform kept only the last
    # axis' normalisation), and the ultraspherical integration constant must act along the named axis of an N-D
    # array (fix 67be555: it raised for every multi-dimensional input)
    if N <= 9:
        import random as _random
        rng2 = _random.Random('C17-multiaxis:%d:%d:%r' % (ck.seed, N, iv))   # own stream: the main stream is left as it was
        for ndim in (2, 3):
            shp = (N,) * ndim
            C = np.array([float(F(rng2.randint(-64, 64), 8)) for _ in range(N ** ndim)]).reshape(shp)
            sC = float(np.sum(np.abs(C))) or 1.0
            ck.evaluations += 1
            try:
                U_all = np.asarray(h.itransform(C.copy()), dtype=float)
                U_seq = C.copy()
                for ax in range(ndim):
                    U_seq = np.asarray(h.itransform(U_seq, axes=(ax,)), dtype=float)
                B_all = np.asarray(h.transform(U_all.copy()), dtype=float)
                e_seq = float(np.max(np.abs(U_all - U_seq))) / sC
                e_rt = float(np.max(np.abs(B_all - C))) / sC
            except Exception as ex:
                e_seq = e_rt = float('inf')
                U_all = B_all = np.zeros(0)
            cx.slack('transform-multiaxis', max(e_seq, e_rt))
            if not max(e_seq, e_rt) <= 2.0 ** -40 * N * ndim:
                cx.oracle(False, ('transform-multiaxis', N, iv), 'ChebychevHelper(%d) on a %d-D array over all axes: itransform is not the composition of the '
                          'single-axis inverse transforms / transform(itransform(c)) != c (errors %.3e, %.3e)' % (N, ndim, e_seq, e_rt),
                          {'N': N, 'ndim': ndim, 'interval': iv, 'coefficients': C.tolist(), 'itransform': U_all.tolist(), 'back': B_all.tolist()}, 'transform')
            ck.case(key=('transform-multiaxis', N, ndim, iv), nontrivial=N >= 2)
        if N >= 2:
            for shp, ax in (((3, N), -1), ((N, 3), 0), ((2, N, 2), 1)):
                Y = np.array([float(F(rng2.randint(-64, 64), 8)) for _ in range(int(np.prod(shp)))]).reshape(shp)
                ck.evaluations += 1
                Ym = np.moveaxis(Y, ax, -1)
                want = np.array([float(u.get_integration_constant(row.copy(), axis=-1)) for row in Ym.reshape(-1, N)]).reshape(Ym.shape[:-1])
                try:
                    got = np.asarray(u.get_integration_constant(Y.copy(), axis=ax), dtype=float)
                    bad = got.shape != want.shape or not np.array_equal(got, want)
                    gl = got.tolist()
                except Exception as ex:
                    bad, gl = True, '%s: %s' % (type(ex).__name__, str(ex)[:200])
                if bad:
                    cx.oracle(False, ('uSconst-nd', N, iv), 'get_integration_constant on an array of shape %s along axis %d is not the 1-D constant of every line' % (shp, ax),
                              {'N': N, 'shape': list(shp), 'axis': ax, 'interval': iv, 'u_hat': Y.tolist(), 'got': gl, 'want': want.tolist()}, 'integration-constant')
                ck.case(key=('uSconst-nd', N, shp, ax, iv), nontrivial=True)
    # independent oracle for itransform and the grid: numpy's chebval at the analytic nodes
    xe = np.cos(np.pi / N * (np.arange(N) + 0.5))
    gerr = float(np.max(np.abs(x - (fac * xe + off)))) / (abs(off) + fac)
    cx.slack('grid-vs-cos', gerr)
    verr = float(np.max(np.abs(uu - Ch.chebval(xe, cf)))) / sabs
    cx.slack('itransform-vs-chebval', verr)
    ck.evaluations += 2
    if not gerr <= 2.0 ** -46:
        cx.oracle(False, ('grid', N, iv), 'get_1dgrid is not the mapped Chebyshev-Gauss grid', {'N': N, 'interval': iv, 'grid': x.tolist()}, 'grid')
    if not verr <= 2.0 ** -40 * N:
        cx.oracle(False, ('itransform', N, iv), 'itransform(c) is not the Chebyshev series on the grid (N=%d, error %.3e)' % (N, verr),
                  {'N': N, 'interval': iv, 'coefficients': cf.tolist(), 'values': uu.tolist()}, 'transform')
    for label in list(mats) + ['grid', 'itransform']:
        ck.case(key=(label, N, iv), nontrivial=N >= 2,
                sample={'operator': label, 'N': N, 'interval': iv} if label in ('D2', 'bc02') and N == 5 else None)
    ck.traces += len(mats) + 2


def fft_cases(cx, N, x0, x1, rng):
    from pySDC.helpers.spectral_helper import FFTHelper
    ck = cx.ck
    iv = (x0, x1)
    f = FFTHelper(N, x0=x0, x1=x1)
    L = float(f.L)
    g = 2 * np.pi / L
    if L != float(fr(x1) - fr(x0)):
        cx.oracle(False, ('fft-L', N, iv), 'FFTHelper.L is not x1 - x0', {'N': N, 'interval': iv, 'L': L}, 'affine')
    gq, Lq = q_lit(fr(g)), q_lit(fr(L))
    k = np.asarray(f.get_wavenumbers(), dtype=float)
    kint = np.fft.fftfreq(N, 1.0 / N)
    lab = lambda s: (s, N, iv)
    cx.add(N, lab('fft-k'), 'vec_cmp false T %s (map (fun j => inject_Z (wavenum %d j) * %s) (seq 0 %d))' % (vec_lit(k), N, gq, N))
    ck.evaluations += 1
    if not np.allclose(k, kint * 2 * np.pi / L, rtol=FFT_TOL, atol=0):
        cx.oracle(False, lab('fft-k'), 'wavenumbers are not 2 pi / L * fftfreq', {'N': N, 'interval': iv, 'k': k.tolist()}, 'fft')
    n = 0
    for p in (1, 2, 3):
        D = f.get_differentiation_matrix(p)
        Dd = dens(D)
        d = Dd.diagonal()
        ck.evaluations += 1
        if Dd.shape != (N, N) or np.count_nonzero(Dd - np.diag(d)):
            cx.oracle(False, lab('fft-D%d' % p), 'Fourier differentiation matrix is not diagonal N x N', {'N': N, 'interval': iv, 'p': p}, 'fft')
            continue
        cx.add(N, lab('fft-D%d' % p), 'vec_cmp false T %s (map (fun j => fst (FD %d %s %d j)) (seq 0 %d))' % (vec_lit(d.real), N, gq, p, N))
        cx.add(N, lab('fft-D%d-im' % p), 'vec_cmp false T %s (map (fun j => snd (FD %d %s %d j)) (seq 0 %d))' % (vec_lit(d.imag), N, gq, p, N))
        exact = (1j * kint * 2 * np.pi / L) ** p
        err = np.max(np.abs(d - exact) / np.maximum(np.abs(exact), 1e-300)) if N > 1 else 0.0
        cx.slack('fft-D', err)
        if not err <= FFT_TOL or d[0] != 0:
            cx.oracle(False, lab('fft-D%d' % p), 'Fourier differentiation diagonal is not (i k)^p', {'N': N, 'interval': iv, 'p': p, 'diag': [str(z) for z in d]}, 'fft')
        n += 1
    for p in (1, 2):
        S = dens(f.get_integration_matrix(p))
        d = S.diagonal()
        ck.evaluations += 1
        if S.shape != (N, N) or np.count_nonzero(S - np.diag(d)):
            cx.oracle(False, lab('fft-S%d' % p), 'Fourier integration matrix is not diagonal N x N', {'N': N, 'interval': iv, 'p': p}, 'fft')
            continue
        cx.add(N, lab('fft-S%d' % p), 'vec_cmp false T %s (map (fun j => fst (FS %d %s %s %d j)) (seq 0 %d))' % (vec_lit(d.real), N, gq, Lq, p, N))
        cx.add(N, lab('fft-S%d-im' % p), 'vec_cmp false T %s (map (fun j => snd (FS %d %s %s %d j)) (seq 0 %d))' % (vec_lit(d.imag), N, gq, Lq, p, N))
        # integration inverts differentiation on every non-constant mode
        Dp = dens(f.get_differentiation_matrix(p)).diagonal()
        if N > 1:
            err = np.max(np.abs(d[1:] * Dp[1:] - 1))
            cx.slack('fft-S*D', err)
            if not err <= FFT_TOL:
                cx.oracle(False, lab('fft-S%d' % p), 'Fourier integration is not the inverse of differentiation on non-constant modes',
                          {'N': N, 'interval': iv, 'p': p}, 'fft')
        n += 1
    w = np.asarray(f.get_integration_weights(), dtype=float)
    wi = np.asarray(f.get_BC('integral'), dtype=float)
    cx.add(N, lab('fft-w'), 'vec_cmp false T %s (tabv %d (wF %d %s))' % (vec_lit(w), N, N, Lq))
    cx.add(N, lab('fft-integ'), 'vec_cmp false T %s (tabv %d (wF %d %s))' % (vec_lit(wi), N, N, Lq))
    if N % 2 == 0:
        ny = int(f.get_Nyquist_mode_index())
        row = np.asarray(f.get_BC('nyquist'), dtype=float)
        cx.add(N, lab('fft-nyquist'), 'vec_cmp true T %s (tabv %d (fun j => if Nat.eqb j (nyquist %d) then 1 else 0))' % (vec_lit(row), N, N))
        ck.evaluations += 1
        if ny != N // 2 or kint[ny] != -N // 2:
            cx.oracle(False, lab('fft-nyquist'), 'Nyquist index wrong', {'N': N, 'index': ny}, 'fft')
    # oracle: transforms and differentiation on sampled trigonometric functions (analytic formulas)
    x = np.asarray(f.get_1dgrid(), dtype=float)
    ck.evaluations += 1
    if not np.allclose(x, x0 + L * np.arange(N) / N, rtol=2.0 ** -46, atol=2.0 ** -46 * (abs(x0) + L)):
        cx.oracle(False, lab('fft-grid'), 'Fourier grid is not equispaced on [x0, x1)', {'N': N, 'interval': iv, 'grid': x.tolist()}, 'grid')
    cc = np.array([complex(rng.randint(-8, 8), rng.randint(-8, 8)) for _ in range(N)])
    uu = f.itransform(cc.copy())
    ref_u = np.array([np.sum(cc * np.exp(1j * kint * 2 * np.pi * i / N)) for i in range(N)]) / N   # the helper's convention: c = N * amplitude
    sabs = float(np.sum(np.abs(cc))) or 1.0
    e1 = float(np.max(np.abs(uu - ref_u))) / sabs
    e2 = float(np.max(np.abs(f.transform(np.array(uu, dtype=complex)) - cc))) / sabs
    cx.slack('fft-itransform', e1)
    cx.slack('fft-roundtrip', e2)
    ck.evaluations += 2
    if not (e1 <= FFT_TOL and e2 <= FFT_TOL):
        cx.oracle(False, lab('fft-transform'), 'Fourier transform pair wrong (N=%d)' % N, {'N': N, 'interval': iv, 'errors': [e1, e2]}, 'transform')
    for m in sorted({0, 1, (N - 1) // 2}):
        if m > (N - 1) // 2:
            continue
        th = 2 * np.pi * m * np.arange(N) / N
        ph = 0.3
        fun = np.sin(th + ph)
        for p in (1, 2, 3):
            Dp = dens(f.get_differentiation_matrix(p)).diagonal()
            du = f.itransform(Dp * f.transform(fun.astype(complex)))
            exact = (2 * np.pi * m / L) ** p * np.sin(th + ph + p * np.pi / 2)
            sc = max((2 * np.pi * max(m, 1) / L) ** p, 1e-300)
            e = float(np.max(np.abs(du - exact))) / sc
            cx.slack('fft-derivative', e)
            ck.evaluations += 1
            if not e <= 2.0 ** -30:
                cx.oracle(False, lab('fft-D%d' % p), 'spectral derivative of sin(m x) wrong (N=%d, m=%d, p=%d, error %.3e)' % (N, m, p, e),
                          {'N': N, 'interval': iv, 'mode': m, 'p': p}, 'fft')
    ck.case(key=('fft', N, iv), nontrivial=N >= 2, sample={'operator': 'fft-D', 'N': N, 'interval': iv} if N == 8 else None)
    ck.traces += n + 3


def nd_cases(cx, rng, thorough):
    """SpectralHelper: N-D operators = Kronecker products of the 1-D ones (exact, index level)"""
    from pySDC.helpers.spectral_helper import SpectralHelper, ChebychevHelper, UltrasphericalHelper, FFTHelper
    ck = cx.ck
    bases = {'cheby': ChebychevHelper, 'ultraspherical': UltrasphericalHelper, 'fft': FFTHelper}
    ncfg = 40 if thorough else 14
    coq_done = 0
    for it in range(ncfg):
        ndim = 2 if it % 3 else 3
        names = [rng.choice(list(bases)) for _ in range(ndim)]
        if it < 3:
            names = [['fft', 'cheby'], ['fft', 'ultraspherical'], ['fft', 'fft', 'ultraspherical']][it]
            ndim = len(names)
        Ns = [rng.randint(2, 7 if ndim == 3 else 12) for _ in range(ndim)]
        ivs = []
        for nm in names:
            if nm == 'fft':
                ivs.append(rng.choice([(0.0, 2 * np.pi), (-1.0, 2.5)]))
            else:
                ivs.append(rng.choice([(-1.0, 1.0), (0.0, 3.0)]))
        s = SpectralHelper()
        one = []
        for nm, n, iv in zip(names, Ns, ivs):
            s.add_axis(nm, n, x0=iv[0], x1=iv[1])
            one.append(bases[nm](n, x0=iv[0], x1=iv[1]))
        s.add_component('u')
        s.setup_fft()
        total = int(np.prod(Ns))
        ops = []
        for ax in range(ndim):
            for p in (1, 2):
                ops.append(('D', ax, p, lambda ax=ax, p=p: s.get_differentiation_matrix(axes=(ax,), p=p),
                            lambda ax=ax, p=p: one[ax].get_differentiation_matrix(p=p)))
            if names[ax] == 'ultraspherical':
                ops.append(('bc', ax, 2, lambda ax=ax: s.get_basis_change_matrix(axes=(ax,), p_in=0, p_out=2),
                            lambda ax=ax: one[ax].get_basis_change_matrix(p_in=0, p_out=2)))
            if names[ax] == 'cheby':
                ops.append(('T2U', ax, 0, lambda ax=ax: s.get_basis_change_matrix(axes=(ax,), conv='T2U'),
                            lambda ax=ax: one[ax].get_basis_change_matrix(conv='T2U')))
                ops.append(('Drec', ax, 0, lambda ax=ax: s.get_Dirichlet_recombination_matrix(axis=ax),
                            lambda ax=ax: one[ax].get_Dirichlet_recombination_matrix()))
            ops.append(('S', ax, 1, lambda ax=ax: s.get_integration_matrix(axes=(ax,)),
                        lambda ax=ax: one[ax].get_integration_matrix()))
        ops.append(('Id', 0, 0, lambda: s.get_Id(), lambda: one[0].get_Id()))
        if ndim == 2:
            # derivative along both axes = kron(D_0, D_1)
            with warnings.catch_warnings():
                warnings.simplefilter('ignore')
                A = dens(s.get_differentiation_matrix(axes=(0, 1)))
                K = np.kron(dens(one[0].get_differentiation_matrix()), dens(one[1].get_differentiation_matrix()))
            lab = ('nd-Dxy', tuple(names), tuple(Ns), 0, 1)
            ck.case(key=lab)
            ck.traces += 1
            scale = float(np.max(np.abs(K))) or 1.0
            if A.shape != K.shape or float(np.max(np.abs(A - K))) > 2.0 ** -40 * scale:
                cx.oracle(False, lab, 'mixed derivative along axes (0, 1) is not kron(D_0, D_1) (bases %s, N %s)' % (names, Ns),
                          {'operator': 'Dxy', 'bases': names, 'N': Ns, 'intervals': ivs}, 'kron')
        for name, ax, p, fN, f1 in ops:
            with warnings.catch_warnings():
                warnings.simplefilter('ignore')
                A = dens(fN())
                M1 = dens(f1())
            lab = ('nd-' + name, tuple(names), tuple(Ns), ax, p)
            ck.case(key=lab, sample={'operator': 'nd-' + name, 'bases': names, 'N': Ns, 'axis': ax} if it == 0 and name == 'D' else None)
            ck.traces += 1
            ok = A.shape == (total, total)
            wit = None
            if ok:
                # exact index-level comparison: entry ((i), (j)) = M1[i_ax, j_ax] * prod_{a != ax} delta(i_a, j_a)
                idx = list(itertools.product(*[range(n) for n in Ns]))
                flat = {t: q for q, t in enumerate(idx)}
                exp = np.zeros((total, total), dtype=A.dtype if np.iscomplexobj(A) else M1.dtype)
                for t in idx:
                    for jj in range(Ns[ax]):
                        v = M1[t[ax], jj]
                        if v != 0:
                            t2 = t[:ax] + (jj,) + t[ax + 1:]
                            exp[flat[t], flat[t2]] = v
                if not np.array_equal(np.asarray(A), exp):
                    ok = False
                    bad = np.argwhere(np.asarray(A) != exp)[0]
                    wit = {'row': idx[bad[0]], 'col': idx[bad[1]], 'got': str(A[bad[0], bad[1]]), 'expected': str(exp[bad[0], bad[1]])}
            if not ok:
                cx.oracle(False, lab, 'N-D operator %s along axis %d is not the Kronecker product of the 1-D operator with identities (bases %s, N %s)'
                          % (name, ax, names, Ns), {'operator': name, 'bases': names, 'N': Ns, 'intervals': ivs, 'axis': ax, 'p': p, 'witness': wit,
                                                    'shape': list(A.shape)}, 'kron')
            # kernel: model kron on small real cases
            if ok and coq_done < (12 if thorough else 5) and not np.iscomplexobj(A) and ndim == 2 and total <= 60 and name in ('D', 'T2U', 'bc'):
                coq_done += 1
                n0, n1 = Ns
                tabm = 'tab %d (fun k j => nth j (nth k %s []) 0)' % (Ns[ax], coq_list([coq_list([q_lit(fr(v)) for v in row]) for row in np.asarray(M1, dtype=float)]))
                m1 = 'fun k j => nth j (nth k (%s) []) 0' % tabm
                if ax == 0:
                    model = 'tab %d (kron %d (%s) mI)' % (total, n1, m1)
                else:
                    model = 'tab %d (kron %d mI (%s))' % (total, n1, m1)
                cx.add(total, lab, 'mat_cmp true T %s (%s)' % (rows_lit(np.asarray(A, dtype=float)), model))
        # N-D transforms = successive 1-D transforms; round trip
        u0 = np.array([[rng.uniform(-1, 1) for _ in range(total)]]).reshape((1,) + tuple(Ns))
        uh = s.transform(u0.astype(complex) if 'fft' in names else u0)
        ref_h = (u0.astype(complex) if 'fft' in names else u0).copy()
        for ax in range(ndim):
            ref_h = one[ax].transform(ref_h, axes=(ax + 1,))
        back = s.itransform(uh)
        e1 = float(np.max(np.abs(uh - ref_h)))
        e2 = float(np.max(np.abs(back - u0)))
        cx.slack('nd-transform', max(e1, e2))
        ck.evaluations += 2
        if not (e1 <= 2.0 ** -36 and e2 <= 2.0 ** -36):
            cx.oracle(False, ('nd-transform', tuple(names), tuple(Ns)), 'N-D transform is not the composition of the 1-D transforms / not inverted by itransform',
                      {'bases': names, 'N': Ns, 'errors': [e1, e2]}, 'transform')


HEADER = '''From Coq Require Import ZArith QArith List Bool.
From PySDC Require Import Base.Dyadic Model.Spectral.
Import ListNotations.
Local Notation z := (Dy 0 0).
Definition T := (%d)%%Z.
Definition TI := (%d)%%Z.
''' % (T_EXP, INV_T_EXP)


def run(ck):
    rng = ck.rng
    thorough = ck.tier == 'thorough'
    ck.rule = ('one case = one operator (matrix/row/grid/transform) of one helper class at one resolution N on one interval; '
               'N from %s; intervals: reference, [0,1], seeded random (thorough: more); derivative orders 1-3; '
               'non-trivial when N >= 2; distinct by (operator, N, interval); N-D: seeded mixes of bases, sizes and axes'
               % ('1..64' if thorough else str(QUICK_N)))
    ck.check_props(required=['C17_cheb_diff_correct', 'C17_cheb_diff_p_correct', 'C17_T2U_correct', 'C17_U2T_correct', 'C17_U2T_inverse',
                             'C17_cheb_int_is_right_inverse', 'C17_ultra_matches_dense', 'C17_dirichlet_row_is_evaluation',
                             'C17_neumann_row_is_derivative', 'C17_integ_row_is_integral', 'C17_kron_is_tensor',
                             'C17_basis_change_inverse', 'C17_ultra_diff_correct_upto64', 'C17_ultra_S_correct_upto64',
                             'C17_wavenumbers', 'C17_fourier_diff_power', 'C17_tables_are_model', 'C17_cheb_diff_mapped'])
    Ns = list(range(1, 65)) if thorough else QUICK_N
    cx = Ctx(ck)
    mono = Mono(64)
    for N in Ns:
        ref_mats = {}
        for (x0, x1) in interval_list(rng, N, thorough):
            cheb_cases(cx, mono, N, x0, x1, rng, ref_mats)
        fx0 = round(rng.uniform(-3, 3), 2)
        for (x0, x1) in [(0.0, 2 * np.pi), (fx0, fx0 + round(rng.uniform(0.5, 9), 2))]:
            fft_cases(cx, N, x0, x1, rng)
    ck.log('extraction + oracle done: %d operators' % ck.traces)
    nd_cases(cx, rng, thorough)
    ck.log('N-D done')

    # ---------------------------------------------------------------- kernel evaluation of the comparisons
    def cost(N, lab):
        op = lab[0]
        if op in ('grid', 'itransform'):
            return 7.0 * (N / 64.0) ** 3 + 0.02
        return 0.5 * (N / 64.0) ** 2 + 0.01

    jobs = sorted(((cost(N, lab), N, lab, e) for N in cx.cases for lab, e in cx.cases[N]), key=lambda t: (-t[0], str(t[2])))
    bins = []
    for cst, N, lab, e in jobs:          # first-fit decreasing into files of about 8 s
        for b in bins:
            if b[0] + cst <= 8.0 and len(b[1]) < 400:
                b[0] += cst
                b[1].append((lab, e))
                break
        else:
            bins.append([cst, [(lab, e)]])
    files = []
    for bi, (cst, chunk) in enumerate(bins):
        text = HEADER + 'Eval vm_compute in [\n' + ';\n'.join('  ' + e for _, e in chunk) + '\n].\n'
        files.append((ck.write_gen('Cmp_%d.v' % bi, text), chunk))
    ck.log('%d comparison files' % len(files))

    def go(job):
        path, chunk = job
        rc, out = ck.coqc(path, timeout=1200)
        return job, rc, out

    nbad = 0
    with concurrent.futures.ThreadPoolExecutor(max_workers=14) as ex:
        for (path, chunk), rc, out in ex.map(go, files):
            if rc != 0:
                ck.obligation('%s evaluates' % path.split('/')[-1], False, out[-1500:])
                ck.violation('generated comparison file does not compile', {'file': path, 'log': out[-3000:]}, match={'kind': 'gen'}, no_input=True)
                continue
            res = parse_coq_value(eval_outputs(out)[0])
            assert len(res) == len(chunk), (path, len(res), len(chunk))
            for (lab, _), r in zip(chunk, res):
                ck.evaluations += 1
                if tuple(r) != (-1, -1):
                    nbad += 1
                    if lab in cx.oracle_bad:
                        continue     # already reported with a failing input by the oracle
                    key = ('correspondence', str(lab[0]))
                    cx.fail_count[key] = cx.fail_count.get(key, 0) + 1
                    if cx.fail_count[key] > MAX_PER_OP:
                        continue
                    ck.violation('model/implementation correspondence differs for %s at entry %s; the exact-calculus oracle did not fail on this operator'
                                 % (lab, tuple(r)), {'operator': lab[0], 'case': lab, 'first_bad_entry': list(r), 'file': path},
                                 match={'kind': 'correspondence', 'op': lab[0]}, no_input=True)
    ncases = sum(len(v) for v in cx.cases.values())
    ck.obligation('kernel-evaluated comparison model = implementation on %d operators' % ncases, nbad == 0,
                  '%d differ' % nbad)
    ck.cov['observed_worst'] = {k: v for k, v in sorted(cx.worst.items())}
    ck.cov['tolerances'] = {'kernel_relative': 2.0 ** T_EXP, 'kernel_inverse': 2.0 ** INV_T_EXP, 'oracle_relative': float(OR_TOL), 'fft': FFT_TOL}
    rej = {}
    for label, N, iv, err in cx.rejected:
        rej.setdefault('%s:%s' % (label, err), set()).add(N)
    ck.cov['rejected_by_code'] = {k: sorted(v) for k, v in sorted(rej.items())}
    ck.cov['resolutions'] = Ns
    ck.cov['kernel_grid_tolerances'] = ('grid: |T_N(x)| <= ceil(N^2 (1+|off|/fac)) 2^-46 (calibrated on the pinned tree: observed <= 0.4% of it); '
                                       'itransform: ceil(N^2 (1+|off|/fac) sum|c|) 2^-44 (observed <= 0.02% of it)')
    ck.cov['failing_configurations_per_operator'] = {'%s:%s' % k: v for k, v in sorted(cx.fail_count.items())}
