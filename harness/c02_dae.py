"""C02 (extension) — the DAE-project sweepers: FullyImplicitDAE, SemiImplicitDAE, RungeKuttaDAE.

Tie: the REAL classes pySDC/projects/DAE/sweepers/{fullyImplicitDAE,semiImplicitDAE,rungeKuttaDAE}.py are run in
exact rational arithmetic on dense linear DAEs in implicit form
      F(u, u', t) = A u + B u' + c t + d        (random rational A, B, c, d; B with zero rows = algebraic constraints)
with an exact data type (FracDAE: the .diff/.alg view protocol of MeshDAE over Fractions) and an exact problem
class (ExactLinDAE, a ProblemDAE whose solve_system PROBES the affine function impl_sys it is handed at 0 and the
unit vectors and solves the resulting linear system by exact elimination — no knowledge of A, B is used, so the
sweeper's own F and u_approx decide the result).  Every observable (integrate(), new node values, new derivatives,
residual vectors, status.residual for the configured residual_type / skip list, uend or NotImplementedError,
predict()) is compared EXACTLY by the Coq kernel with Model/SweepDAEExec.v, the Qc instance of Model/SweepDAE.v
about which Proofs/SweepDAEProofs.v proves the algebraic forms.
Oracle (independent of the model): those forms evaluated in Fractions on the real outputs.

run_part(ck, rng, thorough) is called from harness/props/c02.py; `python -m harness.c02_dae` runs it alone.
"""
import concurrent.futures as cf
import logging
from fractions import Fraction as F

import numpy as np

from harness.common import coq_list, coq_bool, zlit, parse_coq_value, eval_outputs
from harness import exact as ex


# ----------------------------------------------------------------------------------------- exact data type

class CompView(ex.FracVec):
    """view on one component (.diff / .alg) of a FracDAE: reads copy, `view[:] = x` writes through."""

    def __init__(self, parent, lo, hi):
        self.parent, self.lo, self.hi = parent, lo, hi

    v = property(lambda s: s.parent.v[s.lo:s.hi])

    def _plain(self):
        return ex.FracVec(self.v)

    def __getitem__(self, i):
        if isinstance(i, slice):
            if i != slice(None):
                raise NotImplementedError('only [:] is supported on exact components')
            return self._plain()
        return self.v[i]

    def __setitem__(self, i, val):
        if i != slice(None):
            raise NotImplementedError('only [:] is supported on exact components')
        new = list(val.v) if isinstance(val, ex.FracVec) else [F(x) for x in val]
        assert len(new) == self.hi - self.lo
        self.parent.v[self.lo:self.hi] = new

    def __add__(self, o):
        return self._plain() + o
    __radd__ = __add__

    def __sub__(self, o):
        return self._plain() - o

    def __rsub__(self, o):
        return o - self._plain()

    def __mul__(self, c):
        return self._plain() * c
    __rmul__ = __mul__

    def __neg__(self):
        return -self._plain()

    def copy(self):
        return self._plain()


class FracDAE:
    """MeshDAE protocol over Fractions: shape (2, nv) = nv differential then nv algebraic components (flat list v)."""
    __array_ufunc__ = None

    def __init__(self, init, val=0):
        if isinstance(init, FracDAE):
            self.nv, self.v = init.nv, list(init.v)
        elif isinstance(init, tuple):                   # P.init = (nvars, None, dtype)
            self.nv = int(init[0])
            self.v = [F(val)] * (2 * self.nv)
        else:                                           # flat list of 2*nv numbers
            self.v = [F(x) for x in init]
            self.nv = len(self.v) // 2

    diff = property(lambda s: CompView(s, 0, s.nv))
    alg = property(lambda s: CompView(s, s.nv, 2 * s.nv))

    def _o(self, o):
        return o.v if isinstance(o, FracDAE) else [F(o)] * len(self.v)

    def __add__(self, o):
        return FracDAE([a + b for a, b in zip(self.v, self._o(o))])
    __radd__ = __add__

    def __sub__(self, o):
        return FracDAE([a - b for a, b in zip(self.v, self._o(o))])

    def __rsub__(self, o):
        return FracDAE([b - a for a, b in zip(self.v, self._o(o))])

    def __mul__(self, c):
        return FracDAE([a * F(c) for a in self.v])
    __rmul__ = __mul__

    def __neg__(self):
        return FracDAE([-a for a in self.v])

    def __abs__(self):
        return max(abs(a) for a in self.v)

    def __getitem__(self, i):
        if isinstance(i, slice) and i == slice(None):
            return FracDAE(self)
        raise NotImplementedError('only [:] is supported on exact meshes')

    def __setitem__(self, i, val):
        if not (isinstance(i, slice) and i == slice(None)):
            raise NotImplementedError('only [:] is supported on exact meshes')
        assert len(val.v) == len(self.v)
        self.v[:] = list(val.v)

    def flatten(self):
        return FracDAE(self)

    def __eq__(self, o):
        return isinstance(o, FracDAE) and self.v == o.v

    def __repr__(self):
        return 'FracDAE(%s)' % ', '.join(str(a) for a in self.v)


class SingularSystem(Exception):
    pass


def solve_exact(rows):
    """Gauss-Jordan on an augmented n x (n+1) Fraction matrix."""
    n = len(rows)
    rows = [list(r) for r in rows]
    for k in range(n):
        p = next((i for i in range(k, n) if rows[i][k] != 0), None)
        if p is None:
            raise SingularSystem()
        rows[k], rows[p] = rows[p], rows[k]
        pk = rows[k][k]
        rows[k] = [a / pk for a in rows[k]]
        for i in range(n):
            if i != k and rows[i][k] != 0:
                c = rows[i][k]
                rows[i] = [a - c * b for a, b in zip(rows[i], rows[k])]
    return [rows[i][n] for i in range(n)]


def _problem_classes():
    from pySDC.projects.DAE.misc.problemDAE import ProblemDAE

    class ExactLinDAE(ProblemDAE):
        """F(u, du, t) = A u + B du + c t + d in Fractions; solve_system = exact root of the affine impl_sys."""
        dtype_u = FracDAE
        dtype_f = FracDAE

        def __init__(self, nvars, A, B, c, d, probe=False):
            super().__init__(nvars=nvars, newton_tol=0.0)
            self.probe = probe
            self.A = [[F(x) for x in r] for r in A]
            self.B = [[F(x) for x in r] for r in B]
            self.c = [F(x) for x in c]
            self.d = [F(x) for x in d]
            self.solve_calls = []

        def eval_f(self, u, du, t):
            t = F(t)
            n = len(self.c)
            return FracDAE([sum(self.A[i][j] * u.v[j] for j in range(n)) + sum(self.B[i][j] * du.v[j] for j in range(n))
                            + self.c[i] * t + self.d[i] for i in range(n)])

        def solve_system(self, impl_sys, u_approx, factor, u0, t):
            n = len(self.c)
            self.solve_calls.append((list(u_approx.v), F(factor), list(u0.v), F(t)))
            if self.probe:      # contract-violating "solver" exposing every argument of the call (see SweepDAEExec.solve_flat)
                g = FracDAE(u0)
                sg = impl_sys(FracDAE(g), self, factor, u_approx, t)
                return FracDAE([sg.v[x] + 2 * g.v[x] + 3 * u_approx.v[x] + F(factor) + 7 * F(t) for x in range(n)])
            b = impl_sys(FracDAE([0] * n), self, factor, u_approx, t).v
            cols = [impl_sys(FracDAE([1 if x == j else 0 for x in range(n)]), self, factor, u_approx, t).v for j in range(n)]
            rows = [[cols[j][i] - b[i] for j in range(n)] + [-b[i]] for i in range(n)]
            return FracDAE(solve_exact(rows))

        def du_exact(self, t):
            return FracDAE(self.init)

    return ExactLinDAE


# ----------------------------------------------------------------------------------------- case generation

def rfrac(rng, lo=-4, hi=4, dens=(1, 2, 3, 4, 5)):
    return F(rng.randint(lo, hi), rng.choice(dens))


def qc(x):
    x = F(x)
    return '(q %s %d)' % (zlit(x.numerator), x.denominator)


def qcl(xs):
    return coq_list([qc(x) for x in xs])


def qcm(rows):
    return coq_list([qcl(r) for r in rows])


QI_NAMES = ['IE', 'LU', 'MIN', 'MIN-SR-S', 'MIN-SR-NS', 'IEpar', 'Qpar', 'TRAP', 'MIN3', 'LU2', 'TRAPAR', 'GS']
RESTYPES = {'full_abs': 'FullAbs', 'last_abs': 'LastAbs', 'full_rel': 'FullRel', 'last_rel': 'LastRel'}


def rk_dae_classes():
    import pySDC.projects.DAE.sweepers.rungeKuttaDAE as R
    return [R.BackwardEulerDAE, R.TrapezoidalRuleDAE, R.EDIRK4DAE, R.DIRK43_2DAE]


def build_case(rng, kind, idx):
    """kind in FI / SI / RK.  Returns (L, meta)."""
    from pySDC.projects.DAE.sweepers.fullyImplicitDAE import FullyImplicitDAE
    from pySDC.projects.DAE.sweepers.semiImplicitDAE import SemiImplicitDAE
    ExactLinDAE = _problem_classes()
    nv = rng.choice([1, 1, 2, 2, 3])
    inject = rng.random() < 0.75
    dt = F(rng.randint(1, 8), rng.choice([4, 8, 10, 16]))
    t0 = rfrac(rng, -3, 3)
    rt = rng.choice(sorted(RESTYPES))
    skip = rng.random() < 0.15
    oldres = rng.choice([None, rfrac(rng, 0, 5)])
    spread = rng.random() < 0.6
    if kind == 'RK':
        cls = rng.choice(rk_dae_classes())
        sp = {}
        if skip:
            sp['skip_residual_computation'] = ('IT_FINE',)
        else:
            sp['skip_residual_computation'] = ()
        M = cls.matrix.shape[0] if hasattr(cls.matrix, 'shape') else len(cls.matrix)
        if not inject and M > 2:
            nv = 1
        quad, qi_name, dcu = 'butcher', cls.__name__, False
    else:
        cls = FullyImplicitDAE if kind == 'FI' else SemiImplicitDAE
        M = rng.choice([1, 2, 2, 3, 3, 4])
        if not inject:                            # exact float images: keep the rationals below ~600 bits
            M = min(M, 2 if kind == 'FI' else 3)
            nv = min(nv, 2 if M < 2 else 1)
        elif M >= 3:
            nv = min(nv, 2)
        quad = rng.choice(['RADAU-RIGHT', 'RADAU-RIGHT', 'RADAU-RIGHT', 'GAUSS'])
        qi_name = rng.choice(QI_NAMES)
        dcu = rng.random() < 0.2
        sp = {'num_nodes': M, 'quad_type': quad, 'QI': qi_name, 'do_coll_update': dcu,
              'initial_guess': 'spread' if spread else 'zero',
              'skip_residual_computation': ('IT_FINE',) if skip else ()}
    n = 2 * nv
    structured = rng.random() < 0.5      # semi-explicit structure: B = [[-I, 0], [0, 0]] plus noise only in the differential rows
    A = [[rfrac(rng, -3, 3) for _ in range(n)] for _ in range(n)]
    if structured:
        B = [[(F(-1) if i == j else F(0)) if i < nv else F(0) for j in range(n)] for i in range(n)]
    else:
        B = [[rfrac(rng, -3, 3) if rng.random() < 0.7 else F(0) for _ in range(n)] for _ in range(n)]
    c = [rfrac(rng, -2, 2) for _ in range(n)]
    d = [rfrac(rng, -2, 2) for _ in range(n)]
    probe = rng.random() < 0.25
    pp = {'nvars': nv, 'A': A, 'B': B, 'c': c, 'd': d, 'probe': probe}
    try:
        L = ex.make_level(cls, sp, ExactLinDAE, pp, dt, level_params={'residual_type': rt})
    except Exception as e:           # preconditioner name not offered for this configuration
        if kind != 'RK' and qi_name != 'IE':
            sp['QI'] = qi_name = 'IE'
            L = ex.make_level(cls, sp, ExactLinDAE, pp, dt, level_params={'residual_type': rt})
        else:
            raise
    sw = L.sweep
    inj = {}
    if inject:
        m1 = M + 1
        T = [[F(0)] * m1 for _ in range(m1)]
        for i in range(1, m1):
            for j in range(1, i + 1):
                T[i][j] = rfrac(rng, -2, 3) if rng.random() < 0.85 else F(0)
        inj['QI'] = np.array(T, dtype=object)
        if kind == 'RK' and rng.random() < 0.7:
            inj['Qmat'] = np.array([list(r) for r in T], dtype=object)      # the shipped classes have Qmat = QI = Butcher matrix
        else:
            inj['Qmat'] = np.array([[F(0)] * m1] + [[F(0)] + [rfrac(rng, -2, 3) for _ in range(M)] for _ in range(M)], dtype=object)
        if kind == 'RK':
            inj['nodes'] = np.array([F(0)] + sorted(F(rng.randint(0, 12), 12) for _ in range(M)), dtype=object)
            inj['weights'] = np.array([rfrac(rng, 0, 3) for _ in range(M)], dtype=object)
        else:
            inj['nodes'] = np.array(sorted(F(rng.randint(1, 12), 12) for _ in range(M)), dtype=object)
            inj['weights'] = np.array([rfrac(rng, 0, 3) for _ in range(M)], dtype=object)
    ex.exactify(L, dt=dt, inject=inj)
    L.status.time = t0
    L.status.unlocked = True
    L.status.sweep = 1
    L.status.residual = oldres
    for m in range(M + 1):
        L.u[m] = FracDAE([rfrac(rng, -5, 5) for _ in range(n)])
        L.f[m] = FracDAE([rfrac(rng, -5, 5) for _ in range(n)])
    if all(x == 0 for x in L.u[0].v):
        L.u[0].v[0] = F(1)
    meta = dict(kind=kind, cls=cls.__name__, M=M, nv=nv, quad=quad, QI=qi_name, do_coll=dcu, inject=inject, structured=structured,
                residual_type=rt, skip=skip, probe=probe, oldres=None if oldres is None else str(oldres), spread=spread, dt=str(dt), t0=str(t0), idx=idx)
    return L, meta


def snapshot(L):
    M = L.sweep.coll.num_nodes
    return dict(u=[list(L.u[m].v) for m in range(M + 1)], f=[list(L.f[m].v) for m in range(M + 1)])


def restore(L, snap):
    for m, (a, b) in enumerate(zip(snap['u'], snap['f'])):
        L.u[m] = FracDAE(a)
        L.f[m] = FracDAE(b)


def run_real(L, meta, before):
    """Run the real sweeper; returns (flat observables in the order of SweepDAEExec.run_dae, structured data)."""
    sw = L.sweep
    M = sw.coll.num_nodes
    ints = [list(i.v) for i in sw.integrate()]
    sw.update_nodes()
    un = [list(L.u[m].v) for m in range(M + 1)]
    fn = [list(L.f[m].v) for m in range(M + 1)]
    out = sum(ints, []) + sum(un[1:], []) + sum(fn[1:], [])
    after = dict(ints=ints, un=un, fn=fn)
    if meta['kind'] == 'RK':
        return out, after
    P = L.prob
    res = [list(P.eval_f(L.u[m], L.f[m], L.time + L.dt * sw.coll.nodes[m - 1]).v) for m in range(1, M + 1)]
    sw.compute_residual(stage='IT_FINE')
    status = L.status.residual
    try:
        sw.compute_end_point()
        uend = list(L.uend.v)
    except NotImplementedError:
        uend = None
    # residual vectors are not stored by this sweeper: recomputed above through the problem at the sweeper's own
    # (u[m], f[m], t_m); status.residual is the sweeper's.
    restore(L, before)
    sw.predict()
    up = [list(L.u[m].v) for m in range(M + 1)]
    fp = [list(L.f[m].v) for m in range(M + 1)]
    out += sum(res, []) + [F(status)] + (uend or []) + sum(up[1:], []) + sum(fp, [])
    after.update(res=res, status=F(status), uend=uend, up=up, fp=fp)
    return out, after


def coq_case(L, meta, before, expected):
    sw = L.sweep
    P = L.prob
    M, nv = meta['M'], meta['nv']
    nodes = list(sw.coll.nodes) if meta['kind'] == 'RK' else [0] + list(sw.coll.nodes)
    w = np.asarray(sw.coll.weights, dtype=object)
    w = list(w[0]) if w.ndim == 2 else list(w)
    prob = '{| d_n := %d%%nat; d_A := %s; d_B := %s; d_c := %s; d_d := %s |}' % (2 * nv, qcm(P.A), qcm(P.B), qcl(P.c), qcl(P.d))
    fields = [
        'dc_kind := K%s' % meta['kind'], 'dc_M := %d%%nat' % M, 'dc_nv := %d%%nat' % nv,
        'dc_dt := %s' % qc(L.params.dt), 'dc_t0 := %s' % qc(L.status.time),
        'dc_nodes := %s' % qcl(nodes), 'dc_Q := %s' % qcm(sw.coll.Qmat.tolist()), 'dc_QI := %s' % qcm(sw.QI.tolist()),
        'dc_w := %s' % qcl([0] + w), 'dc_prob := %s' % prob,
        'dc_u := %s' % qcm(before['u']), 'dc_f := %s' % qcm(before['f']),
        'dc_rin := %s' % coq_bool(bool(sw.coll.right_is_node)), 'dc_dcu := %s' % coq_bool(bool(sw.params.do_coll_update)),
        'dc_rt := %s' % RESTYPES[meta['residual_type']], 'dc_skip := %s' % coq_bool(meta['skip']),
        'dc_oldres := %s' % ('None' if meta['oldres'] is None else '(Some %s)' % qc(F(meta['oldres']))),
        'dc_spread := %s' % coq_bool(meta['spread']), 'dc_probe := %s' % coq_bool(meta['probe']),
    ]
    return '({| %s |}, %s)' % ('; '.join(fields), qcl(expected))


# ----------------------------------------------------------------------------------------- oracle

def oracle(L, meta, before, after):
    """The algebraic forms of the property evaluated on the real outputs, in Fractions.  Returns a list of failures."""
    sw = L.sweep
    P = L.prob
    kind, M, nv = meta['kind'], meta['M'], meta['nv']
    n = 2 * nv
    dt, t0 = L.params.dt, L.status.time
    Q, QI = sw.coll.Qmat, sw.QI
    u0, fo, un, fn = before['u'][0], before['f'], after['un'], after['fn']
    fails = []
    if un[0] != before['u'][0]:
        fails.append(('u0_changed',))
    if fn[0] != before['f'][0]:
        fails.append(('f0_changed',))
    comps = range(n) if kind != 'SI' else range(nv)            # integrated components
    for m in range(1, M + 1):
        tm = t0 + dt * (sw.coll.nodes[m] if kind == 'RK' else sw.coll.nodes[m - 1])
        # u_approx + factor*U'_m as the property states it
        arg = list(un[m])
        for x in comps:
            arg[x] = u0[x] + dt * sum(QI[m, j] * fn[j][x] for j in range(1, m + 1))
            if kind != 'RK':
                arg[x] += dt * sum((Q[m, j] - QI[m, j]) * fo[j][x] for j in range(1, M + 1))
        du = list(fn[m])
        if kind == 'SI':
            du[nv:] = un[m][nv:]           # the unknown is (U'.diff, z)
            if fn[m][nv:] != fo[m][nv:]:
                fails.append(('f_alg_written', m))
        if not meta['probe'] and any(v != 0 for v in P.eval_f(FracDAE(arg), FracDAE(du), tm).v):
            fails.append(('sweep_equation', m))
        for x in comps:
            if un[m][x] != u0[x] + dt * sum(Q[m, j] * fn[j][x] for j in range(1, M + 1)):
                fails.append(('node_values', m, x))
                break
        for x in range(n):
            want = dt * sum(Q[m, j] * fo[j][x] for j in range(1, M + 1)) if x in comps else F(0)
            if after['ints'][m - 1][x] != want:
                fails.append(('integrate', m, x))
                break
    if kind == 'RK':
        return fails
    # residual
    norms = [max(abs(v) for v in r) for r in after['res']]
    if meta['skip']:
        want = F(0) if meta['oldres'] is None else F(meta['oldres'])
    else:
        n0 = max(abs(v) for v in u0)
        want = {'full_abs': max(norms), 'last_abs': norms[-1], 'full_rel': max(norms) / n0, 'last_rel': norms[-1] / n0}[meta['residual_type']]
    if after['status'] != want:
        fails.append(('residual_status', meta['residual_type'], meta['skip']))
    # end point
    allowed = bool(sw.coll.right_is_node) and not sw.params.do_coll_update
    if allowed != (after['uend'] is not None):
        fails.append(('end_point_defined',))
    elif allowed and after['uend'] != un[M]:
        fails.append(('end_point_value',))
    # predict
    up, fp = after['up'], after['fp']
    zero = [F(0)] * n
    if up[0] != before['u'][0] or any(f != zero for f in fp) or any(up[m] != (before['u'][0] if meta['spread'] else zero) for m in range(1, M + 1)):
        fails.append(('predict',))
    return fails


# ----------------------------------------------------------------------------------------- driver part

def run_part(ck, rng, thorough):
    logging.disable(logging.CRITICAL)
    counts = {'FI': 320, 'SI': 320, 'RK': 120} if thorough else {'FI': 32, 'SI': 32, 'RK': 14}
    cases = []
    skipped = {}
    hist = {}
    idx = 0
    for kind in ('FI', 'SI', 'RK'):
        made = 0
        tries = 0
        while made < counts[kind] and tries < 4 * counts[kind]:
            tries += 1
            idx += 1
            try:
                L, meta = build_case(rng, kind, idx)
                before = snapshot(L)
                expected, after = run_real(L, meta, before)
            except (SingularSystem, ZeroDivisionError):
                skipped['singular'] = skipped.get('singular', 0) + 1
                continue
            except Exception as e:
                ck.violation('real DAE sweeper raised %s: %s' % (type(e).__name__, e), {'kind': kind, 'case_index': idx},
                             match={'kind': 'dae-raise', 'sweeper': kind})
                made += 1
                continue
            made += 1
            key = ('DAE', kind, meta['cls'], meta['M'], meta['nv'], meta['quad'], meta['QI'], meta['inject'], meta['structured'],
                   meta['residual_type'], meta['skip'], meta['do_coll'], meta['spread'], meta['probe'])
            ck.case(key=key, nontrivial=(meta['M'] >= 2), sample=meta if made <= 1 else None)
            hist['%s/M=%d' % (kind, meta['M'])] = hist.get('%s/M=%d' % (kind, meta['M']), 0) + 1
            fails = oracle(L, meta, before, after)
            replay = {'meta': meta, 'before': {k: [[str(x) for x in r] for r in v] for k, v in before.items()},
                      'problem': {'A': [[str(x) for x in r] for r in L.prob.A], 'B': [[str(x) for x in r] for r in L.prob.B],
                                  'c': [str(x) for x in L.prob.c], 'd': [str(x) for x in L.prob.d]},
                      'Q': [[str(x) for x in r] for r in L.sweep.coll.Qmat.tolist()], 'QI': [[str(x) for x in r] for r in L.sweep.QI.tolist()],
                      'nodes': [str(x) for x in L.sweep.coll.nodes]}
            if fails:
                ck.violation('%s: real sweeper output violates the algebraic form of the property (%s)' % (meta['cls'], fails[0][0]),
                             dict(replay, failures=fails[:10]), match={'kind': 'dae-oracle-' + fails[0][0], 'sweeper': kind})
            cases.append((meta, coq_case(L, meta, before, expected), bool(fails), replay))
    ck.cov['dae_cases_skipped'] = skipped
    ck.cov['dae_histogram_kind_M'] = dict(sorted(hist.items()))

    chunk = max(8, -(-len(cases) // 4)) if not thorough else 24
    files = []
    for ci in range(0, len(cases), chunk):
        body = ['From Coq Require Import List ZArith QArith Qcanon.',
                'From PySDC Require Import Model.Sweep Model.SweepDAE Model.SweepExec Model.SweepDAEExec.',
                'Import ListNotations.', 'Definition cases : list (dcase * list Qc) := [',
                ';\n'.join(c[1] for c in cases[ci:ci + chunk]), '].', 'Eval vm_compute in map check_dae_case cases.']
        files.append(ck.write_gen('DAECases_%03d.v' % (ci // chunk), '\n'.join(body) + '\n'))
    with cf.ThreadPoolExecutor(max_workers=4) as pool:
        outs = list(pool.map(lambda f: ck.coqc(f, timeout=900), files))
    results = []
    for f, (rc, out) in zip(files, outs):
        if rc != 0:
            ck.obligation('DAE model evaluation ' + f.split('/')[-1], False, out[-800:])
            ck.violation('generated DAE correspondence cases do not compile/evaluate', {'file': f, 'log': out[-3000:]},
                         match={'kind': 'dae-gen'}, no_input=True)
            return
        results += parse_coq_value(eval_outputs(out)[0])
    assert len(results) == len(cases)
    ndiff = 0
    for (meta, _, oracle_failed, replay), r in zip(cases, results):
        ck.traces += 1
        if r != -1:
            ndiff += 1
            ck.violation('DAE model and real sweeper %s differ at observable #%d' % (meta['cls'], r),
                         dict(replay, correspondence='Model/SweepDAEExec.run_dae vs ' + meta['cls'], first_differing_observable=r),
                         match={'kind': 'dae-correspondence', 'sweeper': meta['kind']}, no_input=not oracle_failed)
    ck.obligation('exact correspondence DAE-sweeper model = implementation on %d cases' % len(cases), ndiff == 0)


if __name__ == '__main__':
    import argparse
    import time
    from harness.common import Check
    ap = argparse.ArgumentParser()
    ap.add_argument('--tier', default='quick')
    ap.add_argument('--seed', type=int, default=0)
    a = ap.parse_args()
    ck = Check('C02', a.tier, a.seed)
    t = time.time()
    run_part(ck, ck.rng, a.tier == 'thorough')
    print('cases %d distinct %d traces %d  %.1fs' % (ck.evaluations, len(ck.distinct), ck.traces, time.time() - t))
    for o in ck.obligations:
        print('OBLIGATION', o['ok'], o['name'], o['detail'][:300])
    for v in ck.violations:
        print('VIOLATION', v['what'], v['match'], v['path'], 'no-input' if v['no_input'] else '')
    print('cov', {k: v for k, v in ck.cov.items()})
    import shutil
    if not ck.violations:
        shutil.rmtree(ck.gen, ignore_errors=True)
