"""Mutation self-test driver for C08 (not run by ./check).

    git -C /repo worktree add /tmp/c08/wt HEAD
    python harness/c08_mutants.py [M01 M05 ...]          # one edit at a time in the worktree, then
                                                         # VERIF_REPO=<wt> C08_CONFIGS=<cfgs> ./check C08
    git -C /repo worktree remove --force /tmp/c08/wt

Prints CAUGHT/MISSED and the (kind, site|field) of every violation the check reported (known findings are
suppressed by the check itself).  M07 and M25 are equivalent mutants (see docs/C08.md)."""
import json, os, subprocess, sys, glob
WT = os.environ.get('C08_WT', '/tmp/c08/wt')
P = 'pySDC/implementations/'
M = [
 ('M01-tag-off-by-one', P+'controller_classes/controller_MPI.py',
  "dest=self.S.next, tag=level * 100 + self.S.status.iter, comm=comm", "dest=self.S.next, tag=level * 100 + self.S.status.iter + 1, comm=comm", 't3gs,t3ml2burn'),
 ('M02-recv-ignores-prev_done', P+'controller_classes/controller_MPI.py',
  "if not self.S.status.first and not self.S.status.prev_done:", "if not self.S.status.first:", 't3gs,t2jac,t5jac'),
 ('M03-bcast-uend-from-rank0', P+'controller_classes/controller_MPI.py',
  "uend = self.S.levels[0].uend.bcast(root=comm_active.size - 1, comm=comm_active)", "uend = self.S.levels[0].uend.bcast(root=0, comm=comm_active)", 't3gs,t2jac'),
 ('M04-time-offset', P+'controller_classes/controller_MPI.py',
  "time = tend + sum(all_dt[: self.S.status.slot])", "time = tend + sum(all_dt[: self.S.status.slot + 1])", 't3gs,t2jac'),
 ('M05-integrate-wrong-row', P+'sweeper_classes/generic_implicit_MPI.py',
  "L.dt * self.coll.Qmat[m + 1, self.rank + 1] * L.f[self.rank + 1], recvBuf, root=m, op=MPI.SUM", "L.dt * self.coll.Qmat[m, self.rank + 1] * L.f[self.rank + 1], recvBuf, root=m, op=MPI.SUM", 'n3,b2x2'),
 ('M06-endpoint-bcast-root0', P+'sweeper_classes/generic_implicit_MPI.py',
  "root = self.comm.Get_size() - 1\n            if self.comm.rank == root:", "root = 0\n            if self.comm.rank == root:", 'n3,b2x2'),
 ('M07-restrict-transposed', P+'transfer_classes/BaseTransferMPI.py',
  "CF.Reduce(self.Rcoll[n, CF.rank] * tmp_u, recvBuf[CG.rank], root=n, op=MPI.SUM)", "CF.Reduce(self.Rcoll[CF.rank, n] * tmp_u, recvBuf[CG.rank], root=n, op=MPI.SUM)", 'n3ml2,b3x3ml'),
 ('M08-restart-send-guard', P+'convergence_controller_classes/basic_restarting.py',
  "if not S.status.last and not self.params.restart_from_first_step:", "if not S.status.first and not self.params.restart_from_first_step:", 't3gs,t3art'),
 ('M09-spread-bcast-root0', P+'convergence_controller_classes/spread_step_sizes.py',
  "new_steps = comm.bcast(new_steps, root=spread_from_step)", "new_steps = comm.bcast(new_steps, root=0)", 't4artdt,t3adapt'),
 ('M10-done-ignores-prev', P+'convergence_controller_classes/check_convergence.py',
  "S.status.done = S.status.done and S.status.prev_done", "S.status.done = S.status.done", 't3gs,t5jac,r1,r2,r3,t3heat2'),
 ('M11-uend-buffer-reused', P+'sweeper_classes/generic_implicit_MPI.py',
  "            if self.comm.rank == root:\n                L.uend = P.dtype_u(L.u[-1])\n            else:\n                L.uend = P.dtype_u(L.u[0])",
  "            if L.uend is None:\n                L.uend = P.dtype_u(L.u[0])\n            if self.comm.rank == root:\n                L.uend[:] = L.u[-1]", 'b2x2,b3x3ml'),
 ('M12-cc-tags-collide', 'pySDC/core/convergence_controller.py',
  "kwargs['tag'] = kwargs.get('tag', abs(self.params.control_order))\n\n        # log what's happening for debug purposes\n        self.logger.debug(f'Step {comm.rank} {\"\" if blocking else \"i\"}Sends",
  "kwargs['tag'] = kwargs.get('tag', 0)\n\n        # log what's happening for debug purposes\n        self.logger.debug(f'Step {comm.rank} {\"\" if blocking else \"i\"}Sends", 't3gs,t3art'),
 ('M13-embedded-sends-local', P+'convergence_controller_classes/estimate_embedded_error.py',
  "self.send(comm, dest=S.status.slot + 1, data=temp, blocking=True)", "self.send(comm, dest=S.status.slot + 1, data=L.status.error_embedded_estimate, blocking=True)", 't4adaptlin'),
 ('M15-imex-drops-expl', P+'sweeper_classes/imex_1st_order_MPI.py',
  "L.dt * self.coll.Qmat[m + 1, self.rank + 1] * (L.f[self.rank + 1].impl + L.f[self.rank + 1].expl),", "L.dt * self.coll.Qmat[m + 1, self.rank + 1] * (L.f[self.rank + 1].impl),", 'n2imex'),
 ('M16-never-resplit', P+'controller_classes/controller_MPI.py',
  "if tend + sum(all_dt[: comm_active.size - 1]) >= Tend - 10 * np.finfo(float).eps:", "if False:", 't3gs,t4gs'),
 ('M17-prolong-wrong-comm', P+'transfer_classes/BaseTransferMPI.py',
  "CG.Reduce(self.Pcoll[n, CG.rank] * tmp_u, recvBuf[n], root=n, op=MPI.SUM)", "CG.Reduce(self.Pcoll[n, CG.rank] * tmp_u, recvBuf[n], root=0, op=MPI.SUM)", 'n3ml2'),
 ('M18-restart-allgather-slot', P+'convergence_controller_classes/basic_restarting.py',
  "dest=S.status.slot - restart_from,", "dest=S.status.slot,", 't3art,t4artdt'),
 ('M19-residual-allreduce-to-bcast', P+'sweeper_classes/generic_implicit_MPI.py',
  "L.status.residual = self.comm.allreduce(res_norm, op=MPI.MAX)", "L.status.residual = self.comm.bcast(res_norm, root=0)", 'n3,b2x2'),
 ('M21-no-final-wait', P+'controller_classes/controller_MPI.py',
  "                for req in self.req_send:\n                    if req is not None:\n                        req.Wait()\n                if self.req_status is not None:\n                    self.req_status.Wait()",
  "                if self.req_status is not None:\n                    self.req_status.Wait()", 't3gs,t2jac,t3ml2'),
 ('M22-wait-after-endpoint', P+'controller_classes/controller_MPI.py',
  "        if not blocking:\n            self.wait_with_interrupt(request=self.req_send[level])\n            if self.S.status.force_done:\n                return None\n\n        self.S.levels[level].sweep.compute_end_point()",
  "        self.S.levels[level].sweep.compute_end_point()", 't2jac,t3ml2,b2x2'),
 ('M23-prolongf-uses-u', P+'transfer_classes/BaseTransferMPI.py',
  "CG.Reduce(self.Pcoll[n, CG.rank] * tmp_f, recvBuf_f[CF.rank], root=n, op=MPI.SUM)", "CG.Reduce(self.Pcoll[n, CG.rank] * tmp_u, recvBuf_f[CF.rank], root=n, op=MPI.SUM)", 'n3ml3f'),
 ('M24-embedded-bcast-root0', P+'convergence_controller_classes/estimate_embedded_error.py',
  "return comm.bcast(abs(L.uold[comm.rank + 1] - L.u[comm.rank + 1]), root=comm.size - 1)", "return comm.bcast(abs(L.uold[comm.rank + 1] - L.u[comm.rank + 1]), root=0)", 'n3adapt,b2x3adapt'),
 ('M25-dtmax-bcast-root0', P+'convergence_controller_classes/spread_step_sizes.py',
  "dt_max = comm.bcast((Tend - time) / size, root=restart_at) if self.params.overwrite_to_reach_Tend else np.inf", "dt_max = comm.bcast((Tend - time) / size, root=0) if self.params.overwrite_to_reach_Tend else np.inf", 't3art,t4artdt,t3adapt'),
 ('M26-ria-no-increment', P+'convergence_controller_classes/basic_restarting.py',
  "buff[0] = int(S.status.restarts_in_a_row + 1 if S.status.restart else 0)", "buff[0] = int(S.status.restarts_in_a_row if S.status.restart else 0)", 't3art,t4artdt,t3adapt'),
 ('M27-restart-not-propagated', P+'convergence_controller_classes/basic_restarting.py',
  "S.status.restart = (S.status.restart or self.buffers.restart_earlier) and not self.buffers.max_restart_reached", "S.status.restart = S.status.restart and not self.buffers.max_restart_reached", 't3art,t4artearly,t3adapt'),
 ('M28-alltodone-lor', P+'convergence_controller_classes/check_convergence.py',
  "S.status.done = comm.allreduce(sendobj=S.status.done, op=self.MPI_LAND)", "S.status.done = comm.allreduce(sendobj=S.status.done, op=self.MPI_LOR)", 't3alld,r0,r1,r2,r3,r4,r5,r6,r7,r8,r9'),
 ('M20-mesh-irecv-wrong-source', P+'datatype_classes/mesh.py',
  "return comm.Irecv(self[:], source=source, tag=tag)", "return comm.Irecv(self[:], source=source, tag=tag + 0 if source == 0 else tag + 1)", 't3gs'),
]
BASE = {('request-dropped-incomplete','basic_restarting.py:prepare_next_block'),('request-dropped-incomplete','basic_restarting.py:determine_restart'),
        ('request-dropped-incomplete','check_convergence.py:communicate_convergence'),('request-dropped-incomplete','controller_MPI.py:send_full'),
        ('serial-vs-mpi','restarts_in_a_row')}
sel = sys.argv[1:]
for name, f, old, new, cfgs in M:
    if sel and not any(name.startswith(x) for x in sel): continue
    subprocess.run(['git','-C',WT,'checkout','-q','.'],check=True)
    path = os.path.join(WT, f)
    s = open(path).read()
    if s.count(old) != 1:
        print(name, 'PATTERN COUNT', s.count(old)); continue
    open(path,'w').write(s.replace(old,new))
    env = dict(os.environ, VERIF_REPO=WT, C08_CONFIGS=cfgs)
    p = subprocess.run(['./check','C08','--tier','quick','--seed','0'],cwd='/verif',env=env,capture_output=True,text=True)
    kinds = []
    import re
    for v in re.findall(r'VIOLATION property=C08 replay=(\S+)', p.stdout):
        d = json.load(open(v)); m = d['match']
        key = (m.get('kind'), m.get('site') or m.get('field') or m.get('what') or '')
        kinds.append(key)
    print(name, 'CAUGHT' if kinds else 'MISSED', kinds[:6], p.stdout.strip().split('\n')[-1][-60:], flush=True)
subprocess.run(['git','-C',WT,'checkout','-q','.'],check=True)
