"""Block cases for Model/Block.v (used by C01): ONE iteration of the REAL controller_nonMPI on a block of P time-parallel steps
with L levels in exact rational arithmetic, exported as a `bcase` literal for Model/BlockExec.v together with the expected
fine-level data of every step after the iteration (observed at post_iteration)."""
from fractions import Fraction as F

from harness.common import coq_list, coq_bool
from harness import exact as ex
from harness import exactrun as er
from harness.props.c02 import qc, qcl, qcm, rfrac


def make_block_case(rng, i, mode=0):
    from harness.props.c10 import set_exact_lagrange
    nl = rng.choice([1, 1, 2, 2, 3]) if mode == 0 else rng.choice([2, 2, 3])      # predictors and two-iteration cases: several levels
    P = rng.choice([2, 2, 3])
    imex = (i % 4 == 3)
    jacobi = True if nl > 1 else (rng.random() < 0.5)
    nn = sorted([rng.choice([2, 3]) for _ in range(nl)], reverse=True)
    if nl > 1 and i % 6 == 4:
        nn[-1] = 1                      # a coarse level with a single collocation node
    nsw = [rng.choice([1, 2]) for _ in range(nl - 1)] + [1]
    if nl == 1:
        nsw = [rng.choice([1, 2])] if jacobi else [1]      # it_coarse (Gauss-Seidel) always does one sweep
    dims = [1] * nl
    if i % 3 == 2:
        d = 2
        dims = []
        for l in range(nl):
            dims.append(d)
            if d % 2 == 0 and rng.random() < 0.5:
                d //= 2
    # end-point mode: several levels must copy the last node (the controller refuses anything else); ONE level may use the quadrature
    quad, dcu = 'RADAU-RIGHT', False
    if nl == 1 and i % 3 == 1:
        quad = rng.choice(['GAUSS', 'RADAU-LEFT', 'RADAU-RIGHT', 'LOBATTO'])
        dcu = quad in ('RADAU-RIGHT', 'LOBATTO') or rng.random() < 0.5
    levels_cfg = []
    for l in range(nl):
        lamv = tuple(rfrac(rng, -3, 1) for _ in range(dims[l]))
        cv = tuple(rfrac(rng, -2, 2) for _ in range(dims[l]))
        lvc = dict(num_nodes=nn[l], quad_type=quad, dim=dims[l], QI=rng.choice(['IE', 'LU', 'MIN-SR-S', 'IEpar']))
        if imex:
            lvc.update(lamI=lamv, cI=cv, lamE=tuple(rfrac(rng, -2, 1) for _ in range(dims[l])), muE=tuple(F(0) for _ in range(dims[l])),
                       cE=tuple(rfrac(rng, -2, 2) for _ in range(dims[l])), QE='EE')
        else:
            lvc.update(lam=lamv, c=cv)
        levels_cfg.append(lvc)
    dt = F(1, rng.choice([4, 8]))
    u0v = [rfrac(rng, -3, 3) for _ in range(dims[0])]
    finter = (nl > 1 and i % 5 == 1)
    ptype = {0: None, 1: 'fine_only', 2: 'pfasst_burnin', 3: None}[mode]
    cfg = dict(kind='IMEX' if imex else 'GI', levels=levels_cfg, num_procs=P, maxiter=(2 if mode == 3 else 1), restol=F(-1), dt=dt, predict_type=ptype,
               nsweeps=nsw if nl > 1 else nsw[0], finter=finter, small_tables=24, mssdc_jac=jacobi, do_coll_update=dcu)
    try:
        C = er.build_controller(cfg)
        if nl > 1:
            set_exact_lagrange(C)
        S = C.MS[0]
        lv = []
        for L in S.levels:
            M = L.sweep.coll.num_nodes
            if imex:
                pl, pc = [list(L.prob.lamI), list(L.prob.lamE)], [list(L.prob.cI), list(L.prob.cE)]
            else:
                pl, pc = [list(L.prob.lam)], [list(L.prob.c)]
            lv.append(dict(M=M, dt=L.params.dt, pl=pl, pc=pc,
                           Q=[[L.sweep.coll.Qmat[a, b] for b in range(M + 1)] for a in range(M + 1)],
                           QI=[[L.sweep.QI[a, b] for b in range(M + 1)] for a in range(M + 1)],
                           QE=([[L.sweep.QE[a, b] for b in range(M + 1)] for a in range(M + 1)] if imex else [[0] * (M + 1) for _ in range(M + 1)]),
                           nodes=[F(0)] + [F(x) for x in L.sweep.coll.nodes],
                           end=(bool(L.sweep.coll.right_is_node), bool(L.sweep.params.do_coll_update), [F(0)] + [F(x) for x in L.sweep.coll.weights])))
        R, Pm, RS, PS = [], [], [], []
        for k in range(nl - 1):
            bt = S._Step__transfer_dict[(S.levels[k], S.levels[k + 1])].__self__
            R.append([[bt.Rcoll[a, b] for b in range(lv[k]['M'])] for a in range(lv[k + 1]['M'])])
            Pm.append([[bt.Pcoll[a, b] for b in range(lv[k + 1]['M'])] for a in range(lv[k]['M'])])
            RS.append([list(r) for r in bt.space_transfer.Rm]); PS.append([list(r) for r in bt.space_transfer.Pm])
        er.Recorder.log = []; er.Recorder.deep = True
        C.run(u0=ex.FracVec(u0v), t0=F(0), Tend=dt * P)
        log = er.Recorder.log
    except (ZeroDivisionError, StopIteration):
        return None

    def parts(fv):
        return fv if imex else [fv]
    if mode in (0, 3):
        pred = {e['slot']: e['levels'][0] for e in log if e['cb'] == 'pre_iteration' and e['iter'] == 1}
        post = {e['slot']: e['levels'][0] for e in log if e['cb'] == 'post_iteration' and e['iter'] == (2 if mode == 3 else 1)}
    else:       # predictor: state of every step before / after the PREDICT stage
        pred = {e['slot']: e['levels'][0] for e in log if e['cb'] == 'pre_predict'}
        post = {e['slot']: e['levels'][0] for e in log if e['cb'] == 'post_predict'}
    if sorted(pred) != list(range(P)) or sorted(post) != list(range(P)):
        return None
    expected = []
    for p in range(P):
        expected += [x for v in post[p]['u'] for x in v]
        expected += [x for fv in post[p]['f'][1:] for pt in parts(fv) for x in pt]
    # validity flags: every (step, level) entry the schedule touches must have been produced from valid data (fine_only never
    # touches the coarse levels)
    expected += ([1] + [0] * (nl - 1)) * P if mode == 1 else [1] * (P * nl)

    def mlevel(l):
        d = lv[l]
        return ('{| ml_M := %d%%nat; ml_dt := %s; ml_nodes := %s; ml_Q := %s; ml_QI := %s; ml_QE := %s; '
                'ml_prob := {| p_dim := %d%%nat; p_lam := %s; p_mu := %s; p_c := %s |}; ml_pre := %d%%nat; ml_post := 0%%nat |}'
                % (d['M'], qc(d['dt']), qcl(d['nodes']), qcm(d['Q']), qcm(d['QI']), qcm(d['QE']), dims[l], qcm(d['pl']),
                   qcm([[0] * dims[l]] * len(d['pl'])), qcm(d['pc']), nsw[l]))

    def mxfer(k):
        Mf, Mc = lv[k]['M'], lv[k + 1]['M']
        return ('{| mx_df := %d%%nat; mx_dc := %d%%nat; mx_Rs := %s; mx_Ps := %s; mx_Rcoll := %s; mx_Pcoll := %s; mx_finter := %s |}'
                % (dims[k], dims[k + 1], qcm(RS[k]), qcm(PS[k]), qcm([[0] * (Mf + 1)] + [[0] + list(r) for r in R[k]]),
                   qcm([[0] * (Mc + 1)] + [[0] + list(r) for r in Pm[k]]), coq_bool(finter)))
    lit = (('({| b_t0 := %s; b_dt := %s; b_imex := %s; b_jacobi := %s; b_mode := ' + str(mode) + '%%nat; b_levels := %s; b_xfers := %s; b_ends := %s; b_u := %s; b_f := %s |}, %s)')
           % (qc(F(0)), qc(dt), coq_bool(imex), coq_bool(jacobi), coq_list([mlevel(l) for l in range(nl)]),
              coq_list([mxfer(k) for k in range(nl - 1)]),
              coq_list(['(%s, %s, %s)' % (coq_bool(d['end'][0]), coq_bool(d['end'][1]), qcl(d['end'][2])) for d in lv]),
              coq_list([qcm(pred[p]['u']) for p in range(P)]),
              coq_list([coq_list([qcm(parts(fv)) for fv in pred[p]['f']]) for p in range(P)]),
              qcl(expected)))
    meta = dict(mode={0: 'iteration', 1: 'predict fine_only', 2: 'predict pfasst_burnin', 3: 'two iterations'}[mode], steps=P, levels=nl, nodes=nn, nsweeps=nsw, dims=dims, imex=imex, jacobi=jacobi, finter=finter, dt=str(dt), quad_type=quad, do_coll_update=dcu,
                QI=[x['QI'] for x in levels_cfg], u0=[str(v) for v in u0v])
    return meta, lit


def eval_block_cases(ck, cases, chunk=2):
    """kernel-evaluate check_bcase on the generated cases; report differences"""
    import concurrent.futures as cf
    from harness.common import parse_coq_value, eval_outputs
    files = []
    for ci in range(0, len(cases), chunk):
        body = ['From Coq Require Import List ZArith QArith Qcanon.',
                'From PySDC Require Import Model.Sweep Model.SweepExec Model.Transfer Model.TransferExec Model.MultiLevel Model.MultiLevelExec Model.Block Model.BlockExec.',
                'Import ListNotations.', 'Definition cases : list (bcase * list Qc) := [', ';\n'.join(c[1] for c in cases[ci:ci + chunk]), '].',
                'Eval vm_compute in map check_bcase cases.']
        files.append(ck.write_gen('BCases_%03d.v' % (ci // chunk), '\n'.join(body) + '\n'))
    with cf.ThreadPoolExecutor(max_workers=14) as pool:
        outs = list(pool.map(lambda f: ck.coqc(f, timeout=1200), files))
    results = []
    for f, (rc, out) in zip(files, outs):
        if rc != 0:
            ck.obligation('model evaluation ' + f.split('/')[-1], False, out[-800:])
            ck.violation('generated block cases do not compile/evaluate', {'file': f, 'log': out[-3000:]}, match={'kind': 'gen'}, no_input=True)
            return
        results += parse_coq_value(eval_outputs(out)[0])
    nd = 0
    for (meta, _), r in zip(cases, results):
        ck.traces += 1
        if r != -1:
            nd += 1
            ck.violation('Model/Block.pfasst_iteration and one real iteration of controller_nonMPI on a block of %d steps / %d levels differ at observable #%d (exact arithmetic)'
                         % (meta['steps'], meta['levels'], r),
                         dict(meta, correspondence='Model/BlockExec.b_run vs controller_nonMPI it_check/it_down/it_coarse/it_up/it_fine', first_differing_observable=r),
                         match={'kind': 'block_correspondence', 'levels': meta['levels'], 'jacobi': meta['jacobi']}, no_input=True)
    ck.obligation('exact correspondence Model/Block.pfasst_iteration = one real block iteration on %d cases (2-3 steps, 1-3 levels, Jacobi/Gauss-Seidel)' % len(cases), nd == 0)
