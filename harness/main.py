import argparse
import importlib
import os
import sys
import traceback

from harness.common import Check


def main():
    ap = argparse.ArgumentParser()
    ap.add_argument('pid')
    ap.add_argument('--tier', default=os.environ.get('VERIF_TIER', 'quick'), choices=['quick', 'thorough'])
    ap.add_argument('--seed', type=int, default=int(os.environ.get('VERIF_SEED', '0') or 0))
    ap.add_argument('--replay', default=None)
    a = ap.parse_args()
    pid = a.pid.upper()
    mod = importlib.import_module('harness.props.' + pid.lower())
    replay_data = None
    if a.replay:
        # a replay re-runs the check with the seed and tier recorded in the replay file (all generators are
        # seeded, so the recorded violation reproduces); property modules may use ck.replay_data for more
        import json
        try:
            with open(a.replay) as f:
                replay_data = json.load(f)
            a.seed = int(replay_data.get('seed', a.seed))
            a.tier = replay_data.get('tier', a.tier)
        except (OSError, ValueError) as e:
            print('cannot read replay file %s: %s' % (a.replay, e))
    if a.replay:
        os.environ['VERIF_REPLAY_FILE'] = os.path.abspath(a.replay)
    ck = Check(pid, a.tier, a.seed, level=getattr(mod, 'LEVEL', 'proof'))
    ck.replay_file = a.replay
    ck.replay_data = replay_data
    try:
        mod.run(ck)
    except Exception:
        tb = traceback.format_exc()
        ck.log('check crashed:\n' + tb)
        ck.obligation('check-ran-to-completion', False, tb[-1500:], kind='harness')
        ck.violation('the check itself crashed (implementation or harness raised): ' + tb.strip().splitlines()[-1],
                     {'traceback': tb}, match={'kind': 'crash'}, no_input=True)
    sys.exit(ck.finish())


if __name__ == '__main__':
    main()
