"""Run the REAL pySDC sweepers / transfers / controllers in exact rational arithmetic.

Nothing in /repo is edited: pySDC's own extension points are used — a custom data type (FracVec),
custom Problem subclasses with exact solves, and `exactify`, which replaces the float tables of a
level's sweeper (Qmat, weights, nodes, QI, QE, Q1, Q2) and the step size by the exact
fractions.Fraction image of the very float values the code produced (or by injected rational
matrices).  All arithmetic the sweeper then performs is exact, so results can be compared with the
Coq model (over Qc) without any tolerance.
"""
from fractions import Fraction as F

import numpy as np

from pySDC.core.problem import Problem


class FracVec:
    """dtype_u / dtype_f protocol over Fractions: FracVec(init:int|FracVec, val=0)."""
    __array_ufunc__ = None      # numpy scalars must defer to __rmul__/__radd__ instead of broadcasting over us

    def __init__(self, init, val=0):
        if isinstance(init, FracVec):
            self.v = list(init.v)
        elif isinstance(init, (list, tuple)):
            self.v = [F(x) for x in init]
        else:
            self.v = [F(val) if not isinstance(val, float) else F(val)] * int(init)

    def __add__(self, o):
        o = _asvec(o, len(self.v))
        return type(self)([a + b for a, b in zip(self.v, o)])

    __radd__ = __add__

    def __sub__(self, o):
        o = _asvec(o, len(self.v))
        return type(self)([a - b for a, b in zip(self.v, o)])

    def __rsub__(self, o):
        o = _asvec(o, len(self.v))
        return type(self)([b - a for a, b in zip(self.v, o)])

    def __mul__(self, c):
        return type(self)([a * F(c) for a in self.v])

    __rmul__ = __mul__

    def copy(self):
        return type(self)(self)

    def __neg__(self):
        return type(self)([-a for a in self.v])

    def __abs__(self):
        return max(abs(a) for a in self.v)

    def __eq__(self, o):
        return isinstance(o, FracVec) and self.v == o.v

    def __len__(self):
        return len(self.v)

    def __getitem__(self, i):
        return self.v[i]

    def __repr__(self):
        return 'FracVec(%s)' % ', '.join(str(a) for a in self.v)


def _asvec(o, n):
    if isinstance(o, FracVec):
        return o.v
    return [F(o)] * n


class FracF2:
    """two-part right-hand side (imex: impl/expl, multi_implicit: comp1/comp2)."""

    def __init__(self, init, val=0):
        if isinstance(init, FracF2):
            self.a = FracVec(init.a)
            self.b = FracVec(init.b)
        else:
            self.a = FracVec(init, val)
            self.b = FracVec(init, val)

    def __add__(self, o):
        r = FracF2(self); r.a = self.a + o.a; r.b = self.b + o.b; return r

    def __sub__(self, o):
        r = FracF2(self); r.a = self.a - o.a; r.b = self.b - o.b; return r

    def __rmul__(self, c):
        r = FracF2(self); r.a = c * self.a; r.b = c * self.b; return r

    __array_ufunc__ = None

    impl = property(lambda s: s.a, lambda s, v: setattr(s, 'a', v))
    expl = property(lambda s: s.b, lambda s, v: setattr(s, 'b', v))
    comp1 = property(lambda s: s.a, lambda s, v: setattr(s, 'a', v))
    comp2 = property(lambda s: s.b, lambda s, v: setattr(s, 'b', v))


class DiagProb(Problem):
    """f(u,t)_x = lam[x]*u_x + c[x]*t   (one part; exact solve)."""
    dtype_u = FracVec
    dtype_f = FracVec

    def __init__(self, lam, c):
        super().__init__(init=len(lam))
        self.lam = [F(x) for x in lam]
        self.c = [F(x) for x in c]
        self.calls = []

    def eval_f(self, u, t):
        t = F(t)
        self.calls.append(('eval_f', t))
        return FracVec([l * a + c * t for l, a, c in zip(self.lam, u.v, self.c)])

    def solve_system(self, rhs, factor, u0, t):
        t, factor = F(t), F(factor)
        self.calls.append(('solve', factor, t))
        return FracVec([(r + factor * c * t) / (1 - factor * l) for r, l, c in zip(rhs.v, self.lam, self.c)])


class ImexDiagProb(Problem):
    """f_impl = lamI*u + cI*t ;  f_expl = lamE*u + muE*u^2 + cE*t  (explicit part may be nonlinear)."""
    dtype_u = FracVec
    dtype_f = FracF2

    def __init__(self, lamI, cI, lamE, muE, cE):
        super().__init__(init=len(lamI))
        self.lamI, self.cI = [F(x) for x in lamI], [F(x) for x in cI]
        self.lamE, self.muE, self.cE = [F(x) for x in lamE], [F(x) for x in muE], [F(x) for x in cE]

    def eval_f(self, u, t):
        t = F(t)
        f = FracF2(self.init)
        f.impl = FracVec([l * a + c * t for l, a, c in zip(self.lamI, u.v, self.cI)])
        f.expl = FracVec([l * a + m * a * a + c * t for l, m, a, c in zip(self.lamE, self.muE, u.v, self.cE)])
        return f

    def solve_system(self, rhs, factor, u0, t):
        t, factor = F(t), F(factor)
        return FracVec([(r + factor * c * t) / (1 - factor * l) for r, l, c in zip(rhs.v, self.lamI, self.cI)])

    def apply_mass_matrix(self, u):
        return u


class MassDiagProb(ImexDiagProb):
    """ImexDiagProb with a diagonal mass matrix: (mass - factor*lamI) u = rhs + factor*cI*t  (imex_1st_order_mass)."""
    fix_bc_for_residual = False

    def __init__(self, lamI, cI, lamE, muE, cE, mass):
        super().__init__(lamI, cI, lamE, muE, cE)
        self.mass = [F(x) for x in mass]

    def apply_mass_matrix(self, u):
        return FracVec([a * b for a, b in zip(self.mass, u.v)])

    def solve_system(self, rhs, factor, u0, t):
        t, factor = F(t), F(factor)
        return FracVec([(r + factor * c * t) / (m_ - factor * l) for r, l, c, m_ in zip(rhs.v, self.lamI, self.cI, self.mass)])


class MultiDiagProb(Problem):
    """multi_implicit: comp1 = lam1*u + c1*t, comp2 = lam2*u + c2*t, two exact solves."""
    dtype_u = FracVec
    dtype_f = FracF2

    def __init__(self, lam1, c1, lam2, c2):
        super().__init__(init=len(lam1))
        self.lam1, self.c1 = [F(x) for x in lam1], [F(x) for x in c1]
        self.lam2, self.c2 = [F(x) for x in lam2], [F(x) for x in c2]

    def eval_f(self, u, t):
        t = F(t)
        f = FracF2(self.init)
        f.comp1 = FracVec([l * a + c * t for l, a, c in zip(self.lam1, u.v, self.c1)])
        f.comp2 = FracVec([l * a + c * t for l, a, c in zip(self.lam2, u.v, self.c2)])
        return f

    def solve_system_1(self, rhs, factor, u0, t):
        t, factor = F(t), F(factor)
        return FracVec([(r + factor * c * t) / (1 - factor * l) for r, l, c in zip(rhs.v, self.lam1, self.c1)])

    def solve_system_2(self, rhs, factor, u0, t):
        t, factor = F(t), F(factor)
        return FracVec([(r + factor * c * t) / (1 - factor * l) for r, l, c in zip(rhs.v, self.lam2, self.c2)])


def frac_array(a):
    """object ndarray holding the exact Fraction image of a float (or Fraction) array."""
    a = np.asarray(a)
    out = np.empty(a.shape, dtype=object)
    for idx in np.ndindex(a.shape):
        x = a[idx]
        out[idx] = x if isinstance(x, F) else F(float(x))
    return out


MATRIX_ATTRS = ('QI', 'QE', 'Q1', 'Q2')


def small_rational(a, k):
    """object array of Fractions close to the floats of a, denominators <= k (keeps exact zeros)"""
    a = np.asarray(a)
    out = np.empty(a.shape, dtype=object)
    for idx in np.ndindex(a.shape):
        out[idx] = F(float(a[idx])).limit_denominator(k)
    return out


def exactify(level, dt=None, inject=None, small=None):
    """Replace the float tables of level.sweep by exact Fraction images (in place, on this level's
    own objects only).  inject: dict attr -> Fraction matrix (incl. 'Qmat', 'weights', 'nodes').
    small=k: use surrogate tables with denominators <= k instead of the exact float images (keeps the
    rationals of long exact runs small; for checks that are about the algorithm, not the table)."""
    sw = level.sweep
    coll = sw.coll
    inject = dict(inject or {})
    if small:
        for a in ('Qmat', 'weights', 'nodes'):
            inject.setdefault(a, small_rational(getattr(coll, a), small))
        for a in MATRIX_ATTRS:
            if hasattr(sw, a):
                inject.setdefault(a, small_rational(getattr(sw, a), small))
    coll.Qmat = frac_array(inject.get('Qmat', coll.Qmat))
    coll.weights = frac_array(inject.get('weights', coll.weights))
    coll.nodes = frac_array(inject.get('nodes', coll.nodes))
    for a in MATRIX_ATTRS:
        if hasattr(sw, a):
            setattr(sw, a, frac_array(inject.get(a, getattr(sw, a))))
    if dt is not None:
        level.params.dt = F(dt)
    else:
        level.params.dt = F(level.params.dt)
    return level


def make_level(sweeper_class, sweeper_params, problem_class, problem_params, dt, level_index=0, level_params=None):
    from pySDC.core.level import Level
    lp = {'dt': float(dt)}
    lp.update(level_params or {})
    L = Level(problem_class=problem_class, problem_params=problem_params, sweeper_class=sweeper_class,
              sweeper_params=dict(sweeper_params), level_params=lp, level_index=level_index)
    return L
