"""C12 helpers: registry of every importable pySDC problem class with the variants (solver types,
boundary conditions, splittings) it offers, generators of admissible inputs, operator export and
the implementation-side oracle.  Used by harness/props/c12.py.

Vocabulary
  kind 'linear'    solve_system inverts I - factor*A for an explicit operator A that the class
                   exposes (prob.A, prob.M, diag(lambdas)) or that is probed from eval_f on unit
                   vectors (FFT classes).  -> Coq: apply certificate (f_impl(u) = A u), solve certificate,
                   and for small systems the inverse certificate / uniqueness bound.
  kind 'nonlinear' Newton-type solver; certified against the class' own eval_f values (test oracle,
                   evaluated in floats by the implementation) -> Coq: vector residual certificate.
  kind 'spectral'  GenericSpectralLinear family: (M + dt L) with boundary rows; certified as the
                   general linear system the class assembles (mass matrix, BC rows included).
  kind 'nosolve'   second-order particle classes without solve_system (eval_f / u_exact clauses only).
  kind 'exempt'    solve_system deliberately returns u_exact(t) (documented test problems).
"""
import importlib
import inspect
import os
import warnings
import logging

import numpy as np
import scipy.sparse as sp

PC = 'pySDC.implementations.problem_classes.'


# --------------------------------------------------------------------------------------------- discovery

def discover():
    """Import every module of problem_classes; return ({'module.Class': cls}, {module: error})."""
    import pySDC.implementations.problem_classes as pc
    from pySDC.core.problem import Problem
    d = os.path.dirname(pc.__file__)
    ok, err = {}, {}
    for f in sorted(os.listdir(d)):
        if not f.endswith('.py') or f == '__init__.py':
            continue
        m = PC + f[:-3]
        try:
            mod = importlib.import_module(m)
        except Exception as e:  # optional dependency missing
            err[f[:-3]] = '%s: %s' % (type(e).__name__, str(e)[:100])
            continue
        for n, c in inspect.getmembers(mod, inspect.isclass):
            if issubclass(c, Problem) and c.__module__ == m:
                ok['%s.%s' % (f[:-3], n)] = c
    return ok, err


# --------------------------------------------------------------------------------------------- variants

class Variant:
    def __init__(self, key, label, params, kind, solves=(('solve_system', 'full'),), op=None, state=None,
                 lin=None, newton=None, fmax=1e2, fmin=1e-6, small=False, note=None, tvar=True, post=None,
                 rhs_gen=None, mask=None, manufactured=None, always=False, u0_pert=1e-3, consistent=None, static_op=True, zero_ok=True, tag=None):
        self.key = key              # 'Module.Class'
        self.label = label
        self.params = params
        self.kind = kind
        self.solves = solves        # (method name, part of dtype_f that the method inverts)
        self.op = op                # callable(prob, method) -> matrix (real/complex, sparse/dense) or 'probe'
        self.state = state          # callable(prob, rng) -> ndarray, an admissible state
        self.lin = lin              # dict(tol=<attr>, ) for iterative linear solvers
        self.newton = newton        # attribute name of the Newton tolerance
        self.fmax, self.fmin = fmax, fmin
        self.small = small          # small enough for the dense inverse certificate
        self.note = note
        self.tvar = tvar
        self.post = post
        self.rhs_gen = rhs_gen
        self.mask = mask
        self.manufactured = (kind == 'nonlinear') if manufactured is None else manufactured
        self.always = always or (kind == 'nonlinear' and key.split('.')[0] in (
            'Van_der_Pol_implicit', 'Lorenz', 'odeScalar', 'odeSystem', 'Battery', 'LogisticEquation', 'nonlinear_ODE_1', 'Auzinger_implicit'))
        # ^ run in the quick tier irrespective of subsampling (all ODE-sized Newton variants are cheap)
        self.u0_pert = u0_pert
        self.consistent = consistent  # callable(prob, rhs, u, t) -> bool: same branch of a switched right-hand side
        self.zero_ok = zero_ok        # factor = 0 admissible (not for DAE-type systems with algebraic rows)
        self.tag = tag                # input class marker copied into match dicts
        self.static_op = static_op    # the stored operator must not change during solve / eval_f

    @property
    def id(self):
        return '%s[%s]' % (self.key, self.label)


def _uniform(prob, rng, lo=-1.0, hi=1.0):
    u = prob.dtype_u(prob.init)
    shape = u.shape
    vals = np.array([rng.uniform(lo, hi) for _ in range(int(np.prod(shape)))]).reshape(shape)
    if np.iscomplexobj(u):
        vals = vals + 1j * np.array([rng.uniform(lo, hi) for _ in range(int(np.prod(shape)))]).reshape(shape)
    return vals


def st_uniform(lo=-1.0, hi=1.0):
    return lambda prob, rng: _uniform(prob, rng, lo, hi)


def st_front(prob, rng):
    """tanh front in (0,1) plus noise (1-D Allen-Cahn, Fisher)."""
    n = prob.init[0]
    x = np.linspace(-1, 1, n)
    w = rng.uniform(0.1, 0.5)
    return 0.5 * (1 + np.tanh((x - rng.uniform(-0.3, 0.3)) / w)) * 0.9 + 0.05 + 0.02 * _uniform(prob, rng)


def st_phase2d(prob, rng):
    n = prob.init[0][0]
    x = np.linspace(-0.5, 0.5, n, endpoint=False)
    X, Y = np.meshgrid(x, x)
    r = rng.uniform(0.15, 0.35)
    return 0.9 * np.tanh((r - np.sqrt(X ** 2 + Y ** 2)) / rng.uniform(0.05, 0.2)) + 0.03 * _uniform(prob, rng)


def st_bandlimited(prob, rng):
    """random real field without Nyquist content (1-D FFT classes differentiate with i*k)."""
    v = _uniform(prob, rng)
    h = np.fft.rfft(v)
    h[-1] = 0.0
    return np.fft.irfft(h, n=v.size)


def A_attr(name='A'):
    return lambda prob, method: getattr(prob, name)


def op_diag(attr):
    return lambda prob, method: sp.diags(np.asarray(getattr(prob, attr)).astype(complex))


V = Variant
REG = []


def add(*a, **k):
    REG.append(V(*a, **k))


# ---- finite differences (generic_ND_FD family) ---------------------------------------------------------
def _fd_variants():
    for key, extra, solves in [
        ('generic_ND_FD.GenericNDimFinDiff', dict(coeff=0.7, derivative=2), (('solve_system', 'full'),)),
        ('HeatEquation_ND_FD.heatNd_unforced', dict(nu=0.3), (('solve_system', 'full'),)),
        ('HeatEquation_ND_FD.heatNd_forced', dict(nu=0.2), (('solve_system', 'impl'),)),
    ]:
        first = True
        for nvars, bc, order, solver, freq in [
            (16, 'periodic', 2, 'direct', 2), (15, 'dirichlet-zero', 4, 'direct', 1), (12, 'neumann-zero', 2, 'direct', 2),
            ((6, 6), 'periodic', 2, 'direct', (2, 2)), ((4, 4, 4), 'periodic', 2, 'direct', (2, 2, 2)),
            (16, 'periodic', 4, 'CG', 2), (15, 'dirichlet-zero', 2, 'CG', 1), ((7, 7), 'dirichlet-zero', 2, 'CG', (1, 1)),
            (16, 'periodic', 6, 'GMRES', 2), (14, 'neumann-zero', 4, 'GMRES', 2), ((6, 6), 'periodic', 4, 'GMRES', (2, 4)),
            (32, 'periodic', 8, 'direct', 4), ((5, 5, 5), 'dirichlet-zero', 2, 'direct', (1, 1, 1)),
        ]:
            p = dict(nvars=nvars, bc=bc, order=order, solver_type=solver, freq=freq, stencil_type='center', **extra)
            n = int(np.prod(nvars))
            add(key, '%s,%s,o%d,%s' % (nvars, bc, order, solver), p, 'linear', solves=solves, op=A_attr('A'),
                lin=dict(tol='lintol') if solver != 'direct' else None, small=n <= 40, always=first)
            first = False
    key = 'generic_ND_FD.GenericNDimFinDiff'
    add(key, 'd1-upwind', dict(nvars=16, coeff=-1.0, derivative=1, order=3, stencil_type='upwind', bc='periodic', freq=2), 'linear',
        op=A_attr('A'), small=True)
    add(key, 'd3-center-GMRES', dict(nvars=16, coeff=0.01, derivative=3, order=2, stencil_type='center', bc='periodic', freq=2,
                                     solver_type='GMRES'), 'linear', op=A_attr('A'), lin=dict(tol='lintol'), small=True)
    key = 'AdvectionEquation_ND_FD.advectionNd'
    first = True
    for nvars, bc, order, st, solver, freq in [
        (16, 'periodic', 2, 'center', 'direct', 2), (16, 'periodic', 5, 'upwind', 'direct', 2), (16, 'periodic', 3, 'upwind', 'GMRES', 4),
        ((6, 6), 'periodic', 2, 'center', 'direct', (2, 2)), ((4, 4, 4), 'periodic', 1, 'upwind', 'direct', (2, 2, 2)),
        (15, 'dirichlet-zero', 2, 'center', 'direct', 1), (16, 'periodic', 4, 'center', 'GMRES', 2),
        (16, 'periodic', 2, 'forward', 'direct', 2), (16, 'periodic', 2, 'backward', 'direct', 2),
    ]:
        p = dict(nvars=nvars, bc=bc, order=order, stencil_type=st, solver_type=solver, freq=freq, c=0.8)
        n = int(np.prod(nvars))
        add(key, '%s,%s,o%d,%s,%s' % (nvars, bc, order, st, solver), p, 'linear', op=A_attr('A'),
            lin=dict(tol='lintol') if solver != 'direct' else None, small=n <= 40, always=first)
        first = False


_fd_variants()


# ---- scalar / diagonal test equations ----------------------------------------------------------------
def _lam(rng_seed, n):
    r = np.random.RandomState(rng_seed)
    return (-r.uniform(0, 30, n) + 1j * r.uniform(-20, 20, n))


add('TestEquation_0D.testequation0d', 'complex-5', dict(lambdas=_lam(1, 5), u0=1.0), 'linear', op=op_diag('lambdas'), small=True, always=True)
add('TestEquation_0D.testequation0d', 'real-stiff', dict(lambdas=np.array([-1.0, -1000.0, 0.5, 0.0]), u0=0.5), 'linear',
    op=op_diag('lambdas'), small=True, fmax=1.0)
add('TestEquation_0D.testequation0d', 'default-2500', dict(), 'linear', op=op_diag('lambdas'), fmax=1e-2)
add('TestEquation_0D.test_equation_IMEX', 'complex-4', dict(lambdas_implicit=_lam(2, 4), lambdas_explicit=_lam(3, 4), u0=1.0), 'linear',
    solves=(('solve_system', 'impl'),), op=op_diag('lambdas_implicit'), small=True, always=True)
add('FastWaveSlowWave_0D.swfw_scalar', '2x3', dict(lambda_s=np.array([-1.0 + 0.5j, 0.3j]), lambda_f=np.array([-100j, -10.0 + 2j, -1000.0]), u0=1.0),
    'linear', solves=(('solve_system', 'impl'),), small=True, always=True,
    op=lambda prob, m: sp.diags(np.tile(np.asarray(prob.lambda_f, dtype=complex), prob.lambda_s.size)))

# ---- Allen-Cahn 1-D -------------------------------------------------------------------------------------
AC1 = 'AllenCahn_1D_FD.'
for n_, eps_, dw_ in [(31, 0.04, -0.04), (15, 0.1, 0.0), (63, 0.04, -0.02)]:
    lab = 'n%d,eps%g,dw%g' % (n_, eps_, dw_)
    first = n_ == 31
    add(AC1 + 'allencahn_front_fullyimplicit', lab, dict(nvars=n_, eps=eps_, dw=dw_), 'nonlinear', state=st_front, newton='newton_tol', always=first)
    add(AC1 + 'allencahn_front_semiimplicit', lab, dict(nvars=n_, eps=eps_, dw=dw_), 'linear', solves=(('solve_system', 'impl'),),
        state=st_front, op='affine-probe', always=first)
    add(AC1 + 'allencahn_front_finel', lab, dict(nvars=n_, eps=eps_, dw=dw_), 'nonlinear', state=st_front, newton='newton_tol', always=first)
for n_, eps_, dw_ in [(32, 0.04, -0.04), (16, 0.1, 0.0), (64, 0.04, -0.02)]:
    lab = 'n%d,eps%g,dw%g' % (n_, eps_, dw_)
    first = n_ == 32
    add(AC1 + 'allencahn_periodic_fullyimplicit', lab, dict(nvars=n_, eps=eps_, dw=dw_), 'nonlinear', state=st_front, newton='newton_tol', always=first)
    add(AC1 + 'allencahn_periodic_semiimplicit', lab, dict(nvars=n_, eps=eps_, dw=dw_), 'linear', solves=(('solve_system', 'impl'),),
        op=A_attr('A'), small=n_ <= 40, always=first)
    add(AC1 + 'allencahn_periodic_multiimplicit', lab + ',lin', dict(nvars=n_, eps=eps_, dw=dw_), 'linear', solves=(('solve_system_1', 'comp1'),),
        op=A_attr('A'), small=n_ <= 40, always=first)
    add(AC1 + 'allencahn_periodic_multiimplicit', lab + ',newton', dict(nvars=n_, eps=eps_, dw=dw_), 'nonlinear', solves=(('solve_system_2', 'comp2'),),
        state=st_front, newton='newton_tol', always=first)

# ---- Allen-Cahn 2-D finite differences ----------------------------------------------------------------
AC2 = 'AllenCahn_2D_FD.'
for n_, eps_, nu_, order_ in [(8, 0.1, 2, 2), (6, 0.2, 2, 4), (8, 0.08, 4, 2)]:
    lab = 'n%d,eps%g,nu%d,o%d' % (n_, eps_, nu_, order_)
    p = dict(nvars=(n_, n_), eps=eps_, nu=nu_, order=order_)
    first = n_ == 8 and nu_ == 2
    add(AC2 + 'allencahn_fullyimplicit', lab, p, 'nonlinear', state=st_phase2d, newton='newton_tol', lin=dict(tol='lin_tol', inner=True), always=first, fmax=1.0)
    add(AC2 + 'allencahn_semiimplicit', lab, p, 'linear', solves=(('solve_system', 'impl'),), op=A_attr('A'), lin=dict(tol='lin_tol'), always=first)
    add(AC2 + 'allencahn_semiimplicit_v2', lab, p, 'nonlinear', solves=(('solve_system', 'impl'),), state=st_phase2d, newton='newton_tol',
        lin=dict(tol='lin_tol', inner=True), always=first, fmax=1.0)
    add(AC2 + 'allencahn_multiimplicit', lab + ',lin', p, 'linear', solves=(('solve_system_1', 'comp1'),), op=A_attr('A'), lin=dict(tol='lin_tol'), always=first)
    add(AC2 + 'allencahn_multiimplicit', lab + ',newton', p, 'nonlinear', solves=(('solve_system_2', 'comp2'),), state=st_phase2d, newton='newton_tol',
        lin=dict(tol='lin_tol', inner=True), always=first, fmax=1.0)
    add(AC2 + 'allencahn_multiimplicit_v2', lab + ',newton', p, 'nonlinear', solves=(('solve_system_1', 'comp1'),), state=st_phase2d, newton='newton_tol',
        lin=dict(tol='lin_tol', inner=True), always=first, fmax=1.0)
    add(AC2 + 'allencahn_multiimplicit_v2', lab + ',lin', p, 'linear', solves=(('solve_system_2', 'comp2'),),
        op=lambda prob, m: sp.eye(int(np.prod(prob.nvars))) * (1.0 / prob.eps ** 2), always=first, fmax=0.5 * eps_ ** 2)

# ---- FFT classes -------------------------------------------------------------------------------------------
for n_, eps_, nu_ in [(8, 0.04, 2), (6, 0.1, 2), (8, 0.2, 4)]:
    lab = 'n%d,eps%g,nu%d' % (n_, eps_, nu_)
    p = dict(nvars=(n_, n_), eps=eps_, nu=nu_)
    for c in ('allencahn2d_imex', 'allencahn2d_imex_stab'):
        add('AllenCahn_2D_FFT.' + c, lab, p, 'linear', solves=(('solve_system', 'impl'),), op='probe', always=n_ == 8 and nu_ == 2)
for n_, fr in [(16, 2), (32, -1), (8, 0)]:
    p = dict(nvars=n_, c=0.7, freq=fr, nu=0.05)
    add('AdvectionDiffusionEquation_1D_FFT.advectiondiffusion1d_imex', 'n%d,f%d' % (n_, fr), p, 'linear', solves=(('solve_system', 'impl'),),
        op='probe', small=n_ <= 40, always=n_ == 16)
    add('AdvectionDiffusionEquation_1D_FFT.advectiondiffusion1d_implicit', 'n%d,f%d' % (n_, fr), p, 'linear', op='probe', small=n_ <= 40,
        always=n_ == 16, state=st_bandlimited)
add('AdvectionDiffusionEquation_1D_FFT.advectiondiffusion1d_implicit', 'n16,f2,nyquist', dict(nvars=16, c=0.7, freq=2, nu=0.05), 'linear', op='probe',
    small=True, always=True, note='right-hand sides with Nyquist content', tag='nyquist')

# ---- ODE systems with Newton solvers --------------------------------------------------------------------------
add('Van_der_Pol_implicit.vanderpol', 'mu5', dict(mu=5.0, u0=[2.0, 0.0]), 'nonlinear', state=st_uniform(-2, 2), newton='newton_tol', always=True, fmax=1.0)
add('Van_der_Pol_implicit.vanderpol', 'mu0.5,rel', dict(mu=0.5, u0=[1.0, 1.0], relative_tolerance=True, newton_tol=1e-10), 'nonlinear',
    state=st_uniform(-2, 2), newton='newton_tol', fmax=1.0)
add('Van_der_Pol_implicit.vanderpol', 'mu50,nocrash', dict(mu=50.0, crash_at_maxiter=False), 'nonlinear', state=st_uniform(-2, 2), newton='newton_tol', fmax=0.1)
add('Lorenz.LorenzAttractor', 'default', dict(), 'nonlinear', state=st_uniform(-10, 10), newton='newton_tol', always=True, fmax=1.0)
add('Lorenz.LorenzAttractor', 'sigma5', dict(sigma=5.0, rho=14.0, beta=1.0, newton_tol=1e-11), 'nonlinear', state=st_uniform(-5, 5), newton='newton_tol', fmax=1.0)
add('Auzinger_implicit.auzinger', 'default', dict(), 'nonlinear', state=st_uniform(-1, 1), newton='newton_tol', always=True, fmax=1.0,
    note='default newton_maxiter=1e-12 / newton_tol=100 are swapped')
add('Auzinger_implicit.auzinger', 'tol1e-12', dict(newton_maxiter=100, newton_tol=1e-12), 'nonlinear', state=st_uniform(-1, 1), newton='newton_tol', always=True, fmax=1.0)
for nl in (False, True):
    add('odeScalar.ProtheroRobinson', 'nonlin=%s' % nl, dict(nonLinear=nl, epsilon=1e-3), 'nonlinear', state=st_uniform(0.3, 1.2), newton='newton_tol',
        always=not nl, fmax=10.0)
    add('odeSystem.ProtheroRobinsonAutonomous', 'nonlin=%s' % nl, dict(nonLinear=nl, epsilon=1e-2), 'nonlinear', state=st_uniform(0.3, 1.2), newton='newton_tol',
        always=not nl, fmax=10.0, tvar=False)
add('odeSystem.Kaps', 'eps1e-3', dict(epsilon=1e-3), 'nonlinear', state=st_uniform(0.2, 1.0), newton='newton_tol', always=True, fmax=10.0)
add('odeSystem.Kaps', 'eps1', dict(epsilon=1.0), 'nonlinear', state=st_uniform(0.2, 1.0), newton='newton_tol', fmax=10.0)
add('odeSystem.ChemicalReaction3Var', 'default', dict(), 'nonlinear', newton='newton_tol', always=True, fmax=1.0,
    state=lambda prob, rng: np.array([0.99, 1.0, 1e-5]) * np.array([rng.uniform(0.8, 1.2) for _ in range(3)]))
add('odeSystem.JacobiElliptic', 'default', dict(), 'nonlinear', state=st_uniform(-1, 1), newton='newton_tol', always=True, fmax=1.0)
add('nonlinear_ODE_1.nonlinear_ODE_1', 'default', dict(), 'nonlinear', state=st_uniform(-1.0, 0.9), newton='newton_tol', always=True, fmax=10.0)
add('LogisticEquation.logistics_equation', 'direct', dict(u0=0.5, lam=1.0, direct=True), 'nonlinear', state=st_uniform(0.05, 0.95), always=True, fmax=10.0,
    fmin=1e-2, note='closed-form root: cancellation error eps/(2*factor*lam) for small factors, hence fmin=1e-2')
add('LogisticEquation.logistics_equation', 'newton', dict(u0=0.3, lam=2.0, direct=False), 'nonlinear', state=st_uniform(0.05, 0.95), newton='newton_tol',
    always=True, fmax=0.2)
add('DiscontinuousTestODE.DiscontinuousTestODE', 'default', dict(), 'nonlinear', state=st_uniform(1.0, 9.0), newton='newton_tol', always=True, fmax=0.5,
    manufactured=False, consistent=lambda prob, rhs, u, t: (rhs[0] - 5 >= 0) == (u[0] - 5 >= 0))
add('DiscontinuousTestODE.ExactDiscontinuousTestODE', 'default', dict(), 'exempt', state=st_uniform(1.0, 9.0), always=True)
add('polynomial_test_problem.polynomial_testequation', 'deg4', dict(degree=4, seed=11), 'exempt', always=True)
add('polynomial_test_problem.polynomial_testequation_IMEX', 'deg3', dict(degree=3, seed=12), 'exempt', solves=(('solve_system', 'impl'),), always=True)

# ---- 1-D PDEs with Newton solvers ---------------------------------------------------------------------------
for n_, nu_, l0 in [(31, 1.0, 2.0), (15, 2.0, 1.0), (63, 1.0, 5.0)]:
    add('GeneralizedFisher_1D_FD_implicit.generalized_fisher', 'n%d,nu%g,l%g' % (n_, nu_, l0), dict(nvars=n_, nu=nu_, lambda0=l0), 'nonlinear',
        state=st_front, newton='newton_tol', always=n_ == 31)


def st_quench(prob, rng):
    n = prob.init[0]
    # temperatures straddling u_thresh / u_max but at least 2e-3 away from both switching points
    u = np.array([rng.uniform(0.0, 0.08) for _ in range(n)])
    for thr in (prob.u_thresh, prob.u_max):
        close = np.abs(u - thr) < 2e-3
        u[close] = thr + 4e-3
    return u


for lt, tr, ds, bc_, order_ in [('linear', 'step', True, 'neumann-zero', 2), ('exponential', 'step', True, 'neumann-zero', 4),
                                ('linear', 'Gaussian', True, 'dirichlet-zero', 2), ('linear', 'step', False, 'neumann-zero', 2),
                                ('exponential', 'Gaussian', False, 'periodic', 2)]:
    lab = '%s,%s,%s,%s,o%d' % (lt, tr, 'direct' if ds else 'gmres', bc_, order_)
    p = dict(nvars=32, leak_type=lt, leak_transition=tr, direct_solver=ds, bc=bc_, order=order_)
    add('Quench.Quench', lab, p, 'nonlinear', state=st_quench, newton='newton_tol', lin=None if ds else dict(tol='lintol', inner=True),
        always=(lt, tr, ds) == ('linear', 'step', True), fmax=10.0)
    if ds:
        add('Quench.QuenchIMEX', lab, p, 'linear', solves=(('solve_system', 'impl'),), op=A_attr('A'), small=True, always=(lt, tr) == ('linear', 'step'))

# ---- switched circuits --------------------------------------------------------------------------------------------
BAT = 'Battery.'
add(BAT + 'battery', 'default', dict(), 'linear', solves=(('solve_system', 'impl'),), op=A_attr('A'), small=True, always=True, state=st_uniform(0.0, 2.0), static_op=False)
add(BAT + 'battery', 'L2,C3', dict(L=2.0, C=np.array([3.0]), R=0.7, Rs=0.2, Vs=4.0, V_ref=np.array([0.8]), alpha=1.5), 'linear',
    solves=(('solve_system', 'impl'),), op=A_attr('A'), small=True, state=st_uniform(0.0, 2.0))
add(BAT + 'battery_n_capacitors', 'n2', dict(ncapacitors=2), 'linear', solves=(('solve_system', 'impl'),), op=A_attr('A'), small=True, always=True,
    state=st_uniform(0.0, 2.0))
add(BAT + 'battery_n_capacitors', 'n3', dict(ncapacitors=3, C=np.array([1.0, 2.0, 0.5]), V_ref=np.array([1.0, 0.9, 1.1]), L=1.5), 'linear',
    solves=(('solve_system', 'impl'),), op=A_attr('A'), small=True, state=st_uniform(0.0, 2.0))
def _bat_consistent(prob, rhs, u, t):
    return (rhs[1] - prob.V_ref[0] <= 0) == (u[1] - prob.V_ref[0] <= 0)


add(BAT + 'battery_implicit', 'default', dict(), 'nonlinear', state=st_uniform(0.0, 2.0), newton='newton_tol', always=True, manufactured=False, fmax=10.0,
    consistent=_bat_consistent)
add(BAT + 'battery_implicit', 'L2', dict(L=2.0, C=np.array([3.0]), R=0.7, Rs=0.2, Vs=4.0, V_ref=np.array([0.8]), alpha=1.5), 'nonlinear',
    state=st_uniform(0.0, 2.0), newton='newton_tol', manufactured=False, fmax=10.0, consistent=_bat_consistent)
add('BuckConverter.buck_converter', 'default', dict(), 'linear', solves=(('solve_system', 'impl'),), op=A_attr('A'), small=True, always=True, fmax=1e-2)
add('BuckConverter.buck_converter', 'duty0.3', dict(duty=0.3, fsw=10.0, C1=0.5, C2=0.25, L1=0.5, Rp=0.1), 'linear', solves=(('solve_system', 'impl'),),
    op=A_attr('A'), small=True)
add('Piline.piline', 'default', dict(), 'linear', solves=(('solve_system', 'impl'),), op=A_attr('A'), small=True, always=True)
add('Piline.piline', 'stiff', dict(Rs=0.01, C1=0.1, Lpi=0.05, C2=2.0, Rl=50.0), 'linear', solves=(('solve_system', 'impl'),), op=A_attr('A'), small=True)

# ---- acoustic / Boussinesq ---------------------------------------------------------------------------------------
for n_, oa in [(16, 5), (12, 3), (20, 1)]:
    add('AcousticAdvection_1D_FD_imex.acoustic_1d_imex', 'n%d,o%d' % (n_, oa), dict(nvars=(2, n_), cs=0.5, cadv=0.1, order_adv=oa, waveno=2), 'linear',
        solves=(('solve_system', 'impl'),), op=A_attr('A'), small=2 * n_ <= 40, always=n_ == 16,
        post=lambda x: np.concatenate((x[0, :], x[1, :])))
add('Boussinesq_2D_FD_imex.boussinesq_2d_imex', '12x6', dict(nvars=(4, 12, 6), x_bounds=(-6.0, 6.0), z_bounds=(0.0, 3.0), order_upw=3, order=2,
                                                          gmres_tol_limit=1e-10, gmres_restart=30), 'linear',
    solves=(('solve_system', 'impl'),), op=A_attr('M'), lin=dict(tol='gmres_tol_limit'), always=True, fmax=1.0)
add('Boussinesq_2D_FD_imex.boussinesq_2d_imex', '16x8,o4', dict(nvars=(4, 16, 8), x_bounds=(-8.0, 8.0), z_bounds=(0.0, 4.0), order_upw=5, order=4,
                                                             gmres_tol_limit=1e-8, gmres_restart=40), 'linear',
    solves=(('solve_system', 'impl'),), op=A_attr('M'), lin=dict(tol='gmres_tol_limit'), fmax=1.0)

# ---- second-order particle problems (no solve_system) -------------------------------------------------------------
add('HarmonicOscillator.harmonic_oscillator', 'undamped', dict(k=2.0, mu=0.0, u0=(1.0, 0.5)), 'nosolve', always=True)
add('HarmonicOscillator.harmonic_oscillator', 'under', dict(k=4.0, mu=0.4, u0=(0.5, -1.0)), 'nosolve', always=True)
add('HarmonicOscillator.harmonic_oscillator', 'over', dict(k=1.0, mu=3.0, u0=(1.0, 0.0)), 'nosolve', always=True)
add('HarmonicOscillator.harmonic_oscillator', 'critical', dict(k=4.0, mu=4.0, u0=(1.0, 2.0)), 'nosolve', always=True)
add('FermiPastaUlamTsingou.fermi_pasta_ulam_tsingou', 'n16', dict(npart=16, alpha=0.25, k=1.0), 'nosolve', always=True)
add('HenonHeiles.henon_heiles', 'default', dict(), 'nosolve', always=True)
add('OuterSolarSystem.outer_solar_system', 'full', dict(sun_only=False), 'nosolve', always=True)
add('OuterSolarSystem.outer_solar_system', 'sun_only', dict(sun_only=True), 'nosolve')
add('FullSolarSystem.full_solar_system', 'full', dict(sun_only=False), 'nosolve', always=True)
add('FullSolarSystem.full_solar_system', 'sun_only', dict(sun_only=True), 'nosolve')
add('PenningTrap_3D.penningtrap', 'n1', dict(omega_B=25.0, omega_E=4.9, u0=np.array([[10, 2, 3], [100, 5, 100], [1], [1]], dtype=object), nparts=1, sig=0.1),
    'nosolve', always=True)
add('PenningTrap_3D.penningtrap', 'n4', dict(omega_B=25.0, omega_E=4.9, u0=np.array([[10, 2, 3], [100, 5, 100], [1], [1]], dtype=object), nparts=4, sig=0.1),
    'nosolve')

# ---- spectral family ---------------------------------------------------------------------------------------------------
SPEC_SOLVERS = ['cached_direct', 'direct']
for st_ in SPEC_SOLVERS:
    al = st_ == 'cached_direct'
    add('HeatEquation_Chebychev.Heat1DChebychev', 'n16,%s' % st_, dict(nvars=16, a=0.3, b=-0.2, f=1, nu=0.5, solver_type=st_), 'spectral', always=al, zero_ok=False)
    add('HeatEquation_Chebychev.Heat1DUltraspherical', 'n16,%s' % st_, dict(nvars=16, a=0.3, b=-0.2, f=1, nu=0.5, solver_type=st_), 'spectral', always=al)
    add('HeatEquation_Chebychev.Heat2DChebychev', '9x9,%s' % st_, dict(nx=9, ny=9, a=0.2, b=0.2, c=-0.1, nu=0.5, solver_type=st_), 'spectral', always=al,
        zero_ok=False)
    add('HeatEquation_Chebychev.Heat2DUltraspherical', '9x9,%s' % st_, dict(nx=9, ny=9, a=0.2, b=0.2, c=-0.1, nu=0.5, solver_type=st_), 'spectral', always=al)
    add('Burgers.Burgers1D', 'n16,%s' % st_, dict(N=16, epsilon=0.1, BCl=1, BCr=-1, f=0, solver_type=st_), 'spectral', solves=(('solve_system', 'impl'),),
        always=al, zero_ok=False)
    add('Burgers.Burgers2D', '9x9,%s' % st_, dict(nx=9, nz=9, epsilon=0.1, solver_type=st_), 'spectral', solves=(('solve_system', 'impl'),),
        always=al, zero_ok=False)
add('HeatEquation_Chebychev.Heat1DChebychev', 'n16,physical', dict(nvars=16, a=0.0, b=0.0, f=2, nu=1.0, spectral_space=False), 'spectral', zero_ok=False)
add('HeatEquation_Chebychev.Heat1DChebychev', 'n16,D2T', dict(nvars=16, a=0.1, b=0.0, f=1, nu=1.0, mode='D2T'), 'spectral', zero_ok=False)
add('HeatEquation_Chebychev.Heat2DChebychev', 'cheb-cheb', dict(nx=7, ny=9, base_x='chebychev', base_y='chebychev', a=0.2, b=0.1, c=-0.1, nu=0.5), 'spectral',
    zero_ok=False)
add('HeatEquation_Chebychev.Heat2DChebychev', '8x9,nyquist', dict(nx=8, ny=9, a=0.2, b=0.2, c=-0.1, nu=0.5), 'spectral', zero_ok=False, always=True,
    note='even number of Fourier modes: right-hand sides with Nyquist content', tag='nyquist')

ABSTRACT = {'generic_spectral.GenericSpectralLinear': 'abstract base class (needs bases/components; covered through its six subclasses)'}

# --------------------------------------------------------------------------------------------- split siblings
# Groups of classes that are different splittings of the SAME right-hand side.  The parameters are DRAWN per trial from a
# small grid (shared by all members through the mapper) that contains, for every scalar parameter, values different from
# every numeric literal in the source of the member classes (see source_literals): a constant that is hard-coded in one
# piece but parametrised in the other only shows for non-default parameters.

def _same(d):
    return dict(d)


def _arr(x):
    return np.array(x, dtype=float)


SIBLINGS = [
    dict(name='heat', state=st_uniform(),
         grid=dict(nvars=[16, 12], nu=[0.3, 0.1, 0.73], order=[4, 2, 6], bc=['periodic'], freq=[2]),
         members=[('HeatEquation_ND_FD.heatNd_unforced', _same, ['full']),
                  ('HeatEquation_ND_FD.heatNd_forced', _same, ['impl']),
                  ('generic_ND_FD.GenericNDimFinDiff', lambda d: dict(nvars=d['nvars'], coeff=d['nu'], derivative=2, order=d['order'], bc=d['bc'], freq=d['freq']),
                   ['full'])]),
    dict(name='heat-dirichlet', state=st_uniform(),
         grid=dict(nvars=[15, 11], nu=[0.37, 0.1], order=[2, 4], bc=['dirichlet-zero', 'neumann-zero'], freq=[1]),
         members=[('HeatEquation_ND_FD.heatNd_unforced', _same, ['full']),
                  ('HeatEquation_ND_FD.heatNd_forced', _same, ['impl']),
                  ('generic_ND_FD.GenericNDimFinDiff', lambda d: dict(nvars=d['nvars'], coeff=d['nu'], derivative=2, order=d['order'], bc=d['bc'], freq=d['freq']),
                   ['full'])]),
    dict(name='heat2d', state=st_uniform(),
         grid=dict(nvars=[(6, 6)], nu=[0.3, 0.1, 0.73], order=[2, 4], bc=['periodic'], freq=[(2, 2), (2, 4)]),
         members=[('HeatEquation_ND_FD.heatNd_unforced', _same, ['full']),
                  ('HeatEquation_ND_FD.heatNd_forced', _same, ['impl']),
                  ('generic_ND_FD.GenericNDimFinDiff', lambda d: dict(nvars=d['nvars'], coeff=d['nu'], derivative=2, order=d['order'], bc=d['bc'], freq=d['freq']),
                   ['full'])]),
    dict(name='advection', state=st_uniform(),
         grid=dict(nvars=[16], c=[0.8, 1.0, -0.37], order=[3, 1, 5], stencil_type=['upwind', 'center'], freq=[2]),
         members=[('AdvectionEquation_ND_FD.advectionNd', lambda d: dict(d, order=d['order'] + (1 if d['stencil_type'] == 'center' else 0)), ['full']),
                  ('generic_ND_FD.GenericNDimFinDiff',
                   lambda d: dict(nvars=d['nvars'], coeff=-d['c'], derivative=1, order=d['order'] + (1 if d['stencil_type'] == 'center' else 0),
                                  stencil_type=d['stencil_type'], bc='periodic', freq=d['freq']), ['full'])]),
    dict(name='advdiff-fft', state=st_uniform(),
         grid=dict(nvars=[16, 12], c=[0.7, 1.0, -0.31], nu=[0.05, 0.02, 0.013], freq=[2], L=[1.0, 1.7]),
         members=[('AdvectionDiffusionEquation_1D_FFT.advectiondiffusion1d_implicit', _same, ['full']),
                  ('AdvectionDiffusionEquation_1D_FFT.advectiondiffusion1d_imex', _same, ['impl', 'expl'])]),
    dict(name='ac1d-front', state=st_front,
         grid=dict(nvars=[31, 15], eps=[0.04, 0.07], dw=[-0.04, -0.013, 0.021], interval=[(-0.5, 0.5), (-0.3, 0.8)]),
         members=[(AC1 + 'allencahn_front_fullyimplicit', _same, ['full']),
                  (AC1 + 'allencahn_front_semiimplicit', _same, ['impl', 'expl'])]),
    dict(name='ac1d-periodic', state=st_front,
         grid=dict(nvars=[32, 16], eps=[0.04, 0.07], dw=[-0.04, -0.013, 0.021], interval=[(-0.5, 0.5), (-0.3, 0.8)], radius=[0.25, 0.21]),
         members=[(AC1 + 'allencahn_periodic_fullyimplicit', _same, ['full']),
                  (AC1 + 'allencahn_periodic_semiimplicit', _same, ['impl', 'expl']),
                  (AC1 + 'allencahn_periodic_multiimplicit', _same, ['comp1', 'comp2'])]),
    dict(name='ac2d-fd', state=st_phase2d,
         grid=dict(nvars=[(8, 8), (6, 6)], eps=[0.1, 0.07, 0.04], nu=[2, 3, 5], order=[2, 4], radius=[0.25, 0.21]),
         members=[(AC2 + 'allencahn_fullyimplicit', _same, ['full']),
                  (AC2 + 'allencahn_semiimplicit', _same, ['impl', 'expl']),
                  (AC2 + 'allencahn_semiimplicit_v2', _same, ['impl', 'expl']),
                  (AC2 + 'allencahn_multiimplicit', _same, ['comp1', 'comp2']),
                  (AC2 + 'allencahn_multiimplicit_v2', _same, ['comp1', 'comp2'])]),
    dict(name='ac2d-fft', state=st_phase2d,
         grid=dict(nvars=[(8, 8), (6, 6)], eps=[0.1, 0.07, 0.04], nu=[2, 3, 5], radius=[0.25, 0.21], L=[1.0, 1.3]),
         members=[('AllenCahn_2D_FFT.allencahn2d_imex', _same, ['impl', 'expl']),
                  ('AllenCahn_2D_FFT.allencahn2d_imex_stab', _same, ['impl', 'expl'])]),
    dict(name='quench', state=st_quench,
         grid=dict(nvars=[32, 24], Cv=[1000.0, 730.0], K=[1000.0, 410.0], u_thresh=[0.03, 0.025], u_max=[0.06, 0.071], Q_max=[1.0, 0.83],
                   leak_range=[(0.45, 0.55), (0.31, 0.62)], leak_type=['linear', 'exponential'], leak_transition=['step', 'Gaussian'],
                   order=[2, 4], bc=['neumann-zero', 'dirichlet-zero', 'periodic']),
         members=[('Quench.Quench', _same, ['full']), ('Quench.QuenchIMEX', _same, ['impl', 'expl'])]),
    dict(name='testeq', state=st_uniform(),
         grid=dict(seed=[2, 5, 9], n=[4, 3]),
         members=[('TestEquation_0D.testequation0d', lambda d: dict(lambdas=_lam(d['seed'], d['n']) + _lam(d['seed'] + 100, d['n'])), ['full']),
                  ('TestEquation_0D.test_equation_IMEX',
                   lambda d: dict(lambdas_implicit=_lam(d['seed'], d['n']), lambdas_explicit=_lam(d['seed'] + 100, d['n'])), ['impl', 'expl'])]),
    dict(name='swfw', state=st_uniform(),
         grid=dict(seed=[3, 7], ls=[-1.0 + 0.5j, 0.37j - 0.21]),
         members=[('TestEquation_0D.testequation0d', lambda d: dict(lambdas=_lam(d['seed'], 3) + d['ls']), ['full']),
                  ('FastWaveSlowWave_0D.swfw_scalar', lambda d: dict(lambda_s=np.array([d['ls']]), lambda_f=_lam(d['seed'], 3)), ['impl', 'expl'])]),
    dict(name='polynomial', state=st_uniform(),
         grid=dict(degree=[4, 3, 6], seed=[5, 77]),
         members=[('polynomial_test_problem.polynomial_testequation', _same, ['full']),
                  ('polynomial_test_problem.polynomial_testequation_IMEX', _same, ['impl', 'expl'])]),
    dict(name='battery', state=st_uniform(0.0, 2.0),
         grid=dict(Vs=[5.0, 4.3], Rs=[0.5, 0.37], R=[1.0, 0.73], L=[1.0, 2.1], C=[1.0, 1.7], alpha=[1.2, 1.45], V_ref=[1.0, 0.83]),
         members=[('Battery.battery_implicit', lambda d: dict(d, C=_arr([d['C']]), V_ref=_arr([d['V_ref']])), ['full']),
                  ('Battery.battery', lambda d: dict(d, C=_arr([d['C']]), V_ref=_arr([d['V_ref']])), ['impl', 'expl']),
                  ('Battery.battery_n_capacitors', lambda d: dict(d, ncapacitors=1, C=_arr([d['C']]), V_ref=_arr([d['V_ref']])), ['impl', 'expl'])]),
]


def source_literals(classes):
    """numeric literals (and their negatives) in the source of the given classes and of their base classes that live in
    pySDC.implementations.problem_classes."""
    import ast
    import textwrap
    lits = set()
    seen = set()
    for c in classes:
        for k in c.__mro__:
            if k in seen or not k.__module__.startswith('pySDC.implementations.problem_classes'):
                continue
            seen.add(k)
            try:
                tree = ast.parse(textwrap.dedent(inspect.getsource(k)))
            except Exception:
                continue
            for node in ast.walk(tree):
                if isinstance(node, ast.Constant) and isinstance(node.value, (int, float)) and not isinstance(node.value, bool):
                    lits.add(float(node.value))
                    lits.add(-float(node.value))
    return lits


def draw_params(grid, rng, literals=None):
    """one value per parameter; with `literals` given, scalar parameters avoid every literal of the source when the grid allows."""
    d, forced = {}, []
    for k in sorted(grid):
        cand = list(grid[k])
        if literals is not None:
            nl = [v for v in cand if isinstance(v, (int, float)) and not isinstance(v, bool) and float(v) not in literals]
            if nl:
                cand = nl
                forced.append(k)
        d[k] = rng.choice(cand)
    return d, forced


def quiet():
    logging.disable(logging.CRITICAL)
    warnings.filterwarnings('ignore')


def part_of(f, part):
    if part == 'full':
        return np.asarray(f)
    return np.asarray(getattr(f, part))


def make_u(prob, vals):
    u = prob.dtype_u(prob.init)
    u[...] = np.asarray(vals).reshape(u.shape)
    return u


def real_embed_vec(x):
    x = np.asarray(x).ravel()
    if np.iscomplexobj(x):
        return np.concatenate((x.real, x.imag)).astype(float)
    return x.astype(float)


def real_embed_mat(A, cplx):
    """scipy sparse csr real matrix; complex matrices/vectors -> [[Ar, -Ai], [Ai, Ar]]."""
    A = sp.csr_matrix(A)
    if cplx:
        Ar, Ai = sp.csr_matrix(A.real), sp.csr_matrix(A.imag)
        return sp.bmat([[Ar, -Ai], [Ai, Ar]], format='csr')
    if np.iscomplexobj(A.data):
        assert np.all(A.imag.data == 0) if A.nnz else True
        A = A.real
    return sp.csr_matrix(A).astype(float)


def rows_of(A):
    """list of rows [(col, float)] of a csr matrix with duplicates summed and explicit zeros removed."""
    A = sp.csr_matrix(A)
    A.sum_duplicates()
    rows = []
    for i in range(A.shape[0]):
        lo, hi = A.indptr[i], A.indptr[i + 1]
        rows.append([(int(c), float(v)) for c, v in zip(A.indices[lo:hi], A.data[lo:hi]) if v != 0.0])
    return rows


# --------------------------------------------------------------------------------------------- running cases

ULP = 2.0 ** -52


def snapshot(x):
    """bytes of every array an argument consists of (mesh, particles, fields)."""
    if hasattr(x, 'pos'):
        return (np.asarray(x.pos).tobytes(), np.asarray(x.vel).tobytes(), np.asarray(x.q).tobytes(), np.asarray(x.m).tobytes())
    if hasattr(x, 'elec'):
        return (np.asarray(x.elec).tobytes(), np.asarray(x.magn).tobytes())
    return (np.asarray(x).tobytes(),)


def rand_like(prob, rng, lo=-1.0, hi=1.0):
    return _uniform(prob, rng, lo, hi)


def pick_factor(var, rng, j):
    """factor 0 for j == 0, otherwise log-uniform in [fmin, fmax]; admissible range per class in var."""
    if j == 0 and var.zero_ok:
        return 0.0
    lo, hi = np.log10(var.fmin), np.log10(var.fmax)
    return float(10.0 ** rng.uniform(lo, hi))


def build_inputs(var, prob, method, part, rng, factor, t):
    """prob: the instance used to manufacture the right-hand side (NOT necessarily the one that solves)."""
    state = var.state or st_uniform()
    if var.manufactured:
        ustar = np.asarray(state(prob, rng))
        us = make_u(prob, ustar)
        fs = part_of(prob.eval_f(us, t), part)
        rhs = make_u(prob, np.asarray(us) - factor * fs)
        scale = np.maximum(np.abs(ustar), 1e-3 * np.max(np.abs(ustar)) + 1e-12)
        u0 = make_u(prob, ustar + var.u0_pert * scale * rand_like(prob, rng).real)
    else:
        rhs = make_u(prob, state(prob, rng))
        u0 = make_u(prob, state(prob, rng))
    return rhs, u0


def gres(prob, part, u, factor, rhs, t):
    f = part_of(prob.eval_f(u, t), part)
    return np.asarray(u) - factor * f - np.asarray(rhs), f


def ulp_floor(prob, part, u, factor, rhs, t, rng, K=3):
    """max-norm change of the float residual under +-1 ulp relative perturbations of u: the
    resolution below which no solver can push the residual (rounding floor)."""
    g0, _ = gres(prob, part, u, factor, rhs, t)
    worst = 0.0
    ua = np.asarray(u)
    for _ in range(K):
        s = np.array([rng.choice((-1.0, 1.0)) for _ in range(ua.size)]).reshape(ua.shape)
        up = make_u(prob, ua * (1.0 + s * ULP))
        g1, _ = gres(prob, part, up, factor, rhs, t)
        d = np.max(np.abs(g1 - g0)) if g0.size else 0.0
        if np.isfinite(d):
            worst = max(worst, float(d))
    # representable spacing of the data itself
    base = ULP * float(max(np.max(np.abs(ua)) if ua.size else 0.0, np.max(np.abs(np.asarray(rhs))) if ua.size else 0.0))
    return max(worst, base)


def config_tol(var, prob, rhs, u):
    """absolute tolerance derived from the solver configuration of the problem (before slack)."""
    a = 0.0
    if var.newton:
        nt = float(getattr(prob, var.newton))
        if getattr(prob, 'relative_tolerance', False):
            nt *= float(abs(u)) if float(abs(u)) > 0 else 1.0
        a = max(a, nt)
    if var.lin and not var.lin.get('inner'):
        lt = var.lin.get('rtol') or float(getattr(prob, var.lin['tol']))
        a = max(a, lt * float(np.linalg.norm(np.asarray(rhs).ravel(), 2)))
    return a


def pick_factor_upper(var, rng):
    """log-uniform in the upper half (in the log sense) of the admissible factor range."""
    lo, hi = np.log10(var.fmin), np.log10(var.fmax)
    return float(10.0 ** rng.uniform(0.5 * (lo + hi), hi))


def run_solve(var, prob, method, part, rng, factor, t, cfg_slack=100.0, ulp_slack=1024.0, builder=None, evaluator=None, prior=None):
    """One call of the real solver + implementation-side oracle.  Returns a dict.
    builder:   instance that manufactures the inputs (default: prob);
    evaluator: instance whose eval_f measures the residual (default: prob) - an independent fresh instance
               exposes hidden state of the solving instance;
    prior:     callable(prob) executed on the solving instance right before the solve (call history)."""
    rhs, u0 = build_inputs(var, builder if builder is not None else prob, method, part, rng, factor, t)
    if builder is not None:
        rhs, u0 = make_u(prob, np.asarray(rhs)), make_u(prob, np.asarray(u0))
    if prior is not None:
        prior(prob)
    ev = evaluator if evaluator is not None else prob
    s_rhs, s_u0 = snapshot(rhs), snapshot(u0)
    out = {'factor': factor, 't': t, 'rhs': np.array(rhs), 'u0': np.array(u0), 'error': None}
    try:
        u = getattr(prob, method)(rhs, factor, u0, t)
    except Exception as e:   # solver gave up (ProblemError / ConvergenceError / LinAlgError ...)
        out['error'] = '%s: %s' % (type(e).__name__, str(e)[:200])
        out['mut'] = [n for n, a, b in (('rhs', s_rhs, snapshot(rhs)), ('u0', s_u0, snapshot(u0))) if a != b]
        return out
    out['mut'] = [n for n, a, b in (('rhs', s_rhs, snapshot(rhs)), ('u0', s_u0, snapshot(u0))) if a != b]
    out['alias'] = [n for n, a in (('rhs', rhs), ('u0', u0)) if np.shares_memory(np.asarray(u), np.asarray(a))]
    out['type_ok'] = isinstance(u, prob.dtype_u) and np.asarray(u).shape == np.asarray(rhs).shape
    ua = np.array(u)
    um = make_u(ev, ua)
    s_u = snapshot(um)
    g, f = gres(ev, part, um, factor, rhs, t)
    if snapshot(um) != s_u:
        out['mut'].append('u(eval_f)')
    out['u'] = ua
    out['f'] = np.array(f)
    out['finite'] = bool(np.all(np.isfinite(ua)))
    res = float(np.max(np.abs(g))) if out['finite'] and np.all(np.isfinite(g)) else float('inf')
    floor = ulp_floor(ev, part, um, factor, rhs, t, rng) if out['finite'] else 0.0
    cfg = config_tol(var, prob, rhs, um)
    out.update(res=res, floor=floor, cfg=cfg, tol=cfg_slack * cfg + ulp_slack * floor + 1e-300)
    out['ok'] = res <= out['tol']
    return out
