"""Shared plumbing for all property checks.

Every property module harness/props/cXX.py exposes  run(ck: Check) -> None  and uses the
helpers below to (1) recompile its Coq property file and record the kernel-checked obligations and
their `Print Assumptions` output, (2) write generated Coq files (tables regenerated from /repo,
correspondence cases) under coq/gen/<ID>/ and have coqc evaluate them, (3) report violations
(with replay files, matched against known_findings.json) and (4) write evidence/<ID>.json.
"""
import fcntl
import json
import os
import random
import re
import shutil
import subprocess
import sys
import time
from fractions import Fraction

VERIF = os.path.dirname(os.path.dirname(os.path.abspath(__file__)))
COQ = os.path.join(VERIF, 'coq')
REPO = os.environ.get('VERIF_REPO', '/repo')
PY = '/venv/bin/python'

COQ_ARGS = ['-Q', os.path.join(COQ, 'theories'), 'PySDC', '-w',
            '-notation-overridden,-deprecated-hint-without-locality,-deprecated-instance-without-locality,-ambiguous-paths,-undeclared-scope']


def sh(cmd, timeout=600, cwd=None, env=None, input=None):
    """Run a command under a timeout; returns (rc, stdout+stderr)."""
    try:
        p = subprocess.run(cmd, cwd=cwd, env=env, input=input, timeout=timeout,
                           stdout=subprocess.PIPE, stderr=subprocess.STDOUT, text=True)
        return p.returncode, p.stdout
    except subprocess.TimeoutExpired as e:
        out = e.stdout if isinstance(e.stdout, str) else (e.stdout or b'').decode('utf8', 'replace')
        return 124, out + '\n[timeout after %ss]' % timeout


# ----------------------------------------------------------------------------- exact numbers

def float_to_dy(x):
    """Exact (m, e) with x == m * 2**e for a Python/numpy float (finite)."""
    x = float(x)
    if x == 0.0:
        return (0, 0)
    fr = Fraction(x)
    num, den = fr.numerator, fr.denominator
    e = -(den.bit_length() - 1)
    # den is a power of two
    assert den == 1 << (-e)
    # strip trailing zero bits of num when den == 1
    while num % 2 == 0 and e >= 0:
        num //= 2
        e += 1
    return (num, e)


def zlit(n):
    n = int(n)
    return '(%d)' % n if n < 0 else '%d' % n


def dy_lit(x):
    """Coq literal of type dy for a float (exact)."""
    m, e = float_to_dy(x)
    return '(Dy %s %s)' % (zlit(m), zlit(e))


def frac_dy_lit(fr):
    """Coq dy literal for a Fraction with power-of-two denominator."""
    fr = Fraction(fr)
    den = fr.denominator
    assert den & (den - 1) == 0, 'not dyadic'
    return '(Dy %s %s)' % (zlit(fr.numerator), zlit(-(den.bit_length() - 1)))


def q_lit(fr):
    """Coq literal of type Q for a Fraction."""
    fr = Fraction(fr)
    return '(%s # %d)' % (zlit(fr.numerator), fr.denominator)


def coq_list(items):
    return '[' + '; '.join(items) + ']'


def coq_bool(b):
    return 'true' if b else 'false'


# ----------------------------------------------------------------------------- Coq output parsing

_TOK = re.compile(r'\s*(\[|\]|\(|\)|;|,|#|-?\d+|[A-Za-z_][A-Za-z_0-9\.\']*|%[A-Za-z_]+|"(?:[^"]|"")*")')


def parse_coq_value(text):
    """Parse the printed form of a Coq value built from lists, tuples, numbers (scope suffixes
    ignored), identifiers/constructor applications and strings into nested Python data.
    Lists -> list, tuples -> tuple, numbers -> int, `a # b` -> Fraction, `C x y` -> ('C', x, y)."""
    toks = []
    pos = 0
    text = text.strip()
    while pos < len(text):
        m = _TOK.match(text, pos)
        if not m:
            raise ValueError('cannot tokenise Coq output at: %r' % text[pos:pos + 40])
        t = m.group(1)
        pos = m.end()
        if t.startswith('%'):
            continue
        toks.append(t)
    idx = [0]

    def peek():
        return toks[idx[0]] if idx[0] < len(toks) else None

    def nxt():
        t = toks[idx[0]]
        idx[0] += 1
        return t

    def atom():
        t = nxt()
        if t == '[':
            out = []
            if peek() == ']':
                nxt()
                return out
            while True:
                out.append(expr())
                t2 = nxt()
                if t2 == ']':
                    return out
                assert t2 == ';', t2
        if t == '(':
            first = expr()
            if peek() == ',':
                items = [first]
                while peek() == ',':
                    nxt()
                    items.append(expr())
                assert nxt() == ')'
                return tuple(items)
            assert nxt() == ')'
            return first
        if re.fullmatch(r'-?\d+', t):
            return int(t)
        if t.startswith('"'):
            return t[1:-1].replace('""', '"')
        return ('@id', t)

    def app():
        head = atom()
        if isinstance(head, tuple) and len(head) == 2 and head[0] == '@id':
            args = []
            while peek() not in (None, ']', ')', ';', ',', '#'):
                args.append(atom())
            name = head[1]
            if name == 'true' and not args:
                return True
            if name == 'false' and not args:
                return False
            if not args:
                return name
            return (name,) + tuple(a if not (isinstance(a, tuple) and len(a) == 2 and a[0] == '@id') else a[1] for a in args)
        return head

    def expr():
        a = app()
        if peek() == '#':
            nxt()
            b = app()
            return Fraction(a, b)
        return a

    v = expr()
    if idx[0] != len(toks):
        raise ValueError('trailing tokens in Coq output: %r' % toks[idx[0]:idx[0] + 5])
    return v


def eval_outputs(out):
    """Split coqc stdout into the values printed by successive `Eval ... in` commands.
    Each is returned as raw text of the value (type annotation removed)."""
    res = []
    # outputs look like "     = value\n     : type"
    for m in re.finditer(r'^\s*= (.*?)\n\s*: [^\n]*(?:\n(?=\S|\s*=)|\Z|\n)', out, re.S | re.M):
        res.append(m.group(1))
    return res


def parse_assumptions(src_text, out):
    """Match `Print Assumptions X.` commands of a Props file with coqc's output blocks.
    Returns list of (name, 'closed' | [axiom names])."""
    names = re.findall(r'^\s*Print Assumptions\s+([A-Za-z_0-9\.\']+)\s*\.', src_text, re.M)
    blocks = []
    cur = None
    for line in out.splitlines():
        if line.startswith('Closed under the global context'):
            if cur is not None:
                blocks.append(cur)
                cur = None
            blocks.append('closed')
        elif line.startswith('Axioms:'):
            if cur is not None:
                blocks.append(cur)
            cur = []
        elif cur is not None:
            # an axiom entry starts at column 0 with its name; its type may wrap onto indented lines
            m = re.match(r'^([A-Za-z_][A-Za-z_0-9\.\']*)\s*(:|$)', line)
            if m:
                cur.append(m.group(1))
    if cur is not None:
        blocks.append(cur)
    return list(zip(names, blocks)), len(names) == len(blocks)


# ----------------------------------------------------------------------------- the check object

class Check:
    def __init__(self, pid, tier='quick', seed=0, level='proof'):
        self.pid = pid
        self.tier = tier
        self.seed = int(seed)
        self.level = level
        self.rng = random.Random('%s:%d' % (pid, self.seed))
        # per-run scratch directory (two runs of the same property may overlap, e.g. a mutation trial and a
        # regular run); stale ones are removed here, the own one at the end of a clean run
        base = os.path.join(COQ, 'gen', pid)
        os.makedirs(base, exist_ok=True)
        for d in os.listdir(base):
            dp = os.path.join(base, d)
            try:
                if time.time() - os.path.getmtime(dp) > 3 * 3600:
                    shutil.rmtree(dp, ignore_errors=True) if os.path.isdir(dp) else os.remove(dp)
            except OSError:
                pass
        self.gen = os.path.join(base, 'run-%d' % os.getpid())
        self.replays = os.path.join(VERIF, 'replays', pid)
        self.t0 = time.time()
        self.obligations = []      # dicts: name, kind, ok, detail
        self.violations = []       # dicts
        self.known_hits = []
        self.samples = []
        self.cov = {}              # extra coverage keys
        self.assumptions = []
        self.trusted = []
        self.evaluations = 0
        self.distinct = set()
        self.rule = ''
        self.traces = 0
        self.notes = []
        shutil.rmtree(self.gen, ignore_errors=True)
        os.makedirs(self.gen, exist_ok=True)
        os.makedirs(self.replays, exist_ok=True)
        for f in os.listdir(self.replays):       # replays of earlier runs (keep those of a run that may still be active)
            fp = os.path.join(self.replays, f)
            try:
                if time.time() - os.path.getmtime(fp) > 1800 and os.path.abspath(fp) != os.environ.get('VERIF_REPLAY_FILE'):
                    os.remove(fp)
            except OSError:
                pass
        with open(os.path.join(VERIF, 'known_findings.json')) as f:
            self.known = [k for k in json.load(f)['findings'] if k['property'] == pid]

    # -- logging
    def log(self, *a):
        print('[%s %6.1fs]' % (self.pid, time.time() - self.t0), *a, flush=True)

    # -- Coq
    def build(self):
        """make the static development (no-op when up to date)."""
        # build only what this property needs; do not queue for long behind other builds (after
        # ./setup.sh everything is up to date and this is a no-op)
        env = dict(os.environ, KEEP_GOING='1', LOCK_WAIT=os.environ.get('LOCK_WAIT', '300'))
        import glob as _glob
        # the property file (with everything it depends on) and all executable models (generated case
        # files import Model/*Exec.v etc., which Props/<pid>.v need not depend on)
        targets = ['theories/Props/%s.vo' % self.pid] + sorted(
            os.path.relpath(f, COQ) + 'o' for f in _glob.glob(os.path.join(COQ, 'theories', 'Model', '*.v')))
        rc, out = sh([os.path.join(COQ, 'build.sh')] + targets, timeout=3000, env=env)
        if rc == 75:
            self.notes.append('build lock busy: static build skipped, compiling Props/%s.v against the existing .vo files' % self.pid)
            return True, out
        if rc != 0:
            self.log('static Coq build FAILED:\n' + out[-3000:])
        return rc == 0, out

    def coqc(self, path, timeout=600, extra=()):
        """Compile one generated file (in self.gen); returns (rc, output)."""
        cmd = ['coqc'] + COQ_ARGS + ['-Q', self.gen, 'Gen' + self.pid] + list(extra) + [path]
        return sh(cmd, timeout=timeout, cwd=self.gen)

    def write_gen(self, name, text):
        path = os.path.join(self.gen, name)
        with open(path, 'w') as f:
            f.write(text)
        return path

    def check_props(self, required=None):
        """Build the development and force-recompile Props/<pid>.v, recording each property theorem
        with its Print Assumptions result as one obligation.  Returns True iff all is well."""
        ok, out = self.build()
        src = os.path.join(COQ, 'theories', 'Props', self.pid + '.v')
        if not ok:
            # some file of the development failed (make -k built everything else); what matters for
            # this property is whether its own Props file and dependencies compile, checked next
            self.notes.append('static build reported errors somewhere in the development; continuing with Props/%s.v' % self.pid)
        text = open(src).read()
        # compile a copy so that the .vo in theories/ is not raced by parallel checks
        dst = os.path.join(self.gen, 'Props_' + self.pid + '.v')
        shutil.copy(src, dst)
        rc, out = self.coqc(dst, timeout=900)
        if rc != 0:
            self.obligation('Props/%s.v' % self.pid, False, out[-2000:], kind='theorem')
            self.violation('property theorems no longer check', {'theorem': 'Props/%s.v' % self.pid, 'log': out[-4000:]},
                           match={'kind': 'proof-broken'}, no_input=True)
            return False
        pairs, aligned = parse_assumptions(text, out)
        if not aligned:
            self.obligation('Print Assumptions parse', False, out[-2000:], kind='theorem')
            self.violation('could not align Print Assumptions output', {'log': out[-4000:]},
                           match={'kind': 'proof-broken'}, no_input=True)
            return False
        for name, res in pairs:
            ax = [] if res == 'closed' else res
            self.obligation('theorem ' + name, True, 'closed under the global context' if not ax else 'axioms: ' + ', '.join(ax), kind='theorem')
            for a in ax:
                t = 'axiom/primitive used by %s: %s' % (name, a)
                if t not in self.trusted:
                    self.trusted.append(t)
        if required:
            have = {n for n, _ in pairs}
            for r in required:
                if r not in have:
                    self.obligation('theorem ' + r, False, 'missing from Props file', kind='theorem')
                    self.violation('required theorem missing', {'theorem': r}, match={'kind': 'proof-broken'}, no_input=True)
        return True

    def obligation(self, name, ok, detail='', kind='generated'):
        self.obligations.append({'name': name, 'kind': kind, 'ok': bool(ok), 'detail': detail[:500]})

    # -- cases
    def case(self, key=None, nontrivial=True, sample=None):
        """Count one evaluated case; key identifies distinct non-trivial cases."""
        self.evaluations += 1
        if nontrivial and key is not None:
            self.distinct.add(key if isinstance(key, (str, int, tuple)) else json.dumps(key, sort_keys=True, default=str))
        if sample is not None and len(self.samples) < 6:
            self.samples.append(sample)

    # -- violations
    def violation(self, what, replay, match=None, no_input=False):
        match = match or {}
        for k in self.known:
            if k.get('kind') == 'known' and all(match.get(a) == b for a, b in k['match'].items()):
                hit = (k['what'])
                if hit not in self.known_hits:
                    self.known_hits.append(hit)
                return False
        n = len(self.violations)
        if n >= 40:          # enough to make the point; further ones are only counted
            self.cov['violations_beyond_the_first_40'] = self.cov.get('violations_beyond_the_first_40', 0) + 1
            return True
        path = os.path.join(self.replays, 'violation_%d_%03d.json' % (os.getpid(), n))
        with open(path, 'w') as f:
            json.dump({'property': self.pid, 'what': what, 'match': match, 'no_failing_input_found': no_input,
                       'seed': self.seed, 'tier': self.tier, 'replay': replay}, f, indent=1, default=str)
        self.violations.append({'what': what, 'path': path, 'no_input': no_input, 'match': match})
        return True

    # -- end
    def finish(self):
        wall = time.time() - self.t0
        bad = [o for o in self.obligations if not o['ok']]
        if bad and not self.violations and not self.known_hits:
            self.violation('obligation(s) not discharged: ' + ', '.join(o['name'] for o in bad[:5]),
                           {'obligations': bad[:20]}, match={'kind': 'obligation'}, no_input=True)
        refuted_known = []
        if bad and not self.violations and self.known_hits:
            # every failed obligation is explained by a recorded known finding (genuine defect of the
            # pinned tree): it is reported separately and not counted as a claimed obligation
            refuted_known = bad
            self.obligations = [o for o in self.obligations if o['ok']]
        nob = len(self.obligations)
        ndis = sum(1 for o in self.obligations if o['ok'])
        cov = {
            'obligations': nob,
            'discharged': ndis,
            'checker_cmd': 'coqc (Coq 8.16.1 kernel, vm_compute) via ./check %s --tier %s' % (self.pid, self.tier),
            'trusted_base': ['Coq 8.16.1 kernel + vm_compute (no native_compute)',
                             'harness/props/%s.py: generators, table extraction, comparison' % self.pid.lower()] + self.trusted,
            'evaluations': self.evaluations,
            'distinct_nontrivial': len(self.distinct),
            'rule': self.rule,
            'samples': self.samples if self.samples else [o['name'] for o in self.obligations[:5]],
            'traces_validated_against_impl': self.traces,
            'obligation_list': [{'name': o['name'], 'kind': o['kind'], 'ok': o['ok'], 'detail': o['detail'][:200]} for o in self.obligations[:200]],
            'known_findings_hit': self.known_hits,
            'obligations_refuted_by_known_findings': [{'name': o['name'], 'detail': o['detail'][:200]} for o in refuted_known],
            'notes': self.notes,
        }
        cov.update(self.cov)
        if self.level == 'translation_validation':
            cov.setdefault('programs', len(self.distinct))
            cov.setdefault('disagreements_checked', len(self.violations) + len(self.known_hits))
        if not self.assumptions:
            try:
                with open(os.path.join(VERIF, 'harness', 'props', self.pid.lower() + '.meta.json')) as f:
                    self.assumptions = [json.load(f).get('level_note', '')]
            except OSError:
                pass
        nthm = sum(1 for o in self.obligations if o['kind'] == 'theorem')
        nclosed = sum(1 for o in self.obligations if o['kind'] == 'theorem' and 'closed under the global context' in o['detail'])
        cov['trusted_base'].append('Print Assumptions: %d of %d property theorems closed under the global context; the others list exactly: %s'
                                   % (nclosed, nthm, '; '.join(self.trusted) if self.trusted else 'n/a'))
        ev = {'property_id': self.pid, 'tier': self.tier, 'seed': self.seed, 'level': self.level,
              'coverage': cov, 'assumptions': self.assumptions, 'wall_s': round(wall, 2),
              'violations': len(self.violations)}
        os.makedirs(os.path.join(VERIF, 'evidence'), exist_ok=True)
        evpath = os.path.join(VERIF, 'evidence', self.pid + '.json')
        if os.path.realpath(REPO) != '/repo':
            # a trial against another checkout (seeded change in a scratch worktree): not evidence about /repo
            evpath = os.path.join(self.replays, 'evidence_other_repo_%d.json' % os.getpid())
        with open(evpath, 'w') as f:
            json.dump(ev, f, indent=1, default=str)
        if not self.violations and not os.environ.get('VERIF_KEEP_GEN'):
            shutil.rmtree(self.gen, ignore_errors=True)
        for h in self.known_hits:
            print('KNOWN-FINDING: property=%s %s' % (self.pid, h))
        for v in self.violations:
            print('VIOLATION property=%s replay=%s%s' % (self.pid, v['path'], ' no-failing-input-found' if v['no_input'] else ''))
            print('   ' + v['what'])
        self.log('obligations %d/%d, cases %d (%d distinct non-trivial), violations %d, %.1fs'
                 % (ndis, nob, self.evaluations, len(self.distinct), len(self.violations), wall))
        return 1 if self.violations else 0
