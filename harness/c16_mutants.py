#!/venv/bin/python
"""Mutation self-test of the C16 check (not part of the check itself).

usage:  /venv/bin/python harness/c16_mutants.py [worktree] [name-prefix ...]

Creates (or reuses) a scratch git worktree of /repo, applies ONE textual edit of the anchored code at a time,
runs `VERIF_REPO=<worktree> ./check C16 --seed 0` and prints how many violations were reported (the violation
about the raw append, which the pinned tree always shows, is not counted).  The last entry reverts the repaired addField
(write at hSize + nFields*recSize) to the originally pinned open(..., "ab") append.
"""
import os
import subprocess
import sys

VERIF = os.path.dirname(os.path.dirname(os.path.abspath(__file__)))
F = 'pySDC/helpers/fieldsIO.py'
B = 'pySDC/helpers/blocks.py'

RAW_ADD = '''        with open(self.fileName, "ab") as f:
            np.array(time, dtype=T_DTYPE).tofile(f)
            field.tofile(f)
'''
FIXED_ADD = '''        # write at the end of the last complete record: a partial record left by an interrupted append is overwritten
        offset = int(self.hSize + self.nFields * (self.tSize + self.fSize))
        with open(self.fileName, "r+b") as f:
            f.seek(offset)
            np.array(time, dtype=T_DTYPE).tofile(f)
            field.tofile(f)
            f.truncate()
'''

MUTANTS = [
    ('M1_nfields_forgets_hsize', F, 'return int((self.fileSize - self.hSize) // (self.tSize + self.fSize))',
     'return int(self.fileSize // (self.tSize + self.fSize))'),
    ('M2_nfields_rounds', F, 'return int((self.fileSize - self.hSize) // (self.tSize + self.fSize))',
     'return int(round((self.fileSize - self.hSize) / (self.tSize + self.fSize)))'),
    ('M3_formatindex_le', F, 'assert idx < nFields, f"cannot read index', 'assert idx <= nFields, f"cannot read index'),
    ('M4_readfield_offset_drops_tsize', F,
     '        idx = self.formatIndex(idx)\n        offset = self.hSize + idx * (self.tSize + self.fSize)\n        with open(self.fileName, "rb") as f:\n            f.seek(offset)',
     '        idx = self.formatIndex(idx)\n        offset = self.hSize + idx * self.fSize\n        with open(self.fileName, "rb") as f:\n            f.seek(offset)'),
    ('M5_overwrite_check_inverted', F, 'if not self.ALLOW_OVERWRITE:', 'if self.ALLOW_OVERWRITE:'),
    ('M6_header_int64', F, 'return [np.array([self.nVar, self.dim, *self.gridSizes], dtype=np.int32)]',
     'return [np.array([self.nVar, self.dim, *self.gridSizes], dtype=np.int64)]'),
    ('M7_times_offset', F, 'offset=0 if i == 0 else self.fSize)', 'offset=0 if i == 0 else self.fSize + self.tSize)'),
    ('M8_add_swaps_time_field', F, '            np.array(time, dtype=T_DTYPE).tofile(f)\n            field.tofile(f)\n',
     '            field.tofile(f)\n            np.array(time, dtype=T_DTYPE).tofile(f)\n'),
    ('M9_coords_reversed', F, 'coords = [np.fromfile(f, dtype=np.float64, count=n) for n in gridSizes]',
     'coords = [np.fromfile(f, dtype=np.float64, count=n) for n in gridSizes[::-1]]'),
    ('M10_initialize_appends', F, 'with open(self.fileName, "w+b") as f:', 'with open(self.fileName, "ab") as f:'),
    ('M11_negative_index_off_by_one', F, '            idx = nFields + idx\n', '            idx = nFields + idx + 1\n'),
    ('M12_time_index', F,
     '        idx = self.formatIndex(idx)\n        offset = self.hSize + idx * (self.tSize + self.fSize)\n        with open(self.fileName, "rb") as f:\n            t = np.fromfile',
     '        idx = self.formatIndex(idx)\n        offset = self.hSize + (idx + 1) * (self.tSize + self.fSize)\n        with open(self.fileName, "rb") as f:\n            t = np.fromfile'),
    ('M13_add_memory_order', F, '            np.array(time, dtype=T_DTYPE).tofile(f)\n            field.tofile(f)\n',
     '            f.write(np.array(time, dtype=T_DTYPE).tobytes() + field.tobytes(order="A"))\n'),
    ('B1_nloc_le', B, 'nLoc = n0 + 1 * (rank < nRest)', 'nLoc = n0 + 1 * (rank <= nRest)'),
    ('B2_iloc_gt', B, 'nRest * (rank >= nRest)', 'nRest * (rank > nRest)'),
    ('B3_hybrid_tiebreak', B, 'if dummy >= dummymax:', 'if dummy > dummymax:'),
    ('B4_chatgpt_sqrt_range', B, 'for i in range(2, int(nProcs**0.5) + 1):', 'for i in range(2, int(nProcs**0.5)):'),
    ('B5_chatgpt_remainder', B, '            if nProcs > 1:', '            if nProcs > 2:'),
    ('B6_hybrid_rest', B, 'if rest > 1:', 'if rest > 2:'),
    ('B7_ranks_order', B, 'reshape(self.nBlocks, order=self.order)', 'reshape(self.nBlocks, order="F" if self.order == "C" else "C")'),
    # the repaired addField reverted to the originally pinned append: must be reported (append_after_torn_record)
    ('R1_raw_append_again', F, '        with open(self.fileName, "r+b") as f:\n            f.seek(offset)\n', '        with open(self.fileName, "ab") as f:\n'),
]


def main():
    wt = sys.argv[1] if len(sys.argv) > 1 else '/tmp/c16/wt'
    only = sys.argv[2:]
    if not os.path.isdir(wt):
        os.makedirs(os.path.dirname(wt), exist_ok=True)
        subprocess.run(['git', '-C', '/repo', 'worktree', 'add', '-f', wt, 'HEAD'], check=True, stdout=subprocess.DEVNULL)
    for name, rel, old, new in MUTANTS:
        if only and not any(name.startswith(p) for p in only):
            continue
        subprocess.run(['git', '-C', wt, 'checkout', '-q', '--', '.'], check=True)
        path = os.path.join(wt, rel)
        src = open(path).read()
        if src.count(old) != 1:
            print('MUTANT %s: pattern occurs %d times, skipped' % (name, src.count(old)))
            continue
        open(path, 'w').write(src.replace(old, new))
        env = dict(os.environ, VERIF_REPO=wt)
        p = subprocess.run([os.path.join(VERIF, 'check'), 'C16', '--seed', '0'], env=env, stdout=subprocess.PIPE, stderr=subprocess.STDOUT, text=True)
        lines = p.stdout.splitlines()
        viol = [lines[i + 1].strip() for i, l in enumerate(lines) if l.startswith('VIOLATION') and i + 1 < len(lines)]
        other = viol
        print('MUTANT %s: %d violation(s) (exit %d)%s' %
              (name, len(other), p.returncode, ('; first: ' + other[0][:160]) if other else ''))
    subprocess.run(['git', '-C', wt, 'checkout', '-q', '--', '.'], check=True)
    print('remove the worktree with: git -C /repo worktree remove --force ' + wt)


if __name__ == '__main__':
    main()
