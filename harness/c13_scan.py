"""C13: static scan for statements that REBIND a component attribute of a multi-component mesh
(`f.expl = ...` / `f.expl -= ...` instead of `f.expl[:] = ...`).

On a MultiComponentMesh such a statement does not write the buffer: `__getattr__` is only consulted
when no instance attribute exists, the statement creates the instance attribute `expl` (for `-=`
because mesh.__array_ufunc__ drops `out`, so the in-place operator returns a new array which is then
assigned), and from then on `f.expl` is a detached array while f's own buffer keeps the old values;
copy construction `dtype_f(f)`, `f[:]`, arithmetic on the whole f and sends see the stale buffer.

The scan is purely syntactic + class-attribute resolution through the repo's own modules (no imports
are executed, several of the modules need mpi4py_fft/fenics):
  * classes whose `dtype_u` / `dtype_f` class attribute (own or inherited) names a class that has a
    `components = [...]` list and derives (transitively) from MultiComponentMesh;
  * inside their methods, local names bound by `self.dtype_f(...)`, `self.f_init`, `super().eval_f(...)`
    (typed dtype_f) or `self.dtype_u(...)`, `self.u_init` (typed dtype_u);
  * flagged: Assign / AugAssign whose target is `<such name>.<component>`.
"""
import ast
import os


class Module(object):
    def __init__(self, path, root):
        self.path, self.root = path, root
        self.tree = ast.parse(open(path).read(), filename=path)
        self.classes = {}
        self.imports = {}
        for node in self.tree.body:
            if isinstance(node, ast.ClassDef):
                self.classes[node.name] = node
            elif isinstance(node, ast.ImportFrom) and node.module and node.level == 0:
                for a in node.names:
                    self.imports[a.asname or a.name] = (node.module, a.name)


class Scanner(object):
    def __init__(self, root):
        self.root = root
        self.mods = {}

    def module(self, dotted):
        path = os.path.join(self.root, *dotted.split('.')) + '.py'
        if not os.path.isfile(path):
            path = os.path.join(self.root, *dotted.split('.'), '__init__.py')
            if not os.path.isfile(path):
                return None
        return self.load(path)

    def load(self, path):
        if path not in self.mods:
            try:
                self.mods[path] = Module(path, self.root)
            except SyntaxError:
                self.mods[path] = None
        return self.mods[path]

    def find_class(self, mod, name, depth=0):
        """-> (module, ClassDef) or None"""
        if mod is None or depth > 8:
            return None
        if name in mod.classes:
            return mod, mod.classes[name]
        if name in mod.imports:
            m, orig = mod.imports[name]
            return self.find_class(self.module(m), orig, depth + 1)
        return None

    @staticmethod
    def base_names(cls):
        out = []
        for b in cls.bases:
            if isinstance(b, ast.Name):
                out.append(b.id)
            elif isinstance(b, ast.Attribute):
                out.append(b.attr)
        return out

    def class_attr(self, mod, cls, attr, depth=0):
        """value node of a class-level `attr = ...` of cls or its bases, with the module it was found in"""
        if depth > 10:
            return None
        for node in cls.body:
            if isinstance(node, ast.Assign) and any(isinstance(t, ast.Name) and t.id == attr for t in node.targets):
                return mod, node.value
        for b in self.base_names(cls):
            hit = self.find_class(mod, b)
            if hit:
                r = self.class_attr(hit[0], hit[1], attr, depth + 1)
                if r:
                    return r
        return None

    def derives_from(self, mod, cls, target, depth=0):
        if cls.name == target:
            return True
        if depth > 10:
            return False
        for b in self.base_names(cls):
            if b == target:
                return True
            hit = self.find_class(mod, b)
            if hit and self.derives_from(hit[0], hit[1], target, depth + 1):
                return True
        return False

    def components_of_dtype(self, mod, cls, which):
        """components list of the multi-component class named by cls.<which>, or None"""
        r = self.class_attr(mod, cls, which)
        if not r or not isinstance(r[1], ast.Name):
            return None
        hit = self.find_class(r[0], r[1].id)
        if not hit or not self.derives_from(hit[0], hit[1], 'MultiComponentMesh'):
            return None
        c = self.class_attr(hit[0], hit[1], 'components')
        if not c or not isinstance(c[1], (ast.List, ast.Tuple)):
            return None
        comps = [e.value for e in c[1].elts if isinstance(e, ast.Constant) and isinstance(e.value, str)]
        return hit[1].name, comps

    @staticmethod
    def typed_source(value):
        """'dtype_f' / 'dtype_u' when the expression yields a fresh object of that problem data type"""
        if isinstance(value, ast.Call):
            f = value.func
            if isinstance(f, ast.Attribute) and isinstance(f.value, ast.Name) and f.value.id == 'self' and f.attr in ('dtype_f', 'dtype_u'):
                return f.attr
            if (isinstance(f, ast.Attribute) and f.attr == 'eval_f' and isinstance(f.value, ast.Call)
                    and isinstance(f.value.func, ast.Name) and f.value.func.id == 'super'):
                return 'dtype_f'
        if isinstance(value, ast.Attribute) and isinstance(value.value, ast.Name) and value.value.id == 'self':
            return {'f_init': 'dtype_f', 'u_init': 'dtype_u'}.get(value.attr)
        return None

    def scan_file(self, path):
        mod = self.load(path)
        out = []
        if mod is None:
            return out
        for cls in mod.classes.values():
            comps = {w: self.components_of_dtype(mod, cls, w) for w in ('dtype_f', 'dtype_u')}
            if not any(comps.values()):
                continue
            for fn in [n for n in cls.body if isinstance(n, ast.FunctionDef)]:
                typed = {}
                for node in ast.walk(fn):
                    if isinstance(node, ast.Assign) and len(node.targets) == 1 and isinstance(node.targets[0], ast.Name):
                        w = self.typed_source(node.value)
                        if w and comps.get(w):
                            typed[node.targets[0].id] = w
                for node in ast.walk(fn):
                    tgts = node.targets if isinstance(node, ast.Assign) else [node.target] if isinstance(node, ast.AugAssign) else []
                    for t in tgts:
                        if isinstance(t, ast.Attribute) and isinstance(t.value, ast.Name) and t.value.id in typed:
                            dname, cl = comps[typed[t.value.id]]
                            if t.attr in cl:
                                op = type(node.op).__name__ if isinstance(node, ast.AugAssign) else 'Assign'
                                out.append(dict(file=os.path.relpath(path, self.root), cls=cls.name, method=fn.name, line=node.lineno,
                                                var=t.value.id, component=t.attr, dtype=dname, stmt=op))
        return out

    def scan(self, subdirs=('pySDC/implementations', 'pySDC/projects', 'pySDC/core', 'pySDC/helpers', 'pySDC/tutorial', 'pySDC/playgrounds')):
        hits = []
        nfiles = 0
        for sd in subdirs:
            for dp, dn, fns in os.walk(os.path.join(self.root, sd)):
                for fn in sorted(fns):
                    if fn.endswith('.py'):
                        nfiles += 1
                        hits += self.scan_file(os.path.join(dp, fn))
        return hits, nfiles
