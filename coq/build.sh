#!/bin/bash
# Full .vo build of the development (never -vos).  Regenerates _CoqProject from the tree.
set -e
cd "$(dirname "$0")"
exec 9>/verif/.build.lock
if [ -n "$LOCK_WAIT" ]; then
  flock -w "$LOCK_WAIT" 9 || { echo "build lock busy (held by another build) - skipping build"; exit 75; }
else
  flock 9
fi
{
  echo "-Q theories PySDC"
  echo "-arg -w -arg -notation-overridden,-deprecated-hint-without-locality,-deprecated-instance-without-locality,-ambiguous-paths,-undeclared-scope"
  find theories -name '*.v' | LC_ALL=C sort
} > _CoqProject.new
if ! cmp -s _CoqProject.new _CoqProject 2>/dev/null; then
  mv _CoqProject.new _CoqProject
  coq_makefile -f _CoqProject -o Makefile.coq >/dev/null
else
  rm -f _CoqProject.new
fi
[ -f Makefile.coq ] || coq_makefile -f _CoqProject -o Makefile.coq >/dev/null
timeout 3000 make ${KEEP_GOING:+-k} -f Makefile.coq -j"${JOBS:-16}" "$@"
