(* C05 — property theorems only.  Each is closed by [exact] of a lemma proved in
   Proofs/CollocProofs.v and followed by Print Assumptions. *)
From Coq Require Import ZArith QArith Qabs List Bool.
From PySDC Require Import Base.Dyadic Base.Poly Model.Colloc Proofs.CollocProofs.
Import ListNotations.

(* (1) Soundness of the validator the check evaluates on every table regenerated from the live
   CollBase objects: strict monotonicity and end-point flags; weights exact for EVERY polynomial with
   at most [order] coefficients; every row of Qmat exact for every polynomial with at most M
   coefficients; zero padding; S = row differences of Q; Q = cumulative sums of S; delta_m = node
   differences; do_coll_update forced iff the right end is not a node. *)
Theorem C05_check_coll_sound : forall t, check_coll t = true -> coll_spec t.
Proof. exact check_coll_sound. Qed.
Print Assumptions C05_check_coll_sound.

(* the quadrature clause on its own, stated explicitly *)
Theorem C05_weights_exact_for_all_polynomials : forall t, check_coll t = true ->
  forall c, (length c <= ct_order t)%nat ->
  (Qabs (sigma t * wsum (Qweights t) (Qnodes t) (fun x => peval c (hatQ t x)) - pint c 0 (hatQ t (QB t)))
   <= abs_lin_from 0 c (rule_tol (ct_what t) (ct_xhat t) (ct_rtol t)))%Q.
Proof. intros t H. exact (proj1 (proj2 (check_coll_sound t H))). Qed.
Print Assumptions C05_weights_exact_for_all_polynomials.

Theorem C05_Qmat_rows_exact_for_all_polynomials : forall t, check_coll t = true ->
  forall m, (m < nnodes t)%nat -> forall c, (length c <= nnodes t)%nat ->
  (Qabs (sigma t * wsum (Qrow t (S m)) (Qnodes t) (fun x => peval c (hatQ t x)) - pint c 0 (hatQ t (node t m)))
   <= abs_lin_from 0 c (rule_tol (ct_qhat t (S m)) (ct_xhat t) (ct_rtol t)))%Q.
Proof. intros t H. exact (proj1 (proj2 (proj2 (check_coll_sound t H)))). Qed.
Print Assumptions C05_Qmat_rows_exact_for_all_polynomials.

(* (2) the integral used above is the antiderivative difference, and the antiderivative's formal
   derivative is the polynomial itself *)
Theorem C05_pint_is_antiderivative_difference : forall c lo hi,
  (pint c lo hi == peval (antider c) hi - peval (antider c) lo)%Q.
Proof. exact pint_antider. Qed.
Print Assumptions C05_pint_is_antiderivative_difference.

Theorem C05_antiderivative_derivative : forall c, Forall2 Qeq (pderiv (antider c)) c.
Proof. exact pderiv_antider. Qed.
Print Assumptions C05_antiderivative_derivative.

(* (3) the scaled variable is well conditioned: 1 <= (b - a) * sigma < 2 *)
Theorem C05_scaling_normalises : forall a b, (D2Q a < D2Q b)%Q ->
  (1 <= (D2Q b - D2Q a) * D2Q (sig a b) < 2)%Q.
Proof. exact scale_exp_spec. Qed.
Print Assumptions C05_scaling_normalises.

(* (4) affine law against the table of the same rule on [0,1] *)
Theorem C05_check_affine_sound : forall r t ntol wtol,
  check_affine r t ntol wtol = true -> affine_spec r t ntol wtol.
Proof. exact check_affine_sound. Qed.
Print Assumptions C05_check_affine_sound.

(* non-vacuity: the two-point Lobatto (trapezoidal) rule on [0,1] and on [2,4] passes with zero tolerance *)
Definition trap01 : coll_table :=
  CT (Dy 0 0) (Dy 1 0) [Dy 0 0; Dy 1 0] [Dy 1 (-1); Dy 1 (-1)]
     [[d0; d0; d0]; [d0; d0; d0]; [d0; Dy 1 (-1); Dy 1 (-1)]]
     [[d0; d0; d0]; [d0; d0; d0]; [d0; Dy 1 (-1); Dy 1 (-1)]]
     [d0; d1] 2 true true false false d0 d0.
Definition trap24 : coll_table :=
  CT (Dy 2 0) (Dy 4 0) [Dy 2 0; Dy 4 0] [Dy 1 0; Dy 1 0]
     [[d0; d0; d0]; [d0; d0; d0]; [d0; d1; d1]]
     [[d0; d0; d0]; [d0; d0; d0]; [d0; d1; d1]]
     [d0; Dy 2 0] 2 true true false false d0 d0.
Example C05_nonvacuous : check_coll trap01 = true /\ check_coll trap24 = true /\ check_affine trap01 trap24 d0 d0 = true.
Proof. vm_compute. repeat split. Qed.
Print Assumptions C05_nonvacuous.

(* (5) the collocation-update switch is a function of the current call only, also when ONE sweeper object is
   initialised repeatedly (sweeper.__init__(params), as AdaptiveCollocation does) *)
Theorem C05_check_reinit_sound : forall calls obs, check_reinit calls obs = true ->
  length obs = length calls /\
  forall i, (i < length calls)%nat ->
    let c := nth i calls (true, false) in
    nth i obs false = upd_flag (fst c) (snd c) /\
    (fst c = false -> nth i obs false = true) /\
    (fst c = true -> nth i obs false = snd c).
Proof. exact check_reinit_sound. Qed.
Print Assumptions C05_check_reinit_sound.

Theorem C05_reinit_history_independent : forall before1 before2 call,
  last (reinit_flags (before1 ++ [call])) false = last (reinit_flags (before2 ++ [call])) false.
Proof. exact reinit_history_independent. Qed.
Print Assumptions C05_reinit_history_independent.
