(* C01 — property theorems only: what "converged" means and why preconditioner / initial guess
   cannot change the answer.  (Convergence of the iteration itself is the property's premise.) *)
From Coq Require Import List Arith Bool Ring.
From PySDC Require Import Model.Sweep Model.Transfer Model.MultiLevel Model.Block Proofs.SweepProofs Proofs.MultiLevelProofs Proofs.MultiLevelExample Proofs.BlockProofs Proofs.BlockCorollary Proofs.BlockExample Proofs.BlockRefuted.
Import ListNotations.

Section C01.
  Context {K : Type} (kO kI : K) (kadd kmul ksub : K -> K -> K) (kopp : K -> K) (keqb : K -> K -> bool).
  Hypothesis Rth : ring_theory kO kI kadd kmul ksub kopp (@eq K).
  Hypothesis keqb_true : forall a b, keqb a b = true -> a = b.
  Context {X : Type}.
  Notation V := (X -> K).
  Variable M : nat.
  Variable dt t0 : K.
  Variable nodes : nat -> K.
  Variable Q : nat -> nat -> K.
  Variable solve : nat -> V -> K -> V -> K -> V.
  Variable feval : K -> V -> nat -> V.

  (* ANY fixed point of the implicit sweep, for ANY lower-triangular preconditioner QI and ANY
     (nonlinear) problem satisfying the solver contract, solves  U = u0 + dt Q F(U) + tau. *)
  Theorem C01_fixed_point_is_collocation : forall QI u f tau,
    solver_contract kmul ksub solve feval 0 -> feval_ext feval -> lower_triangular kO QI ->
    consistent kadd kmul M dt t0 nodes feval u f ->
    let r := gi_update kO kadd kmul ksub keqb M dt t0 nodes Q solve feval QI u f tau in
    (forall m, 1 <= m <= M -> forall x, fst r m x = u m x) ->
    collocation1 kO kadd kmul M dt Q u f tau.
  Proof. exact (gi_fixed_point_is_collocation kO kI kadd kmul ksub kopp keqb Rth keqb_true M dt t0 nodes Q solve feval). Qed.

  (* conversely the collocation solution is reproduced by every such sweep *)
  Theorem C01_collocation_is_fixed_point : forall QI u f tau,
    solver_left_inverse kmul ksub solve feval 0 -> feval_ext feval -> lower_triangular kO QI ->
    consistent kadd kmul M dt t0 nodes feval u f ->
    (forall m, 1 <= m <= M -> kmul dt (QI m m) <> kO \/ keqb (kmul dt (QI m m)) kO = true) ->
    collocation1 kO kadd kmul M dt Q u f tau ->
    let r := gi_update kO kadd kmul ksub keqb M dt t0 nodes Q solve feval QI u f tau in
    forall m, 1 <= m <= M -> forall x, fst r m x = u m x.
  Proof. exact (gi_collocation_is_fixed_point kO kI kadd kmul ksub kopp keqb Rth keqb_true M dt t0 nodes Q solve feval). Qed.


  (* the same for the IMEX sweeper: any fixed point (any lower-triangular QI, strictly lower-triangular QE)
     solves the collocation problem for the FULL right-hand side f_impl + f_expl (nonlinear parts allowed) *)
  Theorem C01_imex_fixed_point_is_collocation : forall QI QE u f tau,
    solver_contract kmul ksub solve feval 0 -> feval_ext feval -> lower_triangular kO QI -> strictly_lower_triangular kO QE ->
    consistent kadd kmul M dt t0 nodes feval u f ->
    let r := imex_update kO kadd kmul ksub M dt t0 nodes Q solve feval QI QE u f tau in
    (forall m, 1 <= m <= M -> forall x, fst r m x = u m x) ->
    collocation2 kO kadd kmul M dt Q u f tau.
  Proof. exact (imex_fixed_point_is_collocation kO kI kadd kmul ksub kopp Rth M dt t0 nodes Q solve feval). Qed.

  (* zero residual <=> collocation equation (the residual IS the defect) *)
  Theorem C01_imex_collocation_is_fixed_point : forall QI QE u f tau,
    solver_left_inverse kmul ksub solve feval 0 -> feval_ext feval -> lower_triangular kO QI -> strictly_lower_triangular kO QE ->
    consistent kadd kmul M dt t0 nodes feval u f ->
    collocation2 kO kadd kmul M dt Q u f tau ->
    let r := imex_update kO kadd kmul ksub M dt t0 nodes Q solve feval QI QE u f tau in
    forall m, 1 <= m <= M -> forall x, fst r m x = u m x.
  Proof. exact (imex_collocation_is_fixed_point kO kI kadd kmul ksub kopp Rth M dt t0 nodes Q solve feval). Qed.

  (* explicit sweeper: both directions, no solver involved, any strictly lower-triangular QE *)
  Theorem C01_explicit_fixed_point_is_collocation : forall QE u f tau,
    feval_ext feval -> strictly_lower_triangular kO QE -> consistent kadd kmul M dt t0 nodes feval u f ->
    let r := expl_update kO kadd kmul ksub M dt t0 nodes Q feval QE u f tau in
    (forall m, 1 <= m <= M -> forall x, fst r m x = u m x) ->
    collocation1 kO kadd kmul M dt Q u f tau.
  Proof. exact (expl_fixed_point_is_collocation kO kI kadd kmul ksub kopp Rth M dt t0 nodes Q feval). Qed.

  Theorem C01_explicit_collocation_is_fixed_point : forall QE u f tau,
    feval_ext feval -> strictly_lower_triangular kO QE -> consistent kadd kmul M dt t0 nodes feval u f ->
    collocation1 kO kadd kmul M dt Q u f tau ->
    let r := expl_update kO kadd kmul ksub M dt t0 nodes Q feval QE u f tau in
    forall m, 1 <= m <= M -> forall x, fst r m x = u m x.
  Proof. exact (expl_collocation_is_fixed_point kO kI kadd kmul ksub kopp Rth M dt t0 nodes Q feval). Qed.

  (* multi_implicit (two implicit parts, two-stage sweep): every fixed point solves the collocation problem with f_1 + f_2 *)
  Theorem C01_multi_implicit_fixed_point_is_collocation : forall Q1 Q2 u f tau,
    solver_contract kmul ksub solve feval 0 -> solver_contract kmul ksub solve feval 1 -> feval_ext feval ->
    lower_triangular kO Q1 -> lower_triangular kO Q2 -> consistent kadd kmul M dt t0 nodes feval u f ->
    let r := mi_update kO kadd kmul ksub M dt t0 nodes Q solve feval Q1 Q2 u f tau in
    (forall m, 1 <= m <= M -> forall x, fst r m x = u m x) ->
    collocation2 kO kadd kmul M dt Q u f tau.
  Proof. exact (mi_fixed_point_is_collocation kO kI kadd kmul ksub kopp Rth M dt t0 nodes Q solve feval). Qed.

  Theorem C01_residual_zero_iff_collocation : forall (u : nat -> V) f tau m x,
    residual_vec kO kadd kmul ksub M dt Q 1 u f tau m x = kO <->
    u m x = kadd (kadd (u 0 x) (kmul dt (sumf kO kadd (fun j => kmul (Q m j) (f j 0 x)) 1 M))) (tauval kO tau m x).
  Proof. exact (residual_zero_iff_collocation kO kI kadd kmul ksub kopp Rth M dt Q). Qed.
End C01.

Print Assumptions C01_fixed_point_is_collocation.
Print Assumptions C01_collocation_is_fixed_point.
Print Assumptions C01_imex_fixed_point_is_collocation.
Print Assumptions C01_imex_collocation_is_fixed_point.
Print Assumptions C01_explicit_fixed_point_is_collocation.
Print Assumptions C01_explicit_collocation_is_fixed_point.
Print Assumptions C01_multi_implicit_fixed_point_is_collocation.
Print Assumptions C01_residual_zero_iff_collocation.

(* ------------------------------------------------------------------------------------------------
   Blocks of time-parallel steps (MSSDC / MLSDC / PFASST).  Model/Block.v: the state of every (step, level) and the four
   primitive operations the controller composes (Sweep, Send = compute the end value — last node or quadrature —, Recv = take the end value the predecessor has sent, Restrict, Prolong);
   pfasst_iteration = the schedule of one controller iteration, tied to the real controller_nonMPI by exact correspondence on
   blocks of 2-3 steps with 1-3 levels (Jacobi and Gauss-Seidel coupling, generic_implicit and IMEX sweepers, both
   prolongation modes) every run.

   THEOREM: a block whose fine levels hold the collocation solutions of their steps (holds_solution: consistent right-hand
   sides, zero defect), chained by their end values (initial value of step p = end value of step p-1: last node, or the quadrature end value for a single level), is left unchanged —
   same values at every node and the initial point, same right-hand sides — by EVERY schedule of sweeps, forward transfers,
   restrictions and prolongations inside the hierarchy: any number of steps and levels, any number of sweeps, any order
   (Jacobi, Gauss-Seidel, or anything else).  Number of time-parallel steps, coupling mode, coarse levels and sweep counts can
   change how fast the iteration gets there, never the fixed point. *)
Section C01_block.
  Context {K : Type} (kO kI : K) (kadd kmul ksub : K -> K -> K) (kopp : K -> K) (keqb : K -> K -> bool).
  Hypothesis Rth : ring_theory kO kI kadd kmul ksub kopp (@eq K).
  Hypothesis keqb_true : forall a b, keqb a b = true -> a = b.
  Context {X : Type}.
  Variable imex : bool.
  Variable lev : nat -> @level K X.
  Variable xf : nat -> @xfer K X.
  Variable tstart : nat -> K.
  Variable lend : nat -> @endp K.              (* end-point mode and weights of every level *)
  Variable P L : nat.
  Hypothesis Hlev : forall l, l < L -> level_ok kO kmul ksub keqb imex (lev l) /\ 1 <= lM (lev l).
  Hypothesis Hxf : forall l, S l < L ->
    xfer_ok kO kI kadd ksub (xf l) (lev l) (lev (S l)) /\
    (forall m, 1 <= m <= lM (lev l) -> xRcoll (xf l) (lM (lev (S l))) m = if Nat.eqb m (lM (lev l)) then kI else kO).
  (* more than one level: the end value is the last node on every level (what the controller enforces for PFASST) *)
  Hypothesis Hcopy : 1 < L -> forall l, l < L -> erin (lend l) && negb (edcu (lend l)) = true.
  Variable R0 : nat -> @lvst K X.
  Hypothesis H0 : forall p, p < P ->
    holds_solution kO kadd kmul ksub (tstart p) imex (lev 0) (stau (R0 p)) (su (R0 p), sf (R0 p)).
  Hypothesis Hchain : forall p, 0 < p < P -> forall x, su (R0 p) 0 x = end_value kO kadd kmul imex lev lend 0 (R0 (p - 1)) x.

  Theorem C01_block_fixed_point_any_schedule : forall ops,
    Forall (op_in_bounds L) ops ->
    forall p, p < P -> 0 < L ->
    let B := run_ops kO kadd kmul ksub keqb imex lev xf tstart lend ops (init_block kO P R0) in
    svalid (B p 0) = true ->
    same (lev 0) (su (B p 0), sf (B p 0)) (su (R0 p), sf (R0 p)).
  Proof. exact (block_fixed_point_any_schedule kO kI kadd kmul ksub kopp keqb Rth keqb_true imex lev xf tstart lend P L Hlev Hxf Hcopy R0 H0 Hchain). Qed.

  (* ... and ONE ITERATION OF THE CONTROLLER (any number of steps and levels, any sweep counts, Jacobi or Gauss-Seidel coupling):
     its schedule stays inside the hierarchy and keeps every entry valid, so every step comes back unchanged *)
  Theorem C01_controller_iteration_fixed_point : 0 < L -> forall nsw jacobi,
    let B := run_ops kO kadd kmul ksub keqb imex lev xf tstart lend (pfasst_iteration P L nsw jacobi) (init_block kO P R0) in
    forall p, p < P ->
      svalid (B p 0) = true /\
      same (lev 0) (su (B p 0), sf (B p 0)) (su (R0 p), sf (R0 p)).
  Proof. exact (fun HL => controller_iteration_fixed_point kO kI kadd kmul ksub kopp keqb Rth keqb_true imex lev xf tstart lend P L HL Hlev Hxf Hcopy R0 H0 Hchain). Qed.

  (* ... and the WHOLE RUN of a block: any predictor followed by any number n of iterations *)
  Theorem C01_controller_run_fixed_point : 0 < L -> forall pt n nsw jacobi,
    let ops := predict_ops P L pt ++ repeat_ops n (pfasst_iteration P L nsw jacobi) in
    let B := run_ops kO kadd kmul ksub keqb imex lev xf tstart lend ops (init_block kO P R0) in
    forall p, p < P ->
      svalid (B p 0) = true /\
      same (lev 0) (su (B p 0), sf (B p 0)) (su (R0 p), sf (R0 p)).
  Proof. exact (fun HL => controller_run_fixed_point kO kI kadd kmul ksub kopp keqb Rth keqb_true imex lev xf tstart lend P L HL Hlev Hxf Hcopy R0 H0 Hchain). Qed.

  Theorem C01_controller_schedule_in_bounds : forall nsw jacobi, Forall (op_in_bounds L) (pfasst_iteration P L nsw jacobi).
  Proof. exact (pfasst_iteration_in_bounds L P). Qed.
  (* the predictors (fine_only, pfasst_burnin) are schedules of the same operations, tied to controller_nonMPI.predict by exact
     correspondence; so is any concatenation predictor ++ iteration ++ iteration ... *)
  Theorem C01_predictor_schedule_in_bounds : forall pt, Forall (op_in_bounds L) (predict_ops P L pt).
  Proof. exact (predict_ops_in_bounds L P). Qed.
End C01_block.
Print Assumptions C01_block_fixed_point_any_schedule.
Print Assumptions C01_controller_iteration_fixed_point.
Print Assumptions C01_controller_run_fixed_point.
Print Assumptions C01_controller_schedule_in_bounds.
Print Assumptions C01_predictor_schedule_in_bounds.

(* Non-vacuity: a concrete block (2 steps, 2 levels, Qc) meets every hypothesis, all entries stay valid under the controller's
   schedule, and the theorem returns both steps unchanged *)
Example C01_block_hypotheses_satisfiable :
  forall p, p < 2 ->
  let B := run_ops exK0 Qcanon.Qcplus Qcanon.Qcmult Qcanon.Qcminus ex_eqb false bx_lev bx_xf bx_tstart bx_lend bx_ops (init_block exK0 2 bx_R0) in
  same (bx_lev 0) (su (B p 0), sf (B p 0)) (su (bx_R0 p), sf (bx_R0 p)).
Proof. exact bx_fixed. Qed.
Print Assumptions C01_block_hypotheses_satisfiable.

(* Known finding as a statement about the model (witness by vm_compute): with a QUADRATURE end point the communication order of
   it_check (send, then receive) makes a step's successor start from a value that differs from the end value of the state the step
   holds afterwards — the chain of end values is exact only in copy mode or at the fixed point *)
Theorem C01_quadrature_chain_inexact_refuted :
  let B := rz_run (it_check_ops 3) rz_B0 in
  su (B 2 0) 0 tt = rz_six /\ rz_uend (B 1 0) = rz_two /\
  svalid (B 1 0) = true /\ svalid (B 2 0) = true /\ ssent (B 1 0) = true.
Proof. exact quadrature_chain_inexact_refuted. Qed.
Print Assumptions C01_quadrature_chain_inexact_refuted.
