(* C01 — property theorems only: what "converged" means and why preconditioner / initial guess
   cannot change the answer.  (Convergence of the iteration itself is the property's premise.) *)
From Coq Require Import List Arith Bool Ring.
From PySDC Require Import Model.Sweep Proofs.SweepProofs.
Import ListNotations.

Section C01.
  Context {K : Type} (kO kI : K) (kadd kmul ksub : K -> K -> K) (kopp : K -> K) (keqb : K -> K -> bool).
  Hypothesis Rth : ring_theory kO kI kadd kmul ksub kopp (@eq K).
  Hypothesis keqb_true : forall a b, keqb a b = true -> a = b.
  Context {X : Type}.
  Notation V := (X -> K).
  Variable M : nat.
  Variable dt t0 : K.
  Variable nodes : nat -> K.
  Variable Q : nat -> nat -> K.
  Variable solve : nat -> V -> K -> V -> K -> V.
  Variable feval : K -> V -> nat -> V.

  (* ANY fixed point of the implicit sweep, for ANY lower-triangular preconditioner QI and ANY
     (nonlinear) problem satisfying the solver contract, solves  U = u0 + dt Q F(U) + tau. *)
  Theorem C01_fixed_point_is_collocation : forall QI u f tau,
    solver_contract kmul ksub solve feval 0 -> feval_ext feval -> lower_triangular kO QI ->
    consistent kadd kmul M dt t0 nodes feval u f ->
    let r := gi_update kO kadd kmul ksub keqb M dt t0 nodes Q solve feval QI u f tau in
    (forall m, 1 <= m <= M -> forall x, fst r m x = u m x) ->
    collocation1 kO kadd kmul M dt Q u f tau.
  Proof. exact (gi_fixed_point_is_collocation kO kI kadd kmul ksub kopp keqb Rth keqb_true M dt t0 nodes Q solve feval). Qed.

  (* conversely the collocation solution is reproduced by every such sweep *)
  Theorem C01_collocation_is_fixed_point : forall QI u f tau,
    solver_left_inverse kmul ksub solve feval 0 -> feval_ext feval -> lower_triangular kO QI ->
    consistent kadd kmul M dt t0 nodes feval u f ->
    (forall m, 1 <= m <= M -> kmul dt (QI m m) <> kO \/ keqb (kmul dt (QI m m)) kO = true) ->
    collocation1 kO kadd kmul M dt Q u f tau ->
    let r := gi_update kO kadd kmul ksub keqb M dt t0 nodes Q solve feval QI u f tau in
    forall m, 1 <= m <= M -> forall x, fst r m x = u m x.
  Proof. exact (gi_collocation_is_fixed_point kO kI kadd kmul ksub kopp keqb Rth keqb_true M dt t0 nodes Q solve feval). Qed.


  (* the same for the IMEX sweeper: any fixed point (any lower-triangular QI, strictly lower-triangular QE)
     solves the collocation problem for the FULL right-hand side f_impl + f_expl (nonlinear parts allowed) *)
  Theorem C01_imex_fixed_point_is_collocation : forall QI QE u f tau,
    solver_contract kmul ksub solve feval 0 -> feval_ext feval -> lower_triangular kO QI -> strictly_lower_triangular kO QE ->
    consistent kadd kmul M dt t0 nodes feval u f ->
    let r := imex_update kO kadd kmul ksub M dt t0 nodes Q solve feval QI QE u f tau in
    (forall m, 1 <= m <= M -> forall x, fst r m x = u m x) ->
    collocation2 kO kadd kmul M dt Q u f tau.
  Proof. exact (imex_fixed_point_is_collocation kO kI kadd kmul ksub kopp Rth M dt t0 nodes Q solve feval). Qed.

  (* zero residual <=> collocation equation (the residual IS the defect) *)
  Theorem C01_imex_collocation_is_fixed_point : forall QI QE u f tau,
    solver_left_inverse kmul ksub solve feval 0 -> feval_ext feval -> lower_triangular kO QI -> strictly_lower_triangular kO QE ->
    consistent kadd kmul M dt t0 nodes feval u f ->
    collocation2 kO kadd kmul M dt Q u f tau ->
    let r := imex_update kO kadd kmul ksub M dt t0 nodes Q solve feval QI QE u f tau in
    forall m, 1 <= m <= M -> forall x, fst r m x = u m x.
  Proof. exact (imex_collocation_is_fixed_point kO kI kadd kmul ksub kopp Rth M dt t0 nodes Q solve feval). Qed.

  (* explicit sweeper: both directions, no solver involved, any strictly lower-triangular QE *)
  Theorem C01_explicit_fixed_point_is_collocation : forall QE u f tau,
    feval_ext feval -> strictly_lower_triangular kO QE -> consistent kadd kmul M dt t0 nodes feval u f ->
    let r := expl_update kO kadd kmul ksub M dt t0 nodes Q feval QE u f tau in
    (forall m, 1 <= m <= M -> forall x, fst r m x = u m x) ->
    collocation1 kO kadd kmul M dt Q u f tau.
  Proof. exact (expl_fixed_point_is_collocation kO kI kadd kmul ksub kopp Rth M dt t0 nodes Q feval). Qed.

  Theorem C01_explicit_collocation_is_fixed_point : forall QE u f tau,
    feval_ext feval -> strictly_lower_triangular kO QE -> consistent kadd kmul M dt t0 nodes feval u f ->
    collocation1 kO kadd kmul M dt Q u f tau ->
    let r := expl_update kO kadd kmul ksub M dt t0 nodes Q feval QE u f tau in
    forall m, 1 <= m <= M -> forall x, fst r m x = u m x.
  Proof. exact (expl_collocation_is_fixed_point kO kI kadd kmul ksub kopp Rth M dt t0 nodes Q feval). Qed.

  (* multi_implicit (two implicit parts, two-stage sweep): every fixed point solves the collocation problem with f_1 + f_2 *)
  Theorem C01_multi_implicit_fixed_point_is_collocation : forall Q1 Q2 u f tau,
    solver_contract kmul ksub solve feval 0 -> solver_contract kmul ksub solve feval 1 -> feval_ext feval ->
    lower_triangular kO Q1 -> lower_triangular kO Q2 -> consistent kadd kmul M dt t0 nodes feval u f ->
    let r := mi_update kO kadd kmul ksub M dt t0 nodes Q solve feval Q1 Q2 u f tau in
    (forall m, 1 <= m <= M -> forall x, fst r m x = u m x) ->
    collocation2 kO kadd kmul M dt Q u f tau.
  Proof. exact (mi_fixed_point_is_collocation kO kI kadd kmul ksub kopp Rth M dt t0 nodes Q solve feval). Qed.

  Theorem C01_residual_zero_iff_collocation : forall (u : nat -> V) f tau m x,
    residual_vec kO kadd kmul ksub M dt Q 1 u f tau m x = kO <->
    u m x = kadd (kadd (u 0 x) (kmul dt (sumf kO kadd (fun j => kmul (Q m j) (f j 0 x)) 1 M))) (tauval kO tau m x).
  Proof. exact (residual_zero_iff_collocation kO kI kadd kmul ksub kopp Rth M dt Q). Qed.
End C01.

Print Assumptions C01_fixed_point_is_collocation.
Print Assumptions C01_collocation_is_fixed_point.
Print Assumptions C01_imex_fixed_point_is_collocation.
Print Assumptions C01_imex_collocation_is_fixed_point.
Print Assumptions C01_explicit_fixed_point_is_collocation.
Print Assumptions C01_explicit_collocation_is_fixed_point.
Print Assumptions C01_multi_implicit_fixed_point_is_collocation.
Print Assumptions C01_residual_zero_iff_collocation.
