From PySDC Require Import Base.Tactics Model.FieldsIO Proofs.FieldsIOProofs.
Theorem C16_placeholder : True. Proof. exact placeholder_true. Qed.
Print Assumptions C16_placeholder.
