(* C16 — property theorems only.  Each is closed by [exact] of a lemma proved in
   Proofs/FieldsIOProofs.v or Proofs/BlocksProofs.v and is followed by Print Assumptions.

   Vocabulary (definitions, all executable):
     Model.FieldsIO : bytes = list Z; header_bytes / decode_header (= initialize / fromFile), hSize, fSize,
                      recSize, nFields, readField, times, addBytes m (m = Raw: the pinned open(...,"ab") append;
                      m = Aligned: write at hSize + nFields*recSize), step (op-level model incl. ALLOW_OVERWRITE).
     FieldsIOProofs : the_file h recs tail = header_bytes h ++ records ++ tail;  expected_read recs idx = what
                      Python list indexing of the written records gives (AssertionError outside -n..n-1);
                      add_all = addField for each record in turn;  conc_run / spec_run = histories.
     Model.Blocks   : nBlocks (both algorithms), ranks, localBounds, owns. *)
From PySDC Require Import Base.Tactics Model.FieldsIO Proofs.FieldsIOProofs.
From PySDC Require Model.Blocks Proofs.BlocksProofs.
Open Scope Z_scope.

(* (1) header round trip: for EVERY header within the integer ranges (any dtype id 0-5, nVar, any number of
   axes, any sizes/coordinate bits) fromFile returns exactly the header written, whatever follows it, and
   the header occupies exactly hSize bytes. *)
Theorem C16_header_roundtrip : forall h rest, wf_header h ->
  decode_header_rest (header_bytes h ++ rest) = Ok (h, rest) /\ blen (header_bytes h) = hSize h.
Proof. intros h rest H. split; [exact (header_roundtrip h rest H)|exact (header_bytes_len h)]. Qed.
Print Assumptions C16_header_roundtrip.

(* (2) record round trip: after initialize and ANY sequence of addField calls (either write position) a
   re-opened handle has the same header, nFields is the number of appends, every index -n..n-1 returns the
   time and field bits written there, every other index is rejected, times lists the times written. *)
Theorem C16_records_roundtrip : forall m h recs, wf_header h -> wf_recs h recs ->
  exists f, add_all m h (header_bytes h) recs = Ok f /\
    decode_header f = Ok h /\
    nFields h f = Z.of_nat (length recs) /\
    (is0d h = false -> forall idx, readField h f idx = expected_read recs idx) /\
    (is0d h = false -> times h f = Ok (map fst recs)).
Proof. exact records_roundtrip. Qed.
Print Assumptions C16_records_roundtrip.

(* (3) crash safety, all crash points at once: if only the first k bytes (ANY k below the record size) of
   what addField writes reach the file, a re-opened handle has the same header, reports exactly the
   previously completed records, bit for bit, and never the partial one. *)
Theorem C16_crash_prefix_safe : forall m h recs t p (k : nat),
  wf_header h -> wf_recs h recs -> wf_rec (fSize h) (t, p) -> (k < length (t ++ p))%nat ->
  let before := the_file h recs [] in
  exists after, addBytes m h before t p = Ok after /\
    let crashed := firstn (length before + k) after in
    decode_header crashed = Ok h /\
    nFields h crashed = Z.of_nat (length recs) /\
    (is0d h = false -> forall idx, readField h crashed idx = expected_read recs idx) /\
    (is0d h = false -> times h crashed = Ok (map fst recs)).
Proof. exact crash_prefix_safe_hdr. Qed.
Print Assumptions C16_crash_prefix_safe.

(* (3') stronger form: ANY tail shorter than one record after the complete records is invisible *)
Theorem C16_torn_tail_safe : forall h recs tail,
  wf_header h -> wf_recs h recs -> blen tail < recSize h ->
  let f := the_file h recs tail in
  decode_header f = Ok h /\
  nFields h f = Z.of_nat (length recs) /\
  (is0d h = false -> forall idx, readField h f idx = expected_read recs idx) /\
  (is0d h = false -> times h f = Ok (map fst recs)).
Proof. exact reads_the_file. Qed.
Print Assumptions C16_torn_tail_safe.

(* (4) "fields appended after re-opening are again read back exactly":
   REFUTED for the pinned write (append at the end of the file): witness = Scalar float64 file, nVar 2,
   one complete record, second append cut after 19 of 24 bytes, append again -> the appended record is
   returned by no index.
   Full statement that fails for m = Raw:  forall h recs tail t p, wf... -> blen tail < recSize h ->
     exists f', addBytes m h (the_file h recs tail) t p = Ok f' /\ readField h f' (-1) = Ok (t, p). *)
Theorem C16_append_after_crash_refuted :
  exists h recs t p k t' p',
    wf_header h /\ wf_recs h recs /\ wf_rec (fSize h) (t, p) /\ wf_rec (fSize h) (t', p') /\
    (k < length (t ++ p))%nat /\ is0d h = false /\
    let before := the_file h recs [] in
    let crashed := firstn (length before + k) (before ++ t ++ p) in
    exists f', addBytes Raw h crashed t' p' = Ok f' /\
      decode_header f' = Ok h /\
      nFields h f' = Z.of_nat (length recs) + 1 /\
      readField h f' (-1) <> Ok (t', p') /\
      (forall idx, readField h f' idx <> Ok (t', p')).
Proof. exact append_after_crash_refuted. Qed.
Print Assumptions C16_append_after_crash_refuted.

(* ... and PROVED for the aligned write position (the repaired addField), for every torn tail *)
Theorem C16_append_after_crash_safe_when_aligned : forall h recs tail t p,
  wf_header h -> wf_recs h recs -> wf_rec (fSize h) (t, p) -> blen tail < recSize h ->
  exists f', addBytes Aligned h (the_file h recs tail) t p = Ok f' /\
    decode_header f' = Ok h /\
    nFields h f' = Z.of_nat (length recs) + 1 /\
    (is0d h = false -> forall idx, readField h f' idx = expected_read (recs ++ [(t, p)]) idx) /\
    (is0d h = false -> readField h f' (-1) = Ok (t, p)).
Proof. exact append_after_crash_safe_aligned. Qed.
Print Assumptions C16_append_after_crash_safe_when_aligned.

(* (5) overwrite protection: initialize() with ALLOW_OVERWRITE = False leaves an existing file (and all
   handles) untouched and raises; otherwise the file becomes exactly the header *)
Theorem C16_overwrite_protected : forall m s k f, file s = Some f ->
  let '(s', r, _) := step m s (OInit k false) in
  file s' = Some f /\ handles s' = handles s /\ (r = RErr EExists \/ r = RErr EAssert).
Proof. exact overwrite_protected. Qed.
Print Assumptions C16_overwrite_protected.

Theorem C16_initialize_writes_header : forall m s k allow,
  inited (nth k (handles s) dummy_handle) = false -> (file s = None \/ allow = true) ->
  let '(s', r, _) := step m s (OInit k allow) in
  file s' = Some (header_bytes (hd (nth k (handles s) dummy_handle))) /\ r = ROk.
Proof. exact initialize_writes_header. Qed.
Print Assumptions C16_initialize_writes_header.

(* (6) crash at ANY byte of header creation: fromFile raises, or (lenient np.fromfile) yields a handle
   that reports no record: nFields = 0, times = [], every index rejected *)
Theorem C16_header_crash_safe : forall h (k : nat),
  wf_header h -> (k < length (header_bytes h))%nat ->
  let p := firstn k (header_bytes h) in
  (exists e, decode_header p = Err e) \/
  (exists h', decode_header p = Ok h' /\ reports_nothing h' p).
Proof. exact header_crash_safe. Qed.
Print Assumptions C16_header_crash_safe.

(* (7) ANY interleaving of addField / crash (complete records + fewer than recSize arbitrary bytes) /
   fromFile / readField / nFields / times: with the aligned write position every observation equals the
   one computed from the list of completed records; with the pinned write position the same holds for
   histories without interrupted appends *)
Theorem C16_any_history : forall h ops, wf_header h -> is0d h = false ->
  conc_run Aligned h (header_bytes h) ops = spec_run h [] ops.
Proof. exact any_history_aligned. Qed.
Print Assumptions C16_any_history.

Theorem C16_any_history_pinned_crash_free : forall h ops, wf_header h -> is0d h = false ->
  Forall no_crash ops -> conc_run Raw h (header_bytes h) ops = spec_run h [] ops.
Proof. exact any_history_raw_crash_free. Qed.
Print Assumptions C16_any_history_pinned_crash_free.

(* non-vacuity: a concrete well-formed Rectilinear header and a history with a crash *)
Example C16_nonvacuous :
  let h := mkHeader SRect 4 2 [repeat 7 24; repeat 9 16] in
  wf_header h /\ is0d h = false /\ fSize h = 48 /\ hSize h = 58 /\
  conc_run Aligned h (header_bytes h)
    [HAdd (repeat 1 8) (repeat 2 48); HTorn (repeat 3 55); HAdd (repeat 4 8) (repeat 5 48); HRead (-1); HNFields]
  = [OUnit; OUnit; OUnit; ORec (Ok (repeat 4 8, repeat 5 48)); ONum 2].
Proof. exact wf_header_example. Qed.
Print Assumptions C16_nonvacuous.

(* ------------------------------------------------------------------ BlockDecomposition *)
Import Model.Blocks Proofs.BlocksProofs.

(* (8) one axis: the intervals [iLoc, iLoc + nLoc) of the ranks 0..nB-1 tile [0, nPoints) exactly once *)
Theorem C16_axis_tiling : forall nP nB, 0 < nB -> forall x, 0 <= x < nP ->
  exists r, 0 <= r < nB /\ iLoc nP nB r <= x < iLoc nP nB r + nLoc nP nB r /\
    forall r', 0 <= r' < nB -> iLoc nP nB r' <= x < iLoc nP nB r' + nLoc nP nB r' -> r' = r.
Proof. exact axis_tiling. Qed.
Print Assumptions C16_axis_tiling.

(* (9) ranks is a bijection between 0..prod(nBlocks)-1 and the block grid (both memory orders), and
   rejects every other rank *)
Theorem C16_ranks_bijective : forall o dims, Forall (fun b => 0 < b) dims ->
  (forall g, 0 <= g < zprod dims -> exists rk, ranks o dims g = Some rk /\ in_dims rk dims /\ ravel o dims rk = g) /\
  (forall rk, in_dims rk dims -> 0 <= ravel o dims rk < zprod dims /\ ranks o dims (ravel o dims rk) = Some rk) /\
  (forall g, ~ (0 <= g < zprod dims) -> ranks o dims g = None).
Proof. exact ranks_bijective. Qed.
Print Assumptions C16_ranks_bijective.

(* (10) both algorithms: prod(nBlocks) = nProcs, one positive block count per axis *)
Theorem C16_nblocks_product : forall a nProcs gs nb, 1 <= nProcs -> nBlocks a nProcs gs = Some nb ->
  zprod nb = nProcs /\ length nb = length gs /\ Forall (fun b => 0 < b) nb.
Proof. exact nblocks_product. Qed.
Print Assumptions C16_nblocks_product.

(* (11) the partition: for ALL nProcs >= 1, all 1-3-D grid sizes, both algorithms, both orders, every grid
   point is owned by exactly one of the ranks 0..nProcs-1 (and by no rank outside) *)
Theorem C16_partition : forall a o nProcs gs, 1 <= nProcs -> (length gs = 1 \/ length gs = 2 \/ length gs = 3)%nat ->
  exists nb, nBlocks a nProcs gs = Some nb /\ zprod nb = nProcs /\
    forall x, Forall2 (fun xi g => 0 <= xi < g) x gs ->
      exists g, 0 <= g < nProcs /\ owns o gs nb g x = true /\
        forall g', owns o gs nb g' x = true -> g' = g.
Proof. exact partition. Qed.
Print Assumptions C16_partition.

(* the while loops of both algorithms terminate by themselves within the fuel the model hands over *)
Theorem C16_loops_terminate : forall fuel fac rest, 2 <= fac -> 1 <= rest -> (Z.to_nat rest <= fuel)%nat ->
  snd (count_div fuel fac rest) mod fac <> 0 /\
  forall bl, fst (factor_out fuel fac (rest, bl)) mod fac <> 0.
Proof.
  intros fuel fac rest H1 H2 H3. split; [exact (count_div_done fuel fac rest H1 H2 H3)|].
  intros bl. exact (factor_out_done fuel fac rest bl H1 H2 H3).
Qed.
Print Assumptions C16_loops_terminate.
