(* C10 — property theorems only (FAS consistency of BaseTransfer). *)
From Coq Require Import List Arith Bool Ring.
From PySDC Require Import Model.Sweep Model.Transfer Model.MultiLevel Proofs.SweepProofs Proofs.TransferProofs Proofs.MultiLevelProofs Proofs.MultiLevelExample.
Import ListNotations.

Section C10.
  Context {K : Type} (kO kI : K) (kadd kmul ksub : K -> K -> K) (kopp : K -> K) (keqb : K -> K -> bool).
  Hypothesis Rth : ring_theory kO kI kadd kmul ksub kopp (@eq K).
  Hypothesis keqb_true : forall a b, keqb a b = true -> a = b.
  Context {Xf Xc : Type}.
  Notation Vf := (Xf -> K).
  Notation Vc := (Xc -> K).
  Variable Mf Mc : nat.
  Variable dtf dtc t0 : K.
  Variable nodes_c : nat -> K.
  Variable Qf Qc : nat -> nat -> K.
  Variable feval_c : K -> Vc -> nat -> Vc.
  Variable Rs : Vf -> Vc.
  Variable Ps : Vc -> Vf.
  Variable Rcoll Pcoll : nat -> nat -> K.
  (* linearity of the space transfer (C11 validates it for the shipped classes) *)
  Hypothesis Rs_add : forall a b x, Rs (vadd kadd a b) x = kadd (Rs a x) (Rs b x).
  Hypothesis Rs_sub : forall a b x, Rs (vsub ksub a b) x = ksub (Rs a x) (Rs b x).
  Hypothesis Rs_zero : forall x, Rs (vzero kO) x = kO.
  Hypothesis Ps_sub : forall a b x, Ps (vsub ksub a b) x = ksub (Ps a x) (Ps b x).
  Hypothesis Ps_ext : forall a b, (forall y, a y = b y) -> forall x, Ps a x = Ps b x.

  Notation restrict := (restrict kO kadd kmul ksub Mf Mc dtf dtc t0 nodes_c Qf Qc 1 feval_c Rs Rcoll).

  (* (1) immediately after restriction the coarse defect is the restricted fine defect — for any number np of
         right-hand-side parts (1: generic_implicit / explicit, 2: IMEX, ...) *)
  Theorem C10_coarse_defect_is_restricted_fine_defect : forall np Fu Ff Ftau,
    (forall m, 1 <= m <= Mf -> (Ftau 1 = None <-> Ftau m = None)) ->
    forall n, 1 <= n <= Mc ->
    sumf kO kadd (fun m => Rcoll n m) 1 Mf = kI ->
    let G := Transfer.restrict kO kadd kmul ksub Mf Mc dtf dtc t0 nodes_c Qf Qc np feval_c Rs Rcoll Fu Ff Ftau in
    forall x,
      residual_vec kO kadd kmul ksub Mc dtc Qc np (Gu G) (Gf G) (Gtau G) n x
      = sumf kO kadd (fun m => kmul (Rcoll n m) (Rs (residual_vec kO kadd kmul ksub Mf dtf Qf np Fu Ff Ftau m) x)) 1 Mf.
  Proof. exact (coarse_defect_is_restricted_fine_defect kO kI kadd kmul ksub kopp Rth Mf Mc dtf dtc t0 nodes_c Qf Qc feval_c Rs Rcoll Rs_add Rs_sub Rs_zero). Qed.

  (* (1b) the END POINT is FAS-consistent: when the last node is the right end on both levels (weights = last row of Q)
          and the last row of the time restriction picks the last fine node, the coarse end point computed by the
          collocation update right after restriction (u0 + dt sum w f + tau_M) is the space-restricted fine end point,
          with or without an inherited fine tau, for any number of right-hand-side parts *)
  Theorem C10_coarse_end_point_is_restricted : forall np (wf wc : nat -> K) Fu Ff Ftau,
    (forall m, 1 <= m <= Mf -> (Ftau 1 = None <-> Ftau m = None)) ->
    1 <= Mf -> 1 <= Mc ->
    (forall j, 1 <= j <= Mf -> wf j = Qf Mf j) -> (forall j, 1 <= j <= Mc -> wc j = Qc Mc j) ->
    (forall m, 1 <= m <= Mf -> Rcoll Mc m = if Nat.eqb m Mf then kI else kO) ->
    (forall a b : Vf, (forall y, a y = b y) -> forall x, Rs a x = Rs b x) ->
    let G := Transfer.restrict kO kadd kmul ksub Mf Mc dtf dtc t0 nodes_c Qf Qc np feval_c Rs Rcoll Fu Ff Ftau in
    forall x,
      end_point kO kadd kmul Mc dtc wc np true true (Gu G) (Gf G) (Gtau G) x
      = Rs (end_point kO kadd kmul Mf dtf wf np true true Fu Ff Ftau) x.
  Proof. exact (coarse_end_point_is_restricted kO kI kadd kmul ksub kopp Rth Mf Mc dtf dtc t0 nodes_c Qf Qc feval_c Rs Rcoll Rs_add Rs_sub Rs_zero). Qed.

  (* (2) prolongation transfers the coarse CORRECTION only *)
  Theorem C10_prolong_zero_correction : forall (G : @coarse K Xc) (Fu : nat -> Vf),
    (forall m, 1 <= m <= Mc -> forall y, Gu G m y = Guold G m y) ->
    forall n x, prolong_u kadd kmul ksub Mc Ps Pcoll G Fu n x = Fu n x.
  Proof. exact (prolong_zero_correction kO kI kadd kmul ksub kopp Rth Mc Ps Pcoll Ps_sub Ps_ext). Qed.

  (* (3) a complete down-up cycle leaves the fine collocation solution unchanged — for linear and
         nonlinear problems alike (only the solver contract of the coarse problem is used) *)
  Variable solve_c : nat -> Vc -> K -> Vc -> K -> Vc.
  Variable QIc : nat -> nat -> K.
  Theorem C10_two_level_cycle_fixed_point : forall Fu Ff Ftau,
    (forall m, 1 <= m <= Mf -> (Ftau 1 = None <-> Ftau m = None)) ->
    (forall m, 1 <= m <= Mf -> forall y, residual_vec kO kadd kmul ksub Mf dtf Qf 1 Fu Ff Ftau m y = kO) ->
    (forall a b : Vf, (forall y, a y = b y) -> forall x, Rs a x = Rs b x) ->
    (forall n, 1 <= n <= Mc -> sumf kO kadd (fun m => Rcoll n m) 1 Mf = kI) ->
    solver_left_inverse kmul ksub solve_c feval_c 0 -> feval_ext feval_c -> lower_triangular kO QIc ->
    (forall m, 1 <= m <= Mc -> kmul dtc (QIc m m) <> kO \/ keqb (kmul dtc (QIc m m)) kO = true) ->
    let G := restrict Fu Ff Ftau in
    let r := gi_update kO kadd kmul ksub keqb Mc dtc t0 nodes_c Qc solve_c feval_c QIc (Gu G) (Gf G) (Gtau G) in
    let G' := {| Gu := fst r; Gf := snd r; Gtau := Gtau G; Guold := Guold G; Gfold := Gfold G |} in
    forall n x, prolong_u kadd kmul ksub Mc Ps Pcoll G' Fu n x = Fu n x.
  Proof. exact (two_level_cycle_fixed_point kO kI kadd kmul ksub kopp keqb Rth keqb_true Mf Mc dtf dtc t0 nodes_c Qf Qc feval_c Rs Ps Rcoll Pcoll Rs_add Rs_sub Rs_zero Ps_sub Ps_ext solve_c QIc). Qed.
End C10.

(* (4) ANY number of levels, ANY number of sweeps per level, generic_implicit (imex = false) or imex_1st_order (imex = true)
       sweeps, values-only or values-and-right-hand-sides prolongation per transfer: one complete multi-level iteration
       (Model/MultiLevel.vcycle = it_fine / it_down / it_coarse / it_up of controller_nonMPI on one step, tied to the
       real controller by exact correspondence on 2-4 level runs) returns a fine level that holds its collocation
       solution (consistent right-hand sides, zero defect incl. tau) unchanged: same values at the initial point and at every
       node, same right-hand sides.  Linear and nonlinear problems alike: only the solver contract, extensionality of
       eval_f, (strictly) lower-triangular preconditioners, linear space transfer and unit row sums of Rcoll are used. *)
Section C10_multilevel.
  Context {K : Type} (kO kI : K) (kadd kmul ksub : K -> K -> K) (kopp : K -> K) (keqb : K -> K -> bool).
  Hypothesis Rth : ring_theory kO kI kadd kmul ksub kopp (@eq K).
  Hypothesis keqb_true : forall a b, keqb a b = true -> a = b.
  Context {X : Type}.
  Variable t0 : K.
  Theorem C10_multilevel_cycle_fixed_point :
    forall (imex : bool) (rest : list (@xfer K X * @level K X)) (L : @level K X) (tau : nat -> option (X -> K)) (s : @lstate K X),
      hier_ok kO kI kadd kmul ksub keqb imex L rest ->
      holds_solution kO kadd kmul ksub t0 imex L tau s ->
      same L (vcycle kO kadd kmul ksub keqb t0 imex L rest tau s) s.
  Proof. exact (vcycle_fixed_point kO kI kadd kmul ksub kopp keqb Rth keqb_true t0). Qed.

  (* what "holds its collocation solution" means in the two cases *)
  Theorem C10_zero_defect_is_collocation_gi : forall (L : @level K X) tau (s : @lstate K X),
    zero_defect kO kadd kmul ksub false L tau s <-> collocation1 kO kadd kmul (lM L) (ldt L) (lQ L) (fst s) (snd s) tau.
  Proof. exact (zero_defect_collocation1 kO kI kadd kmul ksub kopp Rth). Qed.
  Theorem C10_zero_defect_is_collocation_imex : forall (L : @level K X) tau (s : @lstate K X),
    zero_defect kO kadd kmul ksub true L tau s <-> collocation2 kO kadd kmul (lM L) (ldt L) (lQ L) (fst s) (snd s) tau.
  Proof. exact (zero_defect_collocation2 kO kI kadd kmul ksub kopp Rth). Qed.
End C10_multilevel.

Print Assumptions C10_coarse_defect_is_restricted_fine_defect.
Print Assumptions C10_coarse_end_point_is_restricted.
Print Assumptions C10_prolong_zero_correction.
Print Assumptions C10_two_level_cycle_fixed_point.
Print Assumptions C10_multilevel_cycle_fixed_point.
Print Assumptions C10_zero_defect_is_collocation_gi.
Print Assumptions C10_zero_defect_is_collocation_imex.

(* Non-vacuity: a concrete three-level hierarchy over Qc (2, 2, 1 nodes; 2+1+1+1+2 sweeps) meets the hypotheses *)
Example C10_multilevel_hypotheses_satisfiable :
  hier_ok exK0 exK1 Qcanon.Qcplus Qcanon.Qcmult Qcanon.Qcminus ex_eqb false ex_fine ex_rest /\
  holds_solution exK0 Qcanon.Qcplus Qcanon.Qcmult Qcanon.Qcminus exK0 false ex_fine (fun _ => None) ex_state.
Proof. exact (conj ex_hier_ok ex_holds). Qed.
Print Assumptions C10_multilevel_hypotheses_satisfiable.
