(* C13 — property theorems only.  Each is closed by [exact] of a lemma proved in Proofs/HeapProofs.v
   about the executable heap model Model/Heap.v and is followed by Print Assumptions.
   [wf h] (every bound array lives in an allocated buffer) holds for every heap reachable from the
   empty one (C13_wf_reachable), so it is not an assumption about the implementation. *)
From Coq Require Import ZArith List Bool.
From PySDC Require Import Model.Heap Proofs.HeapProofs.
Import ListNotations.

(* (1) value semantics: no operation other than __setitem__ (construction, copy construction,
   assignment, ufunc calls with or without out=, binary/unary operators, AUGMENTED ASSIGNMENT,
   slicing, component access, abs, .copy(), np.sum, del; on meshes, multi-component meshes,
   particles and fields; successful or raising) changes the cells of ANY existing object - operand,
   bystander, or the object a name is being rebound from *)
Theorem C13_ops_preserve_objects : forall h o v, is_setitem o = false ->
  wfv (length (bufs h)) v -> read_value (bufs (fst (exec h o))) v = read_value (bufs h) v.
Proof. exact ops_preserve_objects. Qed.
Print Assumptions C13_ops_preserve_objects.

Theorem C13_ops_preserve_others : forall h o n v, wf h -> is_setitem o = false -> n <> dst o ->
  lookup n (env h) = Some v ->
  lookup n (env (fst (exec h o))) = Some v /\ read_value (bufs (fst (exec h o))) v = read_value (bufs h) v.
Proof. exact ops_preserve_others. Qed.
Print Assumptions C13_ops_preserve_others.

Theorem C13_value_semantics_seq : forall ops h n v, wf h ->
  (forall o, In o ops -> is_setitem o = false) -> (forall o, In o ops -> dst o <> n) ->
  lookup n (env h) = Some v ->
  lookup n (env (exec_seq h ops)) = Some v /\ read_value (bufs (exec_seq h ops)) v = read_value (bufs h) v.
Proof. exact value_semantics_seq. Qed.
Print Assumptions C13_value_semantics_seq.

Theorem C13_wf_reachable : forall ops, wf (exec_seq empty_heap ops).
Proof. exact wf_reachable. Qed.
Print Assumptions C13_wf_reachable.

(* (2) augmented assignment rebinds, never writes in place (what `rhs = u0; rhs += ...` in the
   sweepers relies on) *)
Theorem C13_iop_rebinds_never_writes : forall h d f y h' a, wf h ->
  exec h (OIop d f y) = (h', ROk) -> lookup d (env h) = Some (VArr a) ->
  read_arr (bufs h') a = read_arr (bufs h) a /\
  exists a', lookup d (env h') = Some (VArr a') /\ a_buf a' = length (bufs h) /\ a_oid a' = noid h /\
    a_idx a' = seq 0 (length (a_idx a')) /\ read_arr (bufs h') a' = nth (length (bufs h)) (bufs h') [].
Proof. exact iop_rebinds_never_writes. Qed.
Print Assumptions C13_iop_rebinds_never_writes.

(* (3) results keep the data type *)
Theorem C13_ufunc_result_class : forall h d f args outs h' k, do_ufunc h d f args outs = (h', ROk) ->
  is_meshclass k = true ->
  (exists a, In (PVal (VArr a)) (args ++ outs) /\ a_kind a = k) ->
  (forall a, In (PVal (VArr a)) (args ++ outs) -> a_kind a = k \/ a_kind a = KNd) ->
  exists a', lookup d (env h') = Some (VArr a') /\ a_kind a' = k /\ a_buf a' = length (bufs h).
Proof. exact ufunc_result_class. Qed.
Print Assumptions C13_ufunc_result_class.

Theorem C13_binop_same_class : forall h d f x y ax ay h', lookup x (env h) = Some (VArr ax) -> lookup y (env h) = Some (VArr ay) ->
  arity f = 2 -> a_kind ax = a_kind ay -> is_meshclass (a_kind ax) = true ->
  exec h (OBin d f (ON x) (ON y)) = (h', ROk) ->
  exists a', lookup d (env h') = Some (VArr a') /\ a_kind a' = a_kind ax /\ a_buf a' = length (bufs h).
Proof. exact binop_same_class. Qed.
Print Assumptions C13_binop_same_class.

Theorem C13_scalar_op_same_class : forall h d f x t c ax h', lookup x (env h) = Some (VArr ax) ->
  arity f = 2 -> is_meshclass (a_kind ax) = true ->
  (exec h (OBin d f (ON x) (OS t c)) = (h', ROk) \/ exec h (OBin d f (OS t c) (ON x)) = (h', ROk)) ->
  exists a', lookup d (env h') = Some (VArr a') /\ a_kind a' = a_kind ax /\ a_buf a' = length (bufs h).
Proof. exact scalar_op_same_class. Qed.
Print Assumptions C13_scalar_op_same_class.

Theorem C13_iop_keeps_class : forall h d f y a py h', lookup d (env h) = Some (VArr a) -> eval_operand h y = Some py ->
  (match py with PVal (VArr b) => a_kind b = a_kind a \/ a_kind b = KNd | PScal _ _ | PLit _ _ _ => True | _ => False end) ->
  arity f = 2 -> is_meshclass (a_kind a) = true ->
  exec h (OIop d f y) = (h', ROk) ->
  exists a', lookup d (env h') = Some (VArr a') /\ a_kind a' = a_kind a /\ a_buf a' = length (bufs h).
Proof. exact iop_keeps_class. Qed.
Print Assumptions C13_iop_keeps_class.

(* (4) __setitem__, the only writer, writes only its window; a raising __setitem__ writes nothing *)
Theorem C13_setitem_frame : forall h d s src h' r, exec h (OSet d s src) = (h', r) ->
  env h' = env h /\ noid h' = noid h /\ length (bufs h') = length (bufs h) /\
  (forall b, length (nth b (bufs h') []) = length (nth b (bufs h) [])) /\
  (r <> ROk -> h' = h) /\
  forall a reg, lookup d (env h) = Some (VArr a) -> select a s = inr reg ->
    forall b i, (b <> a_buf a \/ ~ In i (region_idx reg)) ->
      nth i (nth b (bufs h') []) c0 = nth i (nth b (bufs h) []) c0.
Proof. exact setitem_frame. Qed.
Print Assumptions C13_setitem_frame.

Theorem C13_setitem_preserves_disjoint : forall h d s src h' r a reg, exec h (OSet d s src) = (h', r) ->
  lookup d (env h) = Some (VArr a) -> select a s = inr reg ->
  forall a2, (a_buf a2 <> a_buf a \/ forall i, In i (a_idx a2) -> ~ In i (region_idx reg)) ->
  read_arr (bufs h') a2 = read_arr (bufs h) a2.
Proof. exact setitem_preserves_disjoint. Qed.
Print Assumptions C13_setitem_preserves_disjoint.

(* (5) copy construction yields independent storage (mesh classes, particles, fields) *)
Theorem C13_copy_independent : forall h d ck s h1 v, wf h -> exec h (OCopy d ck s) = (h1, ROk) -> lookup s (env h) = Some v ->
  exists v', lookup d (env h1) = Some v' /\
    read_value (bufs h1) v' = read_value (bufs h) v /\
    freshv (length (bufs h)) v' /\ NoDup (map a_buf (leaves v')) /\
    (forall w, wfv (length (bufs h)) w -> read_value (bufs h1) w = read_value (bufs h) w) /\
    forall t sl src h2 r a, exec h1 (OSet t sl src) = (h2, r) -> lookup t (env h1) = Some (VArr a) ->
      (a_buf a < length (bufs h) -> read_value (bufs h2) v' = read_value (bufs h1) v') /\
      (length (bufs h) <= a_buf a -> forall w, wfv (length (bufs h)) w -> read_value (bufs h2) w = read_value (bufs h1) w).
Proof. exact copy_independent. Qed.
Print Assumptions C13_copy_independent.

(* (6) components of multi-component meshes are views of the one buffer: in EVERY later buffer state
   the view reads as the parent's component (a write through either is seen through the other) *)
Theorem C13_component_views_alias : forall h c p i h1 ap, exec h (OComp c p i) = (h1, ROk) -> lookup p (env h) = Some (VArr ap) ->
  exists ac, lookup c (env h1) = Some (VArr ac) /\ bufs h1 = bufs h /\
    a_kind ac = KMesh /\ a_dt ac = a_dt ap /\ a_buf ac = a_buf ap /\ a_shape ac = tl (a_shape ap) /\
    a_idx ac = sub (a_idx ap) (i * size (a_shape ac)) (size (a_shape ac)) /\ i < 2 /\ size (a_shape ap) = 2 * size (a_shape ac) /\
    forall bs, read_arr bs ac = firstn (size (a_shape ac)) (skipn (i * size (a_shape ac)) (read_arr bs ap)).
Proof. exact component_views_alias. Qed.
Print Assumptions C13_component_views_alias.

Theorem C13_component_view_tracks_parent : forall ops h c p i h1 ap ac,
  exec h (OComp c p i) = (h1, ROk) -> lookup p (env h) = Some (VArr ap) -> c <> p ->
  lookup c (env h1) = Some (VArr ac) ->
  (forall o, In o ops -> is_setitem o = true \/ (dst o <> c /\ dst o <> p)) ->
  let h2 := exec_seq h1 ops in
  lookup c (env h2) = Some (VArr ac) /\ lookup p (env h2) = Some (VArr ap) /\
  read_arr (bufs h2) ac = firstn (size (a_shape ac)) (skipn (i * size (a_shape ac)) (read_arr (bufs h2) ap)).
Proof. exact component_view_tracks_parent. Qed.
Print Assumptions C13_component_view_tracks_parent.

Theorem C13_wfs_reachable : forall ops, wfs (exec_seq empty_heap ops).
Proof. exact wfs_reachable. Qed.
Print Assumptions C13_wfs_reachable.

(* a successful d[:] = src is read back through d (on every reachable heap: [wfs]) *)
Theorem C13_setitem_reads_back : forall h d src h' a cells, wfs h -> exec h (OSet d SAll src) = (h', ROk) ->
  lookup d (env h) = Some (VArr a) ->
  (exists ps u, eval_operand h src = Some ps /\ as_ufarg (bufs h) ps = Some u /\
     assign_cells (a_dt a) (a_shape a) (u_cplx u) (u_shape u) (u_cells u) = Some cells) ->
  read_arr (bufs h') a = cells.
Proof. exact setitem_reads_back_wfs. Qed.
Print Assumptions C13_setitem_reads_back.

(* a write through a component view is seen in the parent, and vice versa *)
Theorem C13_component_write_seen_in_parent : forall h c p i h1 ap ac src h2 cells, wfs h ->
  exec h (OComp c p i) = (h1, ROk) -> lookup p (env h) = Some (VArr ap) -> c <> p ->
  lookup c (env h1) = Some (VArr ac) ->
  exec h1 (OSet c SAll src) = (h2, ROk) ->
  (exists ps u, eval_operand h1 src = Some ps /\ as_ufarg (bufs h1) ps = Some u /\
     assign_cells (a_dt ac) (a_shape ac) (u_cplx u) (u_shape u) (u_cells u) = Some cells) ->
  firstn (size (a_shape ac)) (skipn (i * size (a_shape ac)) (read_arr (bufs h2) ap)) = cells.
Proof. exact component_write_seen_in_parent. Qed.
Print Assumptions C13_component_write_seen_in_parent.

Theorem C13_parent_write_seen_in_component : forall h c p i h1 ap ac src h2 cells, wfs h ->
  exec h (OComp c p i) = (h1, ROk) -> lookup p (env h) = Some (VArr ap) -> c <> p ->
  lookup c (env h1) = Some (VArr ac) ->
  exec h1 (OSet p SAll src) = (h2, ROk) ->
  (exists ps u, eval_operand h1 src = Some ps /\ as_ufarg (bufs h1) ps = Some u /\
     assign_cells (a_dt ap) (a_shape ap) (u_cplx u) (u_shape u) (u_cells u) = Some cells) ->
  read_arr (bufs h2) ac = firstn (size (a_shape ac)) (skipn (i * size (a_shape ac)) cells).
Proof. exact parent_write_seen_in_component. Qed.
Print Assumptions C13_parent_write_seen_in_component.

(* (6b) general basic-indexing views  d = s.transpose(perm)[start:stop:step, ...]  (strided, reversed, sub-block,
   transposed): same class and buffer; in EVERY buffer state the view reads as the parent's cells gathered at fixed,
   in-range, pairwise distinct positions; and a write through a COMPONENT of such a view of a multi-component mesh
   lands in the mesh itself *)
Theorem C13_strided_views_alias : forall h d s perm sl h1 ap, exec h (OView d s perm sl) = (h1, ROk) -> lookup s (env h) = Some (VArr ap) ->
  exists av pos, lookup d (env h1) = Some (VArr av) /\ bufs h1 = bufs h /\
    a_kind av = a_kind ap /\ a_dt av = a_dt ap /\ a_buf av = a_buf ap /\ a_shape av = map (fun x => snd x) sl /\
    a_idx av = map (fun p => nth p (a_idx ap) 0) pos /\ Forall (fun p => p < length (a_idx ap)) pos /\
    NoDup (a_idx av) /\ length (a_idx av) = size (a_shape av) /\
    forall bs, read_arr bs av = map (fun p => nth p (read_arr bs ap) c0) pos.
Proof. exact strided_views_alias. Qed.
Print Assumptions C13_strided_views_alias.

Theorem C13_strided_component_write_seen_in_base : forall h v p perm sl h1 ap av pos c i h2 ac src h3 cells, wfs h ->
  exec h (OView v p perm sl) = (h1, ROk) -> lookup p (env h) = Some (VArr ap) -> lookup v (env h1) = Some (VArr av) ->
  (forall bs, read_arr bs av = map (fun q => nth q (read_arr bs ap) c0) pos) ->
  exec h1 (OComp c v i) = (h2, ROk) -> c <> v -> lookup c (env h2) = Some (VArr ac) ->
  exec h2 (OSet c SAll src) = (h3, ROk) ->
  (exists ps u, eval_operand h2 src = Some ps /\ as_ufarg (bufs h2) ps = Some u /\
     assign_cells (a_dt ac) (a_shape ac) (u_cplx u) (u_shape u) (u_cells u) = Some cells) ->
  firstn (size (a_shape ac)) (skipn (i * size (a_shape ac)) (map (fun q => nth q (read_arr (bufs h3) ap) c0) pos)) = cells.
Proof. exact strided_component_write_seen_in_base. Qed.
Print Assumptions C13_strided_component_write_seen_in_base.

Example C13_nonvacuous_strided : exists h ap h1, wfs h /\ lookup 0 (env h) = Some (VArr ap) /\
  exec h (OView 1 0 [0; 2; 1] [(0%Z, 1%Z, 2); (2%Z, (-2)%Z, 2); (0%Z, 1%Z, 2)]) = (h1, ROk).
Proof. exact strided_demo_hypotheses. Qed.
Print Assumptions C13_nonvacuous_strided.

(* (7) abs() is the maximum norm, and that is a norm (exact cells; real: Z, complex: squared modulus
   with sqrt S <= sqrt A + sqrt B written root-free as [sqrt_le_sum]) *)
Theorem C13_abs_is_maxnorm : forall h d s h' a, exec h (OAbs d s) = (h', ROk) -> lookup s (env h) = Some (VArr a) ->
  lookup d (env h') =
    Some (if is_cplx (a_dt a) then VNum NAbsSq (maxsq (read_arr (bufs h) a), 0%Z)
          else VNum NPyFloat (maxabs (map fst (read_arr (bufs h) a)), 0%Z))
  /\ bufs h' = bufs h.
Proof. exact abs_is_maxnorm. Qed.
Print Assumptions C13_abs_is_maxnorm.

Theorem C13_maxnorm_nonneg : forall l, (0 <= maxabs l)%Z.
Proof. exact maxabs_nonneg. Qed.
Print Assumptions C13_maxnorm_nonneg.
Theorem C13_maxnorm_is_max : forall l, (forall x, In x l -> (Z.abs x <= maxabs l)%Z) /\
                                        (l <> [] -> exists x, In x l /\ maxabs l = Z.abs x).
Proof. intro l. split; [exact (maxabs_ge l) | exact (maxabs_attained l)]. Qed.
Print Assumptions C13_maxnorm_is_max.
Theorem C13_maxnorm_zero_iff : forall l, maxabs l = 0%Z <-> Forall (fun x => x = 0%Z) l.
Proof. exact maxabs_zero. Qed.
Print Assumptions C13_maxnorm_zero_iff.
Theorem C13_maxnorm_homogeneous : forall c l, maxabs (map (Z.mul c) l) = (Z.abs c * maxabs l)%Z.
Proof. exact maxabs_scale. Qed.
Print Assumptions C13_maxnorm_homogeneous.
Theorem C13_maxnorm_triangle : forall l1 l2, (maxabs (zip_add l1 l2) <= maxabs l1 + maxabs l2)%Z.
Proof. exact maxabs_triangle. Qed.
Print Assumptions C13_maxnorm_triangle.
Theorem C13_complex_maxnorm_zero_iff : forall l, maxsq l = 0%Z <-> Forall (fun c => c = (0, 0)%Z) l.
Proof. exact maxsq_zero. Qed.
Print Assumptions C13_complex_maxnorm_zero_iff.
Theorem C13_complex_maxnorm_homogeneous : forall c l, maxsq (map (cmul c) l) = (normsq c * maxsq l)%Z.
Proof. exact maxsq_scale. Qed.
Print Assumptions C13_complex_maxnorm_homogeneous.
Theorem C13_complex_maxnorm_triangle : forall l1 l2, sqrt_le_sum (maxsq (zip_cadd l1 l2)) (maxsq l1) (maxsq l2).
Proof. exact maxsq_triangle. Qed.
Print Assumptions C13_complex_maxnorm_triangle.

(* (8) refuted in the faithful model (and on the real classes, see the correspondence): results of
   PARTICLE arithmetic do not own all their storage - q and m are shared with the left operand *)
Theorem C13_particles_result_independent_refuted :
  exists ops a, lookup 3 (env (exec_seq empty_heap ops)) = Some (VArr a) /\
    read_arr (bufs (exec_seq empty_heap ops)) a = [(9, 0); (9, 0)]%Z /\
    read_arr (bufs (exec_seq empty_heap (firstn 3 ops))) a = [(4, 0); (4, 0)]%Z.
Proof. exact particles_result_independent_refuted. Qed.
Print Assumptions C13_particles_result_independent_refuted.

(* non-vacuity: concrete reachable heaps satisfying the hypotheses of (2), (5), (6) *)
Example C13_nonvacuous_iop : exists h a h', wf h /\ lookup 1 (env h) = Some (VArr a) /\
  exec h (OIop 1 UAdd (OS SInt (1, 0)%Z)) = (h', ROk).
Proof. exact demo_iop_hypotheses. Qed.
Print Assumptions C13_nonvacuous_iop.
Example C13_nonvacuous_component : exists h ap h1, lookup 0 (env h) = Some (VArr ap) /\ exec h (OComp 2 0 1) = (h1, ROk).
Proof. exact demo_component_hypotheses. Qed.
Print Assumptions C13_nonvacuous_component.
Example C13_nonvacuous_copy : exists h v h1, wf h /\ lookup 0 (env h) = Some v /\ exec h (OCopy 3 (CArr KImex) 0) = (h1, ROk).
Proof. exact demo_copy_hypotheses. Qed.
Print Assumptions C13_nonvacuous_copy.
