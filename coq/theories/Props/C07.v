(* C07 — property theorems only.  Each is closed by [exact] of a lemma proved in Proofs/ControllerProofs.v
   and followed by Print Assumptions.

   Model: Model/Controller.v (one block of controller_nonMPI.pfasst for n steps, `nlev c` levels, any
   nsweeps / maxiter / predictor / coupling mode; the numerical layer is the oracle o = (conv, fdone, fcont)).
   `reach c o n s`  : s is a state in which run() calls pfasst (init_block, then pfasst while not all done).
   `wf_cfg c`       : 1 <= nlev, (nlev = 1 -> nsweeps[0] >= 1), (nlev > 1 -> predict_type in {None, fine_only,
                      pfasst_burnin}).
   `term_bound c o B`: from iteration B on nothing forces continuation (maxiter <= B and no force_continue). *)
From Coq Require Import List Bool Arith Lia.
From PySDC Require Import Model.Controller Proofs.ControllerProofs.
Import ListNotations.

(* no call of pfasst raises: neither the stage ControllerError ("not all stages are equal" / unknown stage),
   nor CommunicationError (tag mismatch), nor UnlockError / AssertionError (locked level), nor IndexError *)
Theorem C07_pfasst_never_raises : forall c o n s,
  wf_cfg c -> 0 < n -> reach c o n s -> all_done (ms s) = false -> exists s', pfasst c o s = Ok s'.
Proof. exact pfasst_never_raises. Qed.
Print Assumptions C07_pfasst_never_raises.

Theorem C07_run_never_raises : forall c o n fuel, wf_cfg c -> 0 < n ->
  forall e s, run_model c o n fuel <> Raised e s.
Proof. exact run_never_raises. Qed.
Print Assumptions C07_run_never_raises.

(* lockstep: all running steps are in the same stage; the literal test of pfasst passes *)
Theorem C07_lockstep : forall c o n s, wf_cfg c -> 0 < n -> reach c o n s ->
  forall i j, i < n -> j < n ->
    st_stage (nth i (ms s) dummy_step) <> DONE -> st_stage (nth j (ms s) dummy_step) <> DONE ->
    st_stage (nth i (ms s) dummy_step) = st_stage (nth j (ms s) dummy_step).
Proof. exact lockstep. Qed.
Print Assumptions C07_lockstep.

Theorem C07_lockstep_test : forall c o n s, wf_cfg c -> 0 < n -> reach c o n s -> all_done (ms s) = false ->
  let stages := map (fun i => st_stage (nth i (ms s) dummy_step)) (running (ms s)) in
  all_same stages = true /\ stages <> [].
Proof. exact lockstep_test. Qed.
Print Assumptions C07_lockstep_test.

(* steps finish in time order *)
Theorem C07_done_prefix : forall c o n s, wf_cfg c -> 0 < n -> reach c o n s ->
  forall i j, i <= j -> j < n ->
    st_done (nth j (ms s) dummy_step) = true -> st_done (nth i (ms s) dummy_step) = true.
Proof. exact done_prefix. Qed.
Print Assumptions C07_done_prefix.

Theorem C07_done_iff_stage_DONE : forall c o n s, wf_cfg c -> 0 < n -> reach c o n s ->
  forall i, i < n -> (st_done (nth i (ms s) dummy_step) = true <-> st_stage (nth i (ms s) dummy_step) = DONE).
Proof. exact done_stage_iff. Qed.
Print Assumptions C07_done_iff_stage_DONE.

(* a finished step is never changed again and no later event carries its slot — for EVERY state and
   configuration, whether or not pfasst raises *)
Theorem C07_done_frame : forall c o s i,
  st_stage (nth i (ms s) dummy_step) = DONE ->
  let s' := res_state (pfasst c o s) in
  nth_error (ms s') i = nth_error (ms s) i /\
  exists ext, tr s' = tr s ++ ext /\ Forall (fun e => fst e <> i) ext.
Proof. exact done_frame. Qed.
Print Assumptions C07_done_frame.

(* every receive that is executed finds exactly the (level, iter, sender) tag it expects *)
Theorem C07_tags_match : forall c o n s, reach c o n s ->
  forall slot l t f, In (slot, LRecv l t f) (tr s) -> f = Some t.
Proof. exact tags_match. Qed.
Print Assumptions C07_tags_match.

(* termination with an explicit fuel bound: at most B+1 check rounds, 2 + 5(B+1) calls of pfasst *)
Theorem C07_block_terminates : forall c o n B, wf_cfg c -> 0 < n -> term_bound c o B ->
  forall fuel, fuel_for B <= fuel ->
  exists s, run_model c o n fuel = Finished s /\ reach c o n s /\
    forall i, i < n -> let st := nth i (ms s) dummy_step in
      st_stage st = DONE /\ st_done st = true /\ st_iter st <= B.
Proof. exact block_terminates. Qed.
Print Assumptions C07_block_terminates.

Theorem C07_term_bound_maxiter : forall c o B,
  maxiter c <= B -> (forall i k, B <= k -> fcont o i k = false) -> term_bound c o B.
Proof. exact term_bound_intro. Qed.
Print Assumptions C07_term_bound_maxiter.

(* per slot: pre_step (pre_predict post_predict)? (pre_iteration (pre_sweep post_sweep)+ post_iteration)* post_step *)
Theorem C07_callback_grammar : forall c o n, wf_cfg c -> 0 < n ->
  forall fuel s, run_model c o n fuel = Finished s -> forall i, i < n -> grammar (hproj i (tr s)).
Proof. exact callback_grammar. Qed.
Print Assumptions C07_callback_grammar.

Theorem C07_all_to_done_equal_niter : forall c o n, wf_cfg c -> 0 < n -> all_to_done c = true ->
  forall fuel s, run_model c o n fuel = Finished s ->
  forall i j, i < n -> j < n -> st_iter (nth i (ms s) dummy_step) = st_iter (nth j (ms s) dummy_step).
Proof. exact all_to_done_equal_niter. Qed.
Print Assumptions C07_all_to_done_equal_niter.

(* non-vacuity: a 3-step, 2-level PFASST block with burn-in in which the LAST step converges first
   finishes, with iteration counts 2,2,2 ... and the hypotheses wf_cfg / term_bound hold *)
Definition ex_cfg := mkCfg 2 3 [2; 1] PBurnin true false.
Definition ex_orc := mkOracle (fun slot it => (slot =? 2) || (2 <=? it)) (fun _ _ => false) (fun _ _ => false).
Example C07_nonvacuous :
  wf_cfg ex_cfg /\ term_bound ex_cfg ex_orc 3 /\
  match run_model ex_cfg ex_orc 3 (fuel_for 3) with
  | Finished s => map st_iter (ms s) = [2; 2; 2] /\ length (tr s) = 207
  | _ => False
  end.
Proof.
  split; [|split].
  - unfold wf_cfg, ptype_ok; simpl. split; [lia|]. split; [intros; lia|]. intros _. right; right; reflexivity.
  - apply term_bound_intro; simpl; auto.
  - vm_compute. split; reflexivity.
Qed.
Print Assumptions C07_nonvacuous.
