(* C20 — property theorems only.  Each is closed by [exact] of a lemma proved in
   Proofs/DescrProofs.v and is followed by Print Assumptions. *)
From Coq Require Import String List ZArith Bool Permutation Sorted.
From PySDC Require Import Model.Descr Proofs.DescrProofs.
Import ListNotations.
Open Scope string_scope.
Open Scope list_scope.

(* (1) Step.__dict_to_list, for every dictionary (any value type): as many entries as the longest
   list (at least one); entry l holds v[min(l, len v - 1)] of a list and v of a scalar; IndexError
   exactly when some list is empty *)
Theorem C20_dict_to_list_length : forall (V : Type) (d : dict (pv V)) ld,
  dict_to_list d = Some ld -> length ld = max_val d.
Proof. exact @dict_to_list_length. Qed.
Print Assumptions C20_dict_to_list_length.

Theorem C20_max_val_is_longest_list : forall (V : Type) (d : dict (pv V)),
  1 <= max_val d /\ (forall k vs, In (k, PList vs) d -> length vs <= max_val d) /\
  (max_val d = 1 \/ exists k vs, In (k, PList vs) d /\ length vs = max_val d).
Proof. intros V d. split; [apply max_val_ge1 | split; [apply max_val_bound | apply max_val_attained]]. Qed.
Print Assumptions C20_max_val_is_longest_list.

Theorem C20_dict_to_list_entry : forall (V : Type) (d : dict (pv V)) ld l dl k p,
  dict_to_list d = Some ld -> nth_error ld l = Some dl -> lookup k d = Some p -> lookup k dl = sel l p.
Proof. exact @dict_to_list_entry. Qed.
Print Assumptions C20_dict_to_list_entry.

Theorem C20_dict_to_list_index_error : forall (V : Type) (d : dict (pv V)),
  dict_to_list d = None <-> exists k, In (k, PList []) d.
Proof. exact @dict_to_list_None. Qed.
Print Assumptions C20_dict_to_list_index_error.

(* (2) the hierarchy of Step.__generate_hierarchy (nested conversion of problem/level/sweeper
   parameters, then of the description): number of levels = longest list anywhere *)
Theorem C20_levels_eq_longest_list : forall d dls, gen_hier d = inr dls -> length dls = nlevels d.
Proof. exact levels_eq_longest_list. Qed.
Print Assumptions C20_levels_eq_longest_list.

(* level l gets v[min(l, len v - 1)] of list-valued problem/level/sweeper parameters, the nested
   application of dict_to_list notwithstanding *)
Theorem C20_entry_selection : forall d dls l dl sec k p,
  gen_hier d = inr dls -> nth_error dls l = Some dl -> In sec converted_keys ->
  lookup k (get_dd sec d) = Some p ->
  exists pd, lookup sec dl = Some (OD pd) /\ lookup k pd = sel l p.
Proof. exact entry_selection. Qed.
Print Assumptions C20_entry_selection.

Theorem C20_entry_selection_outer : forall d dls l dl k p,
  gen_hier d = inr dls -> nth_error dls l = Some dl -> mem_str k converted_keys = false ->
  lookup k d = Some (DV p) -> lookup k dl = option_map OA (sel l p).
Proof. exact entry_selection_outer. Qed.
Print Assumptions C20_entry_selection_outer.

Theorem C20_scalar_shared : forall d dls l dl sec k v,
  gen_hier d = inr dls -> nth_error dls l = Some dl -> In sec converted_keys ->
  lookup k (get_dd sec d) = Some (Scalar v) ->
  exists pd, lookup sec dl = Some (OD pd) /\ lookup k pd = Some v.
Proof. exact scalar_shared. Qed.
Print Assumptions C20_scalar_shared.

(* which descriptions __generate_hierarchy accepts *)
Theorem C20_hierarchy_complete : forall d, (exists dls, gen_hier d = inr dls) <-> DescrOK d.
Proof. exact gen_hier_complete. Qed.
Print Assumptions C20_hierarchy_complete.

(* (3) the verdict of construction + first use.
   Full-strength statement wanted by the property (every listed name is rejected when unknown):
       forall E n cp d, (exists lvs, build E n cp d = Built lvs) <-> WellFormedStrict E n cp d
   The faithful model REFUTES it (an unknown predictor on a single level and an unknown initial
   guess on a coarse level are never used by the code, hence never rejected): *)
Theorem C20_validate_strict_refuted :
  exists E nprocs cp d lvs, build E nprocs cp d = Built lvs /\ ~ WellFormedStrict E nprocs cp d.
Proof. exact validate_strict_refuted. Qed.
Print Assumptions C20_validate_strict_refuted.

Theorem C20_validate_strict_refuted_coarse_guess :
  exists E nprocs cp d lvs, build E nprocs cp d = Built lvs /\ ~ WellFormedStrict E nprocs cp d.
Proof. exact validate_strict_refuted_coarse_guess. Qed.
Print Assumptions C20_validate_strict_refuted_coarse_guess.

(* proved: completeness w.r.t. the well-formedness predicate that asks for known names where the
   code uses them (WellFormed = PreOK /\ DescrOK /\ every level LevelOK /\ PostOK /\ UseOK) *)
Theorem C20_validate_complete_partial : forall E nprocs cp d,
  (exists lvs, build E nprocs cp d = Built lvs) <-> WellFormed E nprocs cp d.
Proof. exact validate_complete_partial. Qed.
Print Assumptions C20_validate_complete_partial.

Theorem C20_invalid_rejected : forall E nprocs cp d,
  ~ WellFormed E nprocs cp d <-> exists ph e r, build E nprocs cp d = Rejected ph e r.
Proof. exact invalid_rejected. Qed.
Print Assumptions C20_invalid_rejected.

(* each kind of fault maps to its exception class and phase *)
Theorem C20_rejection_class : forall E nprocs cp d ph e r,
  build E nprocs cp d = Rejected ph e r -> e = exn_of_reason r /\ ph = phase_of_reason r.
Proof. exact rejection_class. Qed.
Print Assumptions C20_rejection_class.

Theorem C20_fault_missing_essential : forall E nprocs cp d k,
  PreOK cp -> has "dtype_u" d = false -> has "dtype_f" d = false ->
  In k essential_keys -> has k d = false ->
  exists k', build E nprocs cp d = Rejected Construct ParameterError (RMissing k').
Proof. exact fault_missing_essential. Qed.
Print Assumptions C20_fault_missing_essential.

Theorem C20_fault_no_space_transfer : forall E nprocs cp d,
  PreOK cp -> has "dtype_u" d = false -> has "dtype_f" d = false ->
  (forall k, In k essential_keys -> has k d = true) ->
  (forall k, In (k, DV (PList [])) d -> mem_str k converted_keys = true) ->
  (forall sec, In sec converted_keys -> forall k, ~ In (k, PList []) (get_dd sec d)) ->
  1 < nlevels d -> truthy_dval (lookup_or "space_transfer_class" (with_defaults d) (DD [])) = false ->
  build E nprocs cp d = Rejected Construct ParameterError RNoSpaceTransfer.
Proof. exact fault_no_space_transfer. Qed.
Print Assumptions C20_fault_no_space_transfer.

Theorem C20_fault_deprecated : forall E nprocs cp d,
  PreOK cp -> has "dtype_u" d = true \/ has "dtype_f" d = true ->
  exists k, build E nprocs cp d = Rejected Construct ParameterError (RDeprecated k).
Proof. exact fault_deprecated. Qed.
Print Assumptions C20_fault_deprecated.

Theorem C20_fault_predict_flag : forall E nprocs cp d, has "predict" cp = true ->
  build E nprocs cp d = Rejected Construct ControllerError RPredictFlag.
Proof. exact fault_predict_flag. Qed.
Print Assumptions C20_fault_predict_flag.

Theorem C20_fault_coarse_sweeps : forall nprocs cp d lvs,
  (truthy_atom (lookup_or "dump_setup" cp (ABool true)) = true -> has "step_params" d = true) ->
  (1 < nprocs -> forall L, In L lvs -> lv_right_is_node L = true) ->
  1 < length lvs -> int_gt1 (lookup_or "nsweeps" (lv_lp (coarsest lvs)) ANone) = true ->
  post_checks nprocs cp d lvs = Some (ControllerError, RCoarseSweeps).
Proof. exact fault_coarse_sweeps. Qed.
Print Assumptions C20_fault_coarse_sweeps.

Theorem C20_fault_pfasst_right_node : forall nprocs cp d lvs L,
  (truthy_atom (lookup_or "dump_setup" cp (ABool true)) = true -> has "step_params" d = true) ->
  1 < nprocs -> 1 < length lvs -> In L lvs -> lv_right_is_node L = false ->
  post_checks nprocs cp d lvs = Some (ControllerError, RPfasstRightNode).
Proof. exact fault_pfasst_right_node. Qed.
Print Assumptions C20_fault_pfasst_right_node.

Theorem C20_fault_unknown_quad : forall E l user z, lookup "num_nodes" user = Some (AInt z) -> (0 < z)%Z ->
  in_names (lookup_or "node_type" user (AStr "LEGENDRE")) (e_node E) = true ->
  in_names (lookup_or "quad_type" user ANone) (e_quad E) = false ->
  inst_sweeper E l user = inl (CollocationError, RQuadType l).
Proof. exact fault_unknown_quad. Qed.
Print Assumptions C20_fault_unknown_quad.

Theorem C20_fault_unknown_QI : forall E l user z, lookup "num_nodes" user = Some (AInt z) -> (0 < z)%Z ->
  in_names (lookup_or "node_type" user (AStr "LEGENDRE")) (e_node E) = true ->
  in_names (lookup_or "quad_type" user ANone) (e_quad E) = true ->
  in_names (lookup_or "QI" user (AStr "IE")) (e_QI E) = false ->
  inst_sweeper E l user = inl (KeyError, RQI l).
Proof. exact fault_unknown_QI. Qed.
Print Assumptions C20_fault_unknown_QI.

(* non-vacuity of (3): a concrete well-formed setup *)
Example C20_wellformed_nonvacuous : WellFormed E_ex 2 [("logger_level", AInt 30)] d_ex.
Proof. exact wellformed_example. Qed.
Print Assumptions C20_wellformed_nonvacuous.

(* (4) convergence controllers: one instance per class, called in ascending control order, each
   exactly once; acyclic = no class depends (transitively) on itself *)
Theorem C20_controllers_sorted_unique : forall user mpi classes base,
  Forall acyclic classes -> Forall acyclic base ->
  let st := cc_build user mpi classes base in
  NoDup (map ci_id st) /\
  Permutation (cc_order st) (seq 0 (length st)) /\
  Permutation (cc_call_sequence st) st /\
  Sorted Z.le (map control_order (cc_call_sequence st)).
Proof. exact controllers_sorted_unique. Qed.
Print Assumptions C20_controllers_sorted_unique.

(* user-supplied parameters override defaults and parameters passed by dependencies
   (dict_wf / tree_wf: keys of each Python dict are distinct) *)
Theorem C20_user_params_override : forall user mpi classes base,
  (forall cid, dict_wf (user_params user cid)) -> Forall tree_wf classes -> Forall tree_wf base ->
  forall i, In i (cc_build user mpi classes base) ->
  forall k v, lookup k (user_params user (ci_id i)) = Some v -> lookup k (ci_params i) = Some v.
Proof. exact cc_build_user_override. Qed.
Print Assumptions C20_user_params_override.

Example C20_controllers_nonvacuous : Forall acyclic cc_ex_classes /\ Forall acyclic cc_ex_base.
Proof. exact cc_example_acyclic. Qed.
Print Assumptions C20_controllers_nonvacuous.

(* (5) frozen classes and read-only parameters *)
Theorem C20_frozen_rejects_undeclared : forall o k,
  fz_frozen o = true -> ~ In k (fz_attrs o) -> ~ In k (fz_fields o) -> ~ In k (fz_class o) ->
  fz_setattr o k = inl TypeError.
Proof. exact frozen_rejects_undeclared. Qed.
Print Assumptions C20_frozen_rejects_undeclared.

Theorem C20_frozen_accepts_declared : forall o k,
  In k (fz_attrs o) \/ In k (fz_fields o) ->
  exists o', fz_setattr o k = inr o' /\ fz_hasattr o' k = true /\ fz_frozen o' = fz_frozen o /\ fz_attrs o' = fz_attrs o.
Proof. exact frozen_accepts_declared. Qed.
Print Assumptions C20_frozen_accepts_declared.

Theorem C20_readonly_rejected : forall ro k, In k ro -> rp_setattr ro k = Some ReadOnlyError.
Proof. exact readonly_rejected. Qed.
Print Assumptions C20_readonly_rejected.

(* the read-only registry of a problem is the UNION over all registration calls of its class
   hierarchy (parent __init__, child __init__, ...): a name registered read-only by any of them is
   rejected on assignment, and every registered name is listed in params *)
Theorem C20_readonly_union_over_calls : forall calls names k,
  In (names, true) calls -> In k names ->
  rp_setattr (fst (rp_register calls)) k = Some ReadOnlyError /\ In k (rp_params calls).
Proof. exact readonly_union_over_calls. Qed.
Print Assumptions C20_readonly_union_over_calls.

Theorem C20_registered_listed_in_params : forall calls names b k,
  In (names, b) calls -> In k names -> In k (rp_params calls).
Proof. exact registered_listed_in_params. Qed.
Print Assumptions C20_registered_listed_in_params.

(* (4b) the "already present" test is exact-class membership: every class the user lists and every
   base class of the controller IS instantiated, whatever was registered before (in particular
   instances of classes derived from it) and in whatever order the description lists them; with
   C20_controllers_sorted_unique: exactly once *)
Theorem C20_requested_controllers_present : forall user mpi classes base c,
  In c (classes ++ base) -> In (root_id c) (map ci_id (cc_build user mpi classes base)).
Proof. exact cc_build_requested_present. Qed.
Print Assumptions C20_requested_controllers_present.

Theorem C20_new_controller_loads_dependencies : forall user mpi st passed cid defaults deps pd,
  ~ In cid (map ci_id st) -> In pd deps ->
  In (root_id (snd pd)) (map ci_id (cc_add user mpi st passed (CC cid defaults deps))).
Proof. exact cc_add_new_deps_present. Qed.
Print Assumptions C20_new_controller_loads_dependencies.
