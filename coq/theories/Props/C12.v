(* C12 — property theorems only.  Each is closed by [exact] of a lemma proved in
   Proofs/SolverContractProofs.v and is followed by Print Assumptions. *)
From Coq Require Import ZArith QArith Qabs List Bool.
From PySDC Require Import Base.Dyadic Model.SolverContract Proofs.SolverContractProofs.
Import ListNotations.
Local Open Scope Q_scope.

(* (1) the certificate checker evaluated by the kernel on every exported (operator, factor, rhs, u)
   is sound: acceptance implies the solver contract  |u_i - factor (A u)_i - rhs_i| <= tol  over Q for
   EVERY unmasked row, for every matrix / vector / factor / tolerance *)
Theorem C12_check_solve_cert_sound : forall A factor rhs u mask atol rtol,
  check_solve_cert A factor rhs u mask atol rtol = true ->
  contract_holds A factor rhs u mask (D2Q (cert_tol A factor rhs u atol rtol)).
Proof. exact check_solve_cert_sound. Qed.
Print Assumptions C12_check_solve_cert_sound.

(* (2) factor = 0: a certified output equals rhs within tol *)
Theorem C12_factor_zero : forall A factor rhs u mask tol,
  contract_holds A factor rhs u mask tol -> D2Q factor == 0 ->
  forall i, (i < length A)%nat -> nth i mask false = true ->
  Qabs (D2Q (vget u i) - D2Q (vget rhs i)) <= tol.
Proof. exact contract_factor_zero. Qed.
Print Assumptions C12_factor_zero.

(* (3) general linear rows G u = b (boundary / constraint rows, systems with a mass matrix) *)
Theorem C12_check_lin_cert_sound : forall G b u atol rtol,
  check_lin_cert G b u atol rtol = true -> lin_holds G b u (D2Q (lin_tol G b u atol rtol)).
Proof. exact check_lin_cert_sound. Qed.
Print Assumptions C12_check_lin_cert_sound.

(* (4) vector-only residual certificate against the f values returned by the implementation *)
Theorem C12_check_resid_cert_sound : forall factor rhs u f mask tol,
  check_resid_cert factor rhs u f mask tol = true -> resid_holds factor rhs u f mask (D2Q tol).
Proof. exact check_resid_cert_sound. Qed.
Print Assumptions C12_check_resid_cert_sound.

(* (5) residual certificate + "f = A u" certificate  ==>  contract for the operator A *)
Theorem C12_resid_and_apply_give_contract : forall A factor rhs u f mask tr ta,
  resid_holds factor rhs u f mask tr -> lin_holds A f u ta -> length u = length A ->
  contract_holds A factor rhs u mask (tr + Qabs (D2Q factor) * ta).
Proof. exact resid_and_apply_give_contract. Qed.
Print Assumptions C12_resid_and_apply_give_contract.

(* (6) split certificate: the pieces sum to the full right-hand side entry by entry *)
Theorem C12_split_sum : forall f1 f2 ffull tol,
  check_split_cert f1 f2 ffull tol = true ->
  length f1 = length ffull /\ length f2 = length ffull /\
  forall i, (i < length ffull)%nat ->
    Qabs (D2Q (vget f1 i) + D2Q (vget f2 i) - D2Q (vget ffull i)) <= D2Q tol.
Proof. exact check_split_cert_sound. Qed.
Print Assumptions C12_split_sum.

(* (7) uniqueness: an approximate-inverse certificate B (||B G - I|| <= delta < 1, ||B|| <= beta)
   pins any two vectors satisfying G x = b within tol to  ||u - v|| (1 - delta) <= beta * 2 tol *)
Theorem C12_contract_unique : forall G B delta beta b u v tol,
  check_inverse_cert G B delta beta = true ->
  dense_holds G b u tol -> dense_holds G b v tol ->
  D2Q (vdist u v) * (1 - D2Q delta) <= D2Q beta * (2 * tol) /\
  forall i, (i < length G)%nat -> Qabs (D2Q (nth i u d0) - D2Q (nth i v d0)) <= D2Q (vdist u v).
Proof. exact contract_unique. Qed.
Print Assumptions C12_contract_unique.

(* (8) ... and for two outputs accepted by the sparse checker, with G = densify (I - factor A) *)
Theorem C12_solve_cert_unique : forall A factor rhs u v mask atol rtol atol' rtol' B delta beta tol,
  check_solve_cert A factor rhs u mask atol rtol = true ->
  check_solve_cert A factor rhs v mask atol' rtol' = true ->
  cols_below (length A) A = true -> forallb (fun m => m) mask = true ->
  check_inverse_cert (densify factor A) B delta beta = true ->
  D2Q (cert_tol A factor rhs u atol rtol) <= tol ->
  D2Q (cert_tol A factor rhs v atol' rtol') <= tol -> 0 <= tol ->
  D2Q (vdist u v) * (1 - D2Q delta) <= D2Q beta * (2 * tol) /\
  forall i, (i < length A)%nat -> Qabs (D2Q (nth i u d0) - D2Q (nth i v d0)) <= D2Q (vdist u v).
Proof. exact solve_cert_unique. Qed.
Print Assumptions C12_solve_cert_unique.

(* non-vacuity: A = [[-2,1],[1,-2]], factor = 1/2, u = (1,1), rhs = (3/2,3/2) passes with zero
   tolerance; B = [[17/32,1/8],[1/8,17/32]] certifies the inverse with delta = 1/64 *)
Example C12_nonvacuous :
  let A := [[(0%nat, Dy (-2) 0); (1%nat, Dy 1 0)]; [(0%nat, Dy 1 0); (1%nat, Dy (-2) 0)]] in
  let f := Dy 1 (-1) in
  check_solve_cert A f [Dy 3 (-1); Dy 3 (-1)] [Dy 1 0; Dy 1 0] [true; true] d0 d0 = true /\
  check_inverse_cert (densify f A) [[Dy 17 (-5); Dy 1 (-3)]; [Dy 1 (-3); Dy 17 (-5)]] (Dy 1 (-6)) (Dy 21 (-5)) = true /\
  cols_below 2 A = true.
Proof. vm_compute. repeat split; reflexivity. Qed.
Print Assumptions C12_nonvacuous.
