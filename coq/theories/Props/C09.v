(* C09 — restarts and step-size control: property theorems only.  Each is closed by [exact] of a lemma
   proved in Proofs/ConvCtrlProofs.v and followed by Print Assumptions.
   The model (Model/ConvCtrl.v) is generic in the number type [T] with operations [N : num T]; the same
   functions are evaluated over PrimFloat against the real controller on every run of the check. *)
From Coq Require Import ZArith QArith List Bool Reals.
From PySDC Require Import Model.ConvCtrl Proofs.ConvCtrlProofs.
Import ListNotations.
Local Open Scope nat_scope.

(* ---------------------------------------------------------------- restart semantics *)
(* (1a) if step j is the first step of a block whose restart flag is set: the steps before j are kept,
   the next block starts at time[j] from the value levels[0].u[0] of step j *)
Theorem C09_restart_semantics : forall T (N : num T) c size g ss u0s uends j,
  first_true (map (@s_restart T) ss) = Some j ->
  let bo := next_block N c size g ss u0s uends in
  (forall i, i < j -> nth i (map (@s_restart T) ss) true = false) /\
  nth j (map (@s_restart T) ss) false = true /\
  bo_restart_at bo = j /\
  bo_token bo = nth j u0s (-1)%Z /\
  (0 < length (g_times g) -> nth 0 (g_times (bo_state bo)) (n0 N) = nth j (g_times g) (n0 N)).
Proof. exact (@next_block_restart). Qed.
Print Assumptions C09_restart_semantics.

(* (1b) no flag set: the whole block is kept, the next block starts at the end of the last step from its uend *)
Theorem C09_accept_semantics : forall T (N : num T) c size g ss u0s uends,
  first_true (map (@s_restart T) ss) = None ->
  let bo := next_block N c size g ss u0s uends in
  (forall s, In s ss -> s_restart s = false) /\
  bo_restart_at bo = size /\
  bo_token bo = nth (size - 1) uends (-1)%Z /\
  (0 < length (g_times g) ->
   nth 0 (g_times (bo_state bo)) (n0 N) =
   nadd N (nth (size - 1) (g_times g) (n0 N)) (nth (size - 1) (g_dts g) (n0 N))).
Proof. exact (@next_block_accept). Qed.
Print Assumptions C09_accept_semantics.

(* (1c) one it_check, for ANY call order in which BasicRestarting comes last among the modelled
   controllers: the flags after the pass are the propagated own requests *)
Theorem C09_it_pass_spec : forall T (N : num T) c pre final r0 riars dts injs ss,
  order_ok c pre ->
  it_pass N c final (r0 :: riars) dts injs ss =
  let os := owns N c final pre (r0 :: riars) dts injs ss in
  let qs := map (@s_restart T) os in
  let bm := c_max_restarts c <=? r0 in
  if bm && hd false qs && c_crash c then None
  else Some (if c_rffs c && negb bm then map (set_restart (or_all false qs)) (set_flags (prop_flags false bm qs) os)
             else set_flags (prop_flags false bm qs) os).
Proof. exact (@it_pass_spec). Qed.
Print Assumptions C09_it_pass_spec.

(* (1d) Gauss-Seidel mode: a restarted step drags every later step of the block along *)
Theorem C09_flags_upward_closed : forall T (N : num T) c pre final riars dts injs ss ss' n i j,
  order_ok c pre -> c_rffs c = false ->
  length riars = n -> length dts = n -> length injs = n -> length ss = n ->
  it_pass N c final riars dts injs ss = Some ss' ->
  i <= j -> j < n ->
  nth i (map (@s_restart T) ss') false = true -> nth j (map (@s_restart T) ss') false = true.
Proof. exact (@flags_upward_closed). Qed.
Print Assumptions C09_flags_upward_closed.

(* (1e) restart_from_first_step mode: all or nothing *)
Theorem C09_flags_all_equal : forall T (N : num T) c pre final riars dts injs ss ss' n i j,
  order_ok c pre -> c_rffs c = true ->
  length riars = n -> length dts = n -> length injs = n -> length ss = n ->
  it_pass N c final riars dts injs ss = Some ss' ->
  i < n -> j < n ->
  nth i (map (@s_restart T) ss') false = nth j (map (@s_restart T) ss') false.
Proof. exact (@flags_all_equal). Qed.
Print Assumptions C09_flags_all_equal.

(* ---------------------------------------------------------------- retry counter, bound, progress *)
(* (2a) the counter of the first slot after the per-step calls of prepare_next_block, for EVERY flag
   pattern — the calls alias (each reads counters earlier calls overwrote), this is what comes out *)
Theorem C09_counter_first_slot : forall size flags riars,
  0 < size -> length flags = size -> size <= length riars ->
  nth 0 (riar_update size flags riars) 0 =
  match first_true flags with
  | None => 0
  | Some 0 => nth 0 riars 0 + 1
  | Some (S _) => 1
  end.
Proof. exact (@riar_update_head). Qed.
Print Assumptions C09_counter_first_slot.

(* (2b) budget exhausted (counter of the first step >= max_restarts): nothing is restarted ... *)
Theorem C09_budget_exhausted : forall T (N : num T) c pre final r0 riars dts injs ss ss',
  order_ok c pre -> c_max_restarts c <= r0 ->
  it_pass N c final (r0 :: riars) dts injs ss = Some ss' ->
  forall s, In s ss' -> s_restart s = false.
Proof. exact (@it_pass_exhausted). Qed.
Print Assumptions C09_budget_exhausted.

(* (2c) ... and ConvergenceError is raised exactly when the budget is exhausted, crash_after_max_restarts is
   on and the first step asks again *)
Theorem C09_raise_iff : forall T (N : num T) c pre final r0 riars dts injs ss,
  order_ok c pre ->
  (it_pass N c final (r0 :: riars) dts injs ss = None <->
   c_max_restarts c <= r0 /\ c_crash c = true /\
   hd false (map (@s_restart T) (owns N c final pre (r0 :: riars) dts injs ss)) = true).
Proof. exact (@it_pass_raise_iff). Qed.
Print Assumptions C09_raise_iff.

(* (2d) retry bound: in the trace of ANY run, under ANY fault script, a streak of consecutive block
   attempts that are restarted from their first step has at most max_restarts members *)
Theorem C09_retry_bound : forall T (N : num T) c pre t0 np script trs o k n,
  order_ok c pre -> script_ok np script ->
  run N c t0 np script = (trs, o) ->
  0 < n -> k + n <= length trs -> (forall i, i < n -> restarted_first (nth (k + i) trs bt0)) ->
  n <= c_max_restarts c.
Proof. exact (@run_retry_bound). Qed.
Print Assumptions C09_retry_bound.

(* (2e) progress: among any max_restarts + 1 consecutive block attempts of a run one is not restarted
   from its first step: it keeps >= 1 step (C09_accepted_pos) or it is the attempt that raised *)
Theorem C09_run_progress : forall T (N : num T) c pre t0 np script trs o k,
  order_ok c pre -> script_ok np script ->
  run N c t0 np script = (trs, o) ->
  k + (c_max_restarts c + 1) <= length trs ->
  exists i, i < c_max_restarts c + 1 /\ ~ restarted_first (nth (k + i) trs bt0).
Proof. exact (@run_progress). Qed.
Print Assumptions C09_run_progress.

Theorem C09_accepted_pos : forall T (bt : block_trace T),
  bt_post bt <> [] -> ~ restarted_first bt -> 0 < accepted bt.
Proof. exact (@accepted_pos). Qed.
Print Assumptions C09_accepted_pos.

(* ---------------------------------------------------------------- error-based step-size control *)
(* (3a) proposal order at iteration maxiter, in the call order -60 / -50 / 91 / 92: the step asks for a
   restart iff a request was injected or e_tol <= err, and dt_new is
   abs_limit (slope_limit (beta * dt * pw)) — formula, then slope limiter, then absolute limiter *)
Theorem C09_proposal_order : forall T (N : num T) c dt req e pw,
  own N c true dt (Inj req e pw None) canonical_pre (sstate0 T) =
  let r := req || nleb N (c_e_tol c) e in
  SState r (Some (abs_limit N c (slope_limit N c dt r (optimal_dt N c dt pw)))) (Some e).
Proof. exact (@own_canonical_req). Qed.
Print Assumptions C09_proposal_order.

(* (3b) restart iff: step k of a fresh block is restarted exactly when some step j <= k has e_tol <= err_j *)
Theorem C09_restart_iff : forall T (N : num T) c r0 riars dts injs n k,
  order_ok c canonical_pre -> r0 < c_max_restarts c -> c_rffs c = false ->
  length (r0 :: riars) = n -> length dts = n -> length injs = n -> k < n ->
  (forall i, In i injs -> i_req i = false) ->
  exists ss', it_pass N c true (r0 :: riars) dts injs (repeat (sstate0 T) n) = Some ss' /\
    nth k (map (@s_restart T) ss') false =
    existsb (fun i => nleb N (c_e_tol c) (i_err i)) (firstn (S k) injs).
Proof. exact (@restart_iff). Qed.
Print Assumptions C09_restart_iff.

(* (3c) every step kept at iteration maxiter while the budget is not exhausted has (e_tol <= err) = false *)
Theorem C09_accepted_error_below_tol : forall T (N : num T) c r0 riars dts injs ss ss' n k di,
  order_ok c canonical_pre -> r0 < c_max_restarts c ->
  length (r0 :: riars) = n -> length dts = n -> length injs = n -> length ss = n -> k < n ->
  it_pass N c true (r0 :: riars) dts injs ss = Some ss' ->
  nth k (map (@s_restart T) ss') false = false ->
  nleb N (c_e_tol c) (i_err (nth k injs di)) = false.
Proof. exact (@accepted_error_below_tol). Qed.
Print Assumptions C09_accepted_error_below_tol.

(* (3d) clip_in_range, law-free: only "a < b gives a <= b" and "not a < b gives b <= a" are asked of the order *)
Theorem C09_clip_in_range : forall T (N : num T) (le : T -> T -> Prop),
  (forall a b, nltb N a b = true -> le a b) -> (forall a b, nltb N a b = false -> le b a) ->
  forall c d m, c_dt_max c = Some m -> le (c_dt_min c) m ->
  le (c_dt_min c) (abs_limit N c d) /\ le (abs_limit N c d) m.
Proof. exact (@abs_limit_in_range). Qed.
Print Assumptions C09_clip_in_range.

Theorem C09_slope_cases : forall T (N : num T) (le : T -> T -> Prop),
  (forall a b, nltb N a b = false -> le b a) ->
  forall c dt restart d,
  let ratio := ndiv N d dt in
  let r := slope_limit N c dt restart d in
  (nltb N ratio (c_slope_min c) = true /\ r = nmul N dt (c_slope_min c)) \/
  (exists m, c_slope_max c = Some m /\ nltb N m ratio = true /\ le (c_slope_min c) ratio /\ r = nmul N dt m) \/
  (restart = false /\ nltb N (nabs N (nsub N ratio (n1 N))) (c_rel_min_slope c) = true /\
   le (c_slope_min c) ratio /\ r = dt) \/
  (le (c_slope_min c) ratio /\ (forall m, c_slope_max c = Some m -> le ratio m) /\ r = d).
Proof. exact (@slope_limit_cases). Qed.
Print Assumptions C09_slope_cases.

Theorem C09_slope_range_Q : forall (c : cfg Q) dt restart d m,
  (0 < dt)%Q -> c_slope_max c = Some m -> (c_slope_min c <= m)%Q ->
  let r := slope_limit num_Q c dt restart d in
  (r == dt)%Q \/ (c_slope_min c * dt <= r /\ r <= m * dt)%Q.
Proof. exact (@slope_limit_range). Qed.
Print Assumptions C09_slope_range_Q.

(* (3e) a rejected step is retried with a strictly smaller proposal unless a lower limit binds *)
Theorem C09_rejected_gets_smaller : forall (c : cfg Q) dt pw,
  (0 < c_beta c)%Q -> (c_beta c < 1)%Q -> (0 < dt)%Q -> (0 <= pw)%Q -> (pw <= 1)%Q ->
  let p := optimal_dt num_Q c dt pw in
  let r := abs_limit num_Q c (slope_limit num_Q c dt true p) in
  (r < dt)%Q \/ (r == c_dt_min c)%Q \/ (p / dt < c_slope_min c)%Q.
Proof. exact (@rejected_gets_smaller). Qed.
Print Assumptions C09_rejected_gets_smaller.

(* ... and SpreadStepSizesBlockwise never hands out more than the proposal it spreads *)
Theorem C09_spread_le : forall T (N : num T) (le : T -> T -> Prop),
  (forall a b, nltb N a b = true -> le a b) -> (forall a b, nltb N a b = false -> le b a) ->
  forall a b, le (pmin N a b) a.
Proof. exact (@pmin_le_left). Qed.
Print Assumptions C09_spread_le.

(* the contract  pw <= 1  of (3e) is met by the real power function for every rejected step *)
Theorem C09_pow_contract : forall x y : R, (0 < x <= 1)%R -> (0 <= y)%R -> (Rpower x y <= 1)%R.
Proof. exact (@Rpower_le_one). Qed.
Print Assumptions C09_pow_contract.

(* ---------------------------------------------------------------- all steps of a block share one dt *)
(* FULL CLAUSE (false for the code as written, see C09_block_shares_dt_refuted):
     forall flags dtnews ..., i < size -> k < size ->
       nth i (spread_update N c size flags dtnews times dts) = nth k (spread_update N c size flags dtnews times dts)
   proved PART: it holds when the block is restarted from its first step, from its last step, or not at
   all ([r] is restart_at of get_step_from_which_to_spread), and the spreading step carries a proposal *)
Theorem C09_block_shares_dt_partial : forall T (N : num T) c size flags dtnews times dts sf r d i k,
  spread_from N c size flags dtnews = (sf, r) -> nth sf dtnews None = Some d ->
  size <= length dts -> (r = 0 \/ size <= r + 1) ->
  i < size -> k < size ->
  nth i (spread_update N c size flags dtnews times dts) (n0 N) =
  nth k (spread_update N c size flags dtnews times dts) (n0 N).
Proof. exact (@block_shares_dt_partial). Qed.
Print Assumptions C09_block_shares_dt_partial.

(* refutation by a purely error-driven history: a block attempt of the run starts with step sizes
   1/3, 1/3, 5/9 (and is accepted as it is) *)
Theorem C09_block_shares_dt_refuted :
  exists b, In b (fst (run num_Q refute_cfg 0%Q 3 refute_script)) /\
    map Qred (g_dts (bt_pre b)) = [(1#3)%Q; (1#3)%Q; (5#9)%Q] /\
    map (@s_restart Q) (bt_post b) = [false; false; false].
Proof. exact (@block_shares_dt_refuted_run). Qed.
Print Assumptions C09_block_shares_dt_refuted.

(* ---------------------------------------------------------------- non-vacuity *)
(* the hypotheses of the run theorems hold for the refutation history ... *)
Example C09_nonvacuous_order : order_ok refute_cfg [SScripted; SAdapt] /\ script_ok 3 refute_script.
Proof.
  split.
  - split; [reflexivity|]. simpl. intros [H|[H|[]]]; discriminate.
  - intros a Ha p Hp. simpl in Ha.
    destruct Ha as [<-|[<-|[<-|[]]]]; simpl in Hp; destruct Hp as [<-|[]]; simpl; auto.
Qed.
Print Assumptions C09_nonvacuous_order.

(* ... and a run in which the first step keeps failing is restarted exactly max_restarts = 2 times and
   then raises (integers as the number type) *)
Definition retry_cfg : cfg Z :=
  Cfg [SScripted; SAdapt; SSlope; SLimit; SRestart] 2 true false 10%Z 1%Z 0%Z None 0%Z 1%Z (Some 8%Z) true
      100%Z 0%Z 1000000000%Z 4%Z.
Definition retry_script : list (attempt Z) :=
  let bad := Inj false 20%Z 1%Z None in
  let a := Attempt [[bad; bad]] [0; 1]%Z [1; 2]%Z in [a; a; a; a].
Example C09_nonvacuous_retry :
  order_ok retry_cfg canonical_pre /\
  map (fun b => map (@s_restart Z) (bt_post b)) (fst (run num_Z retry_cfg 0%Z 2 retry_script))
    = [[true; true]; [true; true]; []] /\
  map (fun b => g_riars (bt_pre b)) (fst (run num_Z retry_cfg 0%Z 2 retry_script)) = [[0; 0]; [1; 1]; [2; 2]] /\
  snd (run num_Z retry_cfg 0%Z 2 retry_script) = Raised.
Proof.
  split; [split; [reflexivity | simpl; intros [H|[H|[H|[H|[]]]]]; discriminate]|].
  vm_compute. repeat split.
Qed.
Print Assumptions C09_nonvacuous_retry.

(* the order facts asked by the law-free theorems hold for Q *)
Example C09_nonvacuous_order_Q :
  (forall a b, nltb num_Q a b = true -> (a <= b)%Q) /\ (forall a b, nltb num_Q a b = false -> (b <= a)%Q).
Proof. split; [exact Q_lt_le | exact Q_nlt_ge]. Qed.
Print Assumptions C09_nonvacuous_order_Q.

(* (1f) restart semantics along the trace of a whole run: for every two consecutive block attempts,
   the later one starts at the time of the first restarted step of the earlier one and from that step's
   u[0] (or, if nothing was restarted, at the end of the last step from its uend) *)
Theorem C09_run_restart_semantics : forall T (N : num T) c pre t0 np script trs o k,
  order_ok c pre -> script_ok np script ->
  run N c t0 np script = (trs, o) -> S k < length trs ->
  let b := nth k trs bt0 in
  let b' := nth (S k) trs bt0 in
  let a := nth k script (att0 T) in
  let n := length (bt_post b) in
  match first_true (map (@s_restart T) (bt_post b)) with
  | Some j =>
      (forall i, i < j -> nth i (map (@s_restart T) (bt_post b)) true = false) /\
      nth 0 (g_times (bt_pre b')) (n0 N) = nth j (g_times (bt_pre b)) (n0 N) /\
      bt_next b = nth j (a_u0s a) (-1)%Z
  | None =>
      nth 0 (g_times (bt_pre b')) (n0 N) =
        nadd N (nth (n - 1) (g_times (bt_pre b)) (n0 N)) (nth (n - 1) (g_dts (bt_pre b)) (n0 N)) /\
      bt_next b = nth (n - 1) (a_uends a) (-1)%Z
  end.
Proof. exact (@run_restart_semantics). Qed.
Print Assumptions C09_run_restart_semantics.

(* the aliasing of the per-step counter updates, on a concrete block (documented quirk; C09_counter_first_slot
   shows that the counter that matters, the one of the first slot, comes out right all the same) *)
Example C09_counter_aliasing : riar_update 3 [false; true; true] [0; 2; 5] = [1; 6; 5].
Proof. exact counter_aliasing. Qed.
Print Assumptions C09_counter_aliasing.

(* (3f) whatever the aliasing between the per-step calls does, no step of the next block gets more than the
   proposal of the step whose size is spread (with (3e): a rejected step is retried with a smaller step) *)
Theorem C09_spread_all_le : forall T (N : num T) (le : T -> T -> Prop),
  (forall a b, nltb N a b = true -> le a b) -> (forall a b, nltb N a b = false -> le b a) ->
  forall c size flags dtnews times dts sf r d,
  spread_from N c size flags dtnews = (sf, r) -> nth sf dtnews None = Some d ->
  size <= length dts ->
  forall i, i < size -> le (nth i (spread_update N c size flags dtnews times dts) (n0 N)) d.
Proof. exact (@spread_all_le). Qed.
Print Assumptions C09_spread_all_le.

(* (1g) the steps of the next block are contiguous in time *)
Theorem C09_block_times_contiguous : forall T (N : num T) size dts times i,
  size <= length times -> 1 <= i -> i < size ->
  nth i (times_update N size dts times) (n0 N) =
  nadd N (nth (i - 1) (times_update N size dts times) (n0 N)) (nth (i - 1) dts (n0 N)).
Proof. exact (@times_update_contiguous). Qed.
Print Assumptions C09_block_times_contiguous.

(* (2f) the other counters after a restart from slot j: the step that moves from slot j+k to slot k >= 1
   carries its own counter plus one (only the step moving to slot 0 is reset to 1, see C09_counter_first_slot) *)
Theorem C09_counter_shifted : forall size flags riars j k,
  length flags = size -> size <= length riars ->
  first_true flags = Some j -> 1 <= k -> j + k < size -> nth (j + k) flags false = true ->
  nth k (riar_update size flags riars) 0 = nth (j + k) riars 0 + 1.
Proof. exact (@riar_update_shifted). Qed.
Print Assumptions C09_counter_shifted.

(* (3g) avoid_restarts: at every iteration >= maxiter (also after the extra sweeps), a step that leaves
   AdaptivityBase.determine_restart neither restarted nor told to continue has (e_tol <= err) = false *)
Theorem C09_avoid_restarts_accept : forall T (N : num T) c avoid iter maxiter more order e rho,
  maxiter <= iter ->
  adapt_decide N c avoid iter maxiter more order e rho false false = (false, false) ->
  nleb N (c_e_tol c) e = false.
Proof. exact (@avoid_restarts_accept). Qed.
Print Assumptions C09_avoid_restarts_accept.

Theorem C09_step_done_not_continue : forall iter maxiter force_done fc,
  step_done iter maxiter force_done fc = true -> fc = false.
Proof. exact (@step_done_not_continue). Qed.
Print Assumptions C09_step_done_not_continue.
