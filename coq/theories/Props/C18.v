(* C18 — property theorems only.  Each is closed by [exact] of a lemma proved elsewhere and is
   followed by Print Assumptions. *)
From Coq Require Import ZArith QArith Qabs List Bool.
From PySDC Require Import Base.Dyadic Base.Poly Model.FD Model.FDnd Proofs.TransferOpsProofs Proofs.FDProofs Proofs.FDndProofs.
Import ListNotations.

(* (1) Stencil exactness for EVERY polynomial below the number of stencil points, every x, h<>0:
   the validator that the check evaluates on the weights regenerated from the live code is sound. *)
Theorem C18_stencil_exact_for_all_polynomials :
  forall steps w d rtol, check_stencil steps w d rtol = true ->
  forall a, (length a <= length steps)%nat ->
  forall x h, ~ (h == 0)%Q ->
  (Qabs (wsum (Qw w) (map (fun s => x + inject_Z s * h) steps) (fun y => peval a ((y - x) / h))
        - inject_Z (zfact d) * nth d a 0)
   <= abs_lin_from 0 a (stencil_tol steps w rtol))%Q.
Proof. exact stencil_sound. Qed.
Print Assumptions C18_stencil_exact_for_all_polynomials.


(* (1') the same for polynomials given in the GLOBAL monomial basis: the stencil applied to p(x + s_i h)
   returns d! * [t^d] p(x + t h) = h^d p^(d)(x); pshift c x h are the Taylor coefficients of t |-> p(x + t h)
   (peval (pshift c x h) t == peval c (x + t h), proved as C11_pshift_correct) *)
Theorem C18_stencil_exact_global_basis :
  forall steps w d rtol, check_stencil steps w d rtol = true ->
  forall c, (length c <= length steps)%nat ->
  forall x h,
  (Qabs (wsum (Qw w) (map (fun s => x + inject_Z s * h) steps) (peval c)
        - inject_Z (zfact d) * nth d (pshift c x h) 0)
   <= abs_lin_from 0 (pshift c x h) (stencil_tol steps w rtol))%Q.
Proof. exact stencil_sound_global. Qed.
Print Assumptions C18_stencil_exact_global_basis.

(* (1'') Neumann boundary rows: matrix row + boundary-vector entry for the prescribed derivative are exact for EVERY
   polynomial with at most n coefficients, every x, every h <> 0 (pderiv = formal derivative of the coefficient list, so
   peval (pderiv a) ((y - x)/h) / h is the derivative of y |-> peval a ((y - x)/h)) *)
Theorem C18_neumann_row_exact_for_all_polynomials :
  forall steps w c g d rtol n, check_neumann_row steps w c g d rtol n = true ->
  forall a, (length a <= n)%nat ->
  forall x h, ~ (h == 0)%Q ->
  (Qabs (wsum (Qw w) (map (fun s => x + inject_Z s * h) steps) (fun y => peval a ((y - x) / h))
         + D2Q c * h * (peval (pderiv a) (((x + inject_Z g * h) - x) / h) / h)
         - inject_Z (zfact d) * nth d a 0)
   <= abs_lin_from 0 a (neumann_tol steps w c g rtol))%Q.
Proof. exact neumann_row_sound. Qed.
Print Assumptions C18_neumann_row_exact_for_all_polynomials.

(* (2) get_steps returns n pairwise distinct offsets, n as documented, for every layout *)
Theorem C18_steps_count : forall der ord st, (0 < der)%Z -> (0 < ord)%Z ->
  Z.of_nat (length (get_steps der ord st)) = steps_n der ord st.
Proof. exact get_steps_length. Qed.
Print Assumptions C18_steps_count.

Theorem C18_steps_distinct : forall der ord st, NoDup (get_steps der ord st).
Proof. exact get_steps_NoDup. Qed.
Print Assumptions C18_steps_distinct.

Theorem C18_steps_center : forall der ord x, (0 < der)%Z -> (0 < ord)%Z ->
  let n := steps_n der ord Center in
  In x (get_steps der ord Center) <-> (- (n / 2) <= x < - (n / 2) + n)%Z.
Proof. exact get_steps_center_In. Qed.
Print Assumptions C18_steps_center.

Theorem C18_steps_upwind : forall der ord x, (0 < der)%Z -> (0 < ord)%Z ->
  In x (get_steps der ord Upwind) <->
  (if (ord + der <=? 3)%Z then (- (ord + der) < x <= 0)%Z else (- (ord + der - 2) <= x <= 1)%Z).
Proof. exact get_steps_upwind_In. Qed.
Print Assumptions C18_steps_upwind.

(* (3) periodic wrap-around: for every size exceeding the largest offset, the matrix assembled
   from the three eye() terms per offset has in entry (r,c) exactly the weights whose wrapped
   column (r + s_i) mod size equals c *)
Theorem C18_periodic_wraps : forall size steps w r c,
  (0 < size)%Z -> (0 <= r < size)%Z -> (0 <= c < size)%Z -> steps_small size steps = true ->
  (D2Q (periodic_entry size r c steps w) == D2Q (wrap_entry size r c steps w))%Q.
Proof. exact periodic_entry_is_wrap. Qed.
Print Assumptions C18_periodic_wraps.

(* non-vacuity: the classical second-difference stencil passes the validator with zero tolerance *)
Example C18_nonvacuous :
  check_stencil [-1; 0; 1]%Z [Dy 1 0; Dy (-2) 0; Dy 1 0] 2 d0 = true.
Proof. vm_compute. reflexivity. Qed.
Print Assumptions C18_nonvacuous.

(* (4) dimensions 2 and 3: the assembled Kronecker sums (entry functions fd2_entry / fd3_entry = the three sp.kron terms of
   get_finite_difference_matrix, compared entry-wise with the real matrices every run) apply the 1-D operator A along each axis
   of a row-major grid function, for EVERY size n, every 1-D matrix A (any boundary treatment) and every grid function u, over
   any commutative ring. *)
Section C18_nd.
  Context {K : Type} (kO kI : K) (kadd kmul ksub : K -> K -> K) (kopp : K -> K).
  Hypothesis Rth : ring_theory kO kI kadd kmul ksub kopp (@eq K).
  Theorem C18_2d_matrix_applies_operator_along_each_axis : forall n (A : nat -> nat -> K) (u : nat -> nat -> K) i j,
    (i < n)%nat -> (j < n)%nat ->
    sumn kO kadd (fun c => kmul (fd2_entry kO kI kadd kmul n A (i * n + j) c) (u (c / n) (c mod n))%nat) (n * n)
    = kadd (sumn kO kadd (fun k => kmul (A i k) (u k j)) n) (sumn kO kadd (fun k => kmul (A j k) (u i k)) n).
  Proof. exact (fd2_apply kO kI kadd kmul ksub kopp Rth). Qed.
  Theorem C18_3d_matrix_applies_operator_along_each_axis : forall n (A : nat -> nat -> K) (u : nat -> nat -> nat -> K) i j l,
    (i < n)%nat -> (j < n)%nat -> (l < n)%nat ->
    sumn kO kadd (fun c => kmul (fd3_entry kO kI kadd kmul n A ((i * n + j) * n + l) c)
                                (u (c / (n * n)) ((c / n) mod n) (c mod n))%nat) (n * n * n)
    = kadd (kadd (sumn kO kadd (fun k => kmul (A i k) (u k j l)) n) (sumn kO kadd (fun k => kmul (A l k) (u i j k)) n))
           (sumn kO kadd (fun k => kmul (A j k) (u i k l)) n).
  Proof. exact (fd3_apply kO kI kadd kmul ksub kopp Rth). Qed.
End C18_nd.
Print Assumptions C18_2d_matrix_applies_operator_along_each_axis.
Print Assumptions C18_3d_matrix_applies_operator_along_each_axis.
