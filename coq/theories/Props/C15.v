(* C15 — ParaDiag: property theorems only.  Each is closed by [exact] of a lemma proved in
   Proofs/ParaDiagProofs.v; Print Assumptions for all of them follows after the section is closed
   (inside, the section variables would be listed).

   The section variables are the number type: ANY field (carrier F, operations, field_theory w.r.t.
   Leibniz equality).  Satisfiable: the Gaussian rationals (GQ_field), used by the instances at the end.
   In the statements
     N          number of time steps (block size),   M  collocation nodes,   n  unknowns in space
     om, omi    exp(-2 pi i/N) and its conjugate: om * omi = 1, om^N = 1, om^j <> 1 for 0 < j < N
     s          1/sqrt N:  s * s * (1 + ... + 1) = 1   (N summands)
     g, gi      alpha^(1/N), alpha^(-1/N):  g * gi = 1, g^N = alpha   (so alpha <> 0)
   and wfft / wifft / E_mat / G_diag / G_mat / G_inv_cf / qdiag_update / paradiag_increment are the
   executable mirrors of get_weighted_FFT_matrix / get_weighted_iFFT_matrix / get_E_matrix /
   the factor in get_G_inv_matrix / G / G^-1 / QDiagonalization.update_nodes / one it_ParaDiag. *)
From Coq Require Import Arith Bool List Field QArith Qcanon.
From PySDC Require Import Model.ParaDiag Proofs.ParaDiagProofs.
Import ListNotations.

Section C15.
Variable F : Type.
Variables (f0 f1 : F) (fadd fmul fsub : F -> F -> F) (fopp : F -> F) (fdiv : F -> F -> F) (finv : F -> F).
Hypothesis Fth : field_theory f0 f1 fadd fmul fsub fopp fdiv finv (@eq F).

Notation "0" := f0. Notation "1" := f1.
Infix "+" := fadd. Infix "*" := fmul. Infix "-" := fsub. Infix "/" := fdiv.
Notation "- x" := (fopp x).
Notation sum := (sumn F f0 fadd).
Notation "x ^ k" := (fpow F f1 fmul x k).
Notation dl := (delta F f0 f1).
Notation mm := (mmul F f0 fadd fmul).
Notation mv := (mat_vec F f0 fadd fmul).
Notation appA := (apply_A F f0 fadd fmul).

(* (1) the weighted transforms are inverse to each other, both ways, for every N > 0, every alpha <> 0 *)
Theorem C15_weighted_fft_inverse :
  forall (N : nat) (s om omi g gi : F),
  (0 < N)%nat -> om * omi = 1 -> om ^ N = 1 -> (forall j, (0 < j < N)%nat -> om ^ j <> 1) ->
  s * s * sum N (fun _ => 1) = 1 -> g * gi = 1 ->
  forall j l, (j < N)%nat -> (l < N)%nat ->
  mm N (wifft F f0 f1 fadd fmul N s omi gi) (wfft F f0 f1 fadd fmul fdiv N s om gi) j l = dl j l.
Proof. exact (wifft_wfft F f0 f1 fadd fmul fsub fopp fdiv finv Fth). Qed.

Theorem C15_weighted_fft_inverse_right :
  forall (N : nat) (s om omi g gi : F),
  (0 < N)%nat -> om * omi = 1 -> om ^ N = 1 -> (forall j, (0 < j < N)%nat -> om ^ j <> 1) ->
  s * s * sum N (fun _ => 1) = 1 -> g * gi = 1 ->
  forall j l, (j < N)%nat -> (l < N)%nat ->
  mm N (wfft F f0 f1 fadd fmul fdiv N s om gi) (wifft F f0 f1 fadd fmul N s omi gi) j l = dl j l.
Proof. exact (wfft_wifft F f0 f1 fadd fmul fsub fopp fdiv finv Fth). Qed.

(* the matrix products with J^-1 and J, as the code forms them, have the closed forms the check
   evaluates in high precision:  W[j,k] = om^(jk) s gamma^k,  V[j,k] = gamma^-j conj(om)^(jk) s *)
Theorem C15_weighted_fft_closed_form :
  forall (N : nat) (s om gi : F) j k, (k < N)%nat ->
  wfft F f0 f1 fadd fmul fdiv N s om gi j k = om ^ (j * k) * s * (1 / gi ^ k).
Proof. exact (wfft_closed F f0 f1 fadd fmul fsub fopp fdiv finv Fth). Qed.

Theorem C15_weighted_ifft_closed_form :
  forall (N : nat) (s omi gi : F) j k, (j < N)%nat ->
  wifft F f0 f1 fadd fmul N s omi gi j k = gi ^ j * (omi ^ (j * k) * s).
Proof. exact (wifft_closed F f0 f1 fadd fmul fsub fopp fdiv finv Fth). Qed.

(* (2) they diagonalise the alpha-circulant matrix (N = 1 included: E = [-alpha], d_0 = -alpha), with
   factor d_l = -(1/gi) om^l = -alpha^(1/N) exp(-2 pi i l/N) ... *)
Theorem C15_diagonalises_alpha_circulant :
  forall (N : nat) (s om omi g gi alpha : F),
  (0 < N)%nat -> om * omi = 1 -> om ^ N = 1 -> (forall j, (0 < j < N)%nat -> om ^ j <> 1) ->
  s * s * sum N (fun _ => 1) = 1 -> g * gi = 1 -> g ^ N = alpha ->
  forall j l, (j < N)%nat -> (l < N)%nat ->
  mm N (mm N (wfft F f0 f1 fadd fmul fdiv N s om gi) (E_mat F f0 f1 fopp N alpha))
       (wifft F f0 f1 fadd fmul N s omi gi) j l
  = if Nat.eqb j l then d_fac F f1 fmul fopp fdiv om gi l else 0.
Proof. exact (diagonalisation F f0 f1 fadd fmul fsub fopp fdiv finv Fth). Qed.

(* ... and this is exactly the factor the local solves use: get_G_inv_matrix computes it as entry l of
   the unnormalised FFT of the J^-1-weighted first column of E_alpha *)
Theorem C15_local_factor_is_eigenvalue :
  forall (N : nat) (om omi g gi alpha : F),
  (0 < N)%nat -> om * omi = 1 -> om ^ N = 1 -> g * gi = 1 -> g ^ N = alpha ->
  forall l, (l < N)%nat ->
  G_diag F f0 f1 fadd fmul fopp fdiv N alpha om gi l = d_fac F f1 fmul fopp fdiv om gi l.
Proof.
  intros N om omi g gi alpha HN Hom HomN Hg HgN.
  exact (G_diag_is_dfac F f0 f1 fadd fmul fsub fopp fdiv finv Fth N om g gi alpha HN Hg HgN).
Qed.

(* closed form of G^-1 for G = d H + I (what scipy's sparse inverse must return), both ways *)
Theorem C15_G_inverse_closed_form :
  forall (M : nat) (d : F) i j, (0 < M)%nat -> 1 + d <> 0 -> (i < M)%nat -> (j < M)%nat ->
  mm M (G_mat F f0 f1 fadd fmul M d) (G_inv_cf F f0 f1 fadd fmul fsub fdiv M d) i j = dl i j /\
  mm M (G_inv_cf F f0 f1 fadd fmul fsub fdiv M d) (G_mat F f0 f1 fadd fmul M d) i j = dl i j.
Proof.
  intros; split;
    [apply (G_Ginv F f0 f1 fadd fmul fsub fopp fdiv finv Fth)|apply (Ginv_G F f0 f1 fadd fmul fsub fopp fdiv finv Fth)];
    assumption.
Qed.

(* (3) one application of the diagonalisation sweeper solves the local (collocation) system exactly.
   Hypotheses = contracts of numpy.linalg.eig / numpy.linalg.inv / the sparse inverse and of the
   problem's linear solve (solvability of I - dt w_m A is what makes such a solve exist). *)
Theorem C15_qdiag_one_shot :
  forall (M n : nat) (dt : F) (Q A G Ginv Sm Smi : mat F) (w : nat -> F) (solve : F -> vec F -> vec F),
  (forall i j, (i < M)%nat -> (j < M)%nat -> mm M Sm Smi i j = dl i j) ->
  (forall i j, (i < M)%nat -> (j < M)%nat -> mm M (mm M Q Ginv) Sm i j = Sm i j * w j) ->
  (forall i j, (i < M)%nat -> (j < M)%nat -> mm M G Ginv i j = dl i j) ->
  (forall m rhs i, (m < M)%nat -> (i < n)%nat ->
     solve (w m * dt) rhs i - (w m * dt) * appA n A (solve (w m * dt) rhs) i = rhs i) ->
  forall r m i, (m < M)%nat -> (i < n)%nat ->
  let x := qdiag_update F f0 fadd fmul M dt w Sm Smi Ginv solve r in
  mv M G x m i - sum M (fun j => (dt * Q m j) * appA n A (x j) i) = r m i.
Proof. exact (one_shot F f0 f1 fadd fmul fsub fopp fdiv finv Fth). Qed.

(* (4) the increment of one ParaDiag iteration (residual -> weighted FFT -> local sweeps -> weighted iFFT)
   solves the alpha-circulant all-at-once system
        (I (x) (I - dt Q (x) As) + E_alpha (x) H) inc = r
   exactly.  A is the matrix in the residual (full right-hand side), As the one the solver inverts
   (As = A for QDiagonalization; the implicit part only for QDiagonalizationIMEX). *)
Theorem C15_paradiag_increment_solves_alpha_system :
  forall (N M n : nat) (s om omi g gi alpha dt : F) (Q A As : mat F) (gf : stepsv F)
         (w : nat -> nat -> F) (Sm Smi Ginv : nat -> mat F) (solve : F -> vec F -> vec F) (u0 : vec F),
  (0 < N)%nat -> om * omi = 1 -> om ^ N = 1 -> (forall j, (0 < j < N)%nat -> om ^ j <> 1) ->
  s * s * sum N (fun _ => 1) = 1 -> g * gi = 1 -> g ^ N = alpha ->
  (forall l i j, (l < N)%nat -> (i < M)%nat -> (j < M)%nat -> mm M (Sm l) (Smi l) i j = dl i j) ->
  (forall l i j, (l < N)%nat -> (i < M)%nat -> (j < M)%nat ->
     mm M (mm M Q (Ginv l)) (Sm l) i j = Sm l i j * w l j) ->
  (forall l i j, (l < N)%nat -> (i < M)%nat -> (j < M)%nat ->
     mm M (G_mat F f0 f1 fadd fmul M (d_fac F f1 fmul fopp fdiv om gi l)) (Ginv l) i j = dl i j) ->
  (forall l m rhs i, (l < N)%nat -> (m < M)%nat -> (i < n)%nat ->
     solve (w l m * dt) rhs i - (w l m * dt) * appA n As (solve (w l m * dt) rhs) i = rhs i) ->
  forall u l m i, (l < N)%nat -> (m < M)%nat -> (i < n)%nat ->
  let inc := paradiag_increment F f0 fadd fmul fsub N M n dt Q A gf
               (wfft F f0 f1 fadd fmul fdiv N s om gi) (wifft F f0 f1 fadd fmul N s omi gi)
               w Sm Smi Ginv solve u0 u in
  inc l m i - sum M (fun j => (dt * Q m j) * appA n As (inc l j) i)
    + sum N (fun l' => E_mat F f0 f1 fopp N alpha l l' * mv M (H_mat F f0 f1 M) (inc l') m i)
  = block_residual F f0 fadd fmul fsub M n dt Q A gf u0 u l m i.
Proof. exact (full_increment_solves_alpha_system F f0 f1 fadd fmul fsub fopp fdiv finv Fth). Qed.

(* (5) a fixed point of the ParaDiag increment iteration satisfies the sequential collocation
   recurrences: on every step l, node m
        u_{l,m} = (u0 if l = 0 else u_{l-1,M-1}) + dt sum_j Q_{m,j} (A u_{l,j} + g_{l,j}),
   also when the local solves only invert the implicit part As (IMEX), and with forcing g. *)
Theorem C15_paradiag_fixed_point_is_sequential :
  forall (N M n : nat) (s om omi g gi alpha dt : F) (Q A As : mat F) (gf : stepsv F)
         (w : nat -> nat -> F) (Sm Smi Ginv : nat -> mat F) (solve : F -> vec F -> vec F) (u0 : vec F),
  (0 < N)%nat -> om * omi = 1 -> om ^ N = 1 -> (forall j, (0 < j < N)%nat -> om ^ j <> 1) ->
  s * s * sum N (fun _ => 1) = 1 -> g * gi = 1 -> g ^ N = alpha ->
  (forall l i j, (l < N)%nat -> (i < M)%nat -> (j < M)%nat -> mm M (Sm l) (Smi l) i j = dl i j) ->
  (forall l i j, (l < N)%nat -> (i < M)%nat -> (j < M)%nat ->
     mm M (mm M Q (Ginv l)) (Sm l) i j = Sm l i j * w l j) ->
  (forall l i j, (l < N)%nat -> (i < M)%nat -> (j < M)%nat ->
     mm M (G_mat F f0 f1 fadd fmul M (d_fac F f1 fmul fopp fdiv om gi l)) (Ginv l) i j = dl i j) ->
  (forall l m rhs i, (l < N)%nat -> (m < M)%nat -> (i < n)%nat ->
     solve (w l m * dt) rhs i - (w l m * dt) * appA n As (solve (w l m * dt) rhs) i = rhs i) ->
  forall u,
  (forall l m i, (l < N)%nat -> (m < M)%nat -> (i < n)%nat ->
     paradiag_increment F f0 fadd fmul fsub N M n dt Q A gf
       (wfft F f0 f1 fadd fmul fdiv N s om gi) (wifft F f0 f1 fadd fmul N s omi gi)
       w Sm Smi Ginv solve u0 u l m i = 0) ->
  forall l m i, (l < N)%nat -> (m < M)%nat -> (i < n)%nat ->
    u l m i = step_ic F M u0 u l i + sum M (fun j => (dt * Q m j) * (appA n A (u l j) i + gf l j i)).
Proof. exact (full_fixed_point_is_sequential F f0 f1 fadd fmul fsub fopp fdiv finv Fth). Qed.

(* (6) error propagation.  Let ustar be the sequential collocation solution (non-IMEX: the solver
   inverts the full A).  One ParaDiag iteration maps the error e = u - ustar to e' with
        (I (x) (I - dt Q (x) A) + E_alpha (x) H) e' = (E_alpha - E_0) (x) H e ,
   i.e. zero except in the first step, where it is -alpha times the error at the end of the block:
   the only coupling of the old iterate into the new one is through alpha. *)
Theorem C15_paradiag_error_equation :
  forall (N M n : nat) (s om omi g gi alpha dt : F) (Q A : mat F) (gf : stepsv F)
         (w : nat -> nat -> F) (Sm Smi Ginv : nat -> mat F) (solve : F -> vec F -> vec F) (u0 : vec F),
  (0 < N)%nat -> (0 < M)%nat -> om * omi = 1 -> om ^ N = 1 -> (forall j, (0 < j < N)%nat -> om ^ j <> 1) ->
  s * s * sum N (fun _ => 1) = 1 -> g * gi = 1 -> g ^ N = alpha ->
  (forall l i j, (l < N)%nat -> (i < M)%nat -> (j < M)%nat -> mm M (Sm l) (Smi l) i j = dl i j) ->
  (forall l i j, (l < N)%nat -> (i < M)%nat -> (j < M)%nat ->
     mm M (mm M Q (Ginv l)) (Sm l) i j = Sm l i j * w l j) ->
  (forall l i j, (l < N)%nat -> (i < M)%nat -> (j < M)%nat ->
     mm M (G_mat F f0 f1 fadd fmul M (d_fac F f1 fmul fopp fdiv om gi l)) (Ginv l) i j = dl i j) ->
  (forall l m rhs i, (l < N)%nat -> (m < M)%nat -> (i < n)%nat ->
     solve (w l m * dt) rhs i - (w l m * dt) * appA n A (solve (w l m * dt) rhs) i = rhs i) ->
  forall ustar u,
  (forall l m i, (l < N)%nat -> (m < M)%nat -> (i < n)%nat ->
     ustar l m i = step_ic F M u0 ustar l i + sum M (fun j => (dt * Q m j) * (appA n A (ustar l j) i + gf l j i))) ->
  forall l m i, (l < N)%nat -> (m < M)%nat -> (i < n)%nat ->
  let e' := fun l m i =>
     paradiag_iter F f0 fadd fmul fsub N M n dt Q A gf
       (wfft F f0 f1 fadd fmul fdiv N s om gi) (wifft F f0 f1 fadd fmul N s omi gi)
       w Sm Smi Ginv solve u0 u l m i - ustar l m i in
  e' l m i - sum M (fun j => (dt * Q m j) * appA n A (e' l j) i)
    + sum N (fun l' => E_mat F f0 f1 fopp N alpha l l' * mv M (H_mat F f0 f1 M) (e' l') m i)
  = match l with O => - (alpha * (u (pred N) (pred M) i - ustar (pred N) (pred M) i)) | S _ => 0 end.
Proof. exact (error_equation F f0 f1 fadd fmul fsub fopp fdiv finv Fth). Qed.

(* (7) frame / idempotence of the public QDiagonalization.set_G_inv: everything update_nodes reads
   (params.G_inv and the diagonalisation of Q G^-1) is a function of the LAST argument of set_G_inv
   only, and the stored factor is that argument; hence, whatever the sweeper was configured with
   before, one update_nodes after set_G_inv g solves the local system of G = g^-1. *)
Theorem C15_set_G_inv_frame :
  forall (eig : mat F -> (nat -> F) * mat F * mat F) (M : nat) (Q : mat F) (st st' : qd_state F) (g1 g2 : mat F),
  set_G_inv F f0 fadd fmul eig M Q st g2 = set_G_inv F f0 fadd fmul eig M Q st' g2 /\
  set_G_inv F f0 fadd fmul eig M Q (set_G_inv F f0 fadd fmul eig M Q st g1) g2 = set_G_inv F f0 fadd fmul eig M Q st g2 /\
  st_Ginv F (set_G_inv F f0 fadd fmul eig M Q st g2) = g2.
Proof.
  intros. split; [|split].
  - exact (set_G_inv_frame F f0 fadd fmul eig M Q st st' g2).
  - exact (set_G_inv_last_wins F f0 fadd fmul eig M Q st g1 g2).
  - exact (set_G_inv_stores F f0 fadd fmul eig M Q st g2).
Qed.

Theorem C15_one_shot_after_set_G_inv :
  forall (eig : mat F -> (nat -> F) * mat F * mat F) (M n : nat) (dt : F) (Q A G g : mat F)
         (solve : F -> vec F -> vec F) (st : qd_state F),
  (let '(w, Sm, Smi) := eig (mm M Q g) in
     (forall i j, (i < M)%nat -> (j < M)%nat -> mm M Sm Smi i j = dl i j) /\
     (forall i j, (i < M)%nat -> (j < M)%nat -> mm M (mm M Q g) Sm i j = Sm i j * w j) /\
     (forall m rhs i, (m < M)%nat -> (i < n)%nat ->
        solve (w m * dt) rhs i - (w m * dt) * appA n A (solve (w m * dt) rhs) i = rhs i)) ->
  (forall i j, (i < M)%nat -> (j < M)%nat -> mm M G g i j = dl i j) ->
  forall r m i, (m < M)%nat -> (i < n)%nat ->
  let x := update_nodes_st F f0 fadd fmul M dt (set_G_inv F f0 fadd fmul eig M Q st g) solve r in
  mv M G x m i - sum M (fun j => (dt * Q m j) * appA n A (x j) i) = r m i.
Proof. exact (one_shot_after_set_G_inv F f0 f1 fadd fmul fsub fopp fdiv finv Fth). Qed.

End C15.

Print Assumptions C15_weighted_fft_inverse.
Print Assumptions C15_weighted_fft_inverse_right.
Print Assumptions C15_weighted_fft_closed_form.
Print Assumptions C15_weighted_ifft_closed_form.
Print Assumptions C15_diagonalises_alpha_circulant.
Print Assumptions C15_local_factor_is_eigenvalue.
Print Assumptions C15_G_inverse_closed_form.
Print Assumptions C15_qdiag_one_shot.
Print Assumptions C15_paradiag_increment_solves_alpha_system.
Print Assumptions C15_paradiag_fixed_point_is_sequential.
Print Assumptions C15_paradiag_error_equation.
Print Assumptions C15_set_G_inv_frame.
Print Assumptions C15_one_shot_after_set_G_inv.

(* ---- non-vacuity: the Gaussian rationals are a field and every hypothesis above is satisfiable on
   non-trivial instances (N = 4, om = -i, alpha = 1/16; M = 2 one-shot; 4-step implicit-Euler block) *)
Theorem C15_gaussian_rationals_field : field_theory g0 g1 gadd gmul gsub gopp gdiv ginv (@eq GQ).
Proof. exact GQ_field. Qed.
Print Assumptions C15_gaussian_rationals_field.

Example C15_nonvacuous_roots :
  gmul i4_om i4_omi = g1 /\ fpow GQ g1 gmul i4_om 4 = g1 /\
  (forall j, (0 < j < 4)%nat -> fpow GQ g1 gmul i4_om j <> g1) /\
  gmul (gmul i4_s i4_s) (sumn GQ g0 gadd 4 (fun _ => g1)) = g1 /\
  gmul i4_g i4_gi = g1 /\ fpow GQ g1 gmul i4_g 4 = i4_alpha.
Proof. exact (conj i4_Hom (conj i4_HomN (conj i4_Hprim (conj i4_Hs (conj i4_Hg i4_HgN))))). Qed.
Print Assumptions C15_nonvacuous_roots.

Example C15_nonvacuous_diagonalisation :
  gq_tab2 4 4 (mmul GQ g0 gadd gmul 4 (mmul GQ g0 gadd gmul 4 i4_W i4_E) i4_V) =
  [[(-1 # 2, 0); (0, 0); (0, 0); (0, 0)]; [(0, 0); (0, 1 # 2); (0, 0); (0, 0)];
   [(0, 0); (0, 0); (1 # 2, 0); (0, 0)]; [(0, 0); (0, 0); (0, 0); (0, -1 # 2)]]%Q.
Proof. exact i4_diagonalisation_computed. Qed.
Print Assumptions C15_nonvacuous_diagonalisation.

Example C15_nonvacuous_one_shot : forall r m i, (m < 2)%nat -> (i < 1)%nat ->
  Kop GQ g0 gadd gmul gsub 2 1 o_dt o_Q o_A o_G
      (qdiag_update GQ g0 gadd gmul 2 o_dt o_w o_S o_Si o_Ginv o_solve r) m i = r m i.
Proof. exact o_one_shot_instance. Qed.
Print Assumptions C15_nonvacuous_one_shot.

Example C15_nonvacuous_fixed_point :
  (forall l m i, (l < 4)%nat -> (m < 1)%nat -> (i < 1)%nat -> b_incr b_useq l m i = g0) /\
  seq_collocation GQ g0 gadd gmul 4 1 1 b_dt b_Q b_A b_g b_u0 b_useq.
Proof. exact (conj b_useq_fixed (b_fixed_point_instance b_useq b_useq_fixed)). Qed.
Print Assumptions C15_nonvacuous_fixed_point.

Example C15_nonvacuous_error_equation : forall u l m i, (l < 4)%nat -> (m < 1)%nat -> (i < 1)%nat ->
  Calpha GQ g0 g1 gadd gmul gsub gopp 4 1 1 i4_alpha b_dt b_Q b_A
    (fun l m i => gsub (paradiag_iter GQ g0 gadd gmul gsub 4 1 1 b_dt b_Q b_A b_g i4_W i4_V b_w b_S b_S b_Ginv b_solve b_u0 u l m i)
                       (b_useq l m i)) l m i
  = match l with O => gopp (gmul i4_alpha (gsub (u 3 0 i) (b_useq 3 0 i)))%nat | S _ => g0 end.
Proof. exact b_error_equation_instance. Qed.
Print Assumptions C15_nonvacuous_error_equation.

Example C15_iteration_converges_instance :
  let u3 := b_iter 3 4 1 1 b_dt b_Q b_A b_g i4_W i4_V b_w b_S b_S b_Ginv b_solve b_u0 b_spread in
  (this (gnorm2 (gsub (u3 3 0 0) (b_useq 3 0 0)))%nat < 1 # 1000000)%Q.
Proof. exact b_iteration_converges. Qed.
Print Assumptions C15_iteration_converges_instance.
