(* C02 — property theorems only (statements closed by [exact]; Print Assumptions after each).
   K: any commutative ring; X: any component index set; feval, solve: arbitrary (nonlinear, coupled,
   time-dependent) functions subject only to the solver contract; M, dt, nodes, Q, preconditioner
   matrices, node values, right-hand sides and tau are all universally quantified. *)
From Coq Require Import List Arith Bool ZArith QArith Qcanon Ring.
From PySDC Require Import Model.Sweep Model.Verlet Model.SweepExec Proofs.SweepProofs Proofs.VerletProofs Model.SweepDAE Proofs.SweepDAEProofs Model.Boris Model.BorisExec Proofs.BorisProofs Model.SweepRKN Model.SweepMultistep Proofs.SweepRKNProofs Proofs.SweepMultistepProofs.
Import ListNotations.
Local Open Scope nat_scope.

Section C02.
  Context {K : Type} (kO kI : K) (kadd kmul ksub : K -> K -> K) (kopp : K -> K) (keqb : K -> K -> bool).
  Hypothesis Rth : ring_theory kO kI kadd kmul ksub kopp (@eq K).
  Hypothesis keqb_true : forall a b, keqb a b = true -> a = b.
  Context {X : Type}.
  Notation V := (X -> K).
  Local Infix "+!" := kadd (at level 50, left associativity).
  Local Infix "*!" := kmul (at level 40, left associativity).
  Local Infix "-!" := ksub (at level 50, left associativity).
  Variable M : nat.
  Variable dt t0 : K.
  Variable nodes : nat -> K.
  Variable Q : nat -> nat -> K.
  Variable weights : nat -> K.
  Variable solve : nat -> V -> K -> V -> K -> V.
  Variable feval : K -> V -> nat -> V.
  Notation tn := (tnode kadd kmul dt t0 nodes).
  Notation sumf := (sumf kO kadd).
  Notation tauval := (tauval kO).

  (* generic_implicit.update_nodes:  (I - dt QI (x) f)(U_new) = u0 + dt (Q - QI) F(U_old) + tau, row by row;
     the stored right-hand sides are f at the node's own time and NEW value; u0 and everything
     beyond node M are untouched. *)
  Theorem C02_generic_implicit_matrix_form : forall QI u f tau,
    solver_contract kmul ksub solve feval 0 ->
    let r := gi_update kO kadd kmul ksub keqb M dt t0 nodes Q solve feval QI u f tau in
    (forall j, j = 0 \/ M < j -> fst r j = u j /\ snd r j = f j) /\
    forall m, 1 <= m <= M ->
      snd r m = feval (tn m) (fst r m) /\
      forall x,
        fst r m x -! dt *! sumf (fun j => QI m j *! snd r j 0 x) 1 m
        = u 0 x +! dt *! sumf (fun j => (Q m j -! QI m j) *! f j 0 x) 1 M +! tauval tau m x.
  Proof. exact (gi_sweep_matrix_form kO kI kadd kmul ksub kopp keqb Rth keqb_true M dt t0 nodes Q solve feval). Qed.

  Theorem C02_imex_matrix_form : forall QI QE u f tau,
    solver_contract kmul ksub solve feval 0 ->
    let r := imex_update kO kadd kmul ksub M dt t0 nodes Q solve feval QI QE u f tau in
    (forall j, j = 0 \/ M < j -> fst r j = u j /\ snd r j = f j) /\
    forall m, 1 <= m <= M ->
      snd r m = feval (tn m) (fst r m) /\
      forall x,
        fst r m x -! dt *! sumf (fun j => QI m j *! snd r j 0 x) 1 m
                  -! dt *! sumf (fun j => QE m j *! snd r j 1 x) 1 (m - 1)
        = u 0 x +! dt *! sumf (fun j => (Q m j -! QI m j) *! f j 0 x) 1 M
                +! dt *! sumf (fun j => (Q m j -! QE m j) *! f j 1 x) 1 M +! tauval tau m x.
  Proof. exact (imex_sweep_matrix_form kO kI kadd kmul ksub kopp Rth M dt t0 nodes Q solve feval). Qed.

  Theorem C02_explicit_matrix_form : forall QE u f tau,
    let r := expl_update kO kadd kmul ksub M dt t0 nodes Q feval QE u f tau in
    (forall j, j = 0 \/ M < j -> fst r j = u j /\ snd r j = f j) /\
    forall m, 1 <= m <= M ->
      snd r m = feval (tn m) (fst r m) /\
      forall x,
        fst r m x -! dt *! sumf (fun j => QE m j *! snd r j 0 x) 1 (m - 1)
        = u 0 x +! dt *! sumf (fun j => (Q m j -! QE m j) *! f j 0 x) 1 M +! tauval tau m x.
  Proof. exact (expl_sweep_matrix_form kO kI kadd kmul ksub kopp Rth M dt t0 nodes Q feval). Qed.


  (* multi_implicit.update_nodes: two successive implicit solves per node; u* is the first-stage value *)
  Theorem C02_multi_implicit_two_stage_form : forall Q1 Q2 u f tau,
    solver_contract kmul ksub solve feval 0 -> solver_contract kmul ksub solve feval 1 ->
    let r := mi_update kO kadd kmul ksub M dt t0 nodes Q solve feval Q1 Q2 u f tau in
    (forall j, j = 0 \/ M < j -> fst r j = u j /\ snd r j = f j) /\
    forall m, 1 <= m <= M ->
      snd r m = feval (tn m) (fst r m) /\
      exists ustar : V, forall x,
        ustar x -! dt *! Q1 m m *! feval (tn m) ustar 0 x -! dt *! sumf (fun j => Q1 m j *! snd r j 0 x) 1 (m - 1)
        = u 0 x +! dt *! sumf (fun j => (Q m j -! Q1 m j) *! f j 0 x) 1 M
                +! dt *! sumf (fun j => Q m j *! f j 1 x) 1 M +! tauval tau m x
        /\
        fst r m x -! dt *! sumf (fun j => Q2 m j *! snd r j 1 x) 1 m
        = ustar x -! dt *! sumf (fun j => Q2 m j *! f j 1 x) 1 M.
  Proof. exact (mi_sweep_two_stage_form kO kI kadd kmul ksub kopp Rth M dt t0 nodes Q solve feval). Qed.


  (* Runge-Kutta sweepers (Butcher matrix A in pySDC layout): every stage satisfies the stage equation
       U_m - dt sum_{j<=m} A[m,j] f(U_j) = u0,  f stored at the stage's own time and value *)
  Theorem C02_runge_kutta_stage_form : forall (A : nat -> nat -> K) u f,
    solver_contract kmul ksub solve feval 0 ->
    let r := rk_update kO kadd kmul keqb M dt t0 nodes solve feval 1 (fun _ => A) u f in
    (forall j, j = 0 \/ M < j -> fst r j = u j /\ snd r j = f j) /\
    forall m, 1 <= m <= M ->
      snd r m = feval (tn m) (fst r m) /\
      forall x, fst r m x -! dt *! sumf (fun j => A m j *! snd r j 0 x) 1 m = u 0 x.
  Proof. exact (rk_stage_form kO kI kadd kmul ksub kopp keqb Rth keqb_true M dt t0 nodes solve feval). Qed.


  (* imex_1st_order_mass.update_nodes (mass matrix on the left and, on level 0, on u0; sums over columns 0..M in the
     code, whose column-0 terms cancel because node 0 is never updated) *)
  Theorem C02_imex_mass_matrix_form : forall QI QE (massop : V -> V) level0 u f tau,
    mass_solver_contract kmul ksub solve feval massop ->
    let r := mass_update kO kadd kmul ksub M dt t0 nodes Q solve feval QI QE massop level0 u f tau in
    let u0m := if level0 then massop (u 0) else u 0 in
    (forall j, j = 0 \/ M < j -> fst r j = u j /\ snd r j = f j) /\
    forall m, 1 <= m <= M ->
      snd r m = feval (tn m) (fst r m) /\
      forall x,
        massop (fst r m) x -! dt *! sumf (fun j => QI m j *! snd r j 0 x) 1 m
                          -! dt *! sumf (fun j => QE m j *! snd r j 1 x) 1 (m - 1)
        = u0m x +! dt *! sumf (fun j => (Q m j -! QI m j) *! f j 0 x) 1 M
                +! dt *! sumf (fun j => (Q m j -! QE m j) *! f j 1 x) 1 M +! tauval tau m x.
  Proof. exact (mass_sweep_matrix_form kO kI kadd kmul ksub kopp Rth M dt t0 nodes Q solve feval). Qed.


  (* verlet.update_nodes (second-order problems): position / velocity block form with Qx, QT, QQ, for every M,
     matrices, node data, tau and ANY acceleration function of (time, position, velocity) *)
  Theorem C02_verlet_block_form : forall (QQ Qx QT : nat -> nat -> K) (acc : K -> V -> V -> V) (p v f : nat -> V) taup tauv,
    let r := verlet_update kO kadd kmul ksub M dt t0 nodes Q QQ Qx QT acc p v f taup tauv in
    let pn := fst (fst r) in let vn := snd (fst r) in let fn := snd r in
    (forall j, j = 0 \/ M < j -> pn j = p j /\ vn j = v j /\ fn j = f j) /\
    forall m, 1 <= m <= M -> forall x,
      pn m x -! dt *! dt *! sumf (fun j => Qx m j *! fn j x) 1 (m - 1)
      = p 0 x +! dt *! sumf (fun j => Q m j) 1 M *! v 0 x
              +! dt *! dt *! sumf (fun j => (QQ m j -! Qx m j) *! f j x) 1 M +! tauval taup m x
      /\
      vn m x -! dt *! sumf (fun j => QT m j *! fn j x) 1 m
      = v 0 x +! dt *! sumf (fun j => (Q m j -! QT m j) *! f j x) 1 M +! tauval tauv m x.
  Proof. exact (fun QQ Qx QT acc => verlet_block_form kO kI kadd kmul ksub kopp Rth M dt t0 nodes Q QQ Qx QT acc). Qed.

  (* verlet.compute_end_point: the last node exactly when configured so, otherwise the full Picard evaluation with the
     weights and qQ (+ tau); with qQ = w^T Q (validated on the real table every run) the position end value is the
     second-order form of u0 + dt sum_n w_n F_n, i.e. x0 + dt sum_n w_n (v0 + dt sum_j Q_nj f_j) *)
  Theorem C02_verlet_end_point_form : forall (wts qQ : nat -> K) rin dcu (p v f : nat -> V) taup tauv,
    let e := verlet_end_point kadd kmul M dt wts qQ rin dcu p v f taup tauv in
    (rin && negb dcu = true -> e = (p M, v M)) /\
    (rin && negb dcu = false -> forall x,
       fst e x = p 0 x +! dt *! sumf wts 1 M *! v 0 x +! dt *! dt *! sumf (fun m => qQ m *! f m x) 1 M +! tauval taup M x /\
       snd e x = v 0 x +! dt *! sumf (fun m => wts m *! f m x) 1 M +! tauval tauv M x).
  Proof. exact (verlet_end_point_form kO kI kadd kmul ksub kopp Rth M dt). Qed.

  Theorem C02_verlet_end_point_second_order_form : forall (wts qQ : nat -> K) dcu rin (p v f : nat -> V) taup tauv,
    (forall m, qQ m = sumf (fun n => wts n *! Q n m) 1 M) ->
    rin && negb dcu = false ->
    let e := verlet_end_point kadd kmul M dt wts qQ rin dcu p v f taup tauv in
    forall x, fst e x = p 0 x +! dt *! sumf (fun n => wts n *! (v 0 x +! dt *! sumf (fun j => Q n j *! f j x) 1 M)) 1 M
                        +! tauval taup M x.
  Proof. exact (verlet_end_point_second_order_form kO kI kadd kmul ksub kopp Rth M dt Q). Qed.

  Theorem C02_integrate_is_dtQF : forall np (f : nat -> nat -> V) m x,
    integrate kO kadd kmul M dt Q np f m x = dt *! sumf (fun j => Q m j *! ftot kO kadd np (f j) x) 1 M.
  Proof. exact (integrate_is_dtQF kO kI kadd kmul ksub kopp Rth M dt Q). Qed.

  Theorem C02_end_point_copy : forall np do_coll (u : nat -> V) f tau,
    do_coll = false -> end_point kO kadd kmul M dt weights np true do_coll u f tau = u M.
  Proof. exact (end_point_copy kO kadd kmul M dt weights). Qed.

  Theorem C02_end_point_quadrature : forall np rin do_coll (u : nat -> V) f tau x,
    rin && negb do_coll = false ->
    end_point kO kadd kmul M dt weights np rin do_coll u f tau x
    = u 0 x +! dt *! sumf (fun m => weights m *! ftot kO kadd np (f m) x) 1 M +! tauval tau M x.
  Proof. exact (end_point_quadrature kO kI kadd kmul ksub kopp Rth M dt weights). Qed.

  Theorem C02_residual_is_defect : forall np (u : nat -> V) f tau m x,
    residual_vec kO kadd kmul ksub M dt Q np u f tau m x
    = u 0 x +! dt *! sumf (fun j => Q m j *! ftot kO kadd np (f j) x) 1 M +! tauval tau m x -! u m x.
  Proof. exact (residual_is_defect kO kI kadd kmul ksub kopp Rth M dt Q). Qed.

  (* --- DAE sweepers (pySDC/projects/DAE/sweepers): level.f holds the derivatives U'; F = eval_f(u, u', t) arbitrary *)
  Theorem C02_dae_fully_implicit_sweep_form : forall (QI : nat -> nat -> K) (F : V -> V -> K -> V)
      (dsolve : (V -> V) -> V -> K -> V -> K -> V) (u f : nat -> V),
    dae_solver_contract kO kadd kmul F dsolve ->
    let r := fi_update kO kadd kmul ksub M dt t0 nodes Q QI F dsolve u f in
    let un := fst r in let fn := snd r in
    (forall j, j = 0 \/ M < j -> un j = u j /\ fn j = f j) /\
    forall m, 1 <= m <= M ->
      (forall x, un m x = u 0 x +! dt *! sumf (fun j => Q m j *! fn j x) 1 M) /\
      exists ua : V,
        (forall x, ua x = u 0 x +! dt *! sumf (fun j => (Q m j -! QI m j) *! f j x) 1 M
                              +! dt *! sumf (fun j => QI m j *! fn j x) 1 m) /\
        forall x, F ua (fn m) (tn m) x = kO.
  Proof. exact (fun QI F dsolve => fi_sweep_form kO kI kadd kmul ksub kopp Rth M dt t0 nodes Q QI F dsolve). Qed.

  Theorem C02_dae_fully_implicit_fixed_point_residual_zero : forall (QI : nat -> nat -> K) (F : V -> V -> K -> V)
      (dsolve : (V -> V) -> V -> K -> V -> K -> V) (u f : nat -> V),
    dae_solver_contract kO kadd kmul F dsolve -> evalF_ext F ->
    (forall m j, m < j -> QI m j = kO) ->
    let r := fi_update kO kadd kmul ksub M dt t0 nodes Q QI F dsolve u f in
    (forall j x, 1 <= j <= M -> snd r j x = f j x) ->
    forall m, 1 <= m <= M -> forall x, dae_residual_vec kadd kmul dt t0 nodes F (fst r) (snd r) m x = kO.
  Proof. exact (fun QI F dsolve => fi_fixed_point_residual_zero kO kI kadd kmul ksub kopp Rth M dt t0 nodes Q QI F dsolve). Qed.

  Theorem C02_dae_integrate_is_dtQU : forall (f : nat -> V) m x,
    dae_integrate kO kadd kmul M dt Q f m x = dt *! sumf (fun j => Q m j *! f j x) 1 M.
  Proof. exact (dae_integrate_is_dtQF kO kI kadd kmul ksub kopp Rth M dt Q). Qed.

  Theorem C02_dae_end_point_form : forall rin dcu (u f : nat -> V) tau,
    dae_end_point kO kadd kmul M dt weights rin dcu u f tau = if rin && negb dcu then Some (u M) else None.
  Proof. exact (dae_end_point_form kO kadd kmul M dt weights). Qed.

  Theorem C02_dae_predict_form : forall spread (u f : nat -> V),
    let r := fi_predict kO M spread u f in
    fst r 0 = u 0 /\ snd r 0 = vzero kO /\
    forall m, 1 <= m <= M -> fst r m = (if spread then u 0 else vzero kO) /\ snd r m = vzero kO.
  Proof. exact (fi_predict_form kO M). Qed.

  Theorem C02_dae_runge_kutta_stage_form : forall (A : nat -> nat -> K) (F : V -> V -> K -> V)
      (dsolve : (V -> V) -> V -> K -> V -> K -> V) (u f : nat -> V),
    dae_solver_contract kO kadd kmul F dsolve ->
    let r := rkdae_update kO kadd kmul M dt t0 nodes Q A F dsolve u f in
    let un := fst r in let kn := snd r in
    (forall j, j = 0 \/ M < j -> un j = u j /\ kn j = f j) /\
    forall m, 1 <= m <= M ->
      (forall x, un m x = u 0 x +! dt *! sumf (fun j => Q m j *! kn j x) 1 M) /\
      exists ua : V,
        (forall x, ua x = u 0 x +! dt *! sumf (fun j => A m j *! kn j x) 1 m) /\
        forall x, F ua (kn m) (tn m) x = kO.
  Proof. exact (fun A F dsolve => rkdae_stage_form kO kI kadd kmul ksub kopp Rth M dt t0 nodes Q A F dsolve). Qed.

  (* SemiImplicitDAE: meshes = (differential, algebraic) pairs *)
  Context {Y : Type}.
  Notation mesh := ((X -> K) * (Y -> K))%type.
  Theorem C02_dae_semi_implicit_sweep_form : forall (QI : nat -> nat -> K) (F : mesh -> mesh -> K -> mesh)
      (dsolve : (mesh -> mesh) -> mesh -> K -> mesh -> K -> mesh) (u f : nat -> mesh),
    si_solver_contract kO kadd kmul F dsolve ->
    let r := si_update kO kadd kmul ksub M dt t0 nodes Q QI F dsolve u f in
    let un := fst r in let fn := snd r in
    (forall j, j = 0 \/ M < j -> un j = u j /\ fn j = f j) /\
    forall m, 1 <= m <= M ->
      snd (fn m) = snd (f m) /\
      (forall x, fst (un m) x = fst (u 0) x +! dt *! sumf (fun j => Q m j *! fst (fn j) x) 1 M) /\
      exists ud : X -> K,
        (forall x, ud x = fst (u 0) x +! dt *! sumf (fun j => Q m j *! fst (f j) x) 1 M
                              -! dt *! sumf (fun j => QI m j *! fst (f j) x) 1 m
                              +! dt *! sumf (fun j => QI m j *! fst (fn j) x) 1 m) /\
        (forall x, fst (F (ud, snd (un m)) (fst (fn m), snd (un m)) (tn m)) x = kO) /\
        (forall y, snd (F (ud, snd (un m)) (fst (fn m), snd (un m)) (tn m)) y = kO).
  Proof. exact (fun QI F dsolve => si_sweep_form kO kI kadd kmul ksub kopp Rth M dt t0 nodes Q QI F dsolve). Qed.

  Theorem C02_dae_semi_implicit_sweep_form_lower : forall (QI : nat -> nat -> K) (F : mesh -> mesh -> K -> mesh)
      (dsolve : (mesh -> mesh) -> mesh -> K -> mesh -> K -> mesh) (u f : nat -> mesh),
    si_solver_contract kO kadd kmul F dsolve ->
    (forall m j, m < j -> QI m j = kO) ->
    let r := si_update kO kadd kmul ksub M dt t0 nodes Q QI F dsolve u f in
    let un := fst r in let fn := snd r in
    forall m, 1 <= m <= M ->
      exists ud : X -> K,
        (forall x, ud x = fst (u 0) x +! dt *! sumf (fun j => (Q m j -! QI m j) *! fst (f j) x) 1 M
                              +! dt *! sumf (fun j => QI m j *! fst (fn j) x) 1 m) /\
        (forall x, fst (F (ud, snd (un m)) (fst (fn m), snd (un m)) (tn m)) x = kO) /\
        (forall y, snd (F (ud, snd (un m)) (fst (fn m), snd (un m)) (tn m)) y = kO).
  Proof. exact (fun QI F dsolve => si_sweep_form_lower kO kI kadd kmul ksub kopp Rth M dt t0 nodes Q QI F dsolve). Qed.

  Theorem C02_dae_semi_implicit_fixed_point_residual_zero : forall (QI : nat -> nat -> K) (F : mesh -> mesh -> K -> mesh)
      (dsolve : (mesh -> mesh) -> mesh -> K -> mesh -> K -> mesh) (u f : nat -> mesh),
    si_solver_contract kO kadd kmul F dsolve -> si_evalF_semi_explicit F ->
    (forall m j, m < j -> QI m j = kO) ->
    let r := si_update kO kadd kmul ksub M dt t0 nodes Q QI F dsolve u f in
    (forall j x, 1 <= j <= M -> fst (snd r j) x = fst (f j) x) ->
    forall m, 1 <= m <= M ->
      (forall x, fst (si_residual_vec kadd kmul dt t0 nodes F (fst r) (snd r) m) x = kO) /\
      (forall y, snd (si_residual_vec kadd kmul dt t0 nodes F (fst r) (snd r) m) y = kO).
  Proof. exact (fun QI F dsolve => si_fixed_point_residual_zero kO kI kadd kmul ksub kopp Rth M dt t0 nodes Q QI F dsolve). Qed.

  Theorem C02_dae_semi_implicit_integrate_form : forall (f : nat -> mesh) m,
    (forall x, fst (si_integrate kO kadd kmul M dt Q f m) x = dt *! sumf (fun j => Q m j *! fst (f j) x) 1 M) /\
    (forall y, snd (si_integrate kO kadd kmul M dt Q f m) y = kO).
  Proof. exact (si_integrate_form kO kI kadd kmul ksub kopp Rth M dt Q). Qed.
End C02.

Print Assumptions C02_generic_implicit_matrix_form.
Print Assumptions C02_imex_matrix_form.
Print Assumptions C02_explicit_matrix_form.
Print Assumptions C02_multi_implicit_two_stage_form.
Print Assumptions C02_runge_kutta_stage_form.
Print Assumptions C02_imex_mass_matrix_form.
Print Assumptions C02_verlet_block_form.
Print Assumptions C02_verlet_end_point_form.
Print Assumptions C02_verlet_end_point_second_order_form.
Print Assumptions C02_integrate_is_dtQF.
Print Assumptions C02_end_point_copy.
Print Assumptions C02_end_point_quadrature.
Print Assumptions C02_residual_is_defect.
Print Assumptions C02_dae_fully_implicit_sweep_form.
Print Assumptions C02_dae_fully_implicit_fixed_point_residual_zero.
Print Assumptions C02_dae_integrate_is_dtQU.
Print Assumptions C02_dae_end_point_form.
Print Assumptions C02_dae_predict_form.
Print Assumptions C02_dae_runge_kutta_stage_form.
Print Assumptions C02_dae_semi_implicit_sweep_form.
Print Assumptions C02_dae_semi_implicit_sweep_form_lower.
Print Assumptions C02_dae_semi_implicit_fixed_point_residual_zero.
Print Assumptions C02_dae_semi_implicit_integrate_form.

(* Non-vacuity: the hypotheses are satisfiable — Qc is a commutative ring, and the diagonal test
   problem of the correspondence harness satisfies the solver contract wherever 1 - a*lam <> 0
   (stated for the concrete instance used below). *)
Example C02_ring_instance : ring_theory (Q2Qc 0) (Q2Qc 1) Qcplus Qcmult Qcminus Qcopp (@eq Qc).
Proof. exact Qcrt. Qed.
Print Assumptions C02_ring_instance.

(* ---- boris_2nd_order (particles, E + v x B force, Boris solver) *)
Section C02_boris.
  Context {K : Type} (kO kI : K) (kadd kmul ksub : K -> K -> K) (kopp : K -> K).
  Hypothesis Rth : ring_theory kO kI kadd kmul ksub kopp (@eq K).
  Context {X Fld A : Type}.
  Notation V := (X -> K).
  Local Infix "+!" := kadd (at level 50, left associativity).
  Local Infix "*!" := kmul (at level 40, left associativity).
  Local Infix "-!" := ksub (at level 50, left associativity).
  Variable M : nat.
  Variable dt t0 : K.
  Variable nodes delta : nat -> K.
  Variable Q QQ Sm ST SQ Sx : nat -> nat -> K.           (* Sm = sweeper.S *)
  Variable QId : nat -> K.                               (* np.diag(QI) *)
  Variable bf : K -> Fld -> V -> V -> A -> V.            (* P.build_f *)
  Variable ef : K -> V -> V -> A -> Fld.                 (* P.eval_f *)
  Variable bs : V -> K -> Fld -> Fld -> V -> V -> A -> V. (* P.boris_solver *)
  Variable attr : nat -> A.                              (* (q, m) of the particle object of each node *)
  Notation tn := (tnode kadd kmul dt t0 nodes).
  Notation sumf := (sumf kO kadd).
  Notation Fof := (bforce kadd kmul M dt t0 nodes bf attr).
  Notation bupdate := (boris_update kO kadd kmul ksub M dt t0 nodes delta Sm ST SQ Sx QId bf ef bs attr).

  (* update_nodes raises (before changing anything) exactly in the modelled case tau[m] present / tau[m-1] absent *)
  Theorem C02_boris_update_raises : forall p v f tau, tau_ok M tau = false -> bupdate p v f tau = None.
  Proof. exact (boris_update_raises kO kadd kmul ksub M dt t0 nodes delta Sm ST SQ Sx QId bf ef bs attr). Qed.

  (* node-to-node position form, frame, stored fields and velocities; NO assumption on the problem *)
  Theorem C02_boris_position_form : forall (p v : nat -> V) (f : nat -> Fld) tau,
    tau_ok M tau = true ->
    exists r, bupdate p v f tau = Some r /\
    let pn := fst (fst r) in let vn := snd (fst r) in let fn := snd r in
    (forall j, j = 0 \/ M < j -> pn j = p j /\ vn j = v j /\ fn j = f j) /\
    forall m, 1 <= m <= M ->
      fn m = ef (tn m) (pn m) (v m) (attr m) /\
      vn m = bs (bgather_vel kO kadd kmul ksub M dt t0 nodes Sm ST bf attr p v f tau m) (dt *! QId m)
                (fn (m - 1)) (fn m) (pn (m - 1)) (vn (m - 1)) (attr (m - 1)) /\
      forall x,
        pn m x -! pn (m - 1) x -! dt *! dt *! sumf (fun j => Sx m j *! Fof pn vn fn j x) 0 m
        = dt *! delta m *! v 0 x
          +! dt *! dt *! sumf (fun j => (SQ m j -! Sx m j) *! Fof p v f j x) 0 (S M) +! tauN kO ksub fst tau m x.
  Proof. exact (boris_position_form kO kI kadd kmul ksub kopp Rth M dt t0 nodes delta Sm ST SQ Sx QId bf ef bs attr). Qed.

  (* position / velocity node-to-node block form under the Boris solver contract *)
  Theorem C02_boris_block_form : forall khalf (G : Fld -> V -> A -> V) (p v : nat -> V) (f : nat -> Fld) tau,
    boris_contract kadd kmul bs khalf G -> build_f_is bf G -> (forall j, attr j = attr 0) ->
    tau_ok M tau = true ->
    exists r, bupdate p v f tau = Some r /\
    let pn := fst (fst r) in let vn := snd (fst r) in let fn := snd r in
    (forall j, j = 0 \/ M < j -> pn j = p j /\ vn j = v j /\ fn j = f j) /\
    forall m, 1 <= m <= M ->
      fn m = ef (tn m) (pn m) (v m) (attr m) /\
      forall x,
        pn m x -! pn (m - 1) x -! dt *! dt *! sumf (fun j => Sx m j *! Fof pn vn fn j x) 0 m
        = dt *! delta m *! v 0 x
          +! dt *! dt *! sumf (fun j => (SQ m j -! Sx m j) *! Fof p v f j x) 0 (S M) +! tauN kO ksub fst tau m x
        /\
        vn m x -! vn (m - 1) x -! dt *! QId m *! khalf *! (Fof pn vn fn (m - 1) x +! Fof pn vn fn m x)
        = dt *! sumf (fun j => (Sm m j -! ST m j) *! Fof p v f j x) 0 (S M) +! tauN kO ksub snd tau m x.
  Proof. exact (boris_block_form kO kI kadd kmul ksub kopp Rth M dt t0 nodes delta Sm ST SQ Sx QId bf ef bs attr). Qed.

  (* 0-to-node (matrix) form with the tables of __get_Qd (IE/EE) *)
  Theorem C02_boris_matrix_form : forall khalf (G : Fld -> V -> A -> V) Qx QT (p v : nat -> V) (f : nat -> Fld) tau,
    boris_tables_ok kO kmul ksub M nodes delta Q QQ Sm ST SQ Sx QId khalf Qx QT ->
    boris_contract kadd kmul bs khalf G -> build_f_is bf G -> (forall j, attr j = attr 0) -> tau_full M tau ->
    exists r, bupdate p v f tau = Some r /\
    let pn := fst (fst r) in let vn := snd (fst r) in let fn := snd r in
    let Fn := Fof pn vn fn in let Fo := Fof p v f in
    (forall j, j = 0 \/ M < j -> pn j = p j /\ vn j = v j /\ fn j = f j) /\
    forall m, 1 <= m <= M ->
      fn m = ef (tn m) (pn m) (v m) (attr m) /\
      forall x,
        pn m x -! dt *! dt *! sumf (fun j => Qx m j *! Fn j x) 0 m
        = p 0 x +! dt *! nodes m *! v 0 x
          +! dt *! dt *! sumf (fun j => (QQ m j -! Qx m j) *! Fo j x) 0 (S M) +! tauV kO fst tau m x
        /\
        vn m x -! dt *! sumf (fun j => QT m j *! Fn j x) 0 (S m)
        = v 0 x +! dt *! sumf (fun j => (Q m j -! QT m j) *! Fo j x) 0 (S M) +! tauV kO snd tau m x.
  Proof. exact (fun khalf G Qx QT => boris_matrix_form_tables kO kI kadd kmul ksub kopp Rth M dt t0 nodes delta Q QQ Sm ST SQ Sx QId bf ef bs attr khalf G Qx QT). Qed.

  Theorem C02_boris_integrate_form : forall (p v : nat -> V) (f : nat -> Fld) m x,
    bint_pos kO kadd kmul M dt t0 nodes Q QQ bf attr p v f m x
    = dt *! dt *! sumf (fun j => QQ m j *! Fof p v f j x) 1 M +! dt *! sumf (fun j => Q m j) 1 M *! v 0 x /\
    bint_vel kO kadd kmul M dt t0 nodes Q bf attr p v f m x = dt *! sumf (fun j => Q m j *! Fof p v f j x) 1 M.
  Proof. exact (boris_integrate_form kO kI kadd kmul ksub kopp Rth M dt t0 nodes Q QQ bf attr). Qed.

  Theorem C02_boris_end_point_form : forall (wts qQ : nat -> K) (p v : nat -> V) (f : nat -> Fld) tau,
    let e := boris_end_point kadd kmul M dt t0 nodes bf attr wts qQ p v f tau in
    forall x,
      fst e x = p 0 x +! dt *! sumf wts 1 M *! v 0 x +! dt *! dt *! sumf (fun m => qQ m *! Fof p v f m x) 1 M +! tauV kO fst tau M x /\
      snd e x = v 0 x +! dt *! sumf (fun m => wts m *! Fof p v f m x) 1 M +! tauV kO snd tau M x.
  Proof. exact (boris_end_point_form kO kI kadd kmul ksub kopp Rth M dt t0 nodes bf attr). Qed.

  Theorem C02_boris_residual_form : forall (p v : nat -> V) (f : nat -> Fld) tau m x,
    let r := boris_residual kO kadd kmul ksub M dt t0 nodes Q QQ bf attr p v f tau m in
    fst r x = p 0 x +! dt *! sumf (fun j => Q m j) 1 M *! v 0 x +! dt *! dt *! sumf (fun j => QQ m j *! Fof p v f j x) 1 M
              +! tauV kO fst tau m x -! p m x /\
    snd r x = v 0 x +! dt *! sumf (fun j => Q m j *! Fof p v f j x) 1 M +! tauV kO snd tau m x -! v m x.
  Proof. exact (boris_residual_form kO kI kadd kmul ksub kopp Rth M dt t0 nodes Q QQ bf attr). Qed.
End C02_boris.

(* the Boris algorithm of PenningTrap_3D.boris_solver solves the contract equation (any particles, fields, step) *)
Theorem C02_boris_algorithm_meets_contract : forall (P : Type),
  boris_contract Qcplus Qcmult (@boris_alg P) half lorentz /\
  build_f_is (fun (_ : Qc) fl (_ : P * ax -> Qc) ve a => lorentz fl ve a) lorentz.
Proof. exact (@boris_contract_satisfiable). Qed.

Example C02_boris_tables_satisfiable :
  boris_tables_ok (Q2Qc 0) Qcmult Qcminus 2 exnodes exdelta exQ exQQ exSm exST exSQ exSx exQId half exQx exQT.
Proof. exact boris_tables_satisfiable. Qed.

Print Assumptions C02_boris_update_raises.
Print Assumptions C02_boris_position_form.
Print Assumptions C02_boris_block_form.
Print Assumptions C02_boris_matrix_form.
Print Assumptions C02_boris_integrate_form.
Print Assumptions C02_boris_end_point_form.
Print Assumptions C02_boris_residual_form.
Print Assumptions C02_boris_algorithm_meets_contract.
Print Assumptions C02_boris_tables_satisfiable.

(* ---- RungeKuttaNystrom (RKN, Velocity_Verlet) and MultiStep (Adams-Bashforth/Moulton, BackwardEuler) *)
Section C02ext.
  Context {K : Type} (kO kI : K) (kadd kmul ksub : K -> K -> K) (kopp : K -> K).
  Hypothesis Rth : ring_theory kO kI kadd kmul ksub kopp (@eq K).
  Context {X : Type}.
  Notation V := (X -> K).
  Local Infix "+!" := kadd (at level 50, left associativity).
  Local Infix "*!" := kmul (at level 40, left associativity).
  Local Infix "-!" := ksub (at level 50, left associativity).
  Notation sumf := (sumf kO kadd).

  (* ---------------- RungeKuttaNystrom *)
  Section RKN.
    Context {Fd : Type} {A : Type}.       (* Fd: what eval_f returns; A: the attributes (charges, masses) a particle object carries *)
    Variable M : nat.
    Variable dt t0 : K.
    Variable nodes : nat -> K.
    Variable QI Qx : nat -> nat -> K.
    Variable feval : A -> V -> V -> K -> Fd.
    Variable build_f : Fd -> A -> V -> V -> K -> V.
    Variable boris : V -> K -> Fd -> Fd -> A -> V -> V -> V.
    Notation tn := (rkn_tn kadd kmul dt t0 nodes).
    Notation acc := (rkn_acc kadd kmul dt t0 nodes build_f).

    Theorem C02_rkn_explicit_stage_form : forall st : @rkn_st K X Fd A,
      let r := rkn_update kO kadd kmul M dt t0 nodes QI Qx false feval build_f boris st in
      (forall j, j = 0 \/ M < j -> ra r j = ra st j /\ rp r j = rp st j /\ rv r j = rv st j /\ rf r j = rf st j) /\
      rf r M = rf st M /\
      forall m, 1 <= m <= M ->
        ra r m = ra st 0 /\
        (m < M -> rf r m = feval (ra r m) (rp r m) (rv r m) (tn m)) /\
        forall x,
          rp r m x = rp st 0 x +! dt *! nodes m *! rv st 0 x +! dt *! dt *! sumf (fun j => Qx m j *! acc r j x) 1 (m - 1) /\
          rv r m x = rv st 0 x +! dt *! sumf (fun j => QI m j *! acc r j x) 1 (m - 1).
    Proof. exact (rkn_explicit_stage_form kO kI kadd kmul ksub kopp Rth M dt t0 nodes QI Qx feval build_f boris). Qed.

    Theorem C02_rkn_end_point_form : forall (st : @rkn_st K X Fd A) (w wbar : nat -> K),
      1 <= M -> nodes M = kI ->
      (forall j, 1 <= j <= M - 1 -> QI M j = w j /\ Qx M j = wbar j) ->
      let r := rkn_update kO kadd kmul M dt t0 nodes QI Qx false feval build_f boris st in
      let e := rkn_end_point M r in
      e = (rp r M, rv r M) /\ rkn_end_attr M r = ra st 0 /\
      forall x,
        fst e x = rp st 0 x +! dt *! rv st 0 x +! dt *! dt *! sumf (fun j => wbar j *! acc r j x) 1 (M - 1) /\
        snd e x = rv st 0 x +! dt *! sumf (fun j => w j *! acc r j x) 1 (M - 1).
    Proof. exact (rkn_end_point_form kO kI kadd kmul ksub kopp Rth M dt t0 nodes QI Qx feval build_f boris). Qed.

    Theorem C02_rkn_velocity_verlet_form : forall st : @rkn_st K X Fd A,
      nodes 1 = kI -> nodes 3 = kI -> Qx 3 2 = kO ->
      (forall a p v v' t, feval a p v t = feval a p v' t) ->
      (forall c c' d fo fn a p v, (forall x, c x = c' x) -> forall x, boris c d fo fn a p v x = boris c' d fo fn a p v x) ->
      let r := rkn_update kO kadd kmul 3 dt t0 nodes QI Qx true feval build_f boris st in
      let e := rkn_end_point 3 r in
      let a0 := ra st 0 in
      let F0 := feval a0 (rp st 0) (rv st 0) t0 in
      let a := build_f F0 a0 (rp r 1) (rv r 1) (t0 +! dt *! nodes 1) in
      (forall x, rp r 1 x = rp st 0 x +! dt *! rv st 0 x) /\ rv r 1 = rv st 0 /\ rkn_end_attr 3 r = a0 /\
      (forall x, fst e x = rp st 0 x +! dt *! rv st 0 x +! dt *! dt *! Qx 3 1 *! a x) /\
      (forall x, snd e x = boris (fun _ => kO) dt F0 (feval a0 (fst e) (rv st 0) (t0 +! dt)) a0 (rp st 0) (rv st 0) x).
    Proof. exact (rkn_velocity_verlet_form kO kI kadd kmul ksub kopp Rth dt t0 nodes QI Qx feval build_f boris). Qed.

    Theorem C02_rkn_implicit_three_node_form : forall st : @rkn_st K X Fd A,
      let a0 := ra st 0 in
      let x0 := rp st 0 in
      let v0 := rv st 0 in
      let F0 := feval a0 x0 v0 t0 in
      let tend := t0 +! dt in
      let times0 := fun (v : V) => (fun x => v x *! kO) : V in
      let x1 : V := vadd kadd x0 (vscale kmul (dt *! nodes 1) v0) in
      let a1 := build_f F0 a0 x1 v0 (tn 1) in
      let x2 : V := vadd kadd (vadd kadd x0 (vscale kmul (dt *! nodes 2) v0)) (vscale kmul (dt *! dt *! Qx 2 1) a1) in
      let v2 := boris (times0 v0) dt F0 (feval a0 x2 v0 tend) a0 x0 v0 in
      let a2 := build_f F0 a0 x2 v2 (tn 2) in
      let x3a : V := vadd kadd (vadd kadd x0 (vscale kmul (dt *! nodes 3) v0)) (vscale kmul (dt *! dt *! Qx 3 1) a1) in
      let v3a := boris (times0 v0) dt F0 (feval a0 x3a v0 tend) a0 x0 v0 in
      let x3 : V := vadd kadd x3a (vscale kmul (dt *! dt *! Qx 3 2) a2) in
      let v3 := boris (times0 v3a) dt F0 (feval a0 x3 v3a tend) a0 x0 v0 in
      let r := rkn_update kO kadd kmul 3 dt t0 nodes QI Qx true feval build_f boris st in
      (rp r 0 = x0 /\ rv r 0 = v0) /\ (rp r 1 = x1 /\ rv r 1 = v0) /\ (rp r 2 = x2 /\ rv r 2 = v2) /\ (rp r 3 = x3 /\ rv r 3 = v3) /\
      (rf r 0 = F0 /\ rf r 1 = F0 /\ rf r 2 = F0 /\ rf r 3 = F0) /\
      (ra r 0 = a0 /\ ra r 1 = a0 /\ ra r 2 = a0 /\ ra r 3 = a0) /\
      (forall j, 3 < j -> ra r j = ra st j /\ rp r j = rp st j /\ rv r j = rv st j /\ rf r j = rf st j) /\
      rkn_end_point 3 r = (x3, v3) /\ rkn_end_attr 3 r = a0.
    Proof. exact (rkn_implicit_three_node_form kO kadd kmul dt t0 nodes QI Qx feval build_f boris). Qed.
  End RKN.

  (* ---------------- MultiStep *)
  Section MS.
    Variable khalf : K -> K.
    Variable feval : V -> K -> V.
    Variable solve : V -> K -> V -> K -> V.
    Notation dummy := (@ms_dummy K kO X).

    Theorem C02_multistep_update_form : forall (alpha beta : list K) starter (c : ms_cache) (es : list (@ms_entry K X)) t0 dt u0 f0,
      ms_solver_contract kmul ksub feval solve -> all_some c = Some es ->
      exists u1 : V,
        let time := t0 +! dt in
        ms_update kO kadd kmul ksub khalf feval solve alpha beta starter c t0 dt u0 f0
          = MsOk (cache_update c {| e_t := time; e_u := u1; e_f := feval u1 time |}, u1, feval u1 time) /\
        u1 = solve (ms_rhs kO kadd kmul ksub alpha beta es time) (dt *! last beta kO) (e_u (last es dummy)) time /\
        forall x,
          u1 x +! sumf (fun i => nth i alpha kO *! e_u (nth i es dummy) x) 0 (length alpha) -! dt *! last beta kO *! feval u1 time x
          = sumf (fun i => ms_dts kO ksub alpha es time i *! nth i beta kO *! e_f (nth i es dummy) x) 0 (length alpha).
    Proof. exact (ms_update_full_form kO kI kadd kmul ksub kopp khalf Rth feval solve). Qed.

    Theorem C02_multistep_one_step_run_form : forall a0 b0 b1 starter,
      ms_solver_contract kmul ksub feval solve -> forall ds c t u,
      ms_inv1 feval c t u ->
      let '(tr, cf, err) := ms_run kO kadd kmul ksub khalf feval solve [a0] [b0; b1] starter c t u ds in
      err = None /\ ms_traj1 kadd kmul ksub feval a0 b0 b1 t u tr ds /\ exists tl ul, ms_inv1 feval cf tl ul.
    Proof. exact (ms_one_step_run_form kO kI kadd kmul ksub kopp khalf Rth feval solve). Qed.

    Theorem C02_multistep_two_step_run_form : forall a0 a1 b0 b1 b2,
      ms_solver_contract kmul ksub feval solve -> forall dt0 ds t u,
      let '(tr, cf, err) := ms_run kO kadd kmul ksub khalf feval solve [a0; a1] [b0; b1; b2] Trapezoid [None; None] t u (dt0 :: ds) in
      err = None /\
      match tr with
      | [] => False
      | (t1, u1, f1) :: tr' =>
          t1 = t +! dt0 /\ f1 = feval u1 t1 /\
          (forall x, u1 x -! khalf dt0 *! f1 x = u x +! khalf dt0 *! feval u t x) /\
          ms_traj2 kadd kmul ksub feval a0 a1 b0 b1 b2 {| e_t := t; e_u := u; e_f := feval u t |} t1 u1 tr' ds
      end.
    Proof. exact (ms_two_step_run_form kO kI kadd kmul ksub kopp khalf Rth feval solve). Qed.

    Theorem C02_multistep_start_form : forall (alpha beta : list K) starter (c : ms_cache) t0 dt u0 f0,
      ms_solver_contract kmul ksub feval solve -> all_some c = None ->
      match starter, f0 with
      | NoStarter, _ => ms_update kO kadd kmul ksub khalf feval solve alpha beta starter c t0 dt u0 f0 = MsErr NotImplementedError
      | Trapezoid, None => ms_update kO kadd kmul ksub khalf feval solve alpha beta starter c t0 dt u0 f0 = MsErr TypeErrorNone
      | Trapezoid, Some f =>
          exists u1 : V,
            let time := t0 +! dt in let h := khalf dt in
            ms_update kO kadd kmul ksub khalf feval solve alpha beta starter c t0 dt u0 f0
              = MsOk (cache_update c {| e_t := time; e_u := u1; e_f := feval u1 time |}, u1, feval u1 time) /\
            forall x, u1 x -! h *! feval u1 time x = u0 x +! h *! f x
      end.
    Proof. exact (ms_update_start_form kO kadd kmul ksub khalf feval solve). Qed.
  End MS.
End C02ext.
Print Assumptions C02_rkn_explicit_stage_form.
Print Assumptions C02_rkn_end_point_form.
Print Assumptions C02_rkn_velocity_verlet_form.
Print Assumptions C02_multistep_update_form.
Print Assumptions C02_multistep_one_step_run_form.
Print Assumptions C02_multistep_two_step_run_form.
Print Assumptions C02_rkn_implicit_three_node_form.
Print Assumptions C02_multistep_start_form.
Print Assumptions ms_update_start_form.
Print Assumptions ms_update_uniform_form.
Print Assumptions rkn_old_stage_time_observable.

