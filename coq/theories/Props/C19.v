(* C19 — property theorems only.  Each is closed by [exact] of a lemma proved in Proofs/RerunProofs.v
   and is followed by Print Assumptions. *)
From Coq Require Import List Bool Arith ZArith PrimFloat.
From PySDC Require Import Model.Rerun Proofs.RerunProofs.
Import ListNotations.

(* (1) split_compose — law-free in the number type (hence valid for IEEE doubles): a fixed-step run
   stopped at a block boundary and continued from the reached time value [tk] and the returned value
   [uk] goes through the same blocks, the same (slot, start, dt) triples and the same chained values as
   the uninterrupted run, PROVIDED (a) both active tests give the same mask before every block of the
   first run and (b) the time list run() builds from tk equals the time list the first run ended with.
   FULL-STRENGTH statement (without (b)):  refuted, see (2). *)
Theorem C19_split_compose_partial :
  forall (T : Type) (add sub : T -> T -> T) (ltb : T -> T -> bool) (zero teneps dflt : T) (U : Type)
         (blk : list (nat * T * T) -> U -> U) (dts : list T)
         f1 f2 t0 Tmid Tend u0 times_k uk tr1 tk tf uf tr2,
    loop T add ltb dflt U blk dts f1 (thr T sub teneps Tmid) (init_times T add zero dts t0) u0 = Some (times_k, uk, tr1) ->
    forallb (mask_agree T ltb U (thr T sub teneps Tmid) (thr T sub teneps Tend)) tr1 = true ->
    init_times T add zero dts tk = times_k ->
    loop T add ltb dflt U blk dts f2 (thr T sub teneps Tend) (init_times T add zero dts tk) uk = Some (tf, uf, tr2) ->
    exists trF, loop T add ltb dflt U blk dts (f1 + f2) (thr T sub teneps Tend) (init_times T add zero dts t0) u0 = Some (tf, uf, trF) /\
                steps_of T U trF = steps_of T U tr1 ++ steps_of T U tr2 /\
                values_of T U trF = values_of T U tr1 ++ values_of T U tr2.
Proof. exact split_compose_observables. Qed.
Print Assumptions C19_split_compose_partial.

(* (2) the faithful model refutes split composition without premise (b) on IEEE doubles
   (4 slots, dt = 0.1: first block t0 + (dt+dt+dt), later blocks ((t+dt)+dt)+dt) *)
Theorem C19_split_compose_refuted :
  exists (t0 Tmid Tend tk : float) times_k tr1 tf tr2 tF trF,
    floop unit w_blk w_dts 5 (fthr Tmid) (finit w_dts t0) tt = Some (times_k, tt, tr1) /\
    forallb (mask_agree float PrimFloat.ltb unit (fthr Tmid) (fthr Tend)) tr1 = true /\
    nth 0 times_k 0%float = tk /\
    floop unit w_blk w_dts 5 (fthr Tend) (finit w_dts tk) tt = Some (tf, tt, tr2) /\
    floop unit w_blk w_dts 10 (fthr Tend) (finit w_dts t0) tt = Some (tF, tt, trF) /\
    steps_of float unit trF <> steps_of float unit tr1 ++ steps_of float unit tr2.
Proof. exact split_compose_refuted. Qed.
Print Assumptions C19_split_compose_refuted.

(* (3) one time slot: premise (b) is the single equation tk + 0 = tk *)
Theorem C19_split_compose_one_slot :
  forall (T : Type) (add sub : T -> T -> T) (ltb : T -> T -> bool) (zero teneps dflt : T) (U : Type)
         (blk : list (nat * T * T) -> U -> U) (d : T) f1 f2 t0 Tmid Tend u0 times_k uk tr1 tf uf tr2,
    let L := loop T add ltb dflt U blk [d] in
    let it := init_times T add zero [d] in
    let th := thr T sub teneps in
    L f1 (th Tmid) (it t0) u0 = Some (times_k, uk, tr1) ->
    forallb (mask_agree T ltb U (th Tmid) (th Tend)) tr1 = true ->
    let tk := nth 0 times_k dflt in
    add tk zero = tk ->
    L f2 (th Tend) (it tk) uk = Some (tf, uf, tr2) ->
    L (f1 + f2) (th Tend) (it t0) u0 = Some (tf, uf, tr1 ++ tr2).
Proof. exact split_compose_one_slot. Qed.
Print Assumptions C19_split_compose_one_slot.

(* (4) frame / initialisation: after reset_stats + restart_block the whole controller state depends on
   the previous state only through the listed carried fields (step_rel, hook_rel, buffers, RNG) *)
Theorem C19_run_entry_frame :
  forall (D : Type) slots times u0 (c c' : Ctrl D) (d : Stp D),
    length (c_steps c) = length (c_steps c') ->
    (forall p, p < length (c_steps c) -> step_rel slots p (nth p (c_steps c) d) (nth p (c_steps c') d)) ->
    Forall2 hook_rel (c_hooks c) (c_hooks c') ->
    c_bufs c = c_bufs c' -> c_rng c = c_rng c' ->
    run_entry slots times u0 c = run_entry slots times u0 c'.
Proof. exact run_entry_frame. Qed.
Print Assumptions C19_run_entry_frame.

(* (5) rerun_equal — for ANY body function (no footprint assumption) *)
Theorem C19_rerun_equal :
  forall (D Res : Type) (body : Ctrl D -> Res * Ctrl D) slots times u0 (c c' : Ctrl D) (d : Stp D),
    length (c_steps c) = length (c_steps c') ->
    (forall p, p < length (c_steps c) -> step_rel slots p (nth p (c_steps c) d) (nth p (c_steps c') d)) ->
    Forall2 hook_rel (c_hooks c) (c_hooks c') ->
    c_bufs c = c_bufs c' -> c_rng c = c_rng c' ->
    run1 D Res body slots times u0 c = run1 D Res body slots times u0 c'.
Proof. exact rerun_equal. Qed.
Print Assumptions C19_rerun_equal.

(* (6) same-controller repeat after ANY history of all-slots-active runs equals the run on the
   controller the history started from (e.g. the freshly constructed one), for bodies that do not
   read the dead fields and keep the live carried fields (contract: fixed step, no RNG draw) *)
Theorem C19_rerun_equal_after_history :
  forall (D Res : Type) (body' : Ctrl D -> Res * Ctrl D),
    (forall e d, live_rel D (snd (body' e)) e d) ->
    forall inputs times u0 (c0 : Ctrl D) (d : Stp D),
      fst (run2 D Res body' (seq 0 (length (c_steps c0))) times u0 (history D Res body' c0 inputs)) =
      fst (run2 D Res body' (seq 0 (length (c_steps c0))) times u0 c0).
Proof. exact rerun_equal_after_history. Qed.
Print Assumptions C19_rerun_equal_after_history.

(* (7) the unconditional rerun_equal is refuted by the faithful model in two ways *)
Theorem C19_rerun_equal_refuted_stale_inactive :
  (forall p, p < 2 -> carried_step (nth p (c_steps ex_fresh2) (fresh_step [])) = carried_step (nth p (c_steps ex_used2) (fresh_step []))) /\
  c_hooks ex_fresh2 = c_hooks ex_used2 /\ c_bufs ex_fresh2 = c_bufs ex_used2 /\ c_rng ex_fresh2 = c_rng ex_used2 /\
  fst (run1 unit val ex_body_last [0] [Some 0%Z; Some 1%Z] tt ex_fresh2) <>
  fst (run1 unit val ex_body_last [0] [Some 0%Z; Some 1%Z] tt ex_used2).
Proof. exact rerun_equal_refuted_stale_inactive. Qed.
Print Assumptions C19_rerun_equal_refuted_stale_inactive.

Theorem C19_rerun_equal_refuted_rng :
  let c1 := snd (run2 unit Z ex_body_rng [0; 1] [Some 0%Z; Some 1%Z] tt ex_fresh2) in
  fst (run2 unit Z ex_body_rng [0; 1] [Some 0%Z; Some 1%Z] tt c1) <>
  fst (run2 unit Z ex_body_rng [0; 1] [Some 0%Z; Some 1%Z] tt ex_fresh2).
Proof. exact rerun_equal_refuted_rng. Qed.
Print Assumptions C19_rerun_equal_refuted_rng.

(* (8) two controllers in one process *)
Theorem C19_two_controllers_independent :
  forall (D Res : Type) (runc : nat -> Global -> Ctrl D -> Res * Ctrl D * Global) (dfl : Ctrl D) i j w,
    i <> j -> global_pure D Res runc i -> global_pure D Res runc j ->
    let '(ri, w1) := run_in runc i dfl w in let '(rj, w2) := run_in runc j dfl w1 in
    let '(rj', w1') := run_in runc j dfl w in let '(ri', w2') := run_in runc i dfl w1' in
    ri = ri' /\ rj = rj' /\ w2 = w2'.
Proof. exact two_controllers_independent. Qed.
Print Assumptions C19_two_controllers_independent.

Theorem C19_two_controllers_refuted_class_counter :
  let w := mkWorld (mkGlobal [] [] 0) [ex_fresh2; ex_fresh2] in
  fst (run_in ex_runc_pickle 1 ex_fresh2 (snd (run_in ex_runc_pickle 0 ex_fresh2 w))) <> fst (run_in ex_runc_pickle 1 ex_fresh2 w).
Proof. exact two_controllers_independent_refuted_class_counter. Qed.
Print Assumptions C19_two_controllers_refuted_class_counter.

(* non-vacuity *)
Example C19_split_compose_nonvacuous :
  let dts := [w_dt; w_dt] in
  exists times_k tr1 tf tr2,
    floop unit w_blk dts 5 (fthr 0x1.999999999999ap-2%float) (finit dts 0%float) tt = Some (times_k, tt, tr1) /\
    forallb (mask_agree float PrimFloat.ltb unit (fthr 0x1.999999999999ap-2%float) (fthr 0x1.999999999999ap-1%float)) tr1 = true /\
    finit dts (nth 0 times_k 0%float) = times_k /\
    floop unit w_blk dts 5 (fthr 0x1.999999999999ap-1%float) (finit dts (nth 0 times_k 0%float)) tt = Some (tf, tt, tr2) /\
    length tr1 = 2 /\ length tr2 = 2.
Proof. exact split_compose_nonvacuous. Qed.
Print Assumptions C19_split_compose_nonvacuous.

Example C19_rerun_after_history_nonvacuous :
  fst (run2 unit _ ex_body_ok [0; 1] [Some 5%Z; Some 6%Z] tt
         (history unit _ ex_body_ok ex_fresh2 [([Some 0%Z; Some 1%Z], tt); ([Some 2%Z; Some 3%Z], tt)])) =
  fst (run2 unit _ ex_body_ok [0; 1] [Some 5%Z; Some 6%Z] tt ex_fresh2).
Proof. exact rerun_after_history_nonvacuous. Qed.
Print Assumptions C19_rerun_after_history_nonvacuous.

(* (9) caller-owned description / controller_params shared between constructions: if what a
   construction leaves in the caller's dicts is equivalent (w.r.t. everything a construction reads) to
   what it found, then a controller built from the same objects after an edit equals the controller
   built from the edited fresh dicts.  The frame condition itself is checked on the real code by the
   harness (deep snapshot of the dicts before/after construction and run; B-after-A vs B-fresh). *)
Theorem C19_shared_description_frame :
  forall (Descr Ctl : Type) (build : Descr -> Ctl * Descr) (eqv : Descr -> Descr -> Prop),
    (forall d d', eqv d d' -> fst (build d) = fst (build d')) ->
    (forall d, eqv (snd (build d)) d) ->
    forall (edit : Descr -> Descr), (forall d d', eqv d d' -> eqv (edit d) (edit d')) ->
    forall d, build_after Descr Ctl build edit d = fst (build (edit d)).
Proof. exact shared_description_frame. Qed.
Print Assumptions C19_shared_description_frame.

Example C19_shared_hook_list_nonvacuous : forall user,
  build_after _ _ build_hooks (fun l => l) user = fst (build_hooks user).
Proof. exact shared_hook_list_nonvacuous. Qed.
Print Assumptions C19_shared_hook_list_nonvacuous.
