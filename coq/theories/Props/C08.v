(* C08 — property theorems only.  Each is closed by [exact] of a lemma proved in Proofs/MPIProofs.v and is
   followed by Print Assumptions.  Model: Model/MPI.v (labelled transition system for the point-to-point +
   collective subset of MPI used by pySDC; global state = per-rank histories; programs = deterministic
   reactive processes [prog L]; [eager] = the environment's buffering decision per standard-mode send). *)
From Coq Require Import List Arith Bool ZArith.
From PySDC Require Import Model.MPI Proofs.MPIProofs.
Import ListNotations.

(* (1) diamond: two enabled steps of different ranks commute.  Receives name source and tag by construction of
   the event alphabet; [good] is any class of local states, closed under the program's reactions, in which the
   program never offers a Test (whose outcome depends on timing). *)
Theorem C08_diamond :
  forall (cu : list (list nat)) (L : Type) (P : prog L) (good : L -> Prop),
  (forall w l, good l -> forall q k, P w l <> ATest q k) ->
  forall eager (s : state L) i j tbi tbj s1 s2,
  good_state good s -> i <> j ->
  fire cu eager P s i tbi = Some s1 -> fire cu eager P s j tbj = Some s2 ->
  exists s3, fire cu eager P s1 j tbj = Some s3 /\ fire cu eager P s2 i tbi = Some s3.
Proof. exact fire_diamond. Qed.
Print Assumptions C08_diamond.

(* (2) schedule independence: all complete executions end in the same global state — the same local state and
   the same history (events, matching partners, delivered payloads) on every rank — after the same number of steps *)
Theorem C08_schedule_independent :
  forall (cu : list (list nat)) (L : Type) (P : prog L) (good : L -> Prop),
  (forall w l, good l -> forall q k, P w l <> ATest q k) ->
  (forall eager hs w l tb l' e, good l -> react cu eager P hs w l tb = Some (l', e) -> good l') ->
  forall eager (s : state L) n t m t',
  good_state good s ->
  steps cu eager P n s t -> terminal cu eager P t ->
  steps cu eager P m s t' -> terminal cu eager P t' -> t = t' /\ n = m.
Proof. exact schedule_independent. Qed.
Print Assumptions C08_schedule_independent.

(* (3) if ONE schedule completes then none deadlocks: every execution has at most as many steps, can be
   completed to the same final state, and is never stuck in a state where some rank is not done *)
Theorem C08_one_completes_all_complete :
  forall (cu : list (list nat)) (L : Type) (P : prog L) (good : L -> Prop),
  (forall w l, good l -> forall q k, P w l <> ATest q k) ->
  (forall eager hs w l tb l' e, good l -> react cu eager P hs w l tb = Some (l', e) -> good l') ->
  forall eager (s : state L) n t,
  good_state good s ->
  steps cu eager P n s t -> terminal cu eager P t -> all_done P t ->
  forall m u, steps cu eager P m s u ->
    m <= n /\ steps cu eager P (n - m) u t /\ ~ deadlock cu P eager u.
Proof. exact one_completes_all_complete. Qed.
Print Assumptions C08_one_completes_all_complete.

(* the lemma behind (2) and (3): if ONE execution reaches a terminal state t in n steps then every execution has
   at most n steps and can be completed to t (in particular every schedule terminates) *)
Theorem C08_confluence :
  forall (cu : list (list nat)) (L : Type) (P : prog L) (good : L -> Prop),
  (forall w l, good l -> forall q k, P w l <> ATest q k) ->
  (forall eager hs w l tb l' e, good l -> react cu eager P hs w l tb = Some (l', e) -> good l') ->
  forall eager n (s t : state L),
  good_state good s -> steps cu eager P n s t -> terminal cu eager P t ->
  forall m u, steps cu eager P m s u -> m <= n /\ steps cu eager P (n - m) u t.
Proof. exact confluence_main. Qed.
Print Assumptions C08_confluence.

(* (4) buffering of standard-mode sends: complete executions under any two buffering behaviours end in the
   same state, and one complete execution in which nothing is buffered excludes deadlock for every behaviour *)
Theorem C08_buffering_independent :
  forall (cu : list (list nat)) (L : Type) (P : prog L) (good : L -> Prop),
  (forall w l, good l -> forall q k, P w l <> ATest q k) ->
  (forall eager hs w l tb l' e, good l -> react cu eager P hs w l tb = Some (l', e) -> good l') ->
  forall e1 e2 (s : state L) n t m t',
  good_state good s ->
  steps cu e1 P n s t -> all_done P t -> steps cu e2 P m s t' -> all_done P t' -> t = t' /\ n = m.
Proof. exact buffering_independent. Qed.
Print Assumptions C08_buffering_independent.

Theorem C08_rendezvous_complete_all_complete :
  forall (cu : list (list nat)) (L : Type) (P : prog L) (good : L -> Prop),
  (forall w l, good l -> forall q k, P w l <> ATest q k) ->
  (forall eager hs w l tb l' e, good l -> react cu eager P hs w l tb = Some (l', e) -> good l') ->
  forall (s : state L) n t,
  good_state good s ->
  steps cu (fun _ _ => false) P n s t -> all_done P t ->
  forall e m u, steps cu e P m s u ->
    m <= n /\ steps cu e P (n - m) u t /\ ~ deadlock cu P e u.
Proof. exact rendezvous_complete_all_complete. Qed.
Print Assumptions C08_rendezvous_complete_all_complete.

(* (5) the executable checker that the harness runs on every event log is sound for the transition rules
   ([legal]: one rule per kind of action, stated declaratively in Proofs/MPIProofs.v) *)
Theorem C08_replay_sound :
  forall cu eg n log, replay cu eg n log = true -> valid_exec cu (eager_of eg) (init_hists n) log.
Proof. exact replay_sound. Qed.
Print Assumptions C08_replay_sound.

(* (6) tie to the confluence theorems: an accepted, Test-free log is a complete execution of the straight-line
   skeleton programs extracted from it (its per-rank projections) ... *)
Theorem C08_accepted_log_is_execution :
  forall cu eg n log,
  replay cu eg n log = true -> skeleton_ok log = true ->
  steps cu (eager_of eg) skel_prog (length log) (skel_init n log) (skel_final n log) /\
  all_done skel_prog (skel_final n log) /\
  hists_of (skel_final n log) = map (proj log) (seq 0 n).
Proof. exact accepted_log_is_execution. Qed.
Print Assumptions C08_accepted_log_is_execution.

(* ... hence EVERY schedule of that skeleton (under the logged buffering behaviour or any that buffers more)
   terminates within the same number of steps, never deadlocks and can only end in the logged final state *)
Theorem C08_skeleton_schedule_independent :
  forall cu eg n log,
  replay cu eg n log = true -> skeleton_ok log = true ->
  forall e, eager_le (eager_of eg) e ->
  forall m u, steps cu e skel_prog m (skel_init n log) u ->
    m <= length log /\ steps cu e skel_prog (length log - m) u (skel_final n log) /\
    ~ deadlock cu skel_prog e u /\
    (terminal cu e skel_prog u -> u = skel_final n log).
Proof. exact skeleton_schedule_independent. Qed.
Print Assumptions C08_skeleton_schedule_independent.

(* a log recorded with NO buffered standard send covers every buffering behaviour *)
Theorem C08_skeleton_deadlock_free_all_buffering :
  forall cu n log,
  replay cu [] n log = true -> skeleton_ok log = true ->
  forall e m u, steps cu e skel_prog m (skel_init n log) u ->
    m <= length log /\ ~ deadlock cu skel_prog e u /\ (terminal cu e skel_prog u -> u = skel_final n log).
Proof. exact skeleton_deadlock_free_all_buffering. Qed.
Print Assumptions C08_skeleton_deadlock_free_all_buffering.

(* (7) every receive is matched exactly once: the partner of a receive is a send request of the named source on
   the named communicator/tag, addressed to the receiver and carrying the delivered payload, and no other
   receive of any rank is matched with that send (the communicator universe lists every member once) *)
Theorem C08_recv_matched_once :
  forall cu hs w q ws pq v,
  (forall c, NoDup (members cu c)) ->
  recv_partner cu hs w q = Some (ws, pq, v) ->
  (exists sync c src tag me,
      req_of (hist_of hs w) q = Some (ERecv c src tag) /\
      wrank cu c src = Some ws /\ lrank cu c w = Some me /\
      req_of (hist_of hs ws) pq = Some (ESend sync c me tag v)) /\
  (forall w' q' v', recv_partner cu hs w' q' = Some (ws, pq, v') -> w' = w /\ q' = q).
Proof. exact recv_matched_once. Qed.
Print Assumptions C08_recv_matched_once.

(* the two sides of the matching agree: a synchronous send waits exactly for the receive that takes its payload *)
Theorem C08_matching_symmetric :
  forall cu hs w q ws pq v,
  (forall c, NoDup (members cu c)) ->
  recv_partner cu hs w q = Some (ws, pq, v) -> send_partner cu hs ws pq = Some (w, q).
Proof. exact matching_symmetric. Qed.
Print Assumptions C08_matching_symmetric.

(* in an accepted log a completed receive delivers exactly its partner's payload, and a send completes only with
   the payload that was posted (monitor: buffer untouched until completion) *)
Theorem C08_wait_delivers_partner :
  forall cu eager hs w q ws pq v,
  legal cu eager hs w (EWait q (Some (ws, pq)) v) -> recv_partner cu hs w q = Some (ws, pq, v).
Proof. exact legal_wait_delivers_partner. Qed.
Print Assumptions C08_wait_delivers_partner.

Theorem C08_buffer_untouched_until_complete :
  forall cu eager hs w q v,
  legal cu eager hs w (EWait q None v) ->
  exists sync c dst tag, req_of (hist_of hs w) q = Some (ESend sync c dst tag v).
Proof. exact legal_send_wait_buffer_unchanged. Qed.
Print Assumptions C08_buffer_untouched_until_complete.

(* non-vacuity: a two-rank exchange + barrier is accepted and satisfies the premises ... *)
Example C08_nonvacuous : replay ex_cu [] 2 ex_log = true /\ skeleton_ok ex_log = true.
Proof. exact ex_log_accepted. Qed.
Print Assumptions C08_nonvacuous.

(* ... and the premise "no Test result is branched on" is necessary: a program that polls once with Test has two
   complete executions ending in different states *)
Example C08_test_breaks_confluence :
  exists s0 t t',
    steps ex_cu (fun _ _ => false) test_prog 3 s0 t /\ terminal ex_cu (fun _ _ => false) test_prog t /\
    steps ex_cu (fun _ _ => false) test_prog 3 s0 t' /\ terminal ex_cu (fun _ _ => false) test_prog t' /\
    t <> t'.
Proof. exact test_breaks_confluence. Qed.
Print Assumptions C08_test_breaks_confluence.
