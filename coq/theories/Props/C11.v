(* C11 — property theorems only.  Each is closed by [exact] of a lemma proved in
   Proofs/TransferOpsProofs.v and followed by Print Assumptions. *)
From Coq Require Import ZArith QArith Qabs List Bool.
From PySDC Require Import Base.Dyadic Base.Poly Model.TransferOps Model.FDnd Proofs.TransferOpsProofs Proofs.FDndProofs.
Import ListNotations.

(* ------------------------------------------------------------------------------------------------
   (1) Transfer between collocation node sets: a matrix accepted by the validator (which the check
   evaluates on Pcoll / Rcoll regenerated from the live BaseTransfer) reproduces EVERY polynomial of
   degree < number of source nodes at every destination node, up to the stated bound. *)
Theorem C11_node_transfer_sound :
  forall P src dst rtol atol, check_node_transfer P src dst rtol atol = true ->
  forall i, (i < length dst)%nat ->
  forall c, (length c <= length src)%nat ->
  (Qabs (wsum (Qw (nth i P [])) (Qw src) (peval c) - peval c (D2Q (nth i dst d0)))
   <= abs_lin_from 0 c (row_tol (nth i P []) src (nth i dst d0) rtol atol))%Q.
Proof. exact node_transfer_sound. Qed.
Print Assumptions C11_node_transfer_sound.

(* ... in particular its rows sum to one *)
Theorem C11_node_transfer_rows_sum_one :
  forall P src dst rtol atol, check_node_transfer P src dst rtol atol = true ->
  forall i, (i < length dst)%nat -> (0 < length src)%nat ->
  (Qabs (qsum (Qw (nth i P [])) - 1) <= row_tol (nth i P []) src (nth i dst d0) rtol atol 0)%Q.
Proof. exact node_transfer_rows_sum_one. Qed.
Print Assumptions C11_node_transfer_rows_sum_one.

(* (2) restriction after prolongation is the identity: (R (P u))_i = u_i for EVERY coarse vector u *)
Theorem C11_RP_identity :
  forall R P n tol, check_RP R P n tol = true ->
  forall (u : list Q) i, (i < n)%nat ->
  (Qabs (dotQ (Qw (nth i R [])) (mvQ P u) - nth i u 0) <= D2Q tol * sumabs u)%Q.
Proof. exact RP_identity. Qed.
Print Assumptions C11_RP_identity.

(* ------------------------------------------------------------------------------------------------
   (3) A row over integer offsets accepted by the validator interpolates every polynomial of degree
   < number of support points, for every centre x and every mesh width h (global monomial basis). *)
Theorem C11_interp_row_sound_affine :
  forall w os rtol atol, check_interp_row w (map dZ os) d0 rtol atol = true ->
  forall c x h, (length c <= length os)%nat ->
  (Qabs (wsum (Qw w) (map (fun o => x + inject_Z o * h) os) (peval c) - peval c x)
   <= abs_lin_from 0 (pshift c x h) (row_tol w (map dZ os) d0 rtol atol))%Q.
Proof. exact interp_row_sound_affine. Qed.
Print Assumptions C11_interp_row_sound_affine.

(* the Taylor shift used in the bounds: pshift c x h are the coefficients of t |-> p(x + t h) *)
Theorem C11_pshift_correct : forall c x h t, (peval (pshift c x h) t == peval c (x + t * h))%Q.
Proof. exact peval_pshift. Qed.
Print Assumptions C11_pshift_correct.

(* (4) a dense matrix row accepted against a support: applied to ANY coarse data that agrees on the support with
   ANY polynomial of degree < |support| it returns the value of that polynomial at the fine point *)
Theorem C11_space_row_sound :
  forall sup exempt row rtol, check_sup_row sup exempt row rtol = true ->
  forall c x h (u : Z -> Q), (length c <= length sup)%nat ->
  (forall col o, In (col, o) sup -> u col == peval c (x + inject_Z o * h))%Q ->
  (forall e, In e exempt -> ~ In e (map fst sup) -> u e == 0)%Q ->
  (Qabs (apply_row row u - peval c x) <= abs_lin_from 0 (pshift c x h) (sup_tol sup row rtol))%Q.
Proof. exact sup_row_sound. Qed.
Print Assumptions C11_space_row_sound.

(* periodic grids: support = the k nearest periodic images (5), constants preserved *)
Theorem C11_per_row_sound :
  forall nc k i row rtol, check_per_row nc k i row rtol = true ->
  forall c x h (u : Z -> Q), (length c <= length (per_support nc k i))%nat ->
  (forall col o, In (col, o) (per_support nc k i) -> u col == peval c (x + inject_Z o * h))%Q ->
  (Qabs (apply_row row u - peval c x) <= abs_lin_from 0 (pshift c x h) (sup_tol (per_support nc k i) row rtol))%Q.
Proof. exact per_row_sound. Qed.
Print Assumptions C11_per_row_sound.

Theorem C11_per_row_constants :
  forall nc k i row rtol, check_per_row nc k i row rtol = true -> (0 < length (per_support nc k i))%nat ->
  forall a, (Qabs (apply_row row (fun _ => a) - a) <= Qabs a * sup_tol (per_support nc k i) row rtol 0)%Q.
Proof. exact per_row_constants. Qed.
Print Assumptions C11_per_row_constants.

(* non-periodic grids: padded data with homogeneous boundary values; a polynomial of degree < k that the data
   follows on the support (hence vanishing at the boundary point when that belongs to the support) is reproduced *)
Theorem C11_dir_row_sound :
  forall nc k i row rtol, check_dir_row nc k i row rtol = true ->
  forall c x h (u : Z -> Q), (length c <= length (dir_support nc k i))%nat ->
  (forall q o, In (q, o) (dir_support nc k i) -> u q == peval c (x + inject_Z o * h))%Q ->
  (u 0%Z == 0)%Q -> (u (nc + 1)%Z == 0)%Q ->
  (Qabs (apply_row row (fun col => u (col + 1)%Z) - peval c x)
   <= abs_lin_from 0 (pshift c x h) (sup_tol (dir_support nc k i) (pad_row row) rtol))%Q.
Proof. exact dir_row_sound. Qed.
Print Assumptions C11_dir_row_sound.

(* restriction as scaled transpose of a prolongation (Rspace = restr_factor * Pspace.T), entry by entry *)
Theorem C11_scaled_transpose_sound :
  forall R P c, check_scaled_transpose R P c = true ->
  forall i j, (i < length R)%nat -> (j < length P)%nat ->
  (D2Q (nth j (nth i R []) d0) == D2Q c * D2Q (nth i (nth j P []) d0))%Q.
Proof. exact scaled_transpose_sound. Qed.
Print Assumptions C11_scaled_transpose_sound.

(* ------------------------------------------------------------------------------------------------
   (5) the supports the rows are validated against ARE the k nearest coarse points.
   Periodic, odd fine index i, even order k <= nc: k entries, distinct columns, every entry is a periodic image
   of its column within distance k-1, and every periodic image of any coarse point within distance k-1 is an entry. *)
Theorem C11_per_support_count : forall nc k i, (0 <= k <= nc)%Z -> Z.even i = false ->
  Z.of_nat (length (per_support nc k i)) = k.
Proof. exact per_support_length. Qed.
Print Assumptions C11_per_support_count.

Theorem C11_per_support_distinct : forall nc k i, (0 < nc)%Z -> (0 <= k <= nc)%Z -> (0 <= i < 2 * nc)%Z -> Z.even i = false ->
  NoDup (map fst (per_support nc k i)).
Proof. exact per_support_NoDup. Qed.
Print Assumptions C11_per_support_distinct.

Theorem C11_per_support_images : forall nc k i, (0 < nc)%Z -> (0 <= k <= nc)%Z -> Z.even k = true -> Z.even i = false ->
  forall col o, In (col, o) (per_support nc k i) ->
  (0 <= col < nc /\ Z.abs o <= k - 1 /\ exists m, i + o = 2 * col + m * (2 * nc))%Z.
Proof. exact per_support_images. Qed.
Print Assumptions C11_per_support_images.

Theorem C11_per_support_nearest : forall nc k i, Z.even k = true -> Z.even i = false ->
  forall col m, (0 <= col < nc)%Z ->
  (Z.abs (2 * col + m * (2 * nc) - i) <= k - 1)%Z -> In (col, (2 * col + m * (2 * nc) - i)%Z) (per_support nc k i).
Proof. exact per_support_nearest. Qed.
Print Assumptions C11_per_support_nearest.

(* Non-periodic, even fine index i, even order 2 <= k <= nc+1: k distinct points of the padded coarse grid 0..nc+1,
   none of them farther from the fine point than any padded point outside the support *)
Theorem C11_dir_support_count : forall nc k i, (2 <= k <= nc + 1)%Z -> Z.odd i = false ->
  Z.of_nat (length (dir_support nc k i)) = k.
Proof. exact dir_support_length. Qed.
Print Assumptions C11_dir_support_count.

Theorem C11_dir_support_distinct : forall nc k i, Z.odd i = false -> NoDup (map fst (dir_support nc k i)).
Proof. exact dir_support_NoDup. Qed.
Print Assumptions C11_dir_support_distinct.

Theorem C11_dir_support_nearest : forall nc k i, (2 <= k <= nc + 1)%Z -> Z.even k = true -> (0 <= i < 2 * nc + 1)%Z -> Z.odd i = false ->
  forall q o q', In (q, o) (dir_support nc k i) ->
  (0 <= q <= nc + 1)%Z /\ o = (2 * q - (i + 1))%Z /\
  ((0 <= q' <= nc + 1)%Z -> ~ In (q', (2 * q' - (i + 1))%Z) (dir_support nc k i) ->
   (Z.abs o <= Z.abs (2 * q' - (i + 1)))%Z).
Proof. exact dir_support_spec. Qed.
Print Assumptions C11_dir_support_nearest.

(* ------------------------------------------------------------------------------------------------
   (6) the helper's neighbour selection (next_neighbors / next_neighbors_periodic): k distinct indices inside the
   array, each preceding every unselected index in the (distance, index) order *)
Theorem C11_next_neighbors_spec : forall p ps k,
  let res := next_neighbors p ps k in
  length res = Nat.min k (length ps) /\ NoDup res /\
  (forall i, In i res -> (0 <= i < Z.of_nat (length ps))%Z) /\
  (forall i j, In i res -> (0 <= j < Z.of_nat (length ps))%Z -> ~ In j res ->
     (Z.abs (getz ps i - p) < Z.abs (getz ps j - p) \/ (Z.abs (getz ps i - p) = Z.abs (getz ps j - p) /\ i < j))%Z).
Proof. exact next_neighbors_spec. Qed.
Print Assumptions C11_next_neighbors_spec.

Theorem C11_next_neighbors_periodic_spec : forall L p ps k,
  let d t := per_dist L (p mod L) (t - hd 0%Z ps) in
  let res := next_neighbors_periodic L p ps k in
  length res = Nat.min k (length ps) /\ NoDup res /\
  (forall i, In i res -> (0 <= i < Z.of_nat (length ps))%Z) /\
  (forall i j, In i res -> (0 <= j < Z.of_nat (length ps))%Z -> ~ In j res ->
     (d (getz ps i) < d (getz ps j) \/ (d (getz ps i) = d (getz ps j) /\ i < j))%Z).
Proof. exact next_neighbors_periodic_spec. Qed.
Print Assumptions C11_next_neighbors_periodic_spec.

(* ------------------------------------------------------------------------------------------------
   non-vacuity: concrete tables pass the validators (zero tolerance where the numbers are dyadic) *)
Example C11_nonvacuous_node :   (* linear interpolation from nodes {0,1} to {0,1/2,1} *)
  check_node_transfer [[Dy 1 0; Dy 0 0]; [Dy 1 (-1); Dy 1 (-1)]; [Dy 0 0; Dy 1 0]]
                      [Dy 0 0; Dy 1 0] [Dy 0 0; Dy 1 (-1); Dy 1 0] d0 d0 = true.
Proof. vm_compute. reflexivity. Qed.
Print Assumptions C11_nonvacuous_node.

Example C11_nonvacuous_RP :     (* injection after that interpolation *)
  check_RP [[Dy 1 0; Dy 0 0; Dy 0 0]; [Dy 0 0; Dy 0 0; Dy 1 0]]
           [[Dy 1 0; Dy 0 0]; [Dy 1 (-1); Dy 1 (-1)]; [Dy 0 0; Dy 1 0]] 2 d0 = true.
Proof. vm_compute. reflexivity. Qed.
Print Assumptions C11_nonvacuous_RP.

Example C11_nonvacuous_periodic :   (* cubic periodic interpolation, 16 <- 8, the wrapped last row *)
  check_per_row 8 4 15 [Dy 9 (-4); Dy (-1) (-4); Dy 0 0; Dy 0 0; Dy 0 0; Dy 0 0; Dy (-1) (-4); Dy 9 (-4)] d0 = true.
Proof. vm_compute. reflexivity. Qed.
Print Assumptions C11_nonvacuous_periodic.

Example C11_nonvacuous_dirichlet :  (* cubic interpolation next to the left boundary, 7 <- 3: weights 5/16 (dropped), 15/16, -5/16, 1/16 *)
  check_dir_row 3 4 0 [Dy 15 (-4); Dy (-5) (-4); Dy 1 (-4)] d0 = true.
Proof. vm_compute. reflexivity. Qed.
Print Assumptions C11_nonvacuous_dirichlet.

(* the supports and the mirrored selection on concrete instances (the hypotheses of (5) and (6) are satisfiable):
   periodic 16 <- 8, order 4, last fine point: columns 6,7 and the wrapped columns 0,1 at offsets -3,-1,1,3;
   non-periodic 15 <- 7, order 4, first fine point: window 0..3 of the padded grid (0 = boundary value) *)
Example C11_support_instances :
  per_support 8 4 15 = [(6, -3); (7, -1); (0, 1); (1, 3)]%Z /\
  dir_support 7 4 0 = [(0, -1); (1, 1); (2, 3); (3, 5)]%Z /\
  model_row_per_nested 16 [0;1;2;3;4;5;6;7;8;9;10;11;12;13;14;15]%Z [0;2;4;6;8;10;12;14]%Z 4 15
    = [(0, 1); (1, 3); (6, -3); (7, -1)]%Z /\
  next_neighbors 5 [0; 2; 4; 6; 8; 10]%Z 2 = [2; 3]%Z /\
  next_neighbors_periodic 16 15 [0; 2; 4; 6; 8; 10; 12; 14]%Z 4 = [0; 1; 6; 7]%Z.
Proof. vm_compute. repeat split; reflexivity. Qed.
Print Assumptions C11_support_instances.

(* ------------------------------------------------------------------------------------------------
   n-D space transfer: the Kronecker product of two (rectangular) 1-D transfer matrices — entry function kron_rect, compared
   entry-wise with the real 2-D Pspace / Rspace of mesh_to_mesh on non-square grids every run — applies the first factor along
   the first axis and the second factor along the second axis of a row-major grid function, for every shape and every data,
   over any commutative ring. (Repeated application gives any number of dimensions: kron is associative entry-wise.) *)
Section C11_kron.
  Context {K : Type} (kO kI : K) (kadd kmul ksub : K -> K -> K) (kopp : K -> K).
  Hypothesis Rth : ring_theory kO kI kadd kmul ksub kopp (@eq K).
  Theorem C11_kron_acts_per_axis : forall nbr nbc na (A B : nat -> nat -> K) (u : nat -> nat -> K) i j,
    (j < nbr)%nat -> (0 < nbc)%nat ->
    sumn kO kadd (fun c => kmul (kron_rect kmul nbr nbc A B (i * nbr + j) c) (u (c / nbc) (c mod nbc))%nat) (na * nbc)
    = sumn kO kadd (fun a => kmul (A i a) (sumn kO kadd (fun b => kmul (B j b) (u a b)) nbc)) na.
  Proof. exact (kron_rect_apply kO kI kadd kmul ksub kopp Rth). Qed.
End C11_kron.
Print Assumptions C11_kron_acts_per_axis.
