(* C14 — statistics are a faithful, uniquely keyed record of the run: property theorems.
   Model: Model/Stats.v (Entry, dictionaries, filter_stats with both phases of the `recomputed` pruning,
   sort_stats, get_list_of_types, Hooks.add_to_stats/increment_stats, Controller.return_stats,
   DefaultHooks.post_step, BasicRestartingNonMPI.prepare_next_block).  Proofs: Proofs/StatsProofs.v. *)
From Coq Require Import ZArith QArith List Bool String Permutation Sorted.
From PySDC Require Import Base.Dyadic Model.Stats Proofs.StatsProofs.
Import ListNotations.
Open Scope Z_scope.

(* filtering returns exactly the entries matching the given keys (both inclusions), in dictionary order *)
Theorem C14_filter_exact {V} (truthy : V -> bool) (stats : dict V) kw :
  exists r, filter_stats truthy stats kw None = Some r /\
    r = filter (fun kv => matches kw (fst kv)) stats /\
    forall k v, In (k, v) r <-> In (k, v) stats /\ matchesP kw k.
Proof. exact (filter_stats_exact truthy stats kw). Qed.
Print Assumptions C14_filter_exact.

(* sorting: ascending in the chosen key, a permutation of the (key, value) pairs, stable *)
Theorem C14_sort_sorted_perm {V} (d : dict V) f l :
  sort_stats d f = Some l ->
  Permutation l (map (fun kv => (getattr f (fst kv), snd kv)) d) /\
  StronglySorted (fun x y => item_leP (fst x) (fst y)) l /\
  forall a, filter (fun y => item_eqb (fst y) a) l = filter (fun y => item_eqb (fst y) a) (map (fun kv => (getattr f (fst kv), snd kv)) d).
Proof. exact (sort_sorted_perm d f l). Qed.
Print Assumptions C14_sort_sorted_perm.

(* what filter_stats(recomputed=...) keeps, on the dictionaries hooks produce: per (time, type) group of the
   matching entries those with the largest restart count, minus everything at a marked time *)
Theorem C14_filter_recomputed_spec {V} (truthy : V -> bool) (stats : dict V) kw b :
  regular stats ->
  exists r, filter_stats truthy stats kw (Some b) = Some r /\
    (exists P, r = filter P stats) /\
    forall kv, In kv r <->
      In kv stats /\ matchesP kw (fst kv) /\ ~ dominated (filter_plain kw stats) (fst kv) /\
      (kw_is_recomputed kw = false -> ~ marked truthy stats (e_time (fst kv))).
Proof. exact (filter_stats_regular_spec truthy stats kw b). Qed.
Print Assumptions C14_filter_recomputed_spec.

(* filtering out recomputed values leaves exactly the records of accepted steps — under the three stated
   conditions on the restart counts (accepted = largest of its group, superseded outnumbered or marked,
   accepted not marked) *)
Theorem C14_filter_recomputed_keeps_accepted {V} (truthy : V -> bool) (acc : entry -> bool) (d : dict V) :
  regular d ->
  (forall kv kv', In kv d -> In kv' d -> e_type (fst kv) <> Some recomputed_tag -> acc (fst kv) = true ->
     e_time (fst kv') = e_time (fst kv) -> e_type (fst kv') = e_type (fst kv) -> nr (fst kv') <= nr (fst kv)) ->
  (forall kv, In kv d -> e_type (fst kv) <> Some recomputed_tag -> acc (fst kv) = false ->
     (exists kv', In kv' d /\ acc (fst kv') = true /\ e_time (fst kv') = e_time (fst kv) /\ e_type (fst kv') = e_type (fst kv) /\
                  nr (fst kv) < nr (fst kv')) \/ marked truthy d (e_time (fst kv))) ->
  (forall kv, In kv d -> e_type (fst kv) <> Some recomputed_tag -> acc (fst kv) = true -> ~ marked truthy d (e_time (fst kv))) ->
  forall s t b, s <> recomputed_tag ->
  exists r, filter_stats truthy d (kw_tt (Some s) t) (Some b) = Some r /\
    (exists P, r = filter P d) /\
    forall kv, In kv r <-> In kv d /\ matchesP (kw_tt (Some s) t) (fst kv) /\ acc (fst kv) = true.
Proof. exact (filter_recomputed_keeps_accepted truthy acc d). Qed.
Print Assumptions C14_filter_recomputed_keeps_accepted.

(* the executable form of those conditions (run by the kernel on the statistics of real runs) is sound *)
Theorem C14_check_accepted_sound acc d :
  check_accepted acc d = true ->
  forall s t b, s <> recomputed_tag ->
  exists r, filter_stats ztruthy d (kw_tt (Some s) t) (Some b) = Some r /\
    (exists P, r = filter P d) /\
    forall kv, In kv r <-> In kv d /\ matchesP (kw_tt (Some s) t) (fst kv) /\ In (fst kv) acc.
Proof. exact (check_accepted_sound acc d). Qed.
Print Assumptions C14_check_accepted_sound.

(* the economical evaluation of the same conditions, which is what the check runs *)
Theorem C14_check_accepted_fast_sound acc d :
  check_accepted_fast acc d = true ->
  forall s t b, s <> recomputed_tag ->
  exists r, filter_stats ztruthy d (kw_tt (Some s) t) (Some b) = Some r /\
    (exists P, r = filter P d) /\
    forall kv, In kv r <-> In kv d /\ matchesP (kw_tt (Some s) t) (fst kv) /\ In (fst kv) acc.
Proof. exact (check_accepted_fast_filter acc d). Qed.
Print Assumptions C14_check_accepted_fast_sound.

(* ... and the conditions are needed: with the restart counts the pinned BasicRestartingNonMPI produces
   (1/3/2 instead of 3/3/0) an accepted step is dropped (3 'niter' records for 4 accepted steps) *)
Theorem C14_filter_recomputed_drops_accepted_refuted :
  let svs := history (1, 3, 2) in
  let stats := h_stats (default_run svs) in
  let k := niter_key (sv 0 3 2 false 1) in
  In k (accepted_keys svs) /\ In (k, 3) stats /\
  exists r, filter_stats ztruthy stats kw_niter (Some false) = Some r /\ ~ In k (keys r) /\
            List.length r = 3%nat /\ List.length (filter (fun s => negb (sv_restart s)) svs) = 4%nat.
Proof. exact filter_recomputed_drops_accepted_refuted. Qed.
Print Assumptions C14_filter_recomputed_drops_accepted_refuted.

(* cause: the in-place, one-call-per-step counter update is not the snapshot update *)
Theorem C14_prepare_seq_aliasing_refuted :
  exists flags cnt, prepare_seq flags cnt <> prepare_snapshot flags cnt /\
                    prepare_seq flags cnt = [1; 3; 2] /\ prepare_snapshot flags cnt = [3; 3; 0].
Proof. exact prepare_seq_aliasing_refuted. Qed.
Print Assumptions C14_prepare_seq_aliasing_refuted.

Theorem C14_prepare_snapshot_spec flags cnt s :
  (s < List.length flags)%nat ->
  nth s (prepare_snapshot flags cnt) 0 =
  if (s + restart_from flags <? List.length flags)%nat
  then (if nth (s + restart_from flags) flags false then nth (s + restart_from flags) cnt 0 + 1 else 0) else 0.
Proof. exact (prepare_snapshot_spec flags cnt s). Qed.
Print Assumptions C14_prepare_snapshot_spec.

(* keys: equal keys force equal slot, start time, iteration, sweep and restart count; strictly increasing
   start times give pairwise different keys *)
Theorem C14_key_injective s s' : niter_key s = niter_key s' ->
  sv_slot s = sv_slot s' /\ sv_time s = sv_time s' /\ sv_iter s = sv_iter s' /\ sv_sweep s = sv_sweep s' /\ sv_nr s = sv_nr s'.
Proof. exact (key_injective s s'). Qed.
Print Assumptions C14_key_injective.

Theorem C14_increasing_times_nodup svs :
  StronglySorted (fun a b => sv_time a < sv_time b) svs -> NoDup (map niter_key svs).
Proof. exact (increasing_times_nodup svs). Qed.
Print Assumptions C14_increasing_times_nodup.

(* DefaultHooks.post_step: exactly one 'niter' record per step, under its key, holding its iteration count *)
Theorem C14_one_record_per_step svs :
  NoDup (map niter_key svs) ->
  let stats := h_stats (default_run svs) in
  wf stats /\
  Permutation (keys (filter_plain (kw_type (Some "niter"%string)) stats)) (map niter_key svs) /\
  forall s, In s svs -> In (niter_key s, sv_iter s) stats.
Proof. exact (one_record_per_step svs). Qed.
Print Assumptions C14_one_record_per_step.

(* add_to_stats: the key carries the restart count of the latest refresh (last write wins) *)
Theorem C14_add_to_stats_key {V} k (v : V) h r k' :
  dict_get k' (h_stats (add_to_stats k v (hook_refresh (Some r) h))) =
  if entry_eqb (with_nr k r) k' then Some v else dict_get k' (h_stats h).
Proof. exact (add_to_stats_key k v h r k'). Qed.
Print Assumptions C14_add_to_stats_key.

(* without refresh (LogWork.post_step) the key carries the counter left by the previous callback *)
Theorem C14_add_to_stats_stale {V} k (v : V) h :
  dict_get (with_nr k (h_nr h)) (h_stats (add_to_stats k v h)) = Some v.
Proof. exact (add_to_stats_stale k v h). Qed.
Print Assumptions C14_add_to_stats_stale.

(* Controller.return_stats: the last hook holding a key provides the value; keys of other hooks survive *)
Theorem C14_return_stats_last_wins {V} (pre post : list (hook V)) h k v :
  Forall (fun h => wf (h_stats h)) (pre ++ h :: post) ->
  dict_get k (h_stats h) = Some v ->
  (forall h', In h' post -> dict_get k (h_stats h') = None) ->
  dict_get k (return_stats (pre ++ h :: post)) = Some v.
Proof. exact (return_stats_last_wins pre post h k v). Qed.
Print Assumptions C14_return_stats_last_wins.

Theorem C14_get_list_of_types_spec {V} (d : dict V) :
  NoDup (get_list_of_types d) /\
  forall ty, In ty (get_list_of_types d) <-> exists kv, In kv d /\ e_type (fst kv) = ty.
Proof. exact (get_list_of_types_spec d). Qed.
Print Assumptions C14_get_list_of_types_spec.

(* the integer image of float times used by the model is order- and equality-exact *)
Theorem C14_tz_order m1 e1 m2 e2 : -1074 <= e1 -> -1074 <= e2 ->
  (tz m1 e1 <= tz m2 e2 <-> (D2Q (Dy m1 e1) <= D2Q (Dy m2 e2))%Q).
Proof. exact (tz_order m1 e1 m2 e2). Qed.
Print Assumptions C14_tz_order.

(* Controller.add_hook: every requested hook class ends up registered exactly once (exact-class membership),
   independently of subclasses already present *)
Theorem C14_add_hooks_spec requests hooks :
  NoDup hooks ->
  NoDup (add_hooks requests hooks) /\
  (forall c, In c (add_hooks requests hooks) <-> In c hooks \/ In c requests) /\
  exists tail, add_hooks requests hooks = hooks ++ tail.
Proof. exact (add_hooks_spec requests hooks). Qed.
Print Assumptions C14_add_hooks_spec.
