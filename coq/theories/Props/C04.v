(* C04 — property theorems only.  Each is closed by [exact] of a lemma proved in
   Proofs/OrderProofs.v and followed by Print Assumptions. *)
From Coq Require Import ZArith QArith Qabs List Bool.
From PySDC Require Import Base.Dyadic Model.Order Proofs.OrderProofs.
Import ListNotations.
Open Scope Q_scope.

(* (1) Neumann expansion: for EVERY stage matrix A, weights b, every z and every solution Y of the
   stage system Y = 1 + z A Y, the stability function 1 + z b.Y equals its Taylor polynomial with
   coefficients [stab_coef] = b . A^(j-1) 1 plus an explicit O(z^(N+1)) remainder. *)
Theorem C04_neumann_expansion : forall n A e z Y,
  (forall i, Y i == e i + z * mv n A Y i) ->
  forall N i, Y i == bigsum N (fun j => zpow z j * mpow n A j e i) + zpow z N * mpow n A N Y i.
Proof. exact neumann_expansion. Qed.
Print Assumptions C04_neumann_expansion.

Theorem C04_stability_expansion : forall n A b z Y,
  (forall i, Y i == 1 + z * mv n A Y i) ->
  forall N, 1 + z * vdot n b Y ==
            bigsum (S N) (fun j => zpow z j * stab_coef n A b j) + zpow z (S N) * vdot n b (mpow n A N Y).
Proof. exact stability_expansion. Qed.
Print Assumptions C04_stability_expansion.

(* (2) one sweep propagates the error by (I - z QD)^-1 z (Q - QD); fixed points are collocation solutions *)
Theorem C04_error_propagation : forall n Qm QD z U U' Uc,
  is_sweep n Qm QD z U U' -> is_coll n Qm z Uc ->
  forall i, (U' i - Uc i) - z * mv n QD (fun j => U' j - Uc j) i == z * mv n (msub Qm QD) (fun j => U j - Uc j) i.
Proof. exact error_propagation. Qed.
Print Assumptions C04_error_propagation.

Theorem C04_fixed_point_is_collocation : forall n Qm QD z U,
  is_sweep n Qm QD z U U -> is_coll n Qm z U.
Proof. exact fixed_point_is_collocation. Qed.
Print Assumptions C04_fixed_point_is_collocation.

(* (3) ORDER GAIN, formal power series: for every number of nodes, every Q, every sequence of
   preconditioners (any matrices), the Taylor coefficients m <= k of the k-th iterate from the spread
   initial guess are those of the collocation solution.  Hence uend/u0 matches the collocation
   stability function through order k+1 (collocation update) resp. k (last node). *)
Theorem C04_order_gain_series : forall n Qm QD k m, (m <= k)%nat ->
  forall i, Tser n Qm QD k m i == mpow n Qm m ones i.
Proof. exact order_gain_series. Qed.
Print Assumptions C04_order_gain_series.

Theorem C04_sdc_order_upd : forall n Qm QD w k j, (j <= S k)%nat ->
  sdc_coef_upd n Qm QD w k j == stab_coef n Qm w j.
Proof. exact sdc_order_upd. Qed.
Print Assumptions C04_sdc_order_upd.

Theorem C04_sdc_order_last : forall n Qm QD k j, (j <= k)%nat ->
  sdc_coef_last n Qm QD k j == stage_coef n Qm (n - 1) j.
Proof. exact sdc_order_last. Qed.
Print Assumptions C04_sdc_order_last.

(* (4) ORDER GAIN for the actual iterates: U^k - U_c = z^(k+1) g_k, g_k given by triangular solves only *)
Theorem C04_order_gain : forall n Qm QD z (U G : nat -> vec) Uc,
  (forall k, lower_tri n (QD k)) -> (forall k i, (i < n)%nat -> ~ 1 - z * QD k i i == 0) ->
  veq (U 0%nat) ones -> (forall k, is_sweep n Qm (QD k) z (U k) (U (S k))) -> is_coll n Qm z Uc ->
  (forall i, G 0%nat i == - mv n Qm Uc i) ->
  (forall k i, (i < n)%nat -> G (S k) i - z * mv n (QD k) (G (S k)) i == mv n (msub Qm (QD k)) (G k) i) ->
  forall k i, (i < n)%nat -> U k i - Uc i == zpow z (S k) * G k i.
Proof. exact order_gain. Qed.
Print Assumptions C04_order_gain.

(* ... and the iterates equal their truncated formal series up to z^(N+1) times a triangular-solve cofactor *)
Theorem C04_series_remainder : forall n Qm QD z (U H : nat -> vec) N,
  (forall k, lower_tri n (QD k)) -> (forall k i, (i < n)%nat -> ~ 1 - z * QD k i i == 0) ->
  veq (U 0%nat) ones -> (forall k, is_sweep n Qm (QD k) z (U k) (U (S k))) ->
  (forall i, H 0%nat i == 0) ->
  (forall k i, (i < n)%nat -> H (S k) i - z * mv n (QD k) (H (S k)) i
                             == z * mv n (msub Qm (QD k)) (H k) i + Tser n Qm QD (S k) (S N) i) ->
  forall k i, (i < n)%nat -> U k i == trunc n Qm QD z k (S N) i + zpow z (S N) * H k i.
Proof. exact series_remainder. Qed.
Print Assumptions C04_series_remainder.

(* (5) pattern-A validators (run by the check on tables regenerated from the live classes) *)
Theorem C04_check_order_sound : forall A b p tol, check_order A b p tol = true ->
  forall j, (1 <= j <= p)%nat ->
  Qabs (stab_coef (length A) (mofl A) (vofl b) j - 1 / qfact j) <= D2Q tol.
Proof. exact check_order_sound. Qed.
Print Assumptions C04_check_order_sound.

Theorem C04_rk_order : forall A b p tol, check_order A b p tol = true ->
  let n := length A in
  forall z Y, (forall i, Y i == 1 + z * mv n (mofl A) Y i) ->
  (1 + z * vdot n (vofl b) Y ==
     bigsum (S p) (fun j => zpow z j * stab_coef n (mofl A) (vofl b) j)
     + zpow z (S p) * vdot n (vofl b) (mpow n (mofl A) p Y))
  /\ forall j, (1 <= j <= p)%nat -> Qabs (stab_coef n (mofl A) (vofl b) j - 1 / qfact j) <= D2Q tol.
Proof. exact rk_order. Qed.
Print Assumptions C04_rk_order.

Theorem C04_check_embedded_sound : forall A b1 b2 q tol, check_embedded A b1 b2 q tol = true ->
  forall j, (1 <= j < q)%nat ->
  Qabs (stab_coef (length A) (mofl A) (vofl b1) j - stab_coef (length A) (mofl A) (vofl b2) j) <= D2Q tol.
Proof. exact check_embedded_sound. Qed.
Print Assumptions C04_check_embedded_sound.

Theorem C04_check_series_sound : forall A b g ts tol, check_series A b g ts tol = true ->
  forall j, (j < length ts)%nat ->
  (0 < nth j ts 1)%Z /\
  Qabs (vdot (length A) (vofl b) (mpow (length A) (mofl A) j (vofl g)) - 1 / inject_Z (nth j ts 1%Z)) <= D2Q tol.
Proof. exact check_series_sound. Qed.
Print Assumptions C04_check_series_sound.

(* IMEX Runge-Kutta: every coefficient of zI^a zE^b, a + b <= p, of the bivariate stability function
   is within tol of 1/(a! b!) *)
Theorem C04_check_order_imex_sound : forall AI AE bI bE p tol, check_order_imex AI AE bI bE p tol = true ->
  forall a b, (a + b <= p)%nat ->
  Qabs (imex_coef (length AI) (mofl AI) (mofl AE) (vofl bI) (vofl bE) a b - 1 / (qfact a * qfact b)) <= D2Q tol.
Proof. exact check_order_imex_sound. Qed.
Print Assumptions C04_check_order_imex_sound.

Theorem C04_check_embedded_imex_sound : forall AI AE bI1 bE1 bI2 bE2 q tol,
  check_embedded_imex AI AE bI1 bE1 bI2 bE2 q tol = true ->
  forall a b, (a + b < q)%nat ->
  Qabs (imex_coef (length AI) (mofl AI) (mofl AE) (vofl bI1) (vofl bE1) a b
        - imex_coef (length AI) (mofl AI) (mofl AE) (vofl bI2) (vofl bE2) a b) <= D2Q tol.
Proof. exact check_embedded_imex_sound. Qed.
Print Assumptions C04_check_embedded_imex_sound.

(* IMEX: the bivariate table really is the expansion of the IMEX stability function
   R = 1 + zI bI.Y + zE bE.Y with Y = 1 + zI AI Y + zE AE Y (homogeneous parts + explicit remainder) *)
Theorem C04_eval_table_is_power : forall n AI AE zI zE j i,
  Hdeg n AI AE zI zE j i == mpow n (madd (mscal zI AI) (mscal zE AE)) j ones i.
Proof. exact eval_table_is_power. Qed.
Print Assumptions C04_eval_table_is_power.

Theorem C04_imex_stability_expansion : forall n AI AE bI bE zI zE Y,
  (forall i, Y i == 1 + (zI * mv n AI Y i + zE * mv n AE Y i)) ->
  forall N,
  1 + (zI * vdot n bI Y + zE * vdot n bE Y)
  == bigsum (S N) (fun j => Cdeg n AI AE bI bE zI zE j)
     + (zI * vdot n bI (mpow n (madd (mscal zI AI) (mscal zE AE)) N Y)
        + zE * vdot n bE (mpow n (madd (mscal zI AI) (mscal zE AE)) N Y)).
Proof. exact imex_stability_expansion. Qed.
Print Assumptions C04_imex_stability_expansion.

(* (6) the coefficient lists the check prints (and compares with the FFT of the real runs) are the
   formal Taylor coefficients of uend/u0 after k sweeps with the sweeper's actual QDelta matrices *)
Theorem C04_dsdc_coefs_sound : forall Qm QDs w N (QDf : nat -> mat),
  let n := length Qm in
  square n Qm = true -> (length w <= n)%nat ->
  (forall s, (s < length QDs)%nat -> square n (nth s QDs []) = true /\ forall i j, QDf s i j == mofl (nth s QDs []) i j) ->
  forall k j, (k <= length QDs)%nat -> (j < N)%nat ->
  D2Q (nth j (nth k (dsdc_coefs_upd Qm QDs w N) []) d0) == sdc_coef_upd n (mofl Qm) QDf (vofl w) k j.
Proof. exact dsdc_coefs_upd_sound. Qed.
Print Assumptions C04_dsdc_coefs_sound.

Theorem C04_dsdc_coefs_last_sound : forall Qm QDs N (QDf : nat -> mat),
  let n := length Qm in
  square n Qm = true -> (0 < n)%nat ->
  (forall s, (s < length QDs)%nat -> square n (nth s QDs []) = true /\ forall i j, QDf s i j == mofl (nth s QDs []) i j) ->
  forall k j, (k <= length QDs)%nat -> (j < N)%nat ->
  D2Q (nth j (nth k (dsdc_coefs_last Qm QDs N) []) d0) == sdc_coef_last n (mofl Qm) QDf k j.
Proof. exact dsdc_coefs_last_sound. Qed.
Print Assumptions C04_dsdc_coefs_last_sound.

(* non-vacuity of the hypotheses of C04_order_gain: a concrete instance (M = 1 midpoint rule, implicit Euler
   preconditioner, z = 1/2) satisfying all of them, with the conclusion *)
Example C04_order_gain_instance :
  let n := 1%nat in
  let Qm : mat := fun _ _ => 1 # 2 in
  let QD : nat -> mat := fun _ _ _ => 1 in
  let z : Q := 1 # 2 in
  let U : nat -> vec := fun k _ => (4 # 3) - (1 # 3) * zpow (- (1 # 2)) k in
  let Uc : vec := fun _ => 4 # 3 in
  let G : nat -> vec := fun k _ => - (2 # 3) * zpow (- (1)) k in
  (forall k, lower_tri n (QD k)) /\ (forall k i, (i < n)%nat -> ~ 1 - z * QD k i i == 0) /\
  veq (U 0%nat) ones /\ (forall k, is_sweep n Qm (QD k) z (U k) (U (S k))) /\ is_coll n Qm z Uc /\
  (forall i, G 0%nat i == - mv n Qm Uc i) /\
  (forall k i, (i < n)%nat -> G (S k) i - z * mv n (QD k) (G (S k)) i == mv n (msub Qm (QD k)) (G k) i) /\
  (forall k i, (i < n)%nat -> U k i - Uc i == zpow z (S k) * G k i).
Proof. exact order_gain_instance. Qed.
Print Assumptions C04_order_gain_instance.

(* non-vacuity: the explicit midpoint rule passes the order-2 validator with zero tolerance (and not order 3) *)
Example C04_nonvacuous_validator :
  check_order [[d0; d0]; [Dy 1 (-1); d0]] [d0; d1] 2 d0 = true /\
  check_order [[d0; d0]; [Dy 1 (-1); d0]] [d0; d1] 3 (Dy 1 (-10)) = false.
Proof. vm_compute. split; reflexivity. Qed.
Print Assumptions C04_nonvacuous_validator.
