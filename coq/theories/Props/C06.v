(* C06 — property theorems only.  Each is closed by [exact] of a lemma proved in Proofs/TimeLoopProofs.v
   and followed by Print Assumptions.

   Model: Model/TimeLoop.v — the time/slot bookkeeping of controller_nonMPI.run (and controller_ParaDiag_nonMPI.run
   with paradiag = true), generic in the number type T (add, sub, ltb, zero, Python's sum(): NO laws) and the value
   type V; the block (pfasst + convergence controllers) is an oracle returning restart flags, u[0]/uend of the
   active steps and the new step sizes.
   `s_pfx st = true` : in every block the active slots were 0..a-1 (computed by the model itself; evaluated by the
                       Coq kernel in every correspondence run of the check).
   `contract dV orc` : the block starts its first step from the value handed in and every later step from the end
                       value of its predecessor (checked on the implementation by the harness oracle). *)
From Coq Require Import List Bool Arith ZArith Lia PrimFloat.
From PySDC Require Import Model.TimeLoop Proofs.TimeLoopProofs.
Import ListNotations.

(* tiling, no law on T: consecutive accepted steps satisfy  start_{n+1} = add start_n dt_n  LITERALLY (hence
   bit-exactly for doubles) — except that start times computed in the first block are  add t0 (sum(dt_0..dt_{p-1}))
   (second alternative of `link`); the first accepted step starts at add t0 (sum []) *)
Theorem C06_tiling_chain : forall T V (add sub : T -> T -> T) ltb zero sumT (dV : V) orc fuel t0 tend tol dts u0 uend st,
  contract dV orc -> run add sub ltb zero sumT dV false orc fuel t0 tend tol dts u0 = Finished uend st -> s_pfx st = true ->
  tiled add zero sumT t0 dts (s_acc st) /\
  (forall x, hd_error (s_acc st) = Some x -> a_start x = add t0 (psum sumT dts 0)).
Proof. exact tiling_chain. Qed.
Print Assumptions C06_tiling_chain.

(* with an associative addition and sum() the left fold (exact arithmetic) the tiling is literal throughout *)
Theorem C06_tiling_exact : forall T V (add sub : T -> T -> T) ltb zero sumT (dV : V) orc,
  (forall a b c, add (add a b) c = add a (add b c)) -> (forall l x, sumT (l ++ [x]) = add (sumT l) x) ->
  forall fuel t0 tend tol dts u0 uend st,
  contract dV orc -> run add sub ltb zero sumT dV false orc fuel t0 tend tol dts u0 = Finished uend st -> s_pfx st = true ->
  adj (fun x y : acc T V => a_start y = add (a_start x) (a_dt x)) (s_acc st).
Proof. exact tiling_exact. Qed.
Print Assumptions C06_tiling_exact.

(* full-strength tiling for doubles is REFUTED by the faithful model: in the first block the start of slot 2,
   t0 + sum([dt, dt]), differs from the end (t0 + dt) + dt of slot 1 (t0 = 0.2, dt = 0.05, 3 slots) *)
Theorem C06_tiling_float_refuted :
  match frun false counting_oracle 20 0x1.999999999999ap-3%float 0.5%float ftol
             [0x1.999999999999ap-5; 0x1.999999999999ap-5; 0x1.999999999999ap-5]%float 0 with
  | Finished _ st =>
      s_pfx st = true /\
      exists x y, nth_error (s_acc st) 1 = Some x /\ nth_error (s_acc st) 2 = Some y /\
                  PrimFloat.eqb (a_start y) (PrimFloat.add (a_start x) (a_dt x)) = false
  | _ => False
  end.
Proof. exact tiling_float_refuted. Qed.
Print Assumptions C06_tiling_float_refuted.

(* chaining: every accepted step starts from the end value of the previous accepted step, the first from the caller's
   value, and the returned value is the end value of the last accepted step *)
Theorem C06_chain : forall T V (add sub : T -> T -> T) ltb zero sumT (dV : V) orc fuel t0 tend tol dts u0 uend st,
  contract dV orc -> run add sub ltb zero sumT dV false orc fuel t0 tend tol dts u0 = Finished uend st -> s_pfx st = true ->
  chainedV (s_acc st) /\
  (forall x, hd_error (s_acc st) = Some x -> a_u0 x = u0) /\
  match lastopt (s_acc st) with Some x => uend = a_uend x | None => uend = u0 end.
Proof. exact chain. Qed.
Print Assumptions C06_chain.

(* no accepted step starts at or beyond Tend - tol (no hypothesis on the oracle, no law on T) *)
Theorem C06_no_start_beyond : forall T V (add sub : T -> T -> T) ltb zero sumT (dV : V) orc fuel t0 tend tol dts u0 uend st,
  run add sub ltb zero sumT dV false orc fuel t0 tend tol dts u0 = Finished uend st ->
  forall a, In a (s_acc st) -> ltb (a_start a) (sub tend tol) = true.
Proof. exact (fun T V add sub ltb zero sumT dV orc fuel t0 tend tol dts u0 uend st =>
         @no_start_beyond T V add sub ltb zero sumT dV false orc fuel t0 tend tol dts u0 uend st eq_refl). Qed.
Print Assumptions C06_no_start_beyond.

(* the run does not stop early: the end of the last accepted step is not before Tend - tol *)
Theorem C06_reaches_Tend : forall T V (add sub : T -> T -> T) ltb zero sumT (dV : V) orc fuel t0 tend tol dts u0 uend st,
  contract dV orc -> run add sub ltb zero sumT dV false orc fuel t0 tend tol dts u0 = Finished uend st -> s_pfx st = true ->
  exists t, nexts add zero sumT t0 dts (s_acc st) t /\ ltb t (sub tend tol) = false.
Proof. exact reaches_Tend. Qed.
Print Assumptions C06_reaches_Tend.

(* exact step count for integer time and a fixed step d, whatever the number P of steps per block: a finished
   run has N accepted steps with  t0 + (N-1) d < Tend - tol <= t0 + N d  (for d > 0: N = ceil((Tend - tol - t0)/d)) *)
Theorem C06_count_exact : forall (P : nat) (d t0 tend tol : Z),
  forall fuel uend st,
  run Z.add Z.sub Z.ltb 0%Z (fold_sum Z.add 0%Z) 0 false counting_oracle fuel t0 tend tol (repeat d P) 0 = Finished uend st ->
  s_pfx st = true ->
  let N := Z.of_nat (length (s_acc st)) in
  (0 < N /\ t0 + (N - 1) * d < tend - tol /\ tend - tol <= t0 + N * d)%Z.
Proof. exact count_exact. Qed.
Print Assumptions C06_count_exact.

(* ... and REFUTED for doubles: t0 = 0, dt = 0.1, Tend = 10 gives 101 steps; the 101st starts at 9.99999999999998 *)
Theorem C06_count_float_refuted :
  match frun false (fixed_oracle [f01]) 200 0%float 10%float ftol [f01] 0 with
  | Finished _ st => length (s_acc st) = 101 /\ s_pfx st = true /\
                     (exists x, lastopt (s_acc st) = Some x /\
                                PrimFloat.ltb (a_start x) (PrimFloat.sub 10%float ftol) = true /\
                                PrimFloat.eqb (a_start x) 0x1.3fffffffffff5p+3%float = true)
  | _ => False
  end.
Proof. exact count_float_101. Qed.
Print Assumptions C06_count_float_refuted.

(* controller_ParaDiag_nonMPI (whole block activated): a step is started beyond Tend *)
Theorem C06_paradiag_start_beyond_refuted :
  match frun true counting_oracle 20 0%float 0.25%float ftol [f01; f01; f01; f01] 0 with
  | Finished _ st => exists x, In x (s_acc st) /\ PrimFloat.ltb (a_start x) 0.25%float = false
  | _ => False
  end.
Proof. exact paradiag_start_beyond. Qed.
Print Assumptions C06_paradiag_start_beyond_refuted.

(* non-vacuity: the counting oracle satisfies the contract, and an integer run (3 slots, d = 2, t0 = 0, Tend - tol = 10)
   finishes with s_pfx = true and 5 accepted steps *)
Theorem C06_contract_satisfiable : forall T, contract 0 (@counting_oracle T).
Proof. exact counting_contract. Qed.
Print Assumptions C06_contract_satisfiable.

Example C06_nonvacuous :
  match run Z.add Z.sub Z.ltb 0%Z (fold_sum Z.add 0%Z) 0 false counting_oracle 20 0%Z 11%Z 1%Z (repeat 2%Z 3) 0 with
  | Finished u st => s_pfx st = true /\ length (s_acc st) = 5 /\ u = 5
  | _ => False
  end.
Proof. vm_compute. auto. Qed.
Print Assumptions C06_nonvacuous.
