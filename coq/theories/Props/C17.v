(* C17 — spectral helper matrices agree with exact polynomial / Fourier calculus: property theorems only.
   Each is closed by [exact] of a lemma of Proofs/SpectralProofs.v and followed by Print Assumptions.
   Notation: chebT n / chebU n are the coefficient lists of T_n / U_n (three-term recurrence), pseries b c N is the
   polynomial sum_{j<N} c_j b_j, peq is coefficientwise equality (it implies equal values: C17_peq_values),
   pderiv / pint the formal derivative / antiderivative, mv N M c the matrix-vector product, and DT, T2U, U2T, ...
   the entry formulas of the helper's matrices (Model/Spectral.v) that every run compares with the live code. *)
From Coq Require Import ZArith QArith Qabs List Bool.
From PySDC Require Import Base.Dyadic Base.Poly Model.Spectral Proofs.SpectralProofs.
Import ListNotations.
Open Scope Q_scope.

Theorem C17_peq_values : forall p q x, peq p q -> peval p x == peval q x.
Proof. exact peval_peq. Qed.
Print Assumptions C17_peq_values.

(* differentiation in the T basis, every N, every coefficient vector *)
Theorem C17_cheb_diff_correct : forall N c,
  peq (pderiv (pseries chebT c N)) (pseries chebT (mv N DT c) N).
Proof. exact cheb_diff_correct. Qed.
Print Assumptions C17_cheb_diff_correct.

(* the operator returned on an interval [x0, x1] (D^p / fac^p, fac = (x1-x0)/2, off = (x1+x0)/2) differentiates the
   series in the mapped basis T_j((y - off)/fac); pcomp_aff a b p is p(a X + b) (C17_pcomp_aff_value) *)
Theorem C17_cheb_diff_mapped : forall N c fac off p, ~ fac == 0 ->
  peq (pderiv_n p (pcomp_aff (/ fac) (- off / fac) (pseries chebT c N)))
      (pcomp_aff (/ fac) (- off / fac) (pseries chebT (mv N (DTp N fac p) c) N)).
Proof. exact cheb_diff_mapped. Qed.
Print Assumptions C17_cheb_diff_mapped.

Theorem C17_pcomp_aff_value : forall a b p y, peval (pcomp_aff a b p) y == peval p (a * y + b).
Proof. exact peval_pcomp_aff. Qed.
Print Assumptions C17_pcomp_aff_value.

(* basis conversions represent the same polynomial *)
Theorem C17_T2U_correct : forall N c, peq (pseries chebT c N) (pseries chebU (mv N T2U c) N).
Proof. exact T2U_correct. Qed.
Print Assumptions C17_T2U_correct.

Theorem C17_U2T_correct : forall N c, peq (pseries chebU c N) (pseries chebT (mv N U2T c) N).
Proof. exact U2T_correct. Qed.
Print Assumptions C17_U2T_correct.

(* boundary rows (reference coordinates -1, 0, 1) *)
Theorem C17_dirichlet_row_is_evaluation : forall N c b,
  peval (pseries chebT c N) (bpt_Q b) == bigsum (fun j => dir_row b j * c j) N.
Proof. exact dirichlet_row_is_evaluation. Qed.
Print Assumptions C17_dirichlet_row_is_evaluation.

Theorem C17_neumann_row_is_derivative : forall N c b, b <> B0 ->
  peval (pderiv (pseries chebT c N)) (bpt_Q b) == bigsum (fun j => neu_row b j * c j) N.
Proof. exact neumann_row_is_derivative. Qed.
Print Assumptions C17_neumann_row_is_derivative.

Theorem C17_integ_row_is_integral : forall N c,
  pdefint (pseries chebT c N) (-(1)) 1 == bigsum (fun j => integ_row j * c j) N.
Proof. exact integ_row_is_integral. Qed.
Print Assumptions C17_integ_row_is_integral.

Theorem C17_weights_carry_interval : forall L n, ~ L == 0 -> wT L n == (L / 2) * integ_row n.
Proof. exact wT_integ. Qed.
Print Assumptions C17_weights_carry_interval.

(* N-D operators: Kronecker products act as tensor products *)
Theorem C17_kron_is_tensor : forall n1 n2 (A B : mat) (X : nat -> nat -> Q) i1 i2, (i2 < n2)%nat ->
  mv (n1 * n2) (kron n2 A B) (fun r => X (r / n2)%nat (r mod n2)%nat) (i1 * n2 + i2)
  == bigsum (fun j1 => bigsum (fun j2 => A i1 j1 * B i2 j2 * X j1 j2) n2) n1.
Proof. exact kron_is_tensor. Qed.
Print Assumptions C17_kron_is_tensor.

(* conversions are mutually inverse (entries below N) *)
Theorem C17_U2T_inverse : forall N k j, (k < N)%nat -> (j < N)%nat ->
  mmul N U2T T2U k j == mI k j /\ mmul N T2U U2T k j == mI k j.
Proof. exact U2T_inverse. Qed.
Print Assumptions C17_U2T_inverse.

(* p-th derivative = p-th matrix power (what get_differentiation_matrix(p) computes) *)
Theorem C17_cheb_diff_p_correct : forall N c p,
  peq (pderiv_n p (pseries chebT c N)) (pseries chebT (mv N (mpow N DT p) c) N).
Proof. exact cheb_diff_p_correct. Qed.
Print Assumptions C17_cheb_diff_p_correct.

(* sparse ultraspherical operator = conversions applied to the dense Chebyshev operator, every N and order *)
Theorem C17_ultra_matches_dense : forall N p, (1 <= p)%nat ->
  forall k j, (k < N)%nat -> (j < N)%nat -> mmul N (Ubc N 0 p) (mpow N DT p) k j == UD 1 p k j.
Proof. exact ultra_matches_dense. Qed.
Print Assumptions C17_ultra_matches_dense.

(* integration matrix (reference interval): D * S = I on polynomials of degree < N - 1, every N *)
Theorem C17_cheb_int_is_right_inverse : forall N k j, (k < N)%nat -> (j + 1 < N)%nat ->
  mmul N DT (ST 1) k j == mI k j.
Proof. exact cheb_int_is_right_inverse. Qed.
Print Assumptions C17_cheb_int_is_right_inverse.

Theorem C17_cheb_int_then_diff : forall N c, (1 <= N)%nat -> c (N - 1)%nat == 0 ->
  peq (pderiv (pseries chebT (mv N (ST 1) c) N)) (pseries chebT c N).
Proof. exact cheb_int_then_diff. Qed.
Print Assumptions C17_cheb_int_then_diff.

(* backward basis changes (the code inverts numerically; the model uses the closed form) *)
Theorem C17_S_inverse : forall N lam k j, (k < N)%nat -> (j < N)%nat -> mmul N (US lam) (USinv lam) k j == mI k j.
Proof. exact US_USinv. Qed.
Print Assumptions C17_S_inverse.

Theorem C17_basis_change_inverse : forall N d lo k j, (k < N)%nat -> (j < N)%nat ->
  mmul N (Ubc N lo d) (Ubc_inv N lo d) k j == mI k j.
Proof. exact Ubc_Ubc_inv. Qed.
Print Assumptions C17_basis_change_inverse.

(* ultraspherical operators in the Gegenbauer bases; the Gegenbauer identities are validated by kernel computation
   for every degree < 64 (hence _upto64); lam = 0 (T -> U) is C17_T2U_correct for every N *)
Theorem C17_ultra_diff_correct_upto64 : forall N p c, (N <= 64)%nat -> (p = 1 \/ p = 2 \/ p = 3)%nat ->
  peq (pderiv_n p (pseries chebT c N)) (pseries (geg p) (mv N (UD 1 p) c) N).
Proof. exact ultra_diff_correct_upto64. Qed.
Print Assumptions C17_ultra_diff_correct_upto64.

Theorem C17_ultra_S_correct_upto64 : forall N lam c, (N <= 64)%nat -> (lam = 1 \/ lam = 2)%nat ->
  peq (pseries (geg lam) c N) (pseries (geg (S lam)) (mv N (US lam) c) N).
Proof. exact ultra_S_correct_upto64. Qed.
Print Assumptions C17_ultra_S_correct_upto64.

Theorem C17_ultra_diff_mapped_upto64 : forall N p c fac off, (N <= 64)%nat -> (p = 1 \/ p = 2 \/ p = 3)%nat -> ~ fac == 0 ->
  peq (pderiv_n p (pcomp_aff (/ fac) (- off / fac) (pseries chebT c N)))
      (pcomp_aff (/ fac) (- off / fac) (pseries (geg p) (mv N (UD fac p) c) N)).
Proof. exact ultra_diff_mapped_upto64. Qed.
Print Assumptions C17_ultra_diff_mapped_upto64.

(* Fourier: fftfreq ordering, (i k)^p, integration inverts differentiation off the zero mode *)
Theorem C17_wavenumbers : forall N j, (j < N)%nat ->
  ((wavenum N j - Z.of_nat j) mod Z.of_nat N = 0 /\ - Z.of_nat N <= 2 * wavenum N j < Z.of_nat N)%Z.
Proof. exact wavenum_spec. Qed.
Print Assumptions C17_wavenumbers.

Theorem C17_fourier_diff_power : forall k p, ceq (cpow (0, k) p)
  (match (p mod 4)%nat with 0%nat => (Qpown k p, 0) | 1%nat => (0, Qpown k p) | 2%nat => (- Qpown k p, 0) | _ => (0, - Qpown k p) end).
Proof. exact FD_power. Qed.
Print Assumptions C17_fourier_diff_power.

Theorem C17_fourier_int_inverts_diff : forall k p, ~ k == 0 -> ceq (cmul (cpow (cinv (0, k)) p) (cpow (0, k) p)) (1, 0).
Proof. exact FS_FD_inverse. Qed.
Print Assumptions C17_fourier_int_inverts_diff.

(* the evaluated tables compared with the live code are the matrices the theorems speak about *)
Theorem C17_tables_are_model : forall N,
  (forall fac p, meq N (tget (DTp_tab N fac p)) (DTp N fac p)) /\
  (forall lo d, meq N (tget (Ubc_tab N lo d)) (Ubc N lo d)) /\
  (forall lo d, meq N (tget (Ubc_inv_tab N lo d)) (Ubc_inv N lo d)).
Proof. exact tables_are_model. Qed.
Print Assumptions C17_tables_are_model.

(* non-vacuity: T_3 = 4x^3 - 3x, its derivative through D, and a concrete instance of the _upto64 hypotheses *)
Example C17_nonvacuous :
  map Qred (chebT 3) = [0; -(3); 0; 4] /\
  map Qred (tabv 4 (mv 4 DT (fun j => if Nat.eqb j 3 then 1 else 0))) = [3; 0; 6; 0] /\
  map Qred (geg 2 2) = [-(2); 0; 12].
Proof. vm_compute. repeat split. Qed.
Print Assumptions C17_nonvacuous.
