(* C17 — spectral helper matrices agree with exact polynomial / Fourier calculus: property theorems only.
   Each is closed by [exact] of a lemma of Proofs/SpectralProofs.v and followed by Print Assumptions.
   Notation: chebT n / chebU n are the coefficient lists of T_n / U_n (three-term recurrence), pseries b c N is the
   polynomial sum_{j<N} c_j b_j, peq is coefficientwise equality (it implies equal values: C17_peq_values),
   pderiv / pint the formal derivative / antiderivative, mv N M c the matrix-vector product, and DT, T2U, U2T, ...
   the entry formulas of the helper's matrices (Model/Spectral.v) that every run compares with the live code. *)
From Coq Require Import ZArith QArith Qabs List Bool.
From PySDC Require Import Base.Dyadic Base.Poly Model.Spectral Proofs.SpectralProofs.
Import ListNotations.
Open Scope Q_scope.

Theorem C17_peq_values : forall p q x, peq p q -> peval p x == peval q x.
Proof. exact peval_peq. Qed.
Print Assumptions C17_peq_values.

(* differentiation in the T basis, every N, every coefficient vector *)
Theorem C17_cheb_diff_correct : forall N c,
  peq (pderiv (pseries chebT c N)) (pseries chebT (mv N DT c) N).
Proof. exact cheb_diff_correct. Qed.
Print Assumptions C17_cheb_diff_correct.

(* basis conversions represent the same polynomial *)
Theorem C17_T2U_correct : forall N c, peq (pseries chebT c N) (pseries chebU (mv N T2U c) N).
Proof. exact T2U_correct. Qed.
Print Assumptions C17_T2U_correct.

Theorem C17_U2T_correct : forall N c, peq (pseries chebU c N) (pseries chebT (mv N U2T c) N).
Proof. exact U2T_correct. Qed.
Print Assumptions C17_U2T_correct.

(* boundary rows (reference coordinates -1, 0, 1) *)
Theorem C17_dirichlet_row_is_evaluation : forall N c b,
  peval (pseries chebT c N) (bpt_Q b) == bigsum (fun j => dir_row b j * c j) N.
Proof. exact dirichlet_row_is_evaluation. Qed.
Print Assumptions C17_dirichlet_row_is_evaluation.

Theorem C17_neumann_row_is_derivative : forall N c b, b <> B0 ->
  peval (pderiv (pseries chebT c N)) (bpt_Q b) == bigsum (fun j => neu_row b j * c j) N.
Proof. exact neumann_row_is_derivative. Qed.
Print Assumptions C17_neumann_row_is_derivative.

Theorem C17_integ_row_is_integral : forall N c,
  pdefint (pseries chebT c N) (-(1)) 1 == bigsum (fun j => integ_row j * c j) N.
Proof. exact integ_row_is_integral. Qed.
Print Assumptions C17_integ_row_is_integral.

Theorem C17_weights_carry_interval : forall L n, ~ L == 0 -> wT L n == (L / 2) * integ_row n.
Proof. exact wT_integ. Qed.
Print Assumptions C17_weights_carry_interval.

(* N-D operators: Kronecker products act as tensor products *)
Theorem C17_kron_is_tensor : forall n1 n2 (A B : mat) (X : nat -> nat -> Q) i1 i2, (i2 < n2)%nat ->
  mv (n1 * n2) (kron n2 A B) (fun r => X (r / n2)%nat (r mod n2)%nat) (i1 * n2 + i2)
  == bigsum (fun j1 => bigsum (fun j2 => A i1 j1 * B i2 j2 * X j1 j2) n2) n1.
Proof. exact kron_is_tensor. Qed.
Print Assumptions C17_kron_is_tensor.
