(* C03 — property theorems only. *)
From Coq Require Import List Arith Bool Ring.
From PySDC Require Import Model.Sweep Model.Stopping Proofs.SweepProofs Proofs.StoppingProofs.
Import ListNotations.

(* (1) the residual vector compute_residual builds IS the collocation defect
       u0 + dt*Q*F(U) + tau - U   evaluated on the node values the level holds — any commutative
       ring, any number of right-hand-side parts, any M, with and without tau. *)
Section C03_residual.
  Context {K : Type} (kO kI : K) (kadd kmul ksub : K -> K -> K) (kopp : K -> K).
  Hypothesis Rth : ring_theory kO kI kadd kmul ksub kopp (@eq K).
  Context {X : Type}.
  Variable M : nat. Variable dt : K. Variable Q : nat -> nat -> K.
  Theorem C03_residual_is_defect : forall np (u : nat -> X -> K) f tau m x,
    residual_vec kO kadd kmul ksub M dt Q np u f tau m x
    = ksub (kadd (kadd (u 0 x) (kmul dt (sumf kO kadd (fun j => kmul (Q m j) (ftot kO kadd np (f j) x)) 1 M)))
                 (tauval kO tau m x)) (u m x).
  Proof. exact (residual_is_defect kO kI kadd kmul ksub kopp Rth M dt Q). Qed.
End C03_residual.
Print Assumptions C03_residual_is_defect.

(* (2) a step is declared finished only if the residual is within tolerance (after at least one
       sweep OR with a positive sweep counter — see the refutation below), or the budget is
       exhausted, or the error tolerance is hit, or a controller forces it; and never while
       continuation is forced *)
Theorem C03_done_sound : forall maxiter iter sweep i,
  conv maxiter iter sweep i = true ->
  fcont i = false /\
  ((res_ok i = true /\ (0 < iter \/ 0 < sweep)) \/ maxiter <= iter \/ e_ok i = true \/ fdone i = true).
Proof. exact conv_sound. Qed.
Print Assumptions C03_done_sound.

Theorem C03_force_continue_wins : forall maxiter iter sweep i, fcont i = true -> conv maxiter iter sweep i = false.
Proof. exact conv_force_continue. Qed.
Print Assumptions C03_force_continue_wins.

(* (3) the iteration counter never exceeds the budget unless continuation is forced: for every
       block size, every coupling (all_to_done or not) and EVERY history of per-step inputs *)
Theorem C03_iter_le_maxiter : forall maxiter sweep atd rounds k nrun,
  k <= maxiter ->
  (forall ins i, In ins rounds -> In i ins -> fcont i = false) ->
  forall n, In (Some n) (run_block maxiter sweep atd k nrun rounds) -> n <= maxiter.
Proof. exact iter_le_maxiter. Qed.
Print Assumptions C03_iter_le_maxiter.

(* (4) steps finish in slot order: done flags of a round form a prefix *)
Theorem C03_done_prefix : forall cs p i j, i <= j ->
  nth j (chain p cs) false = true -> nth i (chain p cs) false = true.
Proof. exact chain_prefix. Qed.
Print Assumptions C03_done_prefix.

(* (5) REFUTED clause "after at least one sweep": restart_block sets the sweep counter to 1, so the
       guard (iter > 0 or sweep > 0) is vacuous; a residual within tolerance at iteration 0 finishes
       the step before any sweep.  Full-strength statement that FAILS for the faithful model:
          forall i, conv maxiter 0 1 i = true -> maxiter = 0 \/ e_ok i = true \/ fdone i = true. *)
Theorem C03_sweep_guard_vacuous_refuted :
  exists maxiter i, conv maxiter 0 1 i = true /\ 0 < maxiter /\ e_ok i = false /\ fdone i = false.
Proof.
  exists 5, {| res_ok := true; e_ok := false; fdone := false; fcont := false |}.
  repeat split; auto with arith.
Qed.
Print Assumptions C03_sweep_guard_vacuous_refuted.

Theorem C03_guard_vacuous_general : forall maxiter sweep i,
  0 < sweep -> res_ok i = true -> fcont i = false -> conv maxiter 0 sweep i = true.
Proof. exact conv_guard_vacuous. Qed.
Print Assumptions C03_guard_vacuous_general.

(* non-vacuity: a 3-step block, maxiter 2, nobody converges: all finish with exactly 2 iterations *)
Example C03_nonvacuous :
  let no := {| res_ok := false; e_ok := false; fdone := false; fcont := false |} in
  run_block 2 1 false 0 3 [[no; no; no]; [no; no; no]; [no; no; no]] = [Some 2; Some 2; Some 2].
Proof. vm_compute. reflexivity. Qed.
Print Assumptions C03_nonvacuous.
