(* Dyadic numbers m * 2^e : the exact image of IEEE doubles, closed under + - *,
   with a ring homomorphism D2Q into Q (QArith), so validators can compute without
   any gcd while their soundness theorems are stated over Q. *)
From Coq Require Import ZArith QArith Qpower Qabs Lia List.
Import ListNotations.
Open Scope Z_scope.

Record dy := Dy { dm : Z; de : Z }.

Definition D2Q (d : dy) : Q := (inject_Z (dm d) * (2 ^ (de d)))%Q.

Definition dalign (a b : dy) : Z * Z * Z :=
  let e := Z.min (de a) (de b) in
  (dm a * 2 ^ (de a - e), dm b * 2 ^ (de b - e), e).

Definition dadd (a b : dy) : dy :=
  let '(x, y, e) := dalign a b in Dy (x + y) e.
Definition dopp (a : dy) : dy := Dy (- dm a) (de a).
Definition dsub (a b : dy) : dy := dadd a (dopp b).
Definition dmul (a b : dy) : dy := Dy (dm a * dm b) (de a + de b).
Definition dabs (a : dy) : dy := Dy (Z.abs (dm a)) (de a).
Definition dleb (a b : dy) : bool :=
  let '(x, y, _) := dalign a b in x <=? y.
Definition dltb (a b : dy) : bool :=
  let '(x, y, _) := dalign a b in x <? y.
Definition deqb (a b : dy) : bool :=
  let '(x, y, _) := dalign a b in x =? y.
Definition dZ (z : Z) : dy := Dy z 0.
Definition d0 : dy := Dy 0 0.
Definition d1 : dy := Dy 1 0.
Definition dpow2 (e : Z) : dy := Dy 1 e.

Fixpoint dpow (a : dy) (n : nat) : dy :=
  match n with O => d1 | S n' => dmul a (dpow a n') end.

Definition dsum (l : list dy) : dy := fold_right dadd d0 l.

(* ------------------------------------------------------------------ *)

Lemma two_neq0 : ~ (2 == 0)%Q.
Proof. intro H. discriminate H. Qed.

Lemma pow2_pos e : (0 < 2 ^ e)%Q.
Proof. apply Qpower_0_lt. reflexivity. Qed.

Lemma shift_Q m k e : 0 <= k ->
  (inject_Z (m * 2 ^ k) * 2 ^ e == inject_Z m * 2 ^ (e + k))%Q.
Proof.
  intros Hk.
  rewrite inject_Z_mult, Zpower_Qpower by assumption.
  rewrite Qpower_plus by exact two_neq0.
  change (inject_Z 2) with 2%Q. ring.
Qed.

Lemma dalign_l a b : let '(x, _, e) := dalign a b in (inject_Z x * 2 ^ e == D2Q a)%Q.
Proof.
  unfold dalign, D2Q. cbv zeta.
  rewrite shift_Q by lia. replace (Z.min (de a) (de b) + (de a - Z.min (de a) (de b))) with (de a) by lia.
  reflexivity.
Qed.

Lemma dalign_r a b : let '(_, y, e) := dalign a b in (inject_Z y * 2 ^ e == D2Q b)%Q.
Proof.
  unfold dalign, D2Q. cbv zeta.
  rewrite shift_Q by lia. replace (Z.min (de a) (de b) + (de b - Z.min (de a) (de b))) with (de b) by lia.
  reflexivity.
Qed.

Lemma D2Q_add a b : (D2Q (dadd a b) == D2Q a + D2Q b)%Q.
Proof.
  pose proof (dalign_l a b) as Hl. pose proof (dalign_r a b) as Hr.
  unfold dadd. destruct (dalign a b) as [[x y] e].
  rewrite <- Hl, <- Hr. unfold D2Q; cbn [dm de]. rewrite inject_Z_plus. ring.
Qed.

Lemma D2Q_opp a : (D2Q (dopp a) == - D2Q a)%Q.
Proof. unfold D2Q, dopp; cbn [dm de]. rewrite inject_Z_opp. ring. Qed.

Lemma D2Q_sub a b : (D2Q (dsub a b) == D2Q a - D2Q b)%Q.
Proof. unfold dsub. rewrite D2Q_add, D2Q_opp. ring. Qed.

Lemma D2Q_mul a b : (D2Q (dmul a b) == D2Q a * D2Q b)%Q.
Proof.
  unfold D2Q, dmul; cbn [dm de]. rewrite inject_Z_mult, Qpower_plus by exact two_neq0. ring.
Qed.

Lemma D2Q_dZ z : (D2Q (dZ z) == inject_Z z)%Q.
Proof. unfold D2Q, dZ; cbn [dm de]. change (2 ^ 0)%Q with 1%Q. ring. Qed.

Lemma D2Q_d0 : (D2Q d0 == 0)%Q.
Proof. reflexivity. Qed.

Lemma D2Q_d1 : (D2Q d1 == 1)%Q.
Proof. reflexivity. Qed.

Lemma D2Q_abs a : (D2Q (dabs a) == Qabs (D2Q a))%Q.
Proof.
  unfold D2Q, dabs; cbn [dm de].
  rewrite Qabs_Qmult. rewrite (Qabs_pos (2 ^ de a)) by (apply Qlt_le_weak, pow2_pos).
  apply Qmult_comp; [|reflexivity].
  unfold Qabs, inject_Z. reflexivity.
Qed.

Lemma inject_Z_le_pow x y e : (x <= y)%Z <-> (inject_Z x * 2 ^ e <= inject_Z y * 2 ^ e)%Q.
Proof.
  split; intros H.
  - apply Qmult_le_compat_r; [rewrite <- Zle_Qle; exact H | apply Qlt_le_weak, pow2_pos].
  - apply Qmult_le_r in H; [rewrite <- Zle_Qle in H; exact H | apply pow2_pos].
Qed.

Lemma inject_Z_lt_pow x y e : (x < y)%Z <-> (inject_Z x * 2 ^ e < inject_Z y * 2 ^ e)%Q.
Proof.
  split; intros H.
  - apply Qmult_lt_compat_r; [apply pow2_pos | rewrite <- Zlt_Qlt; exact H].
  - apply Qmult_lt_r in H; [rewrite <- Zlt_Qlt in H; exact H | apply pow2_pos].
Qed.

Lemma dleb_spec a b : dleb a b = true <-> (D2Q a <= D2Q b)%Q.
Proof.
  pose proof (dalign_l a b) as Hl. pose proof (dalign_r a b) as Hr.
  unfold dleb. destruct (dalign a b) as [[x y] e].
  rewrite <- Hl, <- Hr, Z.leb_le. apply inject_Z_le_pow.
Qed.

Lemma dltb_spec a b : dltb a b = true <-> (D2Q a < D2Q b)%Q.
Proof.
  pose proof (dalign_l a b) as Hl. pose proof (dalign_r a b) as Hr.
  unfold dltb. destruct (dalign a b) as [[x y] e].
  rewrite <- Hl, <- Hr, Z.ltb_lt. apply inject_Z_lt_pow.
Qed.

Lemma deqb_spec a b : deqb a b = true <-> (D2Q a == D2Q b)%Q.
Proof.
  pose proof (dalign_l a b) as Hl. pose proof (dalign_r a b) as Hr.
  unfold deqb. destruct (dalign a b) as [[x y] e].
  rewrite <- Hl, <- Hr, Z.eqb_eq. split; intros H.
  - subst; reflexivity.
  - apply Qmult_inj_r in H; [| intro Hz; pose proof (pow2_pos e) as P; rewrite Hz in P; discriminate P].
    unfold Qeq, inject_Z in H; cbn in H. lia.
Qed.

Lemma D2Q_pow a n : (D2Q (dpow a n) == D2Q a ^ Z.of_nat n)%Q.
Proof.
  induction n as [|n IH].
  - reflexivity.
  - cbn [dpow]. rewrite D2Q_mul, IH, Nat2Z.inj_succ.
    unfold Z.succ. rewrite Qpower_plus'; [|lia]. change (D2Q a ^ 1)%Q with (D2Q a). 
    ring.
Qed.

Lemma D2Q_sum l : (D2Q (dsum l) == fold_right Qplus 0 (map D2Q l))%Q.
Proof.
  induction l as [|a l IH]; cbn [dsum fold_right map].
  - reflexivity.
  - fold (dsum l). rewrite D2Q_add, IH. reflexivity.
Qed.

