(* Polynomials over Q as coefficient lists (lowest degree first), linear functionals given by
   weighted point evaluations, and the lemma that lets a validator which checks finitely many
   moments conclude a bound for EVERY polynomial below a degree. *)
From Coq Require Import ZArith QArith Qabs Lia List.
From PySDC Require Import Base.Dyadic.
Import ListNotations.
Open Scope Q_scope.

Fixpoint qpow (t : Q) (n : nat) : Q :=
  match n with O => 1 | S n' => t * qpow t n' end.

Definition peval (c : list Q) (x : Q) : Q := fold_right (fun a acc => a + x * acc) 0 c.

Definition qsum (l : list Q) : Q := fold_right Qplus 0 l.

(* weighted point functional  L f = sum_i w_i * f (x_i)  *)
Fixpoint wsum (w x : list Q) (f : Q -> Q) : Q :=
  match w, x with
  | wi :: w', xi :: x' => wi * f xi + wsum w' x' f
  | _, _ => 0
  end.

Definition moment (w x : list Q) (k : nat) : Q := wsum w x (fun t => qpow t k).

(* sum_j c_j * tgt (k + j) *)
Fixpoint lin_from (k : nat) (c : list Q) (tgt : nat -> Q) : Q :=
  match c with [] => 0 | a :: c' => a * tgt k + lin_from (S k) c' tgt end.

Fixpoint abs_lin_from (k : nat) (c : list Q) (tol : nat -> Q) : Q :=
  match c with [] => 0 | a :: c' => Qabs a * tol k + abs_lin_from (S k) c' tol end.

Global Instance qpow_Proper : Proper (Qeq ==> eq ==> Qeq) qpow.
Proof.
  intros x y Hxy n m <-. induction n as [|n IH]; cbn [qpow]; [reflexivity|]. apply Qmult_comp; assumption.
Qed.

Lemma wsum_ext w x f g : (forall t, f t == g t) -> wsum w x f == wsum w x g.
Proof.
  intros H. revert x. induction w as [|wi w IH]; intros [|xi x]; cbn [wsum]; try reflexivity.
  rewrite H, IH. reflexivity.
Qed.

Lemma wsum_add w x f g : wsum w x (fun t => f t + g t) == wsum w x f + wsum w x g.
Proof.
  revert x. induction w as [|wi w IH]; intros [|xi x]; cbn [wsum]; try ring.
  rewrite IH. ring.
Qed.

Lemma wsum_scal w x a f : wsum w x (fun t => a * f t) == a * wsum w x f.
Proof.
  revert x. induction w as [|wi w IH]; intros [|xi x]; cbn [wsum]; try ring.
  rewrite IH. ring.
Qed.

(* L (t^k * p(t)) = sum_j c_j * moment (k+j) *)
Lemma wsum_peval_from w x c : forall k,
  wsum w x (fun t => qpow t k * peval c t) == lin_from k c (moment w x).
Proof.
  induction c as [|a c IH]; intros k; cbn [peval fold_right lin_from].
  - transitivity (wsum w x (fun t => 0 * qpow t k)); [apply wsum_ext; intro; ring|].
    rewrite wsum_scal. ring.
  - transitivity (wsum w x (fun t => a * qpow t k + qpow t (S k) * peval c t)).
    + apply wsum_ext; intro t. unfold peval. cbn [qpow]. ring.
    + rewrite wsum_add, wsum_scal, IH. reflexivity.
Qed.

Lemma wsum_peval w x c : wsum w x (peval c) == lin_from 0 c (moment w x).
Proof.
  rewrite <- wsum_peval_from. apply wsum_ext. intro; cbn [qpow]; ring.
Qed.

Lemma lin_from_diff_bound c : forall k (m tgt tol : nat -> Q) n,
  (forall j, (k <= j < n)%nat -> Qabs (m j - tgt j) <= tol j) ->
  (k + length c <= n)%nat ->
  Qabs (lin_from k c m - lin_from k c tgt) <= abs_lin_from k c tol.
Proof.
  induction c as [|a c IH]; intros k m tgt tol n H Hlen; cbn [lin_from abs_lin_from length] in *.
  - setoid_replace (0 - 0) with 0 by ring. apply Qle_refl.
  - setoid_replace (a * m k + lin_from (S k) c m - (a * tgt k + lin_from (S k) c tgt))
      with (a * (m k - tgt k) + (lin_from (S k) c m - lin_from (S k) c tgt)) by ring.
    eapply Qle_trans; [apply Qabs_triangle|].
    apply Qplus_le_compat.
    + rewrite Qabs_Qmult. rewrite (Qmult_comm (Qabs a)), (Qmult_comm (Qabs a)).
      apply Qmult_le_compat_r; [apply H; lia | apply Qabs_nonneg].
    + apply (IH (S k) m tgt tol n).
      * intros j Hj. apply H. lia.
      * lia.
Qed.

Lemma peval_ext c x y : x == y -> peval c x == peval c y.
Proof.
  intros H. induction c as [|a c IH]; cbn [peval fold_right]; [reflexivity|].
  fold (peval c x). fold (peval c y). rewrite IH, H. reflexivity.
Qed.

Lemma wsum_map w x (g f : Q -> Q) : wsum w (map g x) f == wsum w x (fun t => f (g t)).
Proof.
  revert x. induction w as [|wi w IH]; intros [|xi x]; cbn [wsum map]; try reflexivity.
  rewrite IH. reflexivity.
Qed.

Lemma D2Q_dpow a n : D2Q (dpow a n) == qpow (D2Q a) n.
Proof.
  induction n as [|n IH]; cbn [dpow qpow]; [reflexivity|]. rewrite D2Q_mul, IH. reflexivity.
Qed.

(* lin_from against a "delta" target picks out one coefficient *)
Lemma lin_from_delta c : forall k d v, (k <= d)%nat ->
  lin_from k c (fun j => if Nat.eqb j d then v else 0) == v * nth (d - k) c 0.
Proof.
  induction c as [|a c IH]; intros k d v Hk; cbn [lin_from].
  - destruct (d - k)%nat; cbn [nth]; ring.
  - destruct (Nat.eqb k d) eqn:E.
    + apply Nat.eqb_eq in E. subst k. replace (d - d)%nat with 0%nat by lia. cbn [nth].
      assert (H0 : forall c' k', (d < k')%nat -> lin_from k' c' (fun j => if Nat.eqb j d then v else 0) == 0).
      { induction c' as [|b c' IH']; intros k' Hk'; cbn [lin_from]; [reflexivity|].
        destruct (Nat.eqb k' d) eqn:E'; [apply Nat.eqb_eq in E'; lia|]. rewrite IH' by lia. ring. }
      rewrite H0 by lia. ring.
    + apply Nat.eqb_neq in E. rewrite IH by lia.
      replace (d - k)%nat with (S (d - S k)) by lia. cbn [nth]. ring.
Qed.
