(* Faster executable variants of the Dyadic operations (alignment by bit shift instead of a
   multiplication with a computed power of two), each proved EQUAL to the reference operation of
   Base/Dyadic.v, so validators can run the fast versions while all theorems about the reference
   operations apply verbatim. *)
From Coq Require Import ZArith Lia List.
From PySDC Require Import Base.Dyadic.
Import ListNotations.
Open Scope Z_scope.

Definition falign (a b : dy) : Z * Z * Z :=
  let e := Z.min (de a) (de b) in
  (Z.shiftl (dm a) (de a - e), Z.shiftl (dm b) (de b - e), e).

Lemma falign_eq a b : falign a b = dalign a b.
Proof.
  unfold falign, dalign. cbv zeta. rewrite !Z.shiftl_mul_pow2 by lia. reflexivity.
Qed.

Definition fadd (a b : dy) : dy := let '(x, y, e) := falign a b in Dy (x + y) e.
Definition fsub (a b : dy) : dy := fadd a (dopp b).
Definition fleb (a b : dy) : bool := let '(x, y, _) := falign a b in x <=? y.
Definition fltb (a b : dy) : bool := let '(x, y, _) := falign a b in x <? y.

Lemma fadd_eq a b : fadd a b = dadd a b.
Proof. unfold fadd, dadd. rewrite falign_eq. reflexivity. Qed.
Lemma fsub_eq a b : fsub a b = dsub a b.
Proof. unfold fsub, dsub. apply fadd_eq. Qed.
Lemma fleb_eq a b : fleb a b = dleb a b.
Proof. unfold fleb, dleb. rewrite falign_eq. reflexivity. Qed.
Lemma fltb_eq a b : fltb a b = dltb a b.
Proof. unfold fltb, dltb. rewrite falign_eq. reflexivity. Qed.
