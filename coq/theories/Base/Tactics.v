(* Common header: lia deciding boolean models, with div/mod support. *)
From Coq Require Export ZArith List Bool Lia ZifyBool ZifyNat.
Export ListNotations.
Ltac Zify.zify_post_hook ::= Z.to_euclidean_division_equations.
