(* C02 (extension) — executable model of pySDC/implementations/sweeper_classes/boris_2nd_order.py
   (particles: positions and velocities; force  f = q/m (E + v x B)  assembled by the problem's build_f from
   the fields (E, B) that eval_f returns; velocities advanced node to node by the problem's boris_solver).
   Same conventions as Model/Sweep.v and Model/Verlet.v: numbers = any type K with ring operations, values
   V := X -> K (X = component index, e.g. (particle, axis)), node data nat -> _ with index 0 the initial value.

   The problem interface is abstract:
     Fld                      the type of a field evaluation (elec, magn)            [dtype_f]
     A                        the particle attributes the sweeper never changes (q, m) [part.q, part.m]
     ef  t pos vel a          P.eval_f(part, t)            (fields at the particle positions)
     bf  t fld pos vel a      P.build_f(f, part, t)        (the acceleration, PenningTrap: q/m (E + v x B))
     bs  c a fo fn po vo ao   P.boris_solver(c, a, old_fields, new_fields, old_parts)  (new velocities)
   Tables (all in pySDC layout, rows/cols 0..M): S, ST, SQ, Sx (node-to-node), Q, QQ, QId m = np.diag(QI)[m],
   delta m = coll.delta_m[m-1], weights m = coll.weights[m-1], qQ m = sweeper.qQ[m-1].

   Quirks of the code that are modelled as they are:
     * build_f for node j is called with the time  L.time + L.dt*coll.nodes[j-1]; for j = 0 this is Python's
       nodes[-1], i.e. the time of the LAST node (tb below);
     * eval_f for node m sees the new position but still the OLD velocity of that node;
     * boris_solver gets the particle object of node m-1 (its attributes q, m, not those of node m);
     * tau is 0-to-node and turned into node-to-node by subtracting tau[m-1] without testing it for None:
       tau[m] present with tau[m-1] absent (m > 0) raises before any node value is changed  -> None;
     * compute_end_point always evaluates the quadrature (never copies the last node). *)
From Coq Require Import List Arith Bool.
From PySDC Require Import Model.Sweep.
Import ListNotations.

Section BorisModel.
  Context {K : Type} (kO : K) (kadd kmul ksub : K -> K -> K).
  Context {X : Type}.
  Notation V := (X -> K).
  Context {Fld A : Type}.
  Variable M : nat.
  Variable dt t0 : K.
  Variable nodes delta : nat -> K.
  Variable Q QQ Sm ST SQ Sx : nat -> nat -> K.   (* Sm = sweeper.S *)
  Variable QId : nat -> K.
  Variable bf : K -> Fld -> V -> V -> A -> V.
  Variable ef : K -> V -> V -> A -> Fld.
  Variable bs : V -> K -> Fld -> Fld -> V -> V -> A -> V.
  Variable attr : nat -> A.

  Notation tn := (tnode kadd kmul dt t0 nodes).
  Notation "a +v b" := (vadd kadd a b) (at level 50, left associativity).
  Notation "a -v b" := (vsub ksub a b) (at level 50, left associativity).
  Notation "c *v a" := (vscale kmul c a) (at level 40).

  (* time handed to build_f for node j: L.time + L.dt*coll.nodes[j-1]  (j = 0: nodes[-1] = last node) *)
  Definition tb (j : nat) : K := tn (if Nat.eqb j 0 then M else j).

  (* f = P.build_f(L.f[j], L.u[j], L.time + L.dt*coll.nodes[j-1]) *)
  Definition bforce (p v : nat -> V) (f : nat -> Fld) (j : nat) : V :=
    bf (tb j) (f j) (p j) (v j) (attr j).

  (* `integral[m] += L.tau[m]; if m > 0: integral[m] -= L.tau[m-1]`  for one of the two parts (sel = fst: pos, snd: vel);
     m is the 1-based node index *)
  Definition add_tau (sel : V * V -> V) (tau : nat -> option (V * V)) (m : nat) (g : V) : V :=
    match tau m with
    | None => g
    | Some t =>
        let s := g +v sel t in
        if Nat.leb m 1 then s
        else match tau (m - 1) with Some t' => s -v sel t' | None => s (* raises: see tau_ok *) end
    end.

  (* the gather loop does not raise *)
  Definition tau_ok (tau : nat -> option (V * V)) : bool :=
    forallb (fun m => match tau m, tau (m - 1) with Some _, None => false | _, _ => true end) (seq 2 (M - 1)).

  (* gather loop: j = 0 .. M *)
  Definition bgather_pos (p v : nat -> V) (f : nat -> Fld) (tau : nat -> option (V * V)) (m : nat) : V :=
    add_tau fst tau m
      (accum kadd (vzero kO) 0 (S M) (fun j => (kmul dt (kmul dt (ksub (SQ m j) (Sx m j)))) *v bforce p v f j)).
  Definition bgather_vel (p v : nat -> V) (f : nat -> Fld) (tau : nat -> option (V * V)) (m : nat) : V :=
    add_tau snd tau m
      (accum kadd (vzero kO) 0 (S M) (fun j => (kmul dt (ksub (Sm m j) (ST m j))) *v bforce p v f j)).

  (* the sweep; state: positions, velocities, fields per node *)
  Fixpoint boris_loop (gp gv : nat -> V) (ms : list nat)
           (st : (nat -> V) * (nat -> V) * (nat -> Fld)) : (nat -> V) * (nat -> V) * (nat -> Fld) :=
    match ms with
    | [] => st
    | m :: ms' =>
        let '(p', v', f') := st in
        let tmp := accum kadd (gp m) 0 m (fun j => (kmul dt (kmul dt (Sx m j))) *v bforce p' v' f' j) in
        let pm := tmp +v (p' (m - 1) +v (kmul dt (delta m)) *v v' 0) in
        let fm := ef (tn m) pm (v' m) (attr m) in
        let vm := bs (gv m) (kmul dt (QId m)) (f' (m - 1)) fm (p' (m - 1)) (v' (m - 1)) (attr (m - 1)) in
        boris_loop gp gv ms' (upd p' m pm, upd v' m vm, upd f' m fm)
    end.

  (* update_nodes(): None = the gather loop raised (no node value was changed) *)
  Definition boris_update (p v : nat -> V) (f : nat -> Fld) (tau : nat -> option (V * V))
    : option ((nat -> V) * (nat -> V) * (nat -> Fld)) :=
    if tau_ok tau
    then Some (boris_loop (bgather_pos p v f tau) (bgather_vel p v f tau) (seq 1 M) (p, v, f))
    else None.

  (* integrate(): pos part and vel part of p[m-1] *)
  Definition bint_pos (p v : nat -> V) (f : nat -> Fld) (m : nat) : V :=
    accum kadd (vzero kO) 1 M
          (fun j => (kmul dt (kmul dt (QQ m j))) *v bforce p v f j +v (kmul dt (Q m j)) *v v 0).
  Definition bint_vel (p v : nat -> V) (f : nat -> Fld) (m : nat) : V :=
    accum kadd (vzero kO) 1 M (fun j => (kmul dt (Q m j)) *v bforce p v f j).

  (* compute_end_point(): always the full Picard evaluation with coll.weights and qQ (+ tau[-1]) *)
  Variable weights qQ : nat -> K.
  Definition boris_end_point (p v : nat -> V) (f : nat -> Fld) (tau : nat -> option (V * V)) : V * V :=
    let ep := accum kadd (p 0) 1 M
                    (fun m => (kmul dt (kmul dt (qQ m))) *v bforce p v f m +v (kmul dt (weights m)) *v v 0) in
    let ev := accum kadd (v 0) 1 M (fun m => (kmul dt (weights m)) *v bforce p v f m) in
    match tau M with Some t => (ep +v fst t, ev +v snd t) | None => (ep, ev) end.

  (* Sweeper.compute_residual() (not overridden) on top of this integrate(): residual particle of node m *)
  Definition boris_residual (p v : nat -> V) (f : nat -> Fld) (tau : nat -> option (V * V)) (m : nat) : V * V :=
    let rp := bint_pos p v f m +v (p 0 -v p m) in
    let rv := bint_vel p v f m +v (v 0 -v v m) in
    match tau m with Some t => (rp +v fst t, rv +v snd t) | None => (rp, rv) end.
End BorisModel.
