(* Executable Qc instance of Model/Transfer.v for the correspondence check of C10:
   fine/coarse component index sets are nat (dimensions df, dc), space transfer = rational matrices. *)
From Coq Require Import List Arith Bool ZArith QArith Qcanon.
From PySDC Require Import Model.Sweep Model.SweepExec Model.Transfer.
Import ListNotations.
Local Open Scope Qc_scope.

Record tcase := {
  t_Mf : nat; t_Mc : nat; t_df : nat; t_dc : nat;
  t_dtf : Qc; t_dtc : Qc; t_t0 : Qc;
  t_nodes_f : list Qc; t_nodes_c : list Qc;     (* index 0 unused *)
  t_Qf : list (list Qc); t_Qc : list (list Qc);
  t_Rs : list (list Qc);                        (* dc x df *)
  t_Ps : list (list Qc);                        (* df x dc *)
  t_Rcoll : list (list Qc);                     (* (Mc+1) x (Mf+1), row/col 0 unused *)
  t_Pcoll : list (list Qc);                     (* (Mf+1) x (Mc+1) *)
  t_prob_f : prob; t_prob_c : prob;
  t_Fu : list (list Qc); t_Ff : list (list Qc); (* one part *)
  t_Ftau : list (option (list Qc));             (* index 0 unused *)
  t_Gu_new : list (list Qc); t_Gf_new : list (list Qc);   (* coarse values after (arbitrary) coarse work *)
  t_finter : bool;
}.

Definition matvec (A : list (list Qc)) (d : nat) (v : nat -> Qc) : nat -> Qc :=
  memo (length A) (fun i => fold_left Qcplus (map (fun j => mat A i j * v j) (seq 0 d)) 0).

Section TRun.
  Variable C : tcase.
  Let Fu := nodevec_of (t_Fu C).
  Let Ff : nat -> nat -> nat -> Qc := fun m _ => nthq (nth m (t_Ff C) []).
  Let Ftau : nat -> option (nat -> Qc) := fun m => option_map vec_of (nth m (t_Ftau C) None).
  Let Rs := matvec (t_Rs C) (t_df C).
  Let Ps := matvec (t_Ps C) (t_dc C).

  Definition t_restrict : coarse :=
    restrict 0 Qcplus Qcmult Qcminus (t_Mf C) (t_Mc C) (t_dtf C) (t_dtc C) (t_t0 C) (nthq (t_nodes_c C))
             (mat (t_Qf C)) (mat (t_Qc C)) 1 (feval_of (t_prob_c C)) Rs (mat (t_Rcoll C)) Fu Ff Ftau.

  Definition compsd (d : nat) (v : nat -> Qc) : list Qc := map v (seq 0 d).

  Definition t_run : list Qc :=
    let G := t_restrict in
    let dc := t_dc C in let df := t_df C in
    let gus := flat_map (fun n => compsd dc (Gu G n)) (seq 0 (S (t_Mc C))) in
    let gfs := flat_map (fun n => compsd dc (Gf G n 0%nat)) (seq 0 (S (t_Mc C))) in
    let gts := flat_map (fun n => match Gtau G n with Some t => compsd dc t | None => [] end) (seq 1 (t_Mc C)) in
    let G' := {| Gu := nodevec_of (t_Gu_new C); Gf := fun m _ => nthq (nth m (t_Gf_new C) []);
                 Gtau := Gtau G; Guold := Guold G; Gfold := Gfold G |} in
    let '(fu', ff') :=
      if t_finter C then prolong_f Qcplus Qcmult Qcminus (t_Mc C) Ps (mat (t_Pcoll C)) G' Fu Ff
      else prolong Qcplus Qcmult Qcminus (t_Mc C) (t_dtf C) (t_t0 C) (feval_of (t_prob_f C)) (nthq (t_nodes_f C))
                   Ps (mat (t_Pcoll C)) G' Fu Ff in
    let fus := flat_map (fun n => compsd df (fu' n)) (seq 1 (t_Mf C)) in
    let ffs := flat_map (fun n => compsd df (ff' n 0%nat)) (seq 1 (t_Mf C)) in
    gus ++ gfs ++ gts ++ fus ++ ffs.
End TRun.

Definition check_tcase (ce : tcase * list Qc) : Z :=
  match first_diff 0 (t_run (fst ce)) (snd ce) with None => (-1)%Z | Some i => Z.of_nat i end.
