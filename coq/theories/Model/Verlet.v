(* C02 — executable model of pySDC/implementations/sweeper_classes/verlet.py (second-order problems:
   positions and velocities; the right-hand side (acceleration) is an arbitrary function of time,
   position and the velocity the node holds when it is evaluated).  Same conventions as Model/Sweep.v. *)
From Coq Require Import List Arith Bool.
From PySDC Require Import Model.Sweep.
Import ListNotations.

Section VerletModel.
  Context {K : Type} (kO : K) (kadd kmul ksub : K -> K -> K).
  Context {X : Type}.
  Notation V := (X -> K).
  Variable M : nat.
  Variable dt t0 : K.
  Variable nodes : nat -> K.
  Variable Q QQ Qx QT : nat -> nat -> K.     (* coll.Qmat, QQ, Qx, QT in pySDC layout *)
  Variable feval : K -> V -> V -> V.          (* P.eval_f(u, t): acceleration from (t, pos, vel) *)

  Notation tn := (tnode kadd kmul dt t0 nodes).
  Notation "a +v b" := (vadd kadd a b) (at level 50, left associativity).
  Notation "a -v b" := (vsub ksub a b) (at level 50, left associativity).
  Notation "c *v a" := (vscale kmul c a) (at level 40).

  (* integrate(): pos part and vel part *)
  Definition vint_pos (v0 : V) (f : nat -> V) (m : nat) : V :=
    accum kadd (vzero kO) 1 M (fun j => (kmul dt (kmul dt (QQ m j))) *v f j +v (kmul dt (Q m j)) *v v0).
  Definition vint_vel (f : nat -> V) (m : nat) : V :=
    accum kadd (vzero kO) 1 M (fun j => (kmul dt (Q m j)) *v f j).

  Definition vgather_pos (x0 v0 : V) (f : nat -> V) (taup : nat -> option V) (m : nat) : V :=
    let s := accum_sub ksub (vint_pos v0 f m) 1 M (fun j => (kmul dt (kmul dt (Qx m j))) *v f j) in
    let s := s +v x0 in
    match taup m with Some t => s +v t | None => s end.
  Definition vgather_vel (v0 : V) (f : nat -> V) (tauv : nat -> option V) (m : nat) : V :=
    let s := accum_sub ksub (vint_vel f m) 1 M (fun j => (kmul dt (QT m j)) *v f j) in
    let s := s +v v0 in
    match tauv m with Some t => s +v t | None => s end.

  (* state: positions, velocities, accelerations per node *)
  Fixpoint verlet_loop (gp gv : nat -> V) (ms : list nat)
           (st : (nat -> V) * (nat -> V) * (nat -> V)) : (nat -> V) * (nat -> V) * (nat -> V) :=
    match ms with
    | [] => st
    | m :: ms' =>
        let '(p', v', f') := st in
        let pm := accum kadd (gp m) 1 (m - 1) (fun j => (kmul dt (kmul dt (Qx m j))) *v f' j) in
        let vm0 := accum kadd (gv m) 1 (m - 1) (fun j => (kmul dt (QT m j)) *v f' j) in
        let fm := feval (tn m) pm vm0 in
        let vm := vm0 +v (kmul dt (QT m m)) *v fm in
        verlet_loop gp gv ms' (upd p' m pm, upd v' m vm, upd f' m fm)
    end.

  Definition verlet_update (p v f : nat -> V) (taup tauv : nat -> option V) :=
    verlet_loop (vgather_pos (p 0) (v 0) f taup) (vgather_vel (v 0) f tauv) (seq 1 M) (p, v, f).

  (* compute_end_point(): copy of the last node, or the full Picard evaluation with the weights and qQ (+ tau[-1]) *)
  Variable weights qQ : nat -> K.             (* coll.weights[m-1], sweeper.qQ[m-1], m = 1..M *)
  Definition verlet_end_point (right_is_node do_coll_update : bool) (p v f : nat -> V) (taup tauv : nat -> option V) : V * V :=
    if right_is_node && negb do_coll_update then (p M, v M)
    else
      let ep := accum kadd (p 0) 1 M (fun m => (kmul dt (kmul dt (qQ m))) *v f m +v (kmul dt (weights m)) *v v 0) in
      let ev := accum kadd (v 0) 1 M (fun m => (kmul dt (weights m)) *v f m) in
      (match taup M with Some t => ep +v t | None => ep end, match tauv M with Some t => ev +v t | None => ev end).
End VerletModel.
