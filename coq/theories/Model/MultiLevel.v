(* C10 — executable model of ONE multi-level iteration of controller_nonMPI on a single step
   (it_fine / it_down / it_coarse / it_up), for ANY number of levels:

     it_fine  : nsweeps[0] sweeps on level 0                               (lpre of the finest level)
     it_down  : restrict 0->1; for l = 1..L-2: nsweeps[l] sweeps, restrict l->l+1   (lpre of the middle levels)
     it_coarse: one sweep on the coarsest level                            (lpre of the coarsest level = 1)
     it_up    : for l = L-1..1: prolong l->l-1; if l-1 > 0: nsweeps[l-1] sweeps     (lpost; 0 on the finest level)

   as a recursion over the list of coarser levels.  All levels carry values over the same component
   index type X (a coarser mesh simply uses fewer indices); the space transfer operators are arbitrary
   functions (their linearity is a hypothesis of the proofs, validated per class in C11).
   Sweeps are generic_implicit sweeps (Model/Sweep.gi_update) or, with imex = true, imex_1st_order sweeps
   (Model/Sweep.imex_update, two right-hand-side parts) on every level; restriction/prolongation are
   Model/Transfer.restrict / prolong / prolong_f (BaseTransfer). *)
From Coq Require Import List Arith Bool.
From PySDC Require Import Model.Sweep Model.Transfer.
Import ListNotations.

Section MultiLevel.
  Context {K : Type} (kO : K) (kadd kmul ksub : K -> K -> K) (keqb : K -> K -> bool).
  Context {X : Type}.
  Notation V := (X -> K).
  Variable t0 : K.
  Variable imex : bool.                         (* sweeper class of the hierarchy: generic_implicit / imex_1st_order *)
  Definition nparts : nat := if imex then 2 else 1.

  Record level := { lM : nat; ldt : K; lnodes : nat -> K; lQ : nat -> nat -> K; lQI : nat -> nat -> K;
                    lQE : nat -> nat -> K;        (* explicit preconditioner (imex only) *)
                    lfeval : K -> V -> nat -> V; lsolve : nat -> V -> K -> V -> K -> V;
                    lpre : nat; lpost : nat }.
  Record xfer := { xRs : V -> V; xPs : V -> V; xRcoll : nat -> nat -> K; xPcoll : nat -> nat -> K;
                   xfinter : bool (* base_transfer_params finter: prolong_f instead of prolong *) }.
  Definition lstate := ((nat -> V) * (nat -> nat -> V))%type.

  Definition sweep1 (L : level) (tau : nat -> option V) (s : lstate) : lstate :=
    if imex
    then imex_update kO kadd kmul ksub (lM L) (ldt L) t0 (lnodes L) (lQ L) (lsolve L) (lfeval L) (lQI L) (lQE L) (fst s) (snd s) tau
    else gi_update kO kadd kmul ksub keqb (lM L) (ldt L) t0 (lnodes L) (lQ L) (lsolve L) (lfeval L) (lQI L) (fst s) (snd s) tau.
  Fixpoint sweepn (n : nat) (L : level) (tau : nat -> option V) (s : lstate) : lstate :=
    match n with 0 => s | S n' => sweepn n' L tau (sweep1 L tau s) end.

  Definition restrict_to (T : xfer) (Lf Lc : level) (tau : nat -> option V) (s : lstate) : @coarse K X :=
    restrict kO kadd kmul ksub (lM Lf) (lM Lc) (ldt Lf) (ldt Lc) t0 (lnodes Lc) (lQ Lf) (lQ Lc) nparts (lfeval Lc)
             (xRs T) (xRcoll T) (fst s) (snd s) tau.
  Definition prolong_from (T : xfer) (Lf Lc : level) (G : @coarse K X) (s : lstate) : lstate :=
    if xfinter T then prolong_f kadd kmul ksub (lM Lc) (xPs T) (xPcoll T) G (fst s) (snd s)
    else prolong kadd kmul ksub (lM Lc) (ldt Lf) t0 (lfeval Lf) (lnodes Lf) (xPs T) (xPcoll T) G (fst s) (snd s).

  Fixpoint vcycle (L : level) (rest : list (xfer * level)) (tau : nat -> option V) (s : lstate) : lstate :=
    match rest with
    | [] => sweepn (lpre L) L tau s
    | (T, Lc) :: rest' =>
        let s1 := sweepn (lpre L) L tau s in
        let G := restrict_to T L Lc tau s1 in
        let sc := vcycle Lc rest' (Gtau G) (Gu G, Gf G) in
        let G' := {| Gu := fst sc; Gf := snd sc; Gtau := Gtau G; Guold := Guold G; Gfold := Gfold G |} in
        sweepn (lpost L) L tau (prolong_from T L Lc G' s1)
    end.
End MultiLevel.
