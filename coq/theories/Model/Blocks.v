(* C16 — executable model of pySDC/helpers/blocks.py (BlockDecomposition).
   Both decomposition algorithms ("ChatGPT", "Hybrid"), the rank -> block-index map ([ranks], both
   memory orders) and [localBounds].  Python's // and % on positive divisors are Z's / and mod.
   while-loops are fuelled recursions; the fuel handed over by the wrappers is always sufficient
   (see BlocksProofs.count_div_done / factor_out_done).  Proofs live in Proofs/BlocksProofs.v. *)
From Coq Require Import ZArith List Bool.
Import ListNotations.
Open Scope Z_scope.

Definition zprod (l : list Z) : Z := fold_right Z.mul 1 l.

(* ------------------------------------------------------------------ list.sort() on ints *)
Fixpoint insert (x : Z) (l : list Z) : list Z :=
  match l with
  | [] => [x]
  | y :: r => if x <=? y then x :: l else y :: insert x r
  end.
Definition sort (l : list Z) : list Z := fold_right insert [] l.

Definition mul_head (i : Z) (l : list Z) : list Z :=
  match l with [] => [] | x :: r => (x * i) :: r end.

(* ------------------------------------------------------------------ algo == "ChatGPT" *)
(* while nProcs % i == 0: nBlocks[0] *= i; nProcs //= i; nBlocks.sort() *)
Fixpoint factor_out (fuel : nat) (i : Z) (st : Z * list Z) : Z * list Z :=
  match fuel with
  | O => st
  | S f => let '(n, bl) := st in
           if n mod i =? 0 then factor_out f i (n / i, sort (mul_head i bl)) else st
  end.

Definition chatgpt_loop (nProcs : Z) (dim : nat) : Z * list Z :=
  fold_left (fun st i => factor_out (Z.to_nat (fst st)) i st)
            (map (fun k => 2 + Z.of_nat k) (seq 0 (Z.to_nat (Z.sqrt nProcs - 1))))
            (nProcs, repeat 1 dim).

Definition chatgpt (nProcs : Z) (dim : nat) : list Z :=
  let '(rest, bl) := chatgpt_loop nProcs dim in
  sort (if 1 <? rest then mul_head rest bl else bl).
  (* the two trailing while-loops (len(nBlocks) <> dim) never run: the list has dim entries *)

(* ------------------------------------------------------------------ algo == "Hybrid" *)
(* while rest % fac == 0: exps += 1; rest //= fac   — returns (exps, rest) *)
Fixpoint count_div (fuel : nat) (fac rest : Z) : nat * Z :=
  match fuel with
  | O => (O, rest)
  | S f => if rest mod fac =? 0 then let '(e, r) := count_div f fac (rest / fac) in (S e, r)
           else (O, rest)
  end.

(* the factors in the order the distribution loop consumes them:
   n = dim-1 (the remaining cofactor, once, if > 1), ..., n = 0 (the twos) *)
Definition multipliers (nProcs : Z) (dim : nat) : list Z :=
  match dim with
  | 1%nat => if 1 <? nProcs then [nProcs] else []
  | 2%nat => let '(e2, r) := count_div (Z.to_nat nProcs) 2 nProcs in
             (if 1 <? r then [r] else []) ++ repeat 2 e2
  | 3%nat => let '(e2, r) := count_div (Z.to_nat nProcs) 2 nProcs in
             let '(e3, r') := count_div (Z.to_nat r) 3 r in
             (if 1 <? r' then [r'] else []) ++ repeat 3 e3 ++ repeat 2 e2
  | _ => []
  end.

(* for d, nPts in enumerate(gridSizes): dummy = ceil(nPts / nBlocks[d]); if dummy >= dummymax: ... *)
Fixpoint argmax_go (d : nat) (gs bl : list Z) (best : Z) (dmax : nat) : nat :=
  match gs, bl with
  | g :: gs', b :: bl' =>
      let dummy := (g + b - 1) / b in
      if best <=? dummy then argmax_go (S d) gs' bl' dummy d else argmax_go (S d) gs' bl' best dmax
  | _, _ => dmax
  end.
Definition argmax (gs bl : list Z) : nat := argmax_go 0 gs bl (-1) 0.

Fixpoint mul_at (k : nat) (fac : Z) (l : list Z) : list Z :=
  match l, k with
  | [], _ => []
  | x :: r, O => (x * fac) :: r
  | x :: r, S k' => x :: mul_at k' fac r
  end.

Definition hybrid (nProcs : Z) (gridSizes : list Z) : list Z :=
  fold_left (fun bl fac => mul_at (argmax gridSizes bl) fac bl)
            (multipliers nProcs (length gridSizes)) (repeat 1 (length gridSizes)).

Inductive algo := ChatGPT | Hybrid.

(* BlockDecomposition.__init__ : None = the dim assertion fails *)
Definition nBlocks (a : algo) (nProcs : Z) (gridSizes : list Z) : option (list Z) :=
  match length gridSizes with
  | 1%nat | 2%nat | 3%nat =>
      Some (match a with ChatGPT => chatgpt nProcs (length gridSizes) | Hybrid => hybrid nProcs gridSizes end)
  | _ => None
  end.

(* ------------------------------------------------------------------ ranks *)
(* np.argwhere(np.arange(prod).reshape(nBlocks, order) == gRank)[0] *)
Fixpoint unravel_rev (rdims : list Z) (g : Z) : list Z :=
  match rdims with [] => [] | b :: r => (g mod b) :: unravel_rev r (g / b) end.
Fixpoint ravel_rev (rdims idx : list Z) : Z :=
  match rdims, idx with b :: r, i :: idx' => i + b * ravel_rev r idx' | _, _ => 0 end.

Inductive order := OrderC | OrderF.

Definition ranks (o : order) (dims : list Z) (g : Z) : option (list Z) :=
  if (0 <=? g) && (g <? zprod dims) then
    Some (match o with OrderC => rev (unravel_rev (rev dims) g) | OrderF => unravel_rev dims g end)
  else None.   (* IndexError *)

Definition ravel (o : order) (dims idx : list Z) : Z :=
  match o with OrderC => ravel_rev (rev dims) (rev idx) | OrderF => ravel_rev dims idx end.

(* ------------------------------------------------------------------ localBounds *)
Definition b2z (b : bool) : Z := if b then 1 else 0.

Definition nLoc (nPoints nB rank : Z) : Z :=
  let n0 := nPoints / nB in
  let nRest := nPoints - nB * n0 in
  n0 + 1 * b2z (rank <? nRest).

Definition iLoc (nPoints nB rank : Z) : Z :=
  let n0 := nPoints / nB in
  let nRest := nPoints - nB * n0 in
  rank * n0 + nRest * b2z (nRest <=? rank) + rank * b2z (rank <? nRest).

Fixpoint map3 {A} (f : Z -> Z -> Z -> A) (a b c : list Z) : list A :=
  match a, b, c with
  | x :: a', y :: b', z :: c' => f x y z :: map3 f a' b' c'
  | _, _, _ => []
  end.

Definition localBounds (o : order) (gridSizes nB : list Z) (gRank : Z) : option (list Z * list Z) :=
  match ranks o nB gRank with
  | None => None
  | Some rk => Some (map3 (fun r n b => iLoc n b r) rk gridSizes nB,
                     map3 (fun r n b => nLoc n b r) rk gridSizes nB)
  end.

(* grid point x (one index per axis) lies in the block of gRank *)
Fixpoint in_box (x lo n : list Z) : bool :=
  match x, lo, n with
  | xi :: x', l :: lo', k :: n' => (l <=? xi) && (xi <? l + k) && in_box x' lo' n'
  | [], [], [] => true
  | _, _, _ => false
  end.

Definition owns (o : order) (gridSizes nB : list Z) (gRank : Z) (x : list Z) : bool :=
  match localBounds o gridSizes nB gRank with
  | Some (lo, n) => in_box x lo n
  | None => false
  end.

(* full decomposition as the code computes it for one rank *)
Definition decomposition (a : algo) (o : order) (nProcs : Z) (gridSizes : list Z) (gRank : Z)
  : option (list Z * option (list Z * list Z)) :=
  match nBlocks a nProcs gridSizes with
  | None => None
  | Some nb => Some (nb, localBounds o gridSizes nb gRank)
  end.
