(* Executable Qc instance of Model/MultiLevel.v for the correspondence check of C10: one complete
   multi-level iteration of the REAL controller (exact rational run) against vcycle, kernel-evaluated. *)
From Coq Require Import List Arith Bool ZArith QArith Qcanon.
From PySDC Require Import Model.Sweep Model.SweepExec Model.Transfer Model.TransferExec Model.MultiLevel.
Import ListNotations.
Local Open Scope Qc_scope.

Record mlevel := {
  ml_M : nat; ml_dt : Qc; ml_nodes : list Qc;            (* index 0 unused *)
  ml_Q : list (list Qc); ml_QI : list (list Qc); ml_QE : list (list Qc);   (* (M+1) x (M+1); QE used by imex only *)
  ml_prob : prob; ml_pre : nat; ml_post : nat;
}.
Record mxfer := {
  mx_df : nat; mx_dc : nat;
  mx_Rs : list (list Qc); mx_Ps : list (list Qc);
  mx_Rcoll : list (list Qc); mx_Pcoll : list (list Qc);  (* 1-based rows/columns, row/column 0 unused *)
  mx_finter : bool;
}.
Record mcase := {
  m_t0 : Qc; m_imex : bool; m_fine : mlevel; m_rest : list (mxfer * mlevel);
  m_u : list (list Qc); m_f : list (list (list Qc));     (* fine values [node][comp] / right-hand sides [node][part][comp] at nodes 0..M *)
}.

Definition level_of (l : mlevel) : @level Qc nat :=
  {| lM := ml_M l; ldt := ml_dt l; lnodes := nthq (ml_nodes l); lQ := mat (ml_Q l); lQI := mat (ml_QI l); lQE := mat (ml_QE l);
     lfeval := feval_of (ml_prob l); lsolve := solve_of (ml_prob l); lpre := ml_pre l; lpost := ml_post l |}.
Definition xfer_of (x : mxfer) : @xfer Qc nat :=
  {| xRs := matvec (mx_Rs x) (mx_df x); xPs := matvec (mx_Ps x) (mx_dc x);
     xRcoll := mat (mx_Rcoll x); xPcoll := mat (mx_Pcoll x); xfinter := mx_finter x |}.

Definition m_run (C : mcase) : list Qc :=
  let L := m_fine C in
  let r := vcycle 0 Qcplus Qcmult Qcminus Qc_eqb (m_t0 C) (m_imex C) (level_of L)
                  (map (fun xl => (xfer_of (fst xl), level_of (snd xl))) (m_rest C))
                  (fun _ => None)
                  (nodevec_of (m_u C), fun m p => nthq (nth p (nth m (m_f C) []) [])) in
  let d := p_dim (ml_prob L) in
  let np := if m_imex C then 2%nat else 1%nat in
  flat_map (fun m => compsd d (fst r m)) (seq 1 (ml_M L))
  ++ flat_map (fun m => flat_map (fun p => compsd d (snd r m p)) (seq 0 np)) (seq 1 (ml_M L)).

Definition check_mcase (ce : mcase * list Qc) : Z :=
  match first_diff 0 (m_run (fst ce)) (snd ce) with None => (-1)%Z | Some i => Z.of_nat i end.
