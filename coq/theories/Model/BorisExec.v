(* Executable instance of Model/Boris.v over Qc for the exact correspondence with the real boris_2nd_order sweeper
   (harness/c02_boris.py runs the real class under fractions.Fraction on the same data).

   Component index X := (particle, axis).  Fields Fld := (elec, magn).  Attributes A := (q, m) per particle.
   Problem family (the exact problem class of harness/c02_boris.py), N particles in 3D:
     eval_f:   elec_n = Emat pos_n + kv vel_n + t e_t + cpl sum_k (pos_n - pos_k) + m_n e_m
               magn_n = B0 + Bmat pos_n
     build_f:  q_n/m_n (elec_n + vel_n x magn_n) + t g_t            (g_t = 0: PenningTrap_3D.build_f)
     boris_solver: the algorithm of PenningTrap_3D.boris_solver, line by line (boris_alg). *)
From Coq Require Import List Arith Bool ZArith QArith Qcanon.
From PySDC Require Import Model.Sweep Model.Boris Model.SweepExec.
Import ListNotations.
Local Open Scope Qc_scope.

Inductive ax := A0 | A1 | A2.
Definition axes := [A0; A1; A2].
Definition idx (i : ax) : nat := match i with A0 => 0 | A1 => 1 | A2 => 2 end.
Definition nx (i : ax) : ax := match i with A0 => A1 | A1 => A2 | A2 => A0 end.

Section Particles.
  Context {P : Type}.
  Notation V := (P * ax -> Qc).
  Definition BFld : Type := V * V.                         (* (elec, magn) *)
  Definition BAttr : Type := (P -> Qc) * (P -> Qc).         (* (q, m) *)

  (* np.cross per particle *)
  Definition cross (u w : V) : V :=
    fun x => let '(n, i) := x in u (n, nx i) * w (n, nx (nx i)) - u (n, nx (nx i)) * w (n, nx i).

  Definition qm (a : BAttr) (n : P) : Qc := fst a n / snd a n.

  (* PenningTrap_3D.build_f: q/m (E + v x B) *)
  Definition lorentz (fl : BFld) (vel : V) (a : BAttr) : V :=
    fun x => qm a (fst x) * (fst fl x + cross vel (snd fl) x).

  Definition half : Qc := Q2Qc (1 # 2).
  Definition two : Qc := Q2Qc (2 # 1).

  (* PenningTrap_3D.boris_solver(c, dt, old_fields, new_fields, old_parts), line by line.
     st ("store") materialises an intermediate vector; it is the identity in boris_alg and a memoisation in the
     executed instance below (the intermediate arrays Emean, c, vm, t, s, vp of the code). *)
  Definition boris_alg_gen (st : V -> V) (c : V) (d : Qc) (fo fn : BFld) (po vo : V) (ao : BAttr) : V :=
    let emean : V := st (fun x => half * (fst fo x + fst fn x)) in
    let dB : V := st (fun x => snd fo x - snd fn x) in
    let c' : V := st (fun x => c x + d / two * qm ao (fst x) * cross vo dB x) in
    let vm : V := st (fun x => vo x + d / two * qm ao (fst x) * emean x + c' x / two) in
    let t : V := st (fun x => d / two * qm ao (fst x) * snd fn x) in
    let s : V := st (fun x => two * t x / (1 + (t (fst x, A0) * t (fst x, A0) + t (fst x, A1) * t (fst x, A1) + t (fst x, A2) * t (fst x, A2)))) in
    let vmt : V := st (fun x => vm x + cross vm t x) in
    let vp : V := st (fun x => vm x + cross vmt s x) in
    fun x => vp x + d / two * qm ao (fst x) * emean x + c' x / two.
  Definition boris_alg := boris_alg_gen (fun v => v).
End Particles.

(* ---------------------------------------------------------------- the concrete problem, P := nat *)
Notation BV := (nat * ax -> Qc).

Definition vfl (l : list Qc) : BV := fun x => nthq l (3 * fst x + idx (snd x)).
Definition bmemo (N : nat) (v : BV) : BV :=
  let l := flat_map (fun n => map (fun i => v (n, i)) axes) (seq 0 N) in vfl l.
Definition bcomps (N : nat) (v : BV) : list Qc := flat_map (fun n => map (fun i => v (n, i)) axes) (seq 0 N).

Record bprob := {
  bp_N : nat;
  bp_Emat : list (list Qc); bp_et : list Qc; bp_kv : Qc; bp_cpl : Qc; bp_em : list Qc;
  bp_B0 : list Qc; bp_Bmat : list (list Qc);
  bp_gt : list Qc;
}.

Definition sum_ax (g : ax -> Qc) : Qc := g A0 + g A1 + g A2.
Definition sum_n (N : nat) (g : nat -> Qc) : Qc := fold_left (fun a n => a + g n) (seq 0 N) 0.

Definition b_ef (Pb : bprob) (t : Qc) (pos vel : BV) (a : @BAttr nat) : @BFld nat :=
  let N := bp_N Pb in
  let pos := bmemo N pos in            (* the position handed over is an unevaluated sum: evaluate it once *)
  let elec : BV := fun x => let '(n, i) := x in
      sum_ax (fun k => mat (bp_Emat Pb) (idx i) (idx k) * pos (n, k)) + bp_kv Pb * vel (n, i) + t * nthq (bp_et Pb) (idx i)
      + bp_cpl Pb * sum_n N (fun k => pos (n, i) - pos (k, i)) + snd a n * nthq (bp_em Pb) (idx i) in
  let magn : BV := fun x => let '(n, i) := x in
      nthq (bp_B0 Pb) (idx i) + sum_ax (fun k => mat (bp_Bmat Pb) (idx i) (idx k) * pos (n, k)) in
  (bmemo N elec, bmemo N magn).

Definition b_bf (Pb : bprob) (t : Qc) (fl : @BFld nat) (pos vel : BV) (a : @BAttr nat) : BV :=
  fun x => lorentz fl vel a x + t * nthq (bp_gt Pb) (idx (snd x)).

Definition b_bs (Pb : bprob) (c : BV) (d : Qc) (fo fn : @BFld nat) (po vo : BV) (ao : @BAttr nat) : BV :=
  let c := bmemo (bp_N Pb) c in
  bmemo (bp_N Pb) (boris_alg_gen (bmemo (bp_N Pb)) c d fo fn po vo ao).

Record bcase := {
  b_M : nat; b_dt : Qc; b_t0 : Qc;
  b_nodes : list Qc; b_delta : list Qc;                       (* index 0 unused *)
  b_Q : list (list Qc); b_QQ : list (list Qc); b_S : list (list Qc); b_ST : list (list Qc);
  b_SQ : list (list Qc); b_Sx : list (list Qc);
  b_QId : list Qc;                                            (* np.diag(QI) *)
  b_w : list Qc; b_qQ : list Qc;                              (* index 0 unused *)
  b_prob : bprob;
  b_p : list (list Qc); b_v : list (list Qc);                 (* node -> flat (3n+i) *)
  b_fe : list (list Qc); b_fm : list (list Qc);               (* node -> elec / magn *)
  b_q : list (list Qc); b_m : list (list Qc);                 (* node -> per particle *)
  b_tau : list (option (list Qc * list Qc));                  (* index 0 unused; (pos, vel) *)
}.

(* observables (None = update_nodes raised):
   integrate() of the old state (pos parts, vel parts), new positions, velocities, elec, magn at nodes 1..M,
   residual particles of the new state (pos parts, vel parts), compute_end_point() of the new state (pos, vel) *)
Definition run_boris (C : bcase) : option (list Qc) :=
  let M := b_M C in let Pb := b_prob C in let N := bp_N Pb in
  let nd := fun (l : list (list Qc)) (m : nat) => vfl (nth m l []) in
  let p := nd (b_p C) in let v := nd (b_v C) in
  let f := fun m => (nd (b_fe C) m, nd (b_fm C) m) in
  let attr := fun m => (nthq (nth m (b_q C) []), nthq (nth m (b_m C) [])) in
  let tau := fun m => option_map (fun t => (vfl (fst t), vfl (snd t))) (nth m (b_tau C) None) in
  let Qm := mat (b_Q C) in let QQm := mat (b_QQ C) in
  let nodes := nthq (b_nodes C) in
  let ints := flat_map (fun m => bcomps N (bint_pos 0 Qcplus Qcmult M (b_dt C) (b_t0 C) nodes Qm QQm (b_bf Pb) attr p v f m)) (seq 1 M)
           ++ flat_map (fun m => bcomps N (bint_vel 0 Qcplus Qcmult M (b_dt C) (b_t0 C) nodes Qm (b_bf Pb) attr p v f m)) (seq 1 M) in
  match boris_update 0 Qcplus Qcmult Qcminus M (b_dt C) (b_t0 C) nodes (nthq (b_delta C))
                     (mat (b_S C)) (mat (b_ST C)) (mat (b_SQ C)) (mat (b_Sx C)) (nthq (b_QId C))
                     (b_bf Pb) (b_ef Pb) (b_bs Pb) attr p v f tau with
  | None => None
  | Some (pn0, vn, fn) =>
      let pl := map (fun m => bcomps N (pn0 m)) (seq 0 (S M)) in      (* store the positions (sharing) *)
      let pn := nd pl in
      let res := fun m => boris_residual 0 Qcplus Qcmult Qcminus M (b_dt C) (b_t0 C) nodes Qm QQm (b_bf Pb) attr pn vn fn tau m in
      let e := boris_end_point Qcplus Qcmult M (b_dt C) (b_t0 C) nodes (b_bf Pb) attr (nthq (b_w C)) (nthq (b_qQ C)) pn vn fn tau in
      Some (ints
            ++ flat_map (fun m => bcomps N (pn m)) (seq 1 M) ++ flat_map (fun m => bcomps N (vn m)) (seq 1 M)
            ++ flat_map (fun m => bcomps N (fst (fn m))) (seq 1 M) ++ flat_map (fun m => bcomps N (snd (fn m))) (seq 1 M)
            ++ flat_map (fun m => bcomps N (fst (res m))) (seq 1 M) ++ flat_map (fun m => bcomps N (snd (res m))) (seq 1 M)
            ++ bcomps N (fst e) ++ bcomps N (snd e))
  end.

(* -1 = agree; -2 = one side raised and the other did not; otherwise index of the first differing observable *)
Definition check_boris_case (ce : bcase * option (list Qc)) : Z :=
  match run_boris (fst ce), snd ce with
  | None, None => (-1)%Z
  | Some a, Some b => match first_diff 0 a b with None => (-1)%Z | Some i => Z.of_nat i end
  | _, _ => (-2)%Z
  end.
