(* C02 (extension) — executable model of pySDC/implementations/sweeper_classes/Runge_Kutta_Nystrom.py
   (class RungeKuttaNystrom; shipped tableaus RKN and Velocity_Verlet): update_nodes, get_full_f,
   compute_end_point.  Second-order (position / velocity) analogue of Model/Sweep.v's rk_update.

   Conventions as in Model/Sweep.v: numbers are an arbitrary type K with ring operations (laws are
   hypotheses of the proof file only), values V := X -> K pointwise, node-indexed data are functions
   nat -> _ with functional update `upd`; index 0 is the initial value.
   The level holds particle objects u[m] = (attr, pos, vel), m = 0..M — attr : A is everything else a particle
   object carries (charges q, masses m), an ARBITRARY type — and "fields" f[m] of an ARBITRARY type Fd
   (what P.eval_f returns); the problem contributes three arbitrary functions of whole particle objects
       feval   attr pos vel t          = P.eval_f(u, t)
       build_f fld attr pos vel t      = P.build_f(f, u, t)      (acceleration from fields and a particle)
       boris   c dt fold fnew attr0 pos0 vel0 = P.boris_solver(c, dt, f_old, f_new, u_old)   (new velocity)
   `rhs = P.dtype_u(L.u[0])` copies u[0]'s attributes and `L.u[m+1] = rhs` REPLACES the node object, so every
   stage and uend carry u0's attributes whatever object (e.g. predict()'s unit-charge zero particles) sat there.
   get_full_f is the identity on the admissible types (particles, fields, acceleration) and raises
   otherwise; it is modelled as the identity (the harness checks the raising branch on the real class).

   M = coll.num_nodes (number of stages + 1 "solution stage" unless the tableau is globally stiffly
   accurate); nodes i = coll.nodes[i], i = 0..M (ButcherTableauNoCollUpdate prepends a 0);
   QI = coll.Qmat (velocity tableau), Qx = coll_bar.Qmat (position tableau), both (M+1)x(M+1) in
   pySDC layout; implicit = coll.implicit.

   Quirks of the code that are modelled as they are:
   * (history) up to /repo commit e4532e8 the right-hand side of stage m+1 was evaluated at time
     t0 + dt*nodes[m], the node of the stage BEFORE it; the fixed code — modelled here — uses the stage's own
     node nodes[m+1], like build_f one line above (regression fact: rkn_old_stage_time_observable);
   * in the implicit branch the new fields are stored at the hard-wired index 3 (L.f[3]), the Boris
     solve is repeated for every j of the inner loop, L.f[0] is re-evaluated at every stage and
     copied to L.f[m+1];
   * the last stage's right-hand side is not evaluated in the explicit branch (L.f[M] stays). *)
From Coq Require Import List Arith Bool.
From PySDC Require Import Model.Sweep.
Import ListNotations.

Section RKNModel.
  Context {K : Type} (kO : K) (kadd kmul : K -> K -> K).
  Context {X : Type} {Fd : Type} {A : Type}.
  Notation V := (X -> K).
  Variable M : nat.
  Variable dt t0 : K.
  Variable nodes : nat -> K.
  Variable QI Qx : nat -> nat -> K.
  Variable implicit : bool.
  Variable feval : A -> V -> V -> K -> Fd.
  Variable build_f : Fd -> A -> V -> V -> K -> V.
  Variable boris : V -> K -> Fd -> Fd -> A -> V -> V -> V.

  Notation "a +v b" := (vadd kadd a b) (at level 50, left associativity).
  Notation "c *v a" := (vscale kmul c a) (at level 40).

  (* level state: particle attributes, positions, velocities, fields per node *)
  Record rkn_st := { ra : nat -> A; rp : nat -> V; rv : nat -> V; rf : nat -> Fd }.

  Definition rkn_tn (j : nat) : K := kadd t0 (kmul dt (nodes j)).      (* L.time + L.dt * coll.nodes[j] *)

  (* body of `for j in range(1, m + 1)`: acts on (rhs.pos, rhs.vel, L.f) *)
  Definition rkn_inner_step (m : nat) (a : nat -> A) (p v : nat -> V) (acc : V * V * (nat -> Fd)) (j : nat)
    : V * V * (nat -> Fd) :=
    let '(rpos, rvel, f) := acc in
    let ac := build_f (f j) (a j) (p j) (v j) (rkn_tn j) in                (* f = P.build_f(L.f[j], L.u[j], t_j) *)
    let rpos' := rpos +v (kmul (kmul dt dt) (Qx (S m) j)) *v ac in           (* rhs.pos += dt**2 * Qx[m+1,j] * f *)
    if implicit then
      let ck : V := fun x => kmul (rvel x) kO in                             (* ck = rhs.vel * 0.0 *)
      let f' := upd f 3 (feval (a 0) rpos' rvel (kadd t0 dt)) in             (* L.f[3] = P.eval_f(rhs, L.time + L.dt); rhs has u[0]'s attributes *)
      (rpos', boris ck dt (f' 0) (f' 3) (a 0) (p 0) (v 0), f')                   (* rhs.vel = P.boris_solver(ck, dt, L.f[0], L.f[3], L.u[0]) *)
    else
      (rpos', rvel +v (kmul dt (QI (S m) j)) *v ac, f).                      (* rhs.vel += dt * QI[m+1,j] * f *)

  (* body of `for m in range(0, M)` *)
  Definition rkn_stage (st : rkn_st) (m : nat) : rkn_st :=
    let a := ra st in
    let p := rp st in
    let v := rv st in
    let rpos0 := p 0 +v (kmul dt (nodes (S m))) *v v 0 in                   (* rhs = u[0]; rhs.pos += dt*nodes[m+1]*u[0].vel *)
    let '(rpos, rvel, f1) := fold_left (rkn_inner_step m a p v) (seq 1 m) (rpos0, v 0, rf st) in
    let a' := upd a (S m) (a 0) in                                          (* L.u[m+1] = rhs: the node OBJECT is replaced by the copy of u[0] *)
    let p' := upd p (S m) rpos in
    let v' := upd v (S m) rvel in
    let f' :=
      if implicit then
        let f2 := upd f1 0 (feval (a' 0) (p' 0) (v' 0) t0) in                      (* L.f[0] = P.eval_f(L.u[0], L.time) *)
        upd f2 (S m) (f2 0)                                                  (* L.f[m+1] = P.dtype_f(L.f[0]) *)
      else if Nat.eqb m (M - 1) then f1                                     (* if m != num_nodes - 1: *)
      else upd f1 (S m) (feval (a' (S m)) rpos rvel (rkn_tn (S m)))                 (*   L.f[m+1] = P.eval_f(L.u[m+1], t0 + dt*nodes[m+1]) *)
    in {| ra := a'; rp := p'; rv := v'; rf := f' |}.

  (* update_nodes() *)
  Definition rkn_update (st : rkn_st) : rkn_st := fold_left rkn_stage (seq 0 M) st.

  (* compute_end_point(): self.level.uend = self.level.u[-1] *)
  Definition rkn_end_point (st : rkn_st) : V * V := (rp st M, rv st M).
  Definition rkn_end_attr (st : rkn_st) : A := ra st M.
End RKNModel.
