(* Executable instance of Model/SweepMultistep.v over Qc with X := nat, used by the correspondence check
   (harness/c02_rkn.py): the REAL MultiStep classes run under fractions.Fraction on the problem family of
   harness/exact.py (DiagProb:  f(u,t)_x = lam[x]*u_x + c[x]*t,  solve_system(rhs,a,g,t)_x = (rhs_x + a*c[x]*t)/(1 - a*lam[x]) + gam[x]*g_x;
   gam = 0 is the exact solve, gam <> 0 makes the initial guess the sweeper passes observable)
   and the kernel compares every observable exactly. *)
From Coq Require Import List Arith Bool ZArith QArith Qcanon.
From PySDC Require Import Model.Sweep Model.SweepExec Model.SweepMultistep.
Import ListNotations.
Local Open Scope Qc_scope.

Record mscase := {
  s_dim : nat; s_lam : list Qc; s_c : list Qc; s_gam : list Qc;
  s_alpha : list Qc; s_beta : list Qc; s_trap : bool;
  s_cache : list (option (Qc * list Qc * list Qc));      (* initial cache: (t, u, f) per slot, oldest first *)
  s_t0 : Qc; s_u0 : list Qc;
  s_single : bool;                                       (* true: one update_nodes() with lvl.f[0] = s_f0; false: time steps *)
  s_f0 : option (list Qc);
  s_predict : bool;                                      (* single: predict() is called first *)
  s_dts : list Qc;                                       (* step sizes (single: exactly one) *)
}.

Section RunMS.
  Variable C : mscase.
  Let d := s_dim C.
  Definition ms_feval (u : nat -> Qc) (t : Qc) : nat -> Qc :=
    memo d (fun x => nthq (s_lam C) x * u x + nthq (s_c C) x * t).
  Definition ms_solve (rhs : nat -> Qc) (a : Qc) (g : nat -> Qc) (t : Qc) : nat -> Qc :=
    memo d (fun x => (rhs x + a * nthq (s_c C) x * t) / (1 - a * nthq (s_lam C) x) + nthq (s_gam C) x * g x).
  Definition ms_half (x : Qc) : Qc := x / q 2 1.

  Definition entry_of (e : Qc * list Qc * list Qc) : @ms_entry Qc nat :=
    let '(t, u, f) := e in {| e_t := t; e_u := vec_of u; e_f := vec_of f |}.
  Definition cache0 : @ms_cache Qc nat := map (option_map entry_of) (s_cache C).
  Definition starter_of : ms_starter := if s_trap C then Trapezoid else NoStarter.

  Definition cs (v : nat -> Qc) : list Qc := map v (seq 0 d).
  Definition dump_cache (c : @ms_cache Qc nat) : list Qc :=
    flat_map (fun o => match o with None => [q 0 1] | Some e => q 1 1 :: e_t e :: cs (e_u e) ++ cs (e_f e) end) c.
  Definition err_code (e : option ms_error) : Qc :=
    match e with None => q 0 1 | Some NotImplementedError => q 1 1 | Some TypeErrorNone => q 2 1 end.

  (* observables: per successful step t_new, u[1], f[1]; then the final cache; then the error code *)
  Definition run_ms : list Qc :=
    if s_single C then
      let '(c1, f0) := if s_predict C then ms_predict ms_feval cache0 (s_t0 C) (vec_of (s_u0 C)) (option_map vec_of (s_f0 C))
                       else (cache0, option_map vec_of (s_f0 C)) in
      match ms_update 0 Qcplus Qcmult Qcminus ms_half ms_feval ms_solve (s_alpha C) (s_beta C) starter_of
                      c1 (s_t0 C) (hd 0 (s_dts C)) (vec_of (s_u0 C)) f0 with
      | MsOk (c', u1, f1) => cs u1 ++ cs f1 ++ dump_cache c' ++ [err_code None]
      | MsErr e => dump_cache c1 ++ [err_code (Some e)]
      end
    else
      let '(tr, cf, err) := ms_run 0 Qcplus Qcmult Qcminus ms_half ms_feval ms_solve (s_alpha C) (s_beta C) starter_of
                                   cache0 (s_t0 C) (vec_of (s_u0 C)) (s_dts C) in
      flat_map (fun e => let '(t, u, f) := e in t :: cs u ++ cs f) tr ++ dump_cache cf ++ [err_code err].
End RunMS.

Definition check_ms_case (ce : mscase * list Qc) : Z :=
  match first_diff 0 (run_ms (fst ce)) (snd ce) with None => (-1)%Z | Some i => Z.of_nat i end.
