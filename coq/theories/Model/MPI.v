(* C08 — a labelled transition system for the subset of MPI that pySDC's MPI code uses, and an
   executable checker [replay] that validates event logs of simulated runs as executions of it.

   Scope (mirrors harness/simmpi/core.py, which decomposes every mpi4py call into these actions):
     post-send   Isend / Issend / isend / issend / first half of Send, Ssend, send, ssend
     post-recv   Irecv / irecv / first half of Recv, recv          (source and tag are NAMED: the event
                 alphabet has no wildcard, so "all receives name source and tag" holds by construction)
     wait        completion of an own request inside Wait (second half of the blocking calls)
     test        Test: may fail even when the request could complete (completion timing is arbitrary)
     enter/exit  the two halves of a collective (Barrier, bcast/Bcast/scatter, reduce/Reduce/gather,
                 allreduce/Allreduce/allgather/Allgather/Split)

   State.  The global state is nothing but the list of per-rank histories (the events each rank has
   performed so far, oldest first).  Channel contents, posted receives, request tables and
   collective instances are DERIVED from the histories:
     - request number q of a rank = its q-th post event;
     - the sends of rank s on channel (c, s -> d, tag) in program order are matched, one to one and in
       order, with the receives d posted for (c, s, tag)  — MPI's non-overtaking rule for receives that
       name source and tag;
     - a receive can complete once its matching send has been posted and then delivers that send's
       payload; a synchronous send (Issend/Ssend) can complete once its matching receive has been
       posted; a standard send (Isend/Send) completes either at once (the environment buffers it:
       [eager w q = true]) or like a synchronous send;
     - the k-th collective call of the members of a communicator forms one instance; members must
       agree on kind and root; a broadcast-like root and a reduce-like non-root may leave at once,
       a broadcast-like non-root needs the root's call, everybody else needs all members.

   No proofs here (see Proofs/MPIProofs.v). *)
From Coq Require Import List Arith Bool ZArith Uint63.
Import ListNotations.

Definition val := Z.

Inductive ev : Type :=
| ESend (sync : bool) (c dst tag : nat) (v : val)
| ERecv (c src tag : nat)
| EWait (q : nat) (p : option (nat * nat)) (v : val)
| ETest (q : nat) (ok : bool) (p : option (nat * nat)) (v : val)
| EEnter (c kc root : nat) (v : val)
| EExit (c : nat) (v : option val).

Definition hists := list (list ev).

(* ------------------------------------------------------------------ small list utilities *)

Fixpoint upd {A} (l : list A) (i : nat) (x : A) : list A :=
  match l, i with
  | [], _ => []
  | _ :: t, O => x :: t
  | a :: t, S i' => a :: upd t i' x
  end.

Definition hist_of (hs : hists) (w : nat) : list ev := nth w hs [].

Definition app_at (hs : hists) (w : nat) (e : ev) : hists := upd hs w (hist_of hs w ++ [e]).

Fixpoint index_of (x : nat) (l : list nat) : option nat :=
  match l with
  | [] => None
  | y :: t => if Nat.eqb x y then Some O else option_map S (index_of x t)
  end.

Fixpoint enum_from {A} (n : nat) (l : list A) : list (nat * A) :=
  match l with
  | [] => []
  | a :: t => (n, a) :: enum_from (S n) t
  end.

Fixpoint filter_map {A B} (f : A -> option B) (l : list A) : list B :=
  match l with
  | [] => []
  | a :: t => match f a with Some b => b :: filter_map f t | None => filter_map f t end
  end.

(* ------------------------------------------------------------------ communicator universe *)

(* cu : members (world ranks, in local-rank order) of every communicator; communicator 0 is the world *)
Definition members (cu : list (list nat)) (c : nat) : list nat := nth c cu [].
Definition lrank (cu : list (list nat)) (c w : nat) : option nat := index_of w (members cu c).
Definition wrank (cu : list (list nat)) (c l : nat) : option nat := nth_error (members cu c) l.

(* ------------------------------------------------------------------ observations of one history *)

Definition is_post (e : ev) : bool :=
  match e with ESend _ _ _ _ _ | ERecv _ _ _ => true | _ => false end.

(* the requests of a rank, numbered in program order *)
Definition reqs (h : list ev) : list (nat * ev) := enum_from 0 (filter is_post h).

Definition req_of (h : list ev) (q : nat) : option ev := nth_error (filter is_post h) q.

(* sends of this history on the channel (c, me -> dst, tag): (request number, payload) in order *)
Definition chan_sends (h : list ev) (c dst tag : nat) : list (nat * val) :=
  filter_map (fun qe => match snd qe with
                        | ESend _ c' d' t' v => if Nat.eqb c' c && Nat.eqb d' dst && Nat.eqb t' tag
                                                then Some (fst qe, v) else None
                        | _ => None end) (reqs h).

(* receives of this history posted for (c, src, tag): request numbers in order *)
Definition chan_recvs (h : list ev) (c src tag : nat) : list nat :=
  filter_map (fun qe => match snd qe with
                        | ERecv c' s' t' => if Nat.eqb c' c && Nat.eqb s' src && Nat.eqb t' tag
                                            then Some (fst qe) else None
                        | _ => None end) (reqs h).

(* requests already completed (by Wait or by a successful Test) *)
Definition completed (h : list ev) : list nat :=
  filter_map (fun e => match e with
                       | EWait q _ _ => Some q
                       | ETest q true _ _ => Some q
                       | _ => None end) h.

(* collective calls on communicator c: (kind code, root, contribution) in order; number of exits *)
Definition enters (h : list ev) (c : nat) : list (nat * nat * val) :=
  filter_map (fun e => match e with
                       | EEnter c' kc root v => if Nat.eqb c' c then Some (kc, root, v) else None
                       | _ => None end) h.

Definition nexits (h : list ev) (c : nat) : nat :=
  length (filter (fun e => match e with EExit c' _ => Nat.eqb c' c | _ => false end) h).

(* kind classes.  Codes (shared with harness/simmpi/logfmt.py): 0 barrier, 1 bcast, 2 Bcast, 3 scatter,
   4 reduce, 5 Reduce, 6 gather, 7 allreduce, 8 Allreduce, 9 allgather, 10 Allgather, 11 split *)
Inductive kclass := KAll | KBcast | KReduce.
Definition class_of (kc : nat) : kclass :=
  match kc with
  | 1 | 2 | 3 => KBcast
  | 4 | 5 | 6 => KReduce
  | _ => KAll
  end.

(* ------------------------------------------------------------------ what can complete, and with what *)

Section Semantics.
  Variable cu : list (list nat).
  (* environment's choice for standard-mode sends: true = buffered (completes at once) *)
  Variable eager : nat -> nat -> bool.

  (* the send matched with receive request q of rank w (non-overtaking, named source and tag: the i-th
     receive posted for (c, src, tag) is matched with the i-th send of src on (c, src -> me, tag)):
     (sender's world rank, sender's request number, payload) once that send has been posted *)
  Definition recv_partner (hs : hists) (w q : nat) : option (nat * nat * val) :=
    let h := hist_of hs w in
    match req_of h q with
    | Some (ERecv c src tag) =>
        match lrank cu c w, wrank cu c src with
        | Some me, Some ws =>
            match index_of q (chan_recvs h c src tag) with
            | Some i =>
                match nth_error (chan_sends (hist_of hs ws) c me tag) i with
                | Some (pq, v) => Some (ws, pq, v)
                | None => None
                end
            | None => None
            end
        | _, _ => None
        end
    | _ => None
    end.

  (* the receive matched with send request q of rank w, once it has been posted *)
  Definition send_partner (hs : hists) (w q : nat) : option (nat * nat) :=
    let h := hist_of hs w in
    match req_of h q with
    | Some (ESend _ c dst tag _) =>
        match lrank cu c w, wrank cu c dst with
        | Some me, Some wr =>
            match index_of q (map fst (chan_sends h c dst tag)) with
            | Some i =>
                match nth_error (chan_recvs (hist_of hs wr) c me tag) i with
                | Some pq => Some (wr, pq)
                | None => None
                end
            | None => None
            end
        | _, _ => None
        end
    | _ => None
    end.

  (* completion of request q of rank w: Some (partner, value) when the request can complete now.
     A receive delivers the payload of its matched send and names it; a send reports its own payload
     (the buffer must be unchanged at completion) and no partner (whether an eager send is already
     matched when it completes is timing dependent). *)
  Definition wait_cand (hs : hists) (w q : nat) : option (option (nat * nat) * val) :=
    let h := hist_of hs w in
    if existsb (Nat.eqb q) (completed h) then None else
    match req_of h q with
    | Some (ERecv _ _ _) =>
        match recv_partner hs w q with
        | Some (ws, pq, v) => Some (Some (ws, pq), v)
        | None => None
        end
    | Some (ESend sync _ _ _ v) =>
        if negb sync && eager w q then Some (None, v) else
        match send_partner hs w q with
        | Some _ => Some (None, v)
        | None => None
        end
    | _ => None
    end.

  (* k-th collective call of world rank w' on c *)
  Definition enter_k (hs : hists) (c k w' : nat) : option (nat * nat * val) :=
    nth_error (enters (hist_of hs w') c) k.

  Definition same_call (a b : nat * nat * val) : bool :=
    Nat.eqb (fst (fst a)) (fst (fst b)) && Nat.eqb (snd (fst a)) (snd (fst b)).

  (* all members have made their k-th call, agreeing with [mine] on kind and root: their contributions *)
  Fixpoint gather_all (hs : hists) (c k : nat) (mine : nat * nat * val) (ms : list nat) : option (list val) :=
    match ms with
    | [] => Some []
    | w' :: t =>
        match enter_k hs c k w' with
        | Some x => if same_call mine x
                    then option_map (cons (snd x)) (gather_all hs c k mine t) else None
        | None => None
        end
    end.

  (* leaving the pending collective on c: Some (logged value, delivered contributions) when enabled *)
  Definition exit_cand (hs : hists) (w c : nat) : option (option val * list val) :=
    let h := hist_of hs w in
    let k := nexits h c in
    if negb (Nat.eqb (length (enters h c)) (S k)) then None else
    match nth_error (enters h c) k, lrank cu c w with
    | Some mine, Some me =>
        let root := snd (fst mine) in
        match class_of (fst (fst mine)) with
        | KAll => option_map (fun l => (None, l)) (gather_all hs c k mine (members cu c))
        | KBcast =>
            if Nat.eqb me root then Some (Some (snd mine), [snd mine]) else
            match wrank cu c root with
            | Some wroot =>
                match enter_k hs c k wroot with
                | Some x => if same_call mine x then Some (Some (snd x), [snd x]) else None
                | None => None
                end
            | None => None
            end
        | KReduce =>
            if Nat.eqb me root
            then option_map (fun l => (None, l)) (gather_all hs c k mine (members cu c))
            else Some (None, [])
        end
    | _, _ => None
    end.

  Definition valid_peer (c w peer : nat) : bool :=
    match lrank cu c w, wrank cu c peer with Some _, Some _ => true | _, _ => false end.

  Definition opt_pair_eqb (a b : option (nat * nat)) : bool :=
    match a, b with
    | None, None => true
    | Some (x, y), Some (x', y') => Nat.eqb x x' && Nat.eqb y y'
    | _, _ => false
    end.

  Definition opt_val_eqb (a b : option val) : bool :=
    match a, b with
    | None, None => true
    | Some x, Some y => Z.eqb x y
    | _, _ => false
    end.

  (* is event e of rank w an enabled transition in the state given by the histories? *)
  Definition ev_ok (hs : hists) (w : nat) (e : ev) : bool :=
    Nat.ltb w (length hs) &&
    match e with
    | ESend _ c dst _ _ => valid_peer c w dst
    | ERecv c src _ => valid_peer c w src
    | EWait q p v =>
        match wait_cand hs w q with
        | Some (p', v') => opt_pair_eqb p p' && Z.eqb v v'
        | None => false
        end
    | ETest q true p v =>
        match wait_cand hs w q with
        | Some (p', v') => opt_pair_eqb p p' && Z.eqb v v'
        | None => false
        end
    | ETest q false p v =>
        match req_of (hist_of hs w) q with
        | Some _ => negb (existsb (Nat.eqb q) (completed (hist_of hs w)))
        | None => false
        end
    | EEnter c kc root v =>
        match lrank cu c w with
        | Some _ => Nat.ltb root (length (members cu c)) &&
                    Nat.eqb (length (enters (hist_of hs w) c)) (nexits (hist_of hs w) c)
        | None => false
        end
    | EExit c vo =>
        match exit_cand hs w c with
        | Some (vo', _) => opt_val_eqb vo vo'
        | None => false
        end
    end.

  (* ---------------------------------------------------------------- replay of an event log *)

  Fixpoint replay_from (hs : hists) (log : list (nat * ev)) : bool :=
    match log with
    | [] => true
    | (w, e) :: rest => ev_ok hs w e && replay_from (app_at hs w e) rest
    end.

  (* index of the first event that is not an enabled transition (for diagnostics) *)
  Fixpoint first_bad (hs : hists) (log : list (nat * ev)) (i : nat) : option nat :=
    match log with
    | [] => None
    | (w, e) :: rest => if ev_ok hs w e then first_bad (app_at hs w e) rest (S i) else Some i
    end.

  Fixpoint run_log (hs : hists) (log : list (nat * ev)) : hists :=
    match log with
    | [] => hs
    | (w, e) :: rest => run_log (app_at hs w e) rest
    end.
End Semantics.

Definition init_hists (n : nat) : hists := repeat [] n.

Definition eager_of (l : list (nat * nat)) (w q : nat) : bool :=
  existsb (fun x => Nat.eqb (fst x) w && Nat.eqb (snd x) q) l.

Definition replay (cu : list (list nat)) (eg : list (nat * nat)) (n : nat) (log : list (nat * ev)) : bool :=
  replay_from cu (eager_of eg) (init_hists n) log.

(* premises of the confluence theorems on a log: no Test event (wildcards are not expressible) *)
Definition is_test (e : ev) : bool := match e with ETest _ _ _ _ => true | _ => false end.
Definition skeleton_ok (log : list (nat * ev)) : bool := forallb (fun we => negb (is_test (snd we))) log.

(* per-rank projection of a log = the straight-line communication skeleton of that rank *)
Definition proj (log : list (nat * ev)) (w : nat) : list ev :=
  filter_map (fun we => if Nat.eqb (fst we) w then Some (snd we) else None) log.

(* completeness of a log: every rank has no pending collective and every receive it posted was completed
   (the simulator reports never-completed sends separately) *)
Definition recv_reqs (h : list ev) : list nat :=
  filter_map (fun qe => match snd qe with ERecv _ _ _ => Some (fst qe) | _ => None end) (reqs h).

Definition rank_quiescent (h : list ev) : bool :=
  forallb (fun q => existsb (Nat.eqb q) (completed h)) (recv_reqs h).

(* ------------------------------------------------------------------ programs *)

(* A rank is a deterministic reactive program over a local state L.  [ATest]'s continuation sees the
   outcome; the confluence theorems assume programs never reach an [ATest]. *)
Inductive action (L : Type) : Type :=
| ASend (sync : bool) (c dst tag : nat) (v : val) (k : L)
| ARecv (c src tag : nat) (k : L)
| AWait (q : nat) (k : val -> L)
| ATest (q : nat) (k : option val -> L)
| AEnter (c kc root : nat) (v : val) (k : L)
| AExit (c : nat) (k : list val -> L)
| ADone.
Arguments ASend {L}. Arguments ARecv {L}. Arguments AWait {L}. Arguments ATest {L}.
Arguments AEnter {L}. Arguments AExit {L}. Arguments ADone {L}.

Definition prog (L : Type) := nat -> L -> action L.

Definition state (L : Type) := list (L * list ev).
Definition hists_of {L} (s : state L) : hists := map snd s.

Section Programs.
  Variable cu : list (list nat).
  Variable eager : nat -> nat -> bool.
  Context {L : Type}.
  Variable P : prog L.

  (* what rank w does next in local state l, given everybody's histories; [tb] resolves a Test *)
  Definition react (hs : hists) (w : nat) (l : L) (tb : bool) : option (L * ev) :=
    match P w l with
    | ASend sync c dst tag v k =>
        let e := ESend sync c dst tag v in if ev_ok cu eager hs w e then Some (k, e) else None
    | ARecv c src tag k =>
        let e := ERecv c src tag in if ev_ok cu eager hs w e then Some (k, e) else None
    | AWait q k =>
        match wait_cand cu eager hs w q with
        | Some (p, v) => Some (k v, EWait q p v)
        | None => None
        end
    | ATest q k =>
        match req_of (hist_of hs w) q with
        | Some _ =>
            if existsb (Nat.eqb q) (completed (hist_of hs w)) then None else
            match wait_cand cu eager hs w q, tb with
            | Some (p, v), true => Some (k (Some v), ETest q true p v)
            | _, _ => Some (k None, ETest q false None 0%Z)
            end
        | None => None
        end
    | AEnter c kc root v k =>
        let e := EEnter c kc root v in if ev_ok cu eager hs w e then Some (k, e) else None
    | AExit c k =>
        match exit_cand cu hs w c with
        | Some (vo, l') => Some (k l', EExit c vo)
        | None => None
        end
    | ADone => None
    end.

  Definition fire (s : state L) (w : nat) (tb : bool) : option (state L) :=
    match nth_error s w with
    | Some (l, h) =>
        match react (hists_of s) w l tb with
        | Some (l', e) => Some (upd s w (l', h ++ [e]))
        | None => None
        end
    | None => None
    end.

  Definition step (s s' : state L) : Prop := exists w tb, fire s w tb = Some s'.

  Definition terminal (s : state L) : Prop := forall w tb, fire s w tb = None.

  Definition all_done (s : state L) : Prop :=
    forall w l h, nth_error s w = Some (l, h) -> P w l = ADone.

  Definition test_free : Prop := forall w l q k, P w l <> ATest q k.

  Inductive steps : nat -> state L -> state L -> Prop :=
  | steps_O : forall s, steps 0 s s
  | steps_S : forall n s s1 s2, step s s1 -> steps n s1 s2 -> steps (S n) s s2.

  (* run a schedule (list of ranks) *)
  Fixpoint exec (s : state L) (sched : list nat) : option (state L) :=
    match sched with
    | [] => Some s
    | w :: rest => match fire s w true with Some s' => exec s' rest | None => None end
    end.
End Programs.

(* the straight-line skeleton program extracted from a log: local state = events still to perform *)
Definition skel_prog : prog (list ev) :=
  fun _ l =>
    match l with
    | [] => ADone
    | ESend sync c dst tag v :: t => ASend sync c dst tag v t
    | ERecv c src tag :: t => ARecv c src tag t
    | EWait q _ _ :: t => AWait q (fun _ => t)
    | ETest q _ _ _ :: t => ATest q (fun _ => t)
    | EEnter c kc root v :: t => AEnter c kc root v t
    | EExit c _ :: t => AExit c (fun _ => t)
    end.

Definition skel_init (n : nat) (log : list (nat * ev)) : state (list ev) :=
  map (fun w => (proj log w, [])) (seq 0 n).

(* ------------------------------------------------------------------ transport of logs into Coq
   Generated files carry logs as rows of eight primitive integers (fast to parse); the row formats are
   documented in harness/simmpi/logfmt.py.  [decode_log] fails on any malformed row. *)
Definition raw_row : Type := (int * int * int * int * int * int * int * int)%type.
Definition n_of (i : int) : nat := Z.to_nat (Uint63.to_Z i).
Definition z_of (i : int) : Z := Uint63.to_Z i.
Definition b_of (i : int) : bool := negb (Uint63.eqb i 0%uint63).

Definition decode_ev (r : raw_row) : option (nat * ev) :=
  let '(w, code, a, b, c, d, e, f) := r in
  match n_of code with
  | 0 => Some (n_of w, ESend (b_of a) (n_of b) (n_of c) (n_of d) (z_of e))
  | 1 => Some (n_of w, ERecv (n_of a) (n_of b) (n_of c))
  | 2 => Some (n_of w, EWait (n_of a) (Some (n_of b, n_of c)) (z_of d))
  | 3 => Some (n_of w, EWait (n_of a) None (z_of b))
  | 4 => Some (n_of w, ETest (n_of a) (b_of b) (if b_of c then Some (n_of d, n_of e) else None) (z_of f))
  | 5 => Some (n_of w, EEnter (n_of a) (n_of b) (n_of c) (z_of d))
  | 6 => Some (n_of w, EExit (n_of a) (if b_of b then Some (z_of c) else None))
  | _ => None
  end.

Fixpoint decode_log (rows : list raw_row) : option (list (nat * ev)) :=
  match rows with
  | [] => Some []
  | r :: t => match decode_ev r, decode_log t with
              | Some e, Some l => Some (e :: l)
              | _, _ => None
              end
  end.

(* everything the check asks about one log: (decodes, replay accepted, premises hold, first bad event,
   every rank quiescent at the end) *)
Definition check_log (cu : list (list nat)) (eg : list (nat * nat)) (n : nat) (rows : list raw_row)
  : bool * bool * bool * option nat * bool :=
  match decode_log rows with
  | Some log =>
      (true, replay cu eg n log, skeleton_ok log,
       first_bad cu (eager_of eg) (init_hists n) log 0,
       forallb rank_quiescent (run_log (init_hists n) log))
  | None => (false, false, false, None, false)
  end.
