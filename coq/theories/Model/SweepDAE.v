(* C02 (extension) — executable model of the sweepers of the DAE project
     pySDC/projects/DAE/sweepers/fullyImplicitDAE.py   (FullyImplicitDAE : generic_implicit)
     pySDC/projects/DAE/sweepers/semiImplicitDAE.py    (SemiImplicitDAE : FullyImplicitDAE)
     pySDC/projects/DAE/sweepers/rungeKuttaDAE.py      (RungeKuttaDAE : RungeKutta)
   Same conventions as Model/Sweep.v: numbers = any type K with ring operations (laws are hypotheses
   of the proof file only), values = X -> K pointwise, node data = nat -> _ with functional update,
   index 0 = initial value; loops become folds / structural recursion, mutation a new value.

   In these sweepers level.f does NOT hold right-hand sides but the DERIVATIVES U'_m; the problem is
   given in implicit form  eval_f(u, du, t) = F(u, u', t)  (an ARBITRARY function here) and
   P.solve_system(impl_sys, u_approx, factor, u0, t) is handed the function
       impl_sys = du |-> sweeper.F(du, P, factor, u_approx, t)
   and is to return a root of it (scipy.optimize.root in the shipped ProblemDAE).  The model's
   `solve` therefore takes that function as its first argument. *)
From Coq Require Import List Arith Bool.
From PySDC Require Import Model.Sweep.
Import ListNotations.

(* level.params.residual_type *)
Inductive restype := FullAbs | LastAbs | FullRel | LastRel.

(* FullyImplicitDAE.compute_residual, after the per-node norms res_norm[m] = abs(eval_f(u[m+1], f[m+1], t_m)) are known:
   stage in skip_residual_computation -> keep the old value (0.0 if None); else by residual_type
   (n0 = abs(u[0]); max(...) over the nodes, [-1] = last node) *)
Section ResidualStatus.
  Context {R : Type} (rO : R) (rmax rdiv : R -> R -> R).
  Definition maxl (l : list R) : R := match l with [] => rO | a :: l' => fold_left rmax l' a end.
  Definition residual_status (rt : restype) (skip : bool) (old : option R) (res : list R) (n0 : R) : R :=
    if skip then match old with None => rO | Some r => r end
    else match rt with
         | FullAbs => maxl res
         | LastAbs => last res rO
         | FullRel => rdiv (maxl res) n0
         | LastRel => rdiv (last res rO) n0
         end.
End ResidualStatus.

Section DAEModel.
  Context {K : Type} (kO : K) (kadd kmul ksub : K -> K -> K).
  Context {X : Type}.
  Notation V := (X -> K).
  Variable M : nat.
  Variable dt t0 : K.
  Variable nodes : nat -> K.
  Variable Q QI : nat -> nat -> K.            (* coll.Qmat, sweeper.QI in pySDC layout (row/col 0 = padding) *)
  Variable evalF : V -> V -> K -> V.          (* P.eval_f(u, du, t) *)
  Variable solve : (V -> V) -> V -> K -> V -> K -> V.   (* P.solve_system(impl_sys, u_approx, factor, u0, t) *)

  Notation tn := (tnode kadd kmul dt t0 nodes).
  Notation "a +v b" := (vadd kadd a b) (at level 50, left associativity).
  Notation "a -v b" := (vsub ksub a b) (at level 50, left associativity).
  Notation "c *v a" := (vscale kmul c a) (at level 40).

  (* FullyImplicitDAE.F(du, P, factor, u_approx, t):
       local_u_approx = u_approx + factor*du ;  sys = P.eval_f(local_u_approx, du, t) *)
  Definition dae_F (factor : K) (u_approx : V) (t : K) (du : V) : V :=
    evalF (u_approx +v factor *v du) du t.

  (* generic_implicit.integrate (inherited; f has a single part): me[m] = sum_{j=1..M} dt*Q[m,j]*f[j] *)
  Definition dae_integrate (f : nat -> V) (m : nat) : V :=
    accum kadd (vzero kO) 1 M (fun j => (kmul dt (Q m j)) *v f j).

  (* FullyImplicitDAE.update_nodes, gather loop:
       integral[m-1] -= dt*QI[m,j]*f[j]  (j = 1..M) ;  integral[m-1] += u[0]       (no tau in this class) *)
  Definition fi_gather (u0 : V) (f : nat -> V) (m : nat) : V :=
    accum_sub ksub (dae_integrate f m) 1 M (fun j => (kmul dt (QI m j)) *v f j) +v u0.

  (* the sweep: u_approx = integral[m-1] + sum_{j=1..m-1} dt*QI[m,j]*f[j] (f already updated for j < m);
       f[m] = solve_system(F, u_approx, dt*QI[m,m], f[m], t_m) *)
  Fixpoint fi_loop (g : nat -> V) (ms : list nat) (f' : nat -> V) : nat -> V :=
    match ms with
    | [] => f'
    | m :: ms' =>
        let ua := accum kadd (g m) 1 (m - 1) (fun j => (kmul dt (QI m j)) *v f' j) in
        let a := kmul dt (QI m m) in
        let w := solve (dae_F a ua (tn m)) ua a (f' m) (tn m) in
        fi_loop g ms' (upd f' m w)
    end.

  (* "Update solution approximation": integral = integrate() ; u[m+1] = u[0] + integral[m], m = 0..M-1 *)
  Definition dae_set_nodes (u fn : nat -> V) : nat -> V :=
    fold_left (fun u' m => upd u' m (u' 0 +v dae_integrate fn m)) (seq 1 M) u.

  Definition fi_update (u f : nat -> V) : (nat -> V) * (nat -> V) :=
    let fn := fi_loop (fi_gather (u 0) f) (seq 1 M) f in
    (dae_set_nodes u fn, fn).

  (* FullyImplicitDAE.predict: f[0] = 0; 'spread': u[m] = u[0], f[m] = 0; 'zero': u[m] = 0, f[m] = 0
     ('random' is not modelled).  Nodes beyond M do not exist in the code; they keep their value here. *)
  Definition fi_predict (spread : bool) (u f : nat -> V) : (nat -> V) * (nat -> V) :=
    fold_left (fun st m => (upd (fst st) m (if spread then fst st 0 else vzero kO), upd (snd st) m (vzero kO)))
              (seq 1 M) (u, upd f 0 (vzero kO)).

  (* FullyImplicitDAE.compute_residual: the vector whose norm enters the residual, node m *)
  Definition dae_residual_vec (u f : nat -> V) (m : nat) : V := evalF (u m) (f m) (tn m).

  (* ... and the value stored in level.status.residual *)
  Context {R : Type} (rO : R) (rmax rdiv : R -> R -> R) (norm : V -> R).
  Definition dae_residual (rt : restype) (skip : bool) (old : option R) (u f : nat -> V) : R :=
    residual_status rO rmax rdiv rt skip old (map (fun m => norm (dae_residual_vec u f m)) (seq 1 M)) (norm (u 0)).

  (* FullyImplicitDAE.compute_end_point: raises NotImplementedError (None) unless right_is_node and not
     do_coll_update, then defers to generic_implicit.compute_end_point (Model/Sweep.v end_point, one part) *)
  Definition dae_end_point (weights : nat -> K) (rin dcu : bool) (u f : nat -> V) (tau : nat -> option V) : option V :=
    if negb rin || dcu then None
    else Some (end_point kO kadd kmul M dt weights 1 rin dcu u (fun m _ => f m) tau).

  (* RungeKuttaDAE.update_nodes (A = sweeper.QI = coll.Qmat = zero-padded Butcher matrix; nodes m = coll.nodes[m],
     whose entry 0 is the prepended 0): stage m (code: m+1) starts from u[0], adds dt*A[m,j]*f[j] of the stages
     before it, solves FullyImplicitDAE.F with factor dt*A[m,m] and the PREVIOUS stage's derivative f[m-1]
     as initial guess; afterwards u[m] = u[0] + integrate()[m-1] (RungeKuttaDAE.integrate = dae_integrate). *)
  Fixpoint rkdae_loop (u0 : V) (ms : list nat) (f' : nat -> V) : nat -> V :=
    match ms with
    | [] => f'
    | m :: ms' =>
        let ua := accum kadd u0 1 (m - 1) (fun j => (kmul dt (QI m j)) *v f' j) in
        let a := kmul dt (QI m m) in
        let w := solve (dae_F a ua (tn m)) ua a (f' (m - 1)) (tn m) in
        rkdae_loop u0 ms' (upd f' m w)
    end.
  Definition rkdae_update (u f : nat -> V) : (nat -> V) * (nat -> V) :=
    let fn := rkdae_loop (u 0) (seq 1 M) f in
    (dae_set_nodes u fn, fn).
End DAEModel.

(* ---------------------------------------------------------------- SemiImplicitDAE
   Values are MeshDAE objects with a differential and an algebraic component: pairs (X -> K) * (Y -> K).
   Only the differential components are integrated; the algebraic variables are solved for directly:
   the unknown handed to the solver is (U'_m.diff, z_m). *)
Section SemiModel.
  Context {K : Type} (kO : K) (kadd kmul ksub : K -> K -> K).
  Context {X Y : Type}.
  Notation Vd := (X -> K).
  Notation Va := (Y -> K).
  Notation mesh := ((X -> K) * (Y -> K))%type.
  Variable M : nat.
  Variable dt t0 : K.
  Variable nodes : nat -> K.
  Variable Q QI : nat -> nat -> K.
  Variable evalF : mesh -> mesh -> K -> mesh.
  Variable solve : (mesh -> mesh) -> mesh -> K -> mesh -> K -> mesh.

  Notation tn := (tnode kadd kmul dt t0 nodes).
  Notation "a +v b" := (vadd kadd a b) (at level 50, left associativity).
  Notation "c *v a" := (vscale kmul c a) (at level 40).

  (* SemiImplicitDAE.F: local_u = dtype_u(u_approx); local_u.diff += factor*du.diff; local_u.alg = du.alg;
       sys = P.eval_f(local_u, du, t) *)
  Definition si_F (factor : K) (u_approx : mesh) (t : K) (du : mesh) : mesh :=
    evalF (fst u_approx +v factor *v fst du, snd du) du t.

  (* SemiImplicitDAE.integrate: me[m].diff = sum_j dt*Q[m,j]*f[j].diff ; me[m].alg = 0 *)
  Definition si_integrate (f : nat -> mesh) (m : nat) : mesh :=
    (accum kadd (vzero kO) 1 M (fun j => (kmul dt (Q m j)) *v fst (f j)), vzero kO).

  (* gather: integral[m-1].diff -= dt*QI[m,j]*f[j].diff for j = 1..m (sic: up to m, not M) ; += u[0].diff *)
  Definition si_gather (u0 : mesh) (f : nat -> mesh) (m : nat) : mesh :=
    let i := si_integrate f m in
    (accum_sub ksub (fst i) 1 m (fun j => (kmul dt (QI m j)) *v fst (f j)) +v fst u0, snd i).

  (* sweep: u_approx.diff += dt*QI[m,j]*f[j].diff (j < m); guess = (f[m].diff, u[m].alg);
       u_new = solve_system(F, u_approx, dt*QI[m,m], guess, t_m); f[m].diff = u_new.diff; u[m].alg = u_new.alg *)
  Fixpoint si_loop (g : nat -> mesh) (ms : list nat) (st : (nat -> mesh) * (nat -> mesh))
    : (nat -> mesh) * (nat -> mesh) :=
    match ms with
    | [] => st
    | m :: ms' =>
        let '(u', f') := st in
        let ua := (accum kadd (fst (g m)) 1 (m - 1) (fun j => (kmul dt (QI m j)) *v fst (f' j)), snd (g m)) in
        let a := kmul dt (QI m m) in
        let guess := (fst (f' m), snd (u' m)) in
        let w := solve (si_F a ua (tn m)) ua a guess (tn m) in
        si_loop g ms' (upd u' m (fst (u' m), snd w), upd f' m (fst w, snd (f' m)))
    end.

  (* u[m+1].diff = u[0].diff + integrate()[m].diff *)
  Definition si_set_nodes (u fn : nat -> mesh) : nat -> mesh :=
    fold_left (fun u' m => upd u' m (fst (u' 0) +v fst (si_integrate fn m), snd (u' m))) (seq 1 M) u.

  Definition si_update (u f : nat -> mesh) : (nat -> mesh) * (nat -> mesh) :=
    let '(u1, fn) := si_loop (si_gather (u 0) f) (seq 1 M) (u, f) in
    (si_set_nodes u1 fn, fn).

  (* compute_residual (inherited from FullyImplicitDAE) *)
  Definition si_residual_vec (u f : nat -> mesh) (m : nat) : mesh := evalF (u m) (f m) (tn m).
  Context {R : Type} (rO : R) (rmax rdiv : R -> R -> R) (norm : mesh -> R).
  Definition si_residual (rt : restype) (skip : bool) (old : option R) (u f : nat -> mesh) : R :=
    residual_status rO rmax rdiv rt skip old (map (fun m => norm (si_residual_vec u f m)) (seq 1 M)) (norm (u 0)).

  (* predict (inherited from FullyImplicitDAE; whole meshes) *)
  Definition si_predict (spread : bool) (u f : nat -> mesh) : (nat -> mesh) * (nat -> mesh) :=
    fold_left (fun st m => (upd (fst st) m (if spread then fst st 0 else (vzero kO, vzero kO)), upd (snd st) m (vzero kO, vzero kO)))
              (seq 1 M) (u, upd f 0 (vzero kO, vzero kO)).
End SemiModel.
