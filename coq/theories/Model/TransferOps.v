(* C11 — transfer operators in time and space: executable model + validators (no proofs here).

   Mirrors
     pySDC/core/base_transfer.py            Pcoll / Rcoll = Lagrange interpolation matrices between node sets
     pySDC/helpers/transfer_helper.py       next_neighbors, next_neighbors_periodic, continue_periodic_array,
                                            border_padding, the neighbour selection of interpolation_matrix_1d
                                            (equidist_nested shortcut and the general path), restriction_matrix_1d
     pySDC/implementations/transfer_classes TransferMesh (R = 1/2 P^T or injection, Kronecker products),
                                            TransferMesh_FFT (zero padding of the half spectrum, injection)

   Numbers: matrix entries and collocation nodes enter as exact dyadics [dy]; grid coordinates enter as
   integers in a common unit (all grids used by the check have dyadic coordinates, so this is exact).
   Proofs live in Proofs/TransferOpsProofs.v. *)
From Coq Require Import ZArith QArith List Bool Lia.
From PySDC Require Import Base.Dyadic.
Import ListNotations.
Open Scope Z_scope.

Fixpoint zseq (lo : Z) (n : nat) : list Z := match n with O => [] | S n' => lo :: zseq (lo + 1) n' end.
Definition getz (l : list Z) (i : Z) : Z := nth (Z.to_nat i) l 0.
Definition getcol (row : list dy) (c : Z) : dy := if c <? 0 then d0 else nth (Z.to_nat c) row d0.

(* ================================================================================================
   1. Generic interpolation-row validator.
      A row (w_j) over source abscissae (xs_j) claims to evaluate at x:  sum_j w_j xs_j^k = x^k, k < |xs|,
      each up to  rtol * (sum_j |w_j| |xs_j|^k + |x|^k) + atol.                                        *)

Fixpoint imoment (w xs : list dy) (k : nat) : dy :=
  match w, xs with
  | wi :: w', xi :: xs' => dadd (dmul wi (dpow xi k)) (imoment w' xs' k)
  | _, _ => d0
  end.

Fixpoint imoment_abs (w xs : list dy) (k : nat) : dy :=
  match w, xs with
  | wi :: w', xi :: xs' => dadd (dmul (dabs wi) (dpow (dabs xi) k)) (imoment_abs w' xs' k)
  | _, _ => d0
  end.

Definition row_scale (w xs : list dy) (x : dy) (k : nat) : dy := dadd (imoment_abs w xs k) (dpow (dabs x) k).

Definition row_bound (w xs : list dy) (x rtol atol : dy) (k : nat) : dy :=
  dadd (dmul rtol (row_scale w xs x k)) atol.

Definition check_row_moment (w xs : list dy) (x rtol atol : dy) (k : nat) : bool :=
  dleb (dabs (dsub (imoment w xs k) (dpow x k))) (row_bound w xs x rtol atol k).

Definition check_interp_row (w xs : list dy) (x rtol atol : dy) : bool :=
  Nat.eqb (length w) (length xs) && forallb (check_row_moment w xs x rtol atol) (seq 0 (length xs)).

Definition first_bad_row_moment (w xs : list dy) (x rtol atol : dy) : option nat :=
  find (fun k => negb (check_row_moment w xs x rtol atol k)) (seq 0 (length xs)).

(* ================================================================================================
   2. Transfer between collocation node sets (BaseTransfer.Pcoll / Rcoll):
      P has one row per destination node; row i interpolates from all source nodes to dst_i.        *)

Definition check_node_transfer (P : list (list dy)) (src dst : list dy) (rtol atol : dy) : bool :=
  Nat.eqb (length P) (length dst) &&
  forallb (fun rd => check_interp_row (fst rd) src (snd rd) rtol atol) (combine P dst).

(* diagnostics: (row, moment) of the first failing condition *)
Fixpoint first_bad_node_row (i : nat) (P : list (list dy)) (src dst : list dy) (rtol atol : dy) : option (nat * nat) :=
  match P, dst with
  | r :: P', d :: dst' =>
      if check_interp_row r src d rtol atol then first_bad_node_row (S i) P' src dst' rtol atol
      else Some (i, match first_bad_row_moment r src d rtol atol with Some k => k | None => 999%nat end)
  | _, _ => None
  end.

(* ================================================================================================
   3. R . P = I  (restriction after prolongation is the identity on the coarse set).
      Row i of R.P is the linear combination of the rows of P with the coefficients R[i,:].            *)

Definition vscale (a : dy) (v : list dy) : list dy := map (dmul a) v.

Fixpoint vadd (u v : list dy) : list dy :=
  match u, v with
  | a :: u', b :: v' => dadd a b :: vadd u' v'
  | _, _ => []
  end.

Fixpoint lincomb (r : list dy) (P : list (list dy)) (n : nat) : list dy :=
  match r, P with
  | a :: r', p :: P' => vadd (vscale a p) (lincomb r' P' n)
  | _, _ => repeat d0 n
  end.

Fixpoint delta_from (j i n : nat) : list dy :=
  match n with
  | O => []
  | S n' => (if Nat.eqb j i then d1 else d0) :: delta_from (S j) i n'
  end.

Definition close_rows (a b : list dy) (tol : dy) : bool :=
  Nat.eqb (length a) (length b) &&
  forallb (fun ab => dleb (dabs (dsub (fst ab) (snd ab))) tol) (combine a b).

Definition check_RP_row (P : list (list dy)) (n : nat) (tol : dy) (ir : nat * list dy) : bool :=
  Nat.eqb (length (snd ir)) (length P) && close_rows (lincomb (snd ir) P n) (delta_from 0 (fst ir) n) tol.

Definition check_RP (R P : list (list dy)) (n : nat) (tol : dy) : bool :=
  dleb d0 tol && forallb (fun p => Nat.eqb (length p) n) P && Nat.eqb (length R) n &&
  forallb (check_RP_row P n tol) (combine (seq 0 n) R).

(* R = c * P^T exactly (TransferMesh: restr_factor * Pspace.T; c = 1/2 or 1) *)
Definition check_scaled_transpose (R P : list (list dy)) (c : dy) : bool :=
  forallb (fun ir => forallb (fun jp => deqb (nth (snd (fst jp)) (snd ir) d0) (dmul c (nth (fst ir) (snd jp) d0)))
                       (combine (combine (seq 0 (length P)) (seq 0 (length P))) P) &&
                     Nat.eqb (length (snd ir)) (length P))
          (combine (seq 0 (length R)) R) &&
  forallb (fun p => Nat.eqb (length p) (length R)) P.

(* ================================================================================================
   4. Spatial interpolation rows.  All positions in units of the fine mesh width.

      periodic:      nf = 2 nc, fine point i at i, coarse column c at 2c, images 2c + m*nf
      non-periodic:  nf = 2 nc + 1, fine point i at i+1, padded coarse index q = 0..nc+1 at 2q
                     (q = 0 and q = nc+1 are the homogeneous boundary values, column = q-1 otherwise)

      A support is a list of (column, offset) pairs: offset = (position of the node used for that column)
      - (position of the fine point).                                                                  *)

(* the support the property promises: the k nearest coarse points (periodic images included) *)
Definition per_support (nc k i : Z) : list (Z * Z) :=
  if Z.even i then [(i / 2, 0)]
  else map (fun j => let r := i / 2 - k / 2 + 1 + j in (r mod nc, 2 * r - i)) (zseq 0 (Z.to_nat k)).

(* ... and the k nearest points of the padded coarse grid (window shifted into [0, nc+1]) *)
Definition dir_support (nc k i : Z) : list (Z * Z) :=
  if Z.odd i then [((i + 1) / 2, 0)]
  else let s := Z.max 0 (Z.min (i / 2 - k / 2 + 1) (nc + 2 - k)) in
       map (fun j => let q := s + j in (q, 2 * q - (i + 1))) (zseq 0 (Z.to_nat k)).

Fixpoint nodupb (l : list Z) : bool :=
  match l with [] => true | a :: l' => negb (existsb (Z.eqb a) l') && nodupb l' end.

Definition zeros_outside (row : list dy) (cols : list Z) : bool :=
  forallb (fun cv => existsb (Z.eqb (fst cv)) cols || deqb (snd cv) d0) (combine (zseq 0 (length row)) row).

(* row (dense, column 0 first) against a support: columns distinct and inside the row, nothing outside the
   support (and outside the exempt columns), interpolation moments on the offsets *)
Definition check_sup_row (sup : list (Z * Z)) (exempt : list Z) (row : list dy) (rtol : dy) : bool :=
  let cols := map fst sup in
  nodupb cols &&
  forallb (fun c => (0 <=? c) && (c <? Z.of_nat (length row))) cols &&
  zeros_outside row (cols ++ exempt) &&
  check_interp_row (map (getcol row) cols) (map (fun o => dZ o) (map snd sup)) d0 rtol d0.

Definition check_per_row (nc k i : Z) (row : list dy) (rtol : dy) : bool :=
  (Z.of_nat (length row) =? nc) && check_sup_row (per_support nc k i) [] row rtol.

(* non-periodic: the code drops the boundary columns of the padded matrix; the padded row is re-completed
   with the weight  wb = 1 - sum(row)  on the boundary columns (at most one of them is in the support) *)
Definition pad_row (row : list dy) : list dy :=
  let wb := dsub d1 (dsum row) in wb :: row ++ [wb].

Definition check_dir_row (nc k i : Z) (row : list dy) (rtol : dy) : bool :=
  (Z.of_nat (length row) =? nc) && (k <=? nc + 1) &&
  check_sup_row (dir_support nc k i) [0; nc + 1] (pad_row row) rtol.

(* whole matrices: rows 0 .. nf-1 *)
Definition check_per_matrix (nc k : Z) (M : list (list dy)) (rtol : dy) : list bool :=
  map (fun ir => check_per_row nc k (fst ir) (snd ir) rtol) (combine (zseq 0 (length M)) M).
Definition check_dir_matrix (nc k : Z) (M : list (list dy)) (rtol : dy) : list bool :=
  map (fun ir => check_dir_row nc k (fst ir) (snd ir) rtol) (combine (zseq 0 (length M)) M).

(* ================================================================================================
   5. The neighbour selection of transfer_helper.py, mirrored.                                       *)

(* sorted(value_index, key = distance) is a stable sort of a list that is ordered by index, i.e. the sort
   by the lexicographic key (distance, index) *)
Definition lex_leb (a b : Z * Z) : bool :=
  (fst a <? fst b) || ((fst a =? fst b) && (snd a <=? snd b)).

Fixpoint insert_lex (a : Z * Z) (l : list (Z * Z)) : list (Z * Z) :=
  match l with
  | [] => [a]
  | b :: l' => if lex_leb a b then a :: l else b :: insert_lex a l'
  end.

Definition sort_lex (l : list (Z * Z)) : list (Z * Z) := fold_right insert_lex [] l.

Definition zsort (l : list Z) : list Z := map fst (sort_lex (map (fun z => (z, 0)) l)).

Definition select_nearest (dist : list Z) (k : nat) : list Z :=
  zsort (map snd (firstn k (sort_lex (combine dist (zseq 0 (length dist)))))).

(* next_neighbors(p, ps, k) *)
Definition next_neighbors (p : Z) (ps : list Z) (k : nat) : list Z :=
  select_nearest (map (fun t => Z.abs (t - p)) ps) k.

(* next_neighbors_periodic(p, ps, k) on a domain of period L (the code hard-wires period 1.0) *)
Definition per_dist (L pbar t : Z) : Z :=
  Z.min (Z.abs (t + L - pbar)) (Z.min (Z.abs (t - pbar)) (Z.abs (t - L - pbar))).

Definition next_neighbors_periodic (L p : Z) (ps : list Z) (k : nat) : list Z :=
  let pbar := p mod L in
  let ps0 := hd 0 ps in
  select_nearest (map (fun t => per_dist L pbar (t - ps0)) ps) k.

(* continue_periodic_array(arr, nn) *)
Fixpoint all_consecutive (prev : Z) (nn : list Z) : bool :=
  match nn with [] => true | n :: nn' => (n - prev =? 1) && all_consecutive n nn' end.

Fixpoint cont_tail (arr : list Z) (L prev shift : Z) (nn : list Z) : list Z :=
  match nn with
  | [] => []
  | n :: nn' => let shift' := if n - prev =? 1 then shift else - L in
                (getz arr n + shift') :: cont_tail arr L n shift' nn'
  end.

Definition continue_periodic_array (L : Z) (arr nn : list Z) : list Z :=
  match nn with
  | [] => []
  | n0 :: nn' => if all_consecutive n0 nn' then map (getz arr) nn
                 else getz arr n0 :: cont_tail arr L n0 0 nn'
  end.

(* border_padding(grid, l, r, 'mirror') *)
Definition border_padding (grid : list Z) (l r : nat) : list Z :=
  let n := length grid in
  map (fun i => 2 * hd 0 grid - getz grid (Z.of_nat l - i)) (zseq 0 l) ++ grid ++
  map (fun j => 2 * last grid 0 - getz grid (Z.of_nat n - 2 - j)) (zseq 0 r).

Definition zsum (l : list Z) : Z := fold_right Z.add 0 l.

(* the final shift of the interpolation nodes by one period:
   if p > mean(grid) and not (cont[0] <= p <= cont[-1]): cont += 1 *)
Definition shift_period (L p : Z) (grid cont : list Z) : list Z :=
  if (zsum grid <? p * Z.of_nat (length grid)) && negb ((hd 0 cont <=? p) && (p <=? last cont 0))
  then map (fun t => t + L) cont else cont.

(* index selection of the equidist_nested shortcut, periodic (odd fine index i) *)
Definition nested_nn_per (nc k i : Z) : list Z :=
  zsort (map (fun j => let n := i / 2 - k / 2 + 1 + j in
                       if n <? 0 then n + nc else if nc - 1 <? n then n - nc else n) (zseq 0 (Z.to_nat k))).

(* ... non-periodic (even fine index i), indices into the padded coarse grid *)
Definition nested_nn_dir (nc k i : Z) : list Z :=
  zsort (map (fun j => let n := i / 2 - k / 2 + 1 + j in
                       if n <? 0 then n + k else if nc + 1 <? n then n - k else n) (zseq 0 (Z.to_nat k))).

(* support (column, offset) of row i as the code builds it. [tgt] is the grid the row index runs over
   (fine grid for interpolation, coarse grid for restriction), [src] the grid interpolated from. *)
Definition model_row_per_general (L : Z) (tgt src : list Z) (k : nat) (i : Z) : list (Z * Z) :=
  let p := getz tgt i in
  let nn := next_neighbors_periodic L p src k in
  let cont := shift_period L p tgt (continue_periodic_array L src nn) in
  combine nn (map (fun t => t - p) cont).

Definition model_row_per_nested (L : Z) (fine coarse : list Z) (k i : Z) : list (Z * Z) :=
  if Z.even i then [(i / 2, 0)]
  else let p := getz fine i in
       let nn := nested_nn_per (Z.of_nat (length coarse)) k i in
       let cont := shift_period L p fine (continue_periodic_array L coarse nn) in
       combine nn (map (fun t => t - p) cont).

(* non-periodic, pad = 1: columns are indices into the padded source grid *)
Definition model_row_dir_general (tgt src : list Z) (k : nat) (i : Z) : list (Z * Z) :=
  let p := getz tgt i in
  let padded := border_padding src 1 1 in
  let nn := next_neighbors p padded k in
  combine nn (map (fun n => getz padded n - p) nn).

Definition model_row_dir_nested (fine coarse : list Z) (k i : Z) : list (Z * Z) :=
  if Z.odd i then [((i - 1) / 2 + 1, 0)]
  else let p := getz fine i in
       let padded := border_padding coarse 1 1 in
       let nn := nested_nn_dir (Z.of_nat (length coarse)) k i in
       combine nn (map (fun n => getz padded n - p) nn).

(* two supports agree as sets of (column, offset) pairs *)
Definition pair_eqb (a b : Z * Z) : bool := (fst a =? fst b) && (snd a =? snd b).
Definition same_support (a b : list (Z * Z)) : bool :=
  Nat.eqb (length a) (length b) &&
  forallb (fun x => existsb (pair_eqb x) b) a && forallb (fun x => existsb (pair_eqb x) a) b.

(* ================================================================================================
   6. FFT prolongation (TransferMesh_FFT._prolong): the half spectrum of the coarse data is copied into
      a zero half spectrum of the fine grid: entries 0 .. nc/2-1 and the last one (index nf/2 <- nc/2). *)

Definition fft_pad_half {A} (zero : A) (nc nf : nat) (chat : list A) : list A :=
  map (fun j => if Nat.ltb j (nc / 2) then nth j chat zero
                else if Nat.eqb j (nf / 2) then nth (nc / 2) chat zero else zero)
      (seq 0 (nf / 2 + 1)).
