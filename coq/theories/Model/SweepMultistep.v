(* C02 (extension) — executable model of pySDC/implementations/sweeper_classes/Multistep.py
   (Cache, MultiStep.predict / update_nodes / compute_end_point / compute_residual,
   AdamsMoultonImplicit2Step.generate_starting_values; the shipped methods differ only in alpha / beta).

   Conventions as in Model/Sweep.v: numbers K with ring operations (laws only in the proof file),
   values V := X -> K, the right-hand side  feval u t = prob.eval_f(u, t)  and the implicit solve
   solve rhs factor guess t = prob.solve_system(rhs, factor, guess, t)  are arbitrary functions.
   `khalf x` stands for x / 2 (`lvl.dt / 2`, `lvl.dt / 2.0`).

   The cache is a list of `steps = len(alpha)` slots, oldest first; a slot is None or the triple
   (t, u, f) (the three parallel lists of the Python class are always shifted together).
   Python exceptions are results:  NotImplementedError of the base class's generate_starting_values,
   TypeError when the starter multiplies lvl.f[0] = None (any start step after the first one, since the
   controller resets the level between steps). *)
From Coq Require Import List Arith Bool.
From PySDC Require Import Model.Sweep.
Import ListNotations.

Inductive ms_starter := NoStarter | Trapezoid.     (* MultiStep.generate_starting_values / AdamsMoultonImplicit2Step's *)
Inductive ms_error := NotImplementedError | TypeErrorNone.
Inductive ms_result (A : Type) := MsOk (a : A) | MsErr (e : ms_error).
Arguments MsOk {A}. Arguments MsErr {A}.

Section MultistepModel.
  Context {K : Type} (kO : K) (kadd kmul ksub : K -> K -> K) (khalf : K -> K).
  Context {X : Type}.
  Notation V := (X -> K).

  Record ms_entry := { e_t : K; e_u : V; e_f : V }.
  Definition ms_cache := list (option ms_entry).

  (* Cache.update: u[:-1] = u[1:]; u[-1] = new  (same for f, t) *)
  Definition cache_update (c : ms_cache) (e : ms_entry) : ms_cache :=
    match c with [] => [] | _ :: c' => c' ++ [Some e] end.

  Definition is_none {A} (o : option A) : bool := match o with None => true | Some _ => false end.

  Fixpoint all_some {A} (l : list (option A)) : option (list A) :=
    match l with
    | [] => Some []
    | None :: _ => None
    | Some a :: l' => match all_some l' with Some r => Some (a :: r) | None => None end
    end.

  Variable feval : V -> K -> V.
  Variable solve : V -> K -> V -> K -> V.
  Variable alpha beta : list K.            (* class attributes; len(beta) = len(alpha) + 1 for the shipped methods *)

  Variable starter : ms_starter.

  (* predict(): add the initial conditions to the cache if it is completely empty; returns (cache, lvl.f[0]) *)
  Definition ms_predict (c : ms_cache) (t0 : K) (u0 : V) (f0 : option V) : ms_cache * option V :=
    if forallb is_none c then
      let f := feval u0 t0 in (cache_update c {| e_t := t0; e_u := u0; e_f := f |}, Some f)
    else (c, f0).

  Definition ms_dummy : ms_entry := {| e_t := kO; e_u := vzero kO; e_f := vzero kO |}.

  (* dts = [t[i+1] - t[i] for i in range(steps-1)] + [time - t[-1]] *)
  Definition ms_dts (es : list ms_entry) (time : K) (i : nat) : K :=
    if Nat.ltb (S i) (length alpha) then ksub (e_t (nth (S i) es ms_dummy)) (e_t (nth i es ms_dummy))
    else ksub time (e_t (last es ms_dummy)).

  (* rhs = 0;  for i in range(len(alpha)): rhs -= alpha[i]*cache.u[i]; rhs += dts[i]*beta[i]*cache.f[i] *)
  Definition ms_rhs (es : list ms_entry) (time : K) : V :=
    fold_left (fun rhs i =>
                 vadd kadd (vsub ksub rhs (vscale kmul (nth i alpha kO) (e_u (nth i es ms_dummy))))
                      (vscale kmul (kmul (ms_dts es time i) (nth i beta kO)) (e_f (nth i es ms_dummy))))
              (seq 0 (length alpha)) (vzero kO).

  (* update_nodes(): returns (new cache, lvl.u[1], lvl.f[1]) *)
  Definition ms_update (c : ms_cache) (t0 dt : K) (u0 : V) (f0 : option V) : ms_result (ms_cache * V * V) :=
    let time := kadd t0 dt in
    let fin := fun (u1 : V) => let f1 := feval u1 time in
                 MsOk (cache_update c {| e_t := time; e_u := u1; e_f := f1 |}, u1, f1) in
    match all_some c with
    | None =>                                           (* `None in self.cache.t`: generate_starting_values() *)
        match starter with
        | NoStarter => MsErr NotImplementedError
        | Trapezoid =>
            match f0 with
            | None => MsErr TypeErrorNone
            | Some f => fin (solve (vadd kadd u0 (vscale kmul (khalf dt) f)) (khalf dt) u0 time)
            end
        end
    | Some es =>
        fin (solve (ms_rhs es time) (kmul dt (last beta kO)) (e_u (last es ms_dummy)) time)
    end.

  (* compute_end_point(): lvl.uend = lvl.u[-1];  compute_residual(): lvl.status.residual = 0.0 *)
  Definition ms_end_point (u1 : V) : V := u1.
  Definition ms_residual : K := kO.

  (* one time step the way the controller drives the sweeper: the level was reset (lvl.f[0] = None), u[0] and the
     time are set, then predict(), update_nodes(), compute_residual(), compute_end_point() *)
  Definition ms_time_step (c : ms_cache) (t0 dt : K) (u0 : V) : ms_result (ms_cache * V * V) :=
    let '(c1, f0) := ms_predict c t0 u0 None in ms_update c1 t0 dt u0 f0.

  (* a run over the step sizes dts, starting from cache c at (t, u): the trajectory [(t1,u1); (t2,u2); ...] and the final
     cache, or the trajectory up to the failing step and the error *)
  Fixpoint ms_run (c : ms_cache) (t : K) (u : V) (dts : list K) : list (K * V * V) * ms_cache * option ms_error :=
    match dts with
    | [] => ([], c, None)
    | dt :: dts' =>
        match ms_time_step c t dt u with
        | MsErr e => ([], fst (ms_predict c t u None), Some e)      (* predict() has already run when update_nodes() raises *)
        | MsOk (c', u1, f1) =>
            let '(tr, cf, err) := ms_run c' (kadd t dt) (ms_end_point u1) dts' in
            ((kadd t dt, u1, f1) :: tr, cf, err)
        end
    end.
End MultistepModel.
