(* C14 — executable model of pySDC's statistics records.

   Sources mirrored (pinned tree):
     pySDC/core/hooks.py            Entry namedtuple, Hooks.add_to_stats / increment_stats, the refresh of
                                    the private restart counter by every pre_*/post_* callback
     pySDC/helpers/stats_helper.py  filter_stats (both phases of the `recomputed` pruning, the recursion on
                                    type='_recomputed'), sort_stats, get_list_of_types, get_sorted
     pySDC/core/controller.py       Controller.return_stats (merge of the dictionaries of all hooks)
     pySDC/implementations/hooks/default_hook.py  DefaultHooks.post_step (records niter, residual, markers)
     pySDC/implementations/convergence_controller_classes/basic_restarting.py
                                    BasicRestartingNonMPI.prepare_next_block (called once per step, mutating)

   Conventions.
   * A Python dict is an association list in insertion order with pairwise different keys; writing an
     existing key keeps its position (dict_set), pop removes it (dict_pop).
   * Entry fields are `option`: None is Python's None.  Times are floats in Python; they enter the model
     as the integer  x * 2^1074  (every finite double is an integer multiple of 2^-1074), written
     `tz m e` for x = m * 2^e; this keeps equality Leibniz and the order exact (see StatsProofs.tz_order).
   * Values are opaque (type V) except for truthiness (needed for the '_recomputed' markers) and `+`
     (increment_stats).
   * Python exceptions (TypeError from `None > 0`, from np.unique / sorted on None) are `None` results. *)
From Coq Require Import ZArith List Bool String.
Import ListNotations.
Open Scope Z_scope.

Record entry := Entry {
  e_process : option Z;
  e_process_sweeper : option Z;
  e_time : option Z;
  e_level : option Z;
  e_iter : option Z;
  e_sweep : option Z;
  e_type : option string;
  e_num_restarts : option Z }.

Definition tz (m e : Z) : Z := m * 2 ^ (e + 1074).

Definition oeqb {A} (eqb : A -> A -> bool) (a b : option A) : bool :=
  match a, b with
  | Some x, Some y => eqb x y
  | None, None => true
  | _, _ => false
  end.

(* key equality; written with `if` so that evaluation stops at the first differing field (cheap fields first) *)
Definition entry_eqb (a b : entry) : bool :=
  if oeqb Z.eqb (e_process a) (e_process b) then
  if oeqb Z.eqb (e_iter a) (e_iter b) then
  if oeqb Z.eqb (e_num_restarts a) (e_num_restarts b) then
  if oeqb Z.eqb (e_level a) (e_level b) then
  if oeqb Z.eqb (e_sweep a) (e_sweep b) then
  if oeqb Z.eqb (e_process_sweeper a) (e_process_sweeper b) then
  if oeqb String.eqb (e_type a) (e_type b) then oeqb Z.eqb (e_time a) (e_time b)
  else false else false else false else false else false else false else false.

Definition dict (V : Type) := list (entry * V).

Definition keys {V} (d : dict V) : list entry := map fst d.

(* d[k] = v *)
Fixpoint dict_set {V} (k : entry) (v : V) (d : dict V) : dict V :=
  match d with
  | [] => [(k, v)]
  | (k', v') :: r => if entry_eqb k' k then (k', v) :: r else (k', v') :: dict_set k v r
  end.

Fixpoint dict_get {V} (k : entry) (d : dict V) : option V :=
  match d with
  | [] => None
  | (k', v') :: r => if entry_eqb k' k then Some v' else dict_get k r
  end.

(* d.pop(k, None) *)
Definition dict_pop {V} (k : entry) (d : dict V) : dict V :=
  filter (fun kv => negb (entry_eqb (fst kv) k)) d.

Definition pop_all {V} (ks : list entry) (d : dict V) : dict V :=
  fold_left (fun acc k => dict_pop k acc) ks d.

(* {**a, **b} *)
Definition dict_update {V} (a b : dict V) : dict V :=
  fold_left (fun acc kv => dict_set (fst kv) (snd kv) acc) b a.

(* ------------------------------------------------------------------ keyword arguments of filter_stats *)

(* kw_e: the value given for each Entry field (None: not given, or given as None — the source skips
   both); kw_unknown: some keyword that is not an Entry field was given with a non-None value
   (k._asdict().get(k2, None) == v2 is then False for every key). *)
Record kwargs := KW { kw_e : entry; kw_unknown : bool }.

Definition e_none : entry := Entry None None None None None None None None.
Definition kw_all : kwargs := KW e_none false.
Definition kw_time (t : option Z) : kwargs := KW (Entry None None t None None None None None) false.
Definition kw_type (ty : option string) : kwargs := KW (Entry None None None None None None ty None) false.
Definition kw_type_nr (ty : option string) (i : Z) : kwargs :=
  KW (Entry None None None None None None ty (Some i)) false.
Definition recomputed_tag : string := "_recomputed".
Definition kw_recomputed : kwargs := kw_type (Some recomputed_tag).

Definition fmatch {A} (eqb : A -> A -> bool) (want have : option A) : bool :=
  match want with
  | None => true
  | Some w => match have with Some h => eqb h w | None => false end
  end.

(* all([k._asdict().get(k2, None) == v2 for k2, v2 in kwargs.items() if v2 is not None] + [True]) *)
Definition matches (kw : kwargs) (k : entry) : bool :=
  negb (kw_unknown kw) &&
  fmatch Z.eqb (e_process (kw_e kw)) (e_process k) &&
  fmatch Z.eqb (e_process_sweeper (kw_e kw)) (e_process_sweeper k) &&
  fmatch Z.eqb (e_time (kw_e kw)) (e_time k) &&
  fmatch Z.eqb (e_level (kw_e kw)) (e_level k) &&
  fmatch Z.eqb (e_iter (kw_e kw)) (e_iter k) &&
  fmatch Z.eqb (e_sweep (kw_e kw)) (e_sweep k) &&
  fmatch String.eqb (e_type (kw_e kw)) (e_type k) &&
  fmatch Z.eqb (e_num_restarts (kw_e kw)) (e_num_restarts k).

(* first loop of filter_stats *)
Definition filter_plain {V} (kw : kwargs) (d : dict V) : dict V :=
  filter (fun kv => matches kw (fst kv)) d.

(* ------------------------------------------------------------------ the `recomputed` pruning *)

Definition nr (k : entry) : Z := match e_num_restarts k with Some r => r | None => 0 end.

Definition is_none {A} (o : option A) : bool := match o with None => true | Some _ => false end.

(* sorted list of distinct integers (np.unique) *)
Fixpoint uinsert (x : Z) (l : list Z) : list Z :=
  match l with
  | [] => [x]
  | y :: r => if x <? y then x :: y :: r else if x =? y then y :: r else y :: uinsert x r
  end.
Definition usort (l : list Z) : list Z := fold_right uinsert [] l.

Definition unsome (o : option Z) : Z := match o with Some x => x | None => 0 end.

(* times_restarted = np.unique([me.time for me in result.keys() if me.num_restarts > 0]);
   `None > 0` raises; np.unique raises on a None among >= 2 elements, returns [None] for [None]. *)
Definition times_restarted {V} (result : dict V) : option (list (option Z)) :=
  if existsb (fun kv => is_none (e_num_restarts (fst kv))) result then None
  else
    let L := map (fun kv => e_time (fst kv)) (filter (fun kv => 0 <? nr (fst kv)) result) in
    match L with
    | [] => Some []
    | [x] => Some [x]
    | _ => if existsb is_none L then None else Some (map Some (usort (map unsome L)))
    end.

(* restarts[me.type] = max([restarts.get(me.type, 0), me.num_restarts]) *)
Fixpoint restarts_upd (ty : option string) (r : Z) (rs : list (option string * Z)) : list (option string * Z) :=
  match rs with
  | [] => [(ty, Z.max 0 r)]
  | (ty', n) :: rest => if oeqb String.eqb ty' ty then (ty', Z.max n r) :: rest else (ty', n) :: restarts_upd ty r rest
  end.

Definition restarts_of {V} (now : dict V) : list (option string * Z) :=
  fold_left (fun rs kv => restarts_upd (e_type (fst kv)) (nr (fst kv)) rs) now [].

(* range(n) *)
Definition zrange (n : Z) : list Z := map Z.of_nat (seq 0 (Z.to_nat n)).

(* body of `for t in times_restarted:` *)
Definition prune_time {V} (t : option Z) (result : dict V) : dict V :=
  let now := filter_plain (kw_time t) result in
  fold_left
    (fun res (tn : option string * Z) =>
       fold_left (fun res i => pop_all (keys (filter_plain (kw_type_nr (fst tn) i) now)) res) (zrange (snd tn)) res)
    (restarts_of now) result.

Definition prune1 {V} (result : dict V) : option (dict V) :=
  match times_restarted result with
  | None => None
  | Some ts => Some (fold_left (fun res t => prune_time t res) ts result)
  end.

Definition kw_is_recomputed (kw : kwargs) : bool :=
  oeqb String.eqb (e_type (kw_e kw)) (Some recomputed_tag).

(* filter_stats(stats, type='_recomputed', recomputed=False): the recursive call; its own second phase is
   skipped because its `type` keyword is '_recomputed' (StatsProofs.filter_stats_markers). *)
Definition filter_markers {V} (stats : dict V) : option (dict V) :=
  prune1 (filter_plain kw_recomputed stats).

(* second phase: for step in other_restarted_steps: [result.pop(me) for me in filter_stats(result, time=step.time)] *)
Definition prune2 {V} (steps : list entry) (result : dict V) : dict V :=
  fold_left (fun res step => pop_all (keys (filter_plain (kw_time (e_time step)) res)) res) steps result.

(* filter_stats(stats, recomputed=recomputed, **kw)   (comm=None) *)
Definition filter_stats {V} (truthy : V -> bool) (stats : dict V) (kw : kwargs) (recomputed : option bool)
  : option (dict V) :=
  let result := filter_plain kw stats in
  match recomputed with
  | None => Some result
  | Some _ =>
      match prune1 result with
      | None => None
      | Some result1 =>
          if kw_is_recomputed kw then Some result1
          else match filter_markers stats with
               | None => None
               | Some markers => Some (prune2 (keys (filter (fun kv => truthy (snd kv)) markers)) result1)
               end
      end
  end.

(* ------------------------------------------------------------------ sort_stats / get_list_of_types *)

Inductive field := F_process | F_process_sweeper | F_time | F_level | F_iter | F_sweep | F_type | F_num_restarts.

Inductive item := IZ (z : Z) | IS (s : string) | INone.

Definition oz (o : option Z) : item := match o with Some z => IZ z | None => INone end.

Definition getattr (f : field) (k : entry) : item :=
  match f with
  | F_process => oz (e_process k)
  | F_process_sweeper => oz (e_process_sweeper k)
  | F_time => oz (e_time k)
  | F_level => oz (e_level k)
  | F_iter => oz (e_iter k)
  | F_sweep => oz (e_sweep k)
  | F_type => match e_type k with Some s => IS s | None => INone end
  | F_num_restarts => oz (e_num_restarts k)
  end.

(* Python's `<` on the sort keys (only called on homogeneous non-None items, see sort_stats) *)
Definition item_ltb (a b : item) : bool :=
  match a, b with
  | IZ x, IZ y => x <? y
  | IS x, IS y => String.ltb x y
  | _, _ => false
  end.

(* stable insertion sort: x (originally in front of the elements of l) goes before the first y with not y < x *)
Fixpoint sinsert {V} (x : item * V) (l : list (item * V)) : list (item * V) :=
  match l with
  | [] => [x]
  | y :: r => if item_ltb (fst y) (fst x) then y :: sinsert x r else x :: y :: r
  end.
Definition ssort {V} (l : list (item * V)) : list (item * V) := fold_right sinsert [] l.

Definition item_is_none (i : item) : bool := match i with INone => true | _ => false end.

(* sorted([(getattr(k, sortby), v) for k, v in stats.items()], key=lambda tup: tup[0]); comparing None raises
   as soon as there are two elements *)
Definition sort_stats {V} (d : dict V) (sortby : field) : option (list (item * V)) :=
  let items := map (fun kv => (getattr sortby (fst kv), snd kv)) d in
  match items with
  | [] => Some items
  | [_] => Some items
  | _ => if existsb (fun iv => item_is_none (fst iv)) items then None else Some (ssort items)
  end.

Definition get_list_of_types {V} (d : dict V) : list (option string) :=
  fold_left (fun acc kv => if existsb (oeqb String.eqb (e_type (fst kv))) acc then acc else acc ++ [e_type (fst kv)]) d [].

Definition get_sorted {V} (truthy : V -> bool) (stats : dict V) (sortby : field) (kw : kwargs) (recomputed : option bool)
  : option (list (item * V)) :=
  match filter_stats truthy stats kw recomputed with
  | None => None
  | Some r => sort_stats r sortby
  end.

(* ------------------------------------------------------------------ Hooks: add_to_stats / increment_stats *)

(* one hook object: its private restart counter and its dictionary *)
Record hook (V : Type) := Hook { h_nr : option Z; h_stats : dict V }.
Arguments Hook {V}. Arguments h_nr {V}. Arguments h_stats {V}.

Definition hook_init {V} : hook V := Hook (Some 0) [].

(* every pre_*/post_* of the base class:
   self.__num_restarts = step.status.get('restarts_in_a_row') if step is not None else 0
   step = None: no step; Some r: the value of step.status.get(...) (None when the status has no such field) *)
Definition hook_refresh {V} (step : option (option Z)) (h : hook V) : hook V :=
  Hook (match step with None => Some 0 | Some r => r end) (h_stats h).

Definition with_nr (k : entry) (r : option Z) : entry :=
  Entry (e_process k) (e_process_sweeper k) (e_time k) (e_level k) (e_iter k) (e_sweep k) (e_type k) r.

(* meta = {**meta_data, **kwargs, 'num_restarts': self.__num_restarts}; self.__stats[key built from meta] = value *)
Definition add_to_stats {V} (k : entry) (v : V) (h : hook V) : hook V :=
  Hook (h_nr h) (dict_set (with_nr k (h_nr h)) v (h_stats h)).

Definition increment_stats {V} (vadd : V -> V -> V) (k : entry) (v : V) (initialize : option V) (h : hook V) : hook V :=
  let key := with_nr k (h_nr h) in
  Hook (h_nr h)
       (match dict_get key (h_stats h) with
        | Some old => dict_set key (vadd old v) (h_stats h)
        | None => match initialize with Some i => dict_set key i (h_stats h) | None => dict_set key v (h_stats h) end
        end).

(* Controller.return_stats: stats = {}; for hook in hooks: stats = {**stats, **hook.return_stats()} *)
Definition return_stats {V} (hooks : list (hook V)) : dict V :=
  fold_left (fun acc h => dict_update acc (h_stats h)) hooks [].

(* Controller.add_hook(hook):  if hook not in [type(me) for me in self.hooks]: self.__hooks += [hook()]
   Hooks are identified by their class (an id); membership is by EXACT class — an instance of a subclass does not
   count as the class itself.  add_hooks: the requests of Controller.__init__ (DefaultHooks, CPUTimings, user list)
   followed by those of the convergence controllers. *)
Definition add_hook (cls : Z) (hooks : list Z) : list Z :=
  if existsb (Z.eqb cls) hooks then hooks else hooks ++ [cls].
Definition add_hooks (requests hooks : list Z) : list Z := fold_left (fun hs c => add_hook c hs) requests hooks.

(* a hook object driven by a script of calls (used for the exact correspondence with core/hooks.py) *)
Inductive op :=
| ORefresh (step : option (option Z))                    (* any pre_*/post_* callback of the base class *)
| OAdd (k : entry) (v : Z)                               (* add_to_stats(value=v, **k) *)
| OIncr (k : entry) (v : Z) (initialize : option Z).     (* increment_stats(value=v, initialize=..., **k) *)

Definition run_op (h : hook Z) (o : op) : hook Z :=
  match o with
  | ORefresh s => hook_refresh s h
  | OAdd k v => add_to_stats k v h
  | OIncr k v i => increment_stats Z.add k v i h
  end.

Definition run_ops (ops : list op) : hook Z := fold_left run_op ops hook_init.

(* what a hook sees of a step in post_step(step, level_number=0) *)
Record step_view := SV {
  sv_slot : Z; sv_rank : option Z; sv_time : Z; sv_tend : Z;   (* L.time and the float L.time + L.dt *)
  sv_level : Z; sv_iter : Z; sv_sweep : Z; sv_restart : bool; sv_nr : option Z; sv_res : Z }.

Definition b2z (b : bool) : Z := if b then 1 else 0.
Definition m1 : option Z := Some (-1).

(* DefaultHooks.post_step (values: niter = iter, residual = opaque id, markers = restart flag) *)
Definition default_post_step (s : step_view) (h : hook Z) : hook Z :=
  let h := hook_refresh (Some (sv_nr s)) h in
  let h := add_to_stats (Entry (Some (sv_slot s)) (sv_rank s) (Some (sv_time s)) m1 (Some (sv_iter s)) (Some (sv_sweep s))
                               (Some "niter"%string) None) (sv_iter s) h in
  let h := add_to_stats (Entry (Some (sv_slot s)) (sv_rank s) (Some (sv_time s)) (Some (sv_level s)) m1 (Some (sv_sweep s))
                               (Some "residual_post_step"%string) None) (sv_res s) h in
  let h := add_to_stats (Entry m1 m1 (Some (sv_time s)) m1 m1 m1 (Some recomputed_tag) None) (b2z (sv_restart s)) h in
  add_to_stats (Entry m1 m1 (Some (sv_tend s)) m1 m1 m1 (Some recomputed_tag) None) (b2z (sv_restart s)) h.

(* key of the 'niter' record of a step; a run of post_step callbacks from a fresh hook *)
Definition niter_key (s : step_view) : entry :=
  Entry (Some (sv_slot s)) (sv_rank s) (Some (sv_time s)) m1 (Some (sv_iter s)) (Some (sv_sweep s)) (Some "niter"%string) (sv_nr s).

Definition default_run (svs : list step_view) : hook Z := fold_left (fun h s => default_post_step s h) svs hook_init.

(* LogWork.post_step: no super().post_step -> the counter is whatever the last other callback left *)
Definition logwork_post_step (s : step_view) (work : Z) (h : hook Z) : hook Z :=
  add_to_stats (Entry (Some (sv_slot s)) (sv_rank s) (Some (sv_tend s)) (Some (sv_level s)) (Some (sv_iter s)) (Some (sv_sweep s))
                      (Some "work_rhs"%string) None) work h.

Definition ztruthy (v : Z) : bool := negb (v =? 0).

(* ------------------------------------------------------------------ restart counters between blocks *)

(* BasicRestartingNonMPI.prepare_next_block, as written: called for S = MS[0], MS[1], ... in turn, each call
   reading and writing the counters in place.  A block is a list of (restart flag, restarts_in_a_row);
   MS index = slot. *)
Fixpoint first_true (l : list bool) (i : nat) : option nat :=
  match l with [] => None | b :: r => if b then Some i else first_true r (S i) end.

(* min([me.status.slot for me in MS if me.status.restart] + [size - 1]) *)
Definition restart_from (flags : list bool) : nat :=
  match first_true flags 0%nat with Some i => Nat.min i (List.length flags - 1) | None => (List.length flags - 1)%nat end.

Fixpoint set_nth {A} (i : nat) (x : A) (l : list A) : list A :=
  match l, i with
  | [], _ => []
  | _ :: r, O => x :: r
  | y :: r, S j => y :: set_nth j x r
  end.

Definition prepare_call (flags : list bool) (rf : nat) (cnt : list Z) (slot : nat) : list Z :=
  if (slot <? rf)%nat then set_nth (rf - slot) 0 cnt
  else set_nth (slot - rf) (if nth slot flags false then nth slot cnt 0 + 1 else 0) cnt.

Definition prepare_seq (flags : list bool) (cnt : list Z) : list Z :=
  fold_left (prepare_call flags (restart_from flags)) (seq 0 (List.length flags)) cnt.

(* what BasicRestartingMPI.prepare_next_block computes (every rank from the old values): the step that
   moves from slot s + restart_from to slot s takes its count along (+1 if it restarts); the rest start at 0 *)
Definition prepare_snapshot (flags : list bool) (cnt : list Z) : list Z :=
  let rf := restart_from flags in
  map (fun s => if (s + rf <? List.length flags)%nat
                then (if nth (s + rf) flags false then nth (s + rf) cnt 0 + 1 else 0)
                else 0) (seq 0 (List.length flags)).

(* ------------------------------------------------------------------ validator for real statistics
   check_accepted acc d: d is regular (time, type given; counters non-negative ints) and, for the records
   other than the '_recomputed' markers, (1) every record whose key is in `acc` (accepted steps) carries
   the largest restart count of its (time, type) group, (2) every other record is outnumbered by an
   accepted record of its group or sits at a marked time, (3) no accepted record sits at a marked time.
   Sound by StatsProofs.check_accepted_sound: then filter_stats(type=s, recomputed=False) returns
   exactly the accepted records. *)
Definition memb (k : entry) (ks : list entry) : bool := existsb (entry_eqb k) ks.
Definition kw_tt (ty : option string) (t : option Z) : kwargs := KW (Entry None None t None None None ty None) false.
Definition is_marker (k : entry) : bool := oeqb String.eqb (e_type k) (Some recomputed_tag).
Definition regularb (d : dict Z) : bool :=
  forallb (fun kv => negb (is_none (e_time (fst kv))) && negb (is_none (e_type (fst kv))) &&
                     match e_num_restarts (fst kv) with Some r => 0 <=? r | None => false end) d.
Definition markedb (d : dict Z) (t : option Z) : bool :=
  existsb (fun m => is_marker (fst m) && ztruthy (snd m) && oeqb Z.eqb (e_time (fst m)) t &&
     negb (existsb (fun m' => is_marker (fst m') && oeqb Z.eqb (e_time (fst m')) (e_time (fst m)) && (nr (fst m) <? nr (fst m'))) d)) d.
Definition same_tt (a b : entry) : bool :=
  if oeqb String.eqb (e_type a) (e_type b) then oeqb Z.eqb (e_time a) (e_time b) else false.
Definition check_accepted (acc : list entry) (d : dict Z) : bool :=
  regularb d &&
  forallb (fun kv => is_marker (fst kv) || negb (memb (fst kv) acc) ||
                     forallb (fun kv' => negb (same_tt (fst kv') (fst kv)) || (nr (fst kv') <=? nr (fst kv))) d) d &&
  forallb (fun kv => is_marker (fst kv) || memb (fst kv) acc ||
                     existsb (fun kv' => memb (fst kv') acc && same_tt (fst kv') (fst kv) && (nr (fst kv) <? nr (fst kv'))) d ||
                     markedb d (e_time (fst kv))) d &&
  forallb (fun kv => is_marker (fst kv) || negb (memb (fst kv) acc) || negb (markedb d (e_time (fst kv)))) d.


(* the same conditions evaluated economically (membership in `acc` computed once per record, markers extracted
   once, lazy connectives); StatsProofs.check_accepted_fast_sound: it implies check_accepted *)
Definition markedb_m (markers : dict Z) (t : option Z) : bool :=
  existsb (fun m => if ztruthy (snd m) then
                      if oeqb Z.eqb (e_time (fst m)) t then
                        negb (existsb (fun m' => if oeqb Z.eqb (e_time (fst m')) (e_time (fst m)) then nr (fst m) <? nr (fst m') else false) markers)
                      else false
                    else false) markers.
Definition check_accepted_fast (acc : list entry) (d : dict Z) : bool :=
  let fd := map (fun kv => (memb (fst kv) acc, kv)) d in
  let markers := filter (fun kv => is_marker (fst kv)) d in
  if regularb d then
    forallb (fun fkv : bool * (entry * Z) =>
       let kv := snd fkv in
       if is_marker (fst kv) then true
       else if fst fkv then
         if forallb (fun kv' => if same_tt (fst kv') (fst kv) then nr (fst kv') <=? nr (fst kv) else true) d
         then negb (markedb_m markers (e_time (fst kv))) else false
       else
         if existsb (fun fkv' : bool * (entry * Z) =>
                       if fst fkv' then (if same_tt (fst (snd fkv')) (fst kv) then nr (fst kv) <? nr (fst (snd fkv')) else false) else false) fd
         then true else markedb_m markers (e_time (fst kv))) fd
  else false.

(* ------------------------------------------------------------------ comparators used by the generated cases
   (decide Leibniz equality: StatsProofs.dict_eqb_spec, items_eqb_spec, types_eqb_spec) *)
Fixpoint list_eqb {A} (eqb : A -> A -> bool) (a b : list A) : bool :=
  match a, b with
  | [], [] => true
  | x :: r, y :: s => eqb x y && list_eqb eqb r s
  | _, _ => false
  end.
Definition dict_eqb (a b : dict Z) : bool := list_eqb (fun x y => entry_eqb (fst x) (fst y) && (snd x =? snd y)) a b.
Definition item_eqb (a b : item) : bool :=
  match a, b with
  | IZ x, IZ y => x =? y
  | IS x, IS y => String.eqb x y
  | INone, INone => true
  | _, _ => false
  end.
Definition items_eqb (a b : list (item * Z)) : bool := list_eqb (fun x y => item_eqb (fst x) (fst y) && (snd x =? snd y)) a b.
Definition types_eqb (a b : list (option string)) : bool := list_eqb (oeqb String.eqb) a b.
Definition zlist_eqb (a b : list Z) : bool := list_eqb Z.eqb a b.
