(* C19 — executable model of what survives between controller_nonMPI.run() calls, of the reset
   functions run() applies on entry, and of the fixed-step time loop (law-free in the number type).

   Part 1 (TimeLoop)  mirrors controller_nonMPI.run, restricted to runs in which no step asks for a
                      restart (fixed step size): initial times, active test, compress, block solve,
                      time update, next active test.  Generic in the number type: only [add], [sub],
                      [ltb] and the two constants [zero] (the Python int 0 that sum() starts from) and
                      [teneps] (10*eps) are used, with NO algebraic law.
   Part 2 (Persist)   the state record of a controller (step status, level status, level data, tags,
                      hook stats, convergence-controller buffers, sweeper RNG) with the entry resets
                      reset_stats / restart_block / reset_step / reset_level / init_step /
                      BasicRestarting.reset_status_variables, field by field.
   Part 3 (World)     several controllers plus the process-global (class-level) component.
   No proofs here. *)
From Coq Require Import List Bool Arith ZArith.
Import ListNotations.

(* ------------------------------------------------------------------------------------------- *)
(* helpers *)

Fixpoint upd {A} (l : list A) (i : nat) (x : A) : list A :=
  match l, i with
  | [], _ => []
  | _ :: r, O => x :: r
  | y :: r, S j => y :: upd r j x
  end.

Fixpoint mapi_from {A B} (k : nat) (f : nat -> A -> B) (l : list A) : list B :=
  match l with
  | [] => []
  | x :: r => f k x :: mapi_from (S k) f r
  end.
Definition mapi {A B} (f : nat -> A -> B) (l : list A) : list B := mapi_from 0 f l.

Fixpoint index_of (p : nat) (l : list nat) : option nat :=
  match l with
  | [] => None
  | x :: r => if Nat.eqb x p then Some 0 else option_map S (index_of p r)
  end.

Fixpoint list_beq {A} (e : A -> A -> bool) (l1 l2 : list A) : bool :=
  match l1, l2 with
  | [], [] => true
  | x :: r1, y :: r2 => e x y && list_beq e r1 r2
  | _, _ => false
  end.

(* ------------------------------------------------------------------------------------------- *)
(* Part 1: the time loop *)

Section TimeLoop.
  Variable T : Type.                       (* time values: IEEE doubles in the code *)
  Variable add sub : T -> T -> T.
  Variable ltb : T -> T -> bool.
  Variable zero teneps : T.
  Variable dflt : T.                       (* default of [nth]; never read when indices are in range *)
  Variable U : Type.                       (* solution values *)
  (* the block solver (pfasst on the active steps): a function of the active (slot, start, dt)
     triples and the initial value; everything else it reads is re-initialised on entry (Part 2) *)
  Variable blk : list (nat * T * T) -> U -> U.
  Variable dts : list T.                   (* MS[p].dt, one per slot; constant during a fixed-step run *)

  Definition P := length dts.

  (* time = [t0 + sum(self.MS[j].dt for j in range(p)) for p in slots]   (sum starts from int 0) *)
  Definition init_times (t0 : T) : list T :=
    map (fun p => add t0 (fold_left add (firstn p dts) zero)) (seq 0 P).

  Definition thr (Tend : T) : T := sub Tend teneps.          (* Tend - 10*eps *)
  Definition active (th : T) (times : list T) : list bool := map (fun t => ltb t th) times.
  (* itertools.compress(slots, active) *)
  Definition compress (mask : list bool) : list nat :=
    filter (fun p => nth p mask false) (seq 0 (length mask)).

  (* the "move on to next block" branch followed by "setup the times of the steps for the next block" *)
  Definition next_times (slots : list nat) (times : list T) : list T :=
    match slots with
    | [] => times
    | s0 :: _ =>
        let sl := last slots s0 in
        let t1 := upd times s0 (add (nth sl times dflt) (nth sl dts dflt)) in
        fold_left (fun tm i => let a := nth i slots 0 in
                               upd tm a (add (nth (a - 1) tm dflt) (nth (a - 1) dts dflt)))
                  (seq 1 (length slots - 1)) t1
    end.

  (* one record per block: the time list before the block, the (slot, start, dt) of its steps,
     the value handed to the next block *)
  Definition brec : Type := (list T * list (nat * T * T) * U)%type.

  Definition block_input (slots : list nat) (times : list T) : list (nat * T * T) :=
    map (fun p => (p, nth p times dflt, nth p dts dflt)) slots.

  (* while any(active): ...   (fuel: the while loop need not terminate for arbitrary operations) *)
  Fixpoint loop (fuel : nat) (th : T) (times : list T) (u : U) : option (list T * U * list brec) :=
    let slots := compress (active th times) in
    match slots with
    | [] => Some (times, u, [])
    | _ :: _ =>
        match fuel with
        | O => None
        | S f =>
            let inp := block_input slots times in
            let u' := blk inp u in
            match loop f th (next_times slots times) u' with
            | Some (tf, uf, tr) => Some (tf, uf, (times, inp, u') :: tr)
            | None => None
            end
        end
    end.

  Inductive outcome : Type :=
  | NothingToDo                                       (* ControllerError('Nothing to do, ...') *)
  | OutOfFuel
  | Done (times : list T) (u : U) (tr : list brec).

  Definition run (fuel : nat) (t0 Tend : T) (u0 : U) : outcome :=
    let times := init_times t0 in
    match compress (active (thr Tend) times) with
    | [] => NothingToDo
    | _ => match loop fuel (thr Tend) times u0 with
           | Some (tf, uf, tr) => Done tf uf tr
           | None => OutOfFuel
           end
    end.

  Definition mask_agree (th1 th2 : T) (r : brec) : bool :=
    let '(times, _, _) := r in list_beq Bool.eqb (active th1 times) (active th2 times).

  (* the accepted (slot, start, dt) triples of a trace, block by block *)
  Definition steps_of (tr : list brec) : list (list (nat * T * T)) := map (fun r => snd (fst r)) tr.
  Definition values_of (tr : list brec) : list U := map snd tr.
End TimeLoop.

Arguments Done {T U}.
Arguments NothingToDo {T U}.
Arguments OutOfFuel {T U}.

(* ------------------------------------------------------------------------------------------- *)
(* Part 2: persistent controller state and the entry resets *)

Definition val := option Z.          (* None = Python None; Some z = encoded int / bool / enum *)
Definition vFalse : val := Some 0%Z.
Definition vTrue : val := Some 1%Z.
Definition vSpread : val := Some 100%Z.          (* stage 'SPREAD' *)
Definition b2v (b : bool) : val := if b then vTrue else vFalse.
Definition n2v (n : nat) : val := Some (Z.of_nat n).

(* step._Status: the 13 declared fields + the two registered by BasicRestarting *)
Record SStat := mkSStat {
  ss_iter : val; ss_stage : val; ss_slot : val; ss_first : val; ss_last : val; ss_pred_cnt : val;
  ss_done : val; ss_force_done : val; ss_force_continue : val; ss_prev_done : val; ss_time_size : val;
  ss_diff_old_loc : val; ss_diff_first_loc : val;
  ss_restart : val; ss_restarts_in_a_row : val }.

(* level._Status: 6 declared fields + names of extra entries present in __dict__ *)
Record LStat := mkLStat {
  ls_residual : val; ls_unlocked : val; ls_updated : val; ls_time : val; ls_dt_new : val; ls_sweep : val;
  ls_extra : list Z }.

Section Persist.
  Variable D : Type.                 (* data objects (meshes) *)

  Record LData := mkLData {
    ld_uend : option D; ld_u : list (option D); ld_uold : list (option D);
    ld_f : list (option D); ld_fold : list (option D); ld_tau : list (option D) }.

  Record Lev := mkLev {
    lv_stat : LStat; lv_data : LData; lv_tag : val;
    lv_keep : list (option D);       (* u_avg, residual, increment: NOT touched by reset_level *)
    lv_nn : nat }.                   (* sweep.coll.num_nodes *)

  Record Stp := mkStp { st_stat : SStat; st_levels : list Lev; st_prev : option nat }.

  Record Hook := mkHook { hk_stats : list (Z * Z); hk_nrestarts : val; hk_priv : val }.

  Record Ctrl := mkCtrl {
    c_steps : list Stp; c_hooks : list Hook;
    c_bufs : list val;               (* convergence-controller buffers (reset_buffers_nonMPI) *)
    c_rng : Z }.                     (* sweeper RandomState (seeded in Sweeper.__init__ only) *)

  (* Level.reset_level (status = _Status(); data back to None) followed, in restart_block, by
     l.tag = None; l.status.sweep = 1; lvl.status.time = time[p] *)
  Definition reset_level (time : val) (l : Lev) : Lev :=
    let n := lv_nn l in
    mkLev (mkLStat None vFalse vFalse time None (Some 1%Z) [])
          (mkLData None (repeat None (S n)) (repeat None (S n)) (repeat None (S n)) (repeat None (S n)) (repeat None n))
          None (lv_keep l) n.

  (* Step.init_step: levels[0].u[0] = dtype_u(u0) *)
  Definition set_u0 (u0 : D) (l : Lev) : Lev :=
    let d := lv_data l in
    mkLev (lv_stat l) (mkLData (ld_uend d) (upd (ld_u d) 0 (Some u0)) (ld_uold d) (ld_f d) (ld_fold d) (ld_tau d))
          (lv_tag l) (lv_keep l) (lv_nn l).

  (* body of the first loop of restart_block for j-th active slot p (len = len(active_slots)) *)
  Definition reset_step_at (slots : list nat) (j p : nat) (time : val) (u0 : D) (s : Stp) : Stp :=
    let len := length slots in
    let o := st_stat s in
    mkStp (mkSStat (Some 0%Z) vSpread (n2v p) (b2v (Nat.eqb j 0)) (b2v (Nat.eqb j (len - 1))) (ss_pred_cnt o)
                   vFalse vFalse (ss_force_continue o) vFalse (n2v len) (ss_diff_old_loc o) (ss_diff_first_loc o)
                   vFalse (ss_restarts_in_a_row o))
          (mapi (fun i l => let l' := reset_level time l in if Nat.eqb i 0 then set_u0 u0 l' else l') (st_levels s))
          (Some (if Nat.eqb j 0 then last slots 0 else nth (j - 1) slots 0)).   (* active_slots[j - 1], index -1 wraps *)

  (* BasicRestarting.reset_status_variables: set_step_status_variable('restart', False) on ALL steps *)
  Definition clear_restart (s : Stp) : Stp :=
    let o := st_stat s in
    mkStp (mkSStat (ss_iter o) (ss_stage o) (ss_slot o) (ss_first o) (ss_last o) (ss_pred_cnt o) (ss_done o)
                   (ss_force_done o) (ss_force_continue o) (ss_prev_done o) (ss_time_size o) (ss_diff_old_loc o)
                   (ss_diff_first_loc o) vFalse (ss_restarts_in_a_row o))
          (st_levels s) (st_prev s).

  (* restart_block(active_slots, time, u0).  Iteration j of the Python loop writes MS[slots[j]] only
     (slots are duplicate free), so the loop is a map over the steps. *)
  Definition restart_block (slots : list nat) (times : list val) (u0 : D) (steps : list Stp) : list Stp :=
    mapi (fun p s => match index_of p slots with
                     | Some j => reset_step_at slots j p (nth p times None) u0 s
                     | None => clear_restart s
                     end) steps.

  (* for hook in self.hooks: hook.reset_stats() *)
  Definition reset_stats (h : Hook) : Hook := mkHook [] (hk_nrestarts h) (hk_priv h).

  (* everything run() does to the persistent state before the first hook / pfasst call *)
  Definition run_entry (slots : list nat) (times : list val) (u0 : D) (c : Ctrl) : Ctrl :=
    mkCtrl (restart_block slots times u0 (c_steps c)) (map reset_stats (c_hooks c)) (c_bufs c) (c_rng c).

  (* what restart_block keeps of an ACTIVE step *)
  Definition carried_step (s : Stp) :=
    (ss_pred_cnt (st_stat s), ss_force_continue (st_stat s), ss_diff_old_loc (st_stat s), ss_diff_first_loc (st_stat s),
     ss_restarts_in_a_row (st_stat s), map (fun l => (lv_keep l, lv_nn l)) (st_levels s)).

  (* relation between the steps of two controllers under which run_entry gives the same state:
     active slots agree on what is carried, inactive slots agree up to the `restart` flag *)
  Definition step_rel (slots : list nat) (p : nat) (s s' : Stp) : Prop :=
    match index_of p slots with
    | Some _ => carried_step s = carried_step s'
    | None => clear_restart s = clear_restart s'
    end.

  Definition hook_rel (h h' : Hook) : Prop := hk_nrestarts h = hk_nrestarts h' /\ hk_priv h = hk_priv h'.

  (* the state a fresh controller has (Step.__init__, Level.__init__, setup_status_variables) *)
  Definition fresh_level (n : nat) : Lev :=
    mkLev (mkLStat None vFalse vFalse None None None [])
          (mkLData None (repeat None (S n)) (repeat None (S n)) (repeat None (S n)) (repeat None (S n)) (repeat None n))
          None (repeat None (3 * n)) n.
  Definition fresh_step (nns : list nat) : Stp :=
    mkStp (mkSStat None None None None None None None None vFalse None None None None vFalse (Some 0%Z))
          (map fresh_level nns) None.
  Definition fresh_ctrl (nprocs : nat) (nns : list nat) (nhooks : nat) (bufs : list val) (seed : Z) : Ctrl :=
    mkCtrl (repeat (fresh_step nns) nprocs) (repeat (mkHook [] (Some 0%Z) None) nhooks) bufs seed.

End Persist.

Arguments mkLData {D}. Arguments mkLev {D}. Arguments mkStp {D}. Arguments mkCtrl {D}.
Arguments ld_uend {D}. Arguments ld_u {D}. Arguments ld_uold {D}. Arguments ld_f {D}. Arguments ld_fold {D}. Arguments ld_tau {D}.
Arguments lv_stat {D}. Arguments lv_data {D}. Arguments lv_tag {D}. Arguments lv_keep {D}. Arguments lv_nn {D}.
Arguments st_stat {D}. Arguments st_levels {D}. Arguments st_prev {D}.
Arguments c_steps {D}. Arguments c_hooks {D}. Arguments c_bufs {D}. Arguments c_rng {D}.
Arguments reset_level {D}. Arguments set_u0 {D}. Arguments reset_step_at {D}. Arguments clear_restart {D}.
Arguments restart_block {D}. Arguments run_entry {D}. Arguments carried_step {D}. Arguments step_rel {D}.
Arguments fresh_level {D}. Arguments fresh_step {D}. Arguments fresh_ctrl {D}.

(* ------------------------------------------------------------------------------------------- *)
(* Part 3: a process = class-level state + several controllers *)

(* FrozenClass.attrs of step._Status / level._Status, LogToPickleFile.counter *)
Record Global := mkGlobal { g_step_attrs : list Z; g_level_attrs : list Z; g_pickle_counter : nat }.

Section World.
  Variable D : Type.
  Variable Res : Type.
  (* a complete run of one controller: reads the process-global component and its own state *)
  Variable runc : nat -> Global -> Ctrl D -> Res * Ctrl D * Global.   (* indexed by the controller: each has its own configuration and inputs *)

  Record World := mkWorld { w_g : Global; w_ctrls : list (Ctrl D) }.

  Definition run_in (i : nat) (dfl : Ctrl D) (w : World) : Res * World :=
    let '(r, c', g') := runc i (w_g w) (nth i (w_ctrls w) dfl) in
    (r, mkWorld g' (upd (w_ctrls w) i c')).
End World.

Arguments mkWorld {D}. Arguments w_g {D}. Arguments w_ctrls {D}. Arguments run_in {D Res}.

(* ------------------------------------------------------------------------------------------- *)
(* Part 4: flattening of a controller state (data objects reduced to presence) for the comparison
   with snapshots of the real controller taken in the post_setup hook *)

Definition vz (v : val) : Z := match v with None => (-999999)%Z | Some z => z end.
Definition pz (o : option unit) : Z := match o with None => 0%Z | Some _ => 1%Z end.
Definition nz (o : option nat) : Z := match o with None => (-999999)%Z | Some n => Z.of_nat n end.

Definition flat_sstat (o : SStat) : list Z :=
  map vz [ss_iter o; ss_stage o; ss_slot o; ss_first o; ss_last o; ss_pred_cnt o; ss_done o; ss_force_done o;
          ss_force_continue o; ss_prev_done o; ss_time_size o; ss_diff_old_loc o; ss_diff_first_loc o;
          ss_restart o; ss_restarts_in_a_row o].

Definition flat_lev (l : Lev unit) : list Z * list Z * list Z :=
  let s := lv_stat l in let d := lv_data l in
  (map vz [ls_residual s; ls_unlocked s; ls_updated s; ls_time s; ls_dt_new s; ls_sweep s; lv_tag l] ++ [Z.of_nat (lv_nn l)],
   ls_extra s,
   pz (ld_uend d) :: map pz (ld_u d ++ ld_uold d ++ ld_f d ++ ld_fold d ++ ld_tau d ++ lv_keep l)).

Definition flat_step (s : Stp unit) := (flat_sstat (st_stat s) ++ [nz (st_prev s)], map flat_lev (st_levels s)).
Definition flat_ctrl (c : Ctrl unit) := (map flat_step (c_steps c), map (fun h => Z.of_nat (length (hk_stats h))) (c_hooks c)).

(* ------------------------------------------------------------------------------------------- *)
(* Part 5: caller-owned description / controller_params objects.  Constructing a controller returns
   the controller AND leaves the caller's dicts in some state; a later controller may be built from
   the same objects after the user edited one key. *)

Section Construct.
  Variable Descr Ctl : Type.
  Variable build : Descr -> Ctl * Descr.
  Definition build_after (edit : Descr -> Descr) (d : Descr) : Ctl := fst (build (edit (snd (build d)))).
End Construct.

(* what Controller.__init__ does with controller_params['hook_class']:
   hook_classes = [DefaultHooks, CPUTimings] + user list is written back; add_hook instantiates first occurrences only *)
Fixpoint dedup_acc (seen l : list nat) : list nat :=
  match l with
  | [] => []
  | x :: r => if existsb (Nat.eqb x) seen then dedup_acc seen r else x :: dedup_acc (x :: seen) r
  end.
Definition build_hooks (user : list nat) : list nat * list nat :=
  let written := 0 :: 1 :: user in (dedup_acc [] written, written).
