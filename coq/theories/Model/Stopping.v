(* C03 — stopping logic: CheckConvergence.check_convergence and the iteration counter handling of
   controller_nonMPI.it_check, for one block of time-parallel steps.
   A step's numerical state enters only through booleans (is the residual <= restol, is the
   increment below e_tol) and the force flags other convergence controllers may set, so every
   sequence of residual values — monotone or not — is covered by quantifying over these inputs. *)
From Coq Require Import List Arith Bool.
Import ListNotations.

Record inputs := {
  res_ok : bool;       (* L.status.residual <= L.params.restol *)
  e_ok : bool;         (* e_tol given, increment available and increment < e_tol *)
  fdone : bool;        (* S.status.force_done *)
  fcont : bool;        (* S.status.force_continue *)
}.

(* check_convergence(S): sweep is L.status.sweep (restart_block sets it to 1, it_fine to k+1) *)
Definition conv (maxiter iter sweep : nat) (i : inputs) : bool :=
  ((maxiter <=? iter) || (res_ok i && ((0 <? iter) || (0 <? sweep))) || e_ok i || fdone i)
  && negb (fcont i).

(* third loop of it_check over the RUNNING steps in slot order:
   done_i := conv_i && prev_done  (prev of the first running step is DONE or it is the first step) *)
Fixpoint chain (prev_done : bool) (cs : list bool) : list bool :=
  match cs with
  | [] => []
  | c :: cs' => let d := c && prev_done in d :: chain d cs'
  end.

Definition round_done (all_to_done : bool) (cs : list bool) : list bool :=
  let ds := chain true cs in
  if all_to_done then map (fun _ => forallb (fun b => b) ds) ds else ds.

(* one IT_CHECK round: running steps all carry the same iteration number k (lockstep); returns the
   per-step done flags; steps not done get iter k+1 and stay running *)
Definition round (maxiter sweep : nat) (all_to_done : bool) (k : nat) (ins : list inputs) : list bool :=
  round_done all_to_done (map (conv maxiter k sweep) ins).

(* a block: rounds of inputs (one list per round, one entry per still-running step).
   Returns for every step (in slot order) the iteration count with which it finished, or None if
   the supplied rounds ended before it finished. *)
Fixpoint run_block (maxiter sweep : nat) (all_to_done : bool) (k : nat) (nrun : nat)
         (rounds : list (list inputs)) : list (option nat) :=
  match rounds with
  | [] => repeat None nrun
  | ins :: rest =>
      let ins' := firstn nrun ins in
      let ds := round maxiter sweep all_to_done k ins' in
      let ndone := length (filter (fun b => b) ds) in
      (* done steps form a prefix (chain) or all/none (all_to_done) *)
      repeat (Some k) ndone ++ run_block maxiter sweep all_to_done (S k) (length ds - ndone) rest
  end.
