(* C16 — executable model of pySDC/helpers/fieldsIO.py (non-MPI path).

   A file is a list of bytes (integers 0..255).  Times, coordinates and field values are opaque
   byte blocks (np.tofile / np.fromfile are memory copies), so "bit-exact" is equality of bytes.
   Integers of the header are little-endian two's complement (int8, int32, int64 of numpy on the
   supported machines).  np.fromfile(count=n) is LENIENT: it returns as many whole items as the
   file still holds; this is what decides the behaviour on truncated headers and is modelled by
   [read_items].  Python exceptions are error constructors.

   Proofs live in Proofs/FieldsIOProofs.v. *)
From Coq Require Import ZArith List Bool Uint63.
Import ListNotations.
Open Scope Z_scope.

Definition bytes := list Z.

(* ------------------------------------------------------------------ integer codecs *)
Fixpoint le_enc (n : nat) (x : Z) : bytes :=
  match n with O => [] | S n' => (x mod 256) :: le_enc n' (x / 256) end.

Fixpoint le_dec (b : bytes) : Z :=
  match b with [] => 0 | x :: r => x + 256 * le_dec r end.

Definition wrap_signed (n : nat) (u : Z) : Z :=
  if u <? 256 ^ Z.of_nat n / 2 then u else u - 256 ^ Z.of_nat n.

Definition dec_int (b : bytes) : Z := wrap_signed (length b) (le_dec b).

(* range guard of an n-byte signed integer (numpy raises OverflowError outside) *)
Definition in_range (n : nat) (x : Z) : Prop :=
  - (256 ^ Z.of_nat n / 2) <= x < 256 ^ Z.of_nat n / 2.
Definition in_rangeb (n : nat) (x : Z) : bool :=
  (- (256 ^ Z.of_nat n / 2) <=? x) && (x <? 256 ^ Z.of_nat n / 2).

(* transport of byte blocks between the harness and Coq: (length, 7-byte little-endian words as
   primitive 63-bit integers) — Coq parses/prints primitive integers ~15x faster than Z numerals.
   Only the generated case files use these; no theorem mentions them. *)
Fixpoint words_to_bytes (ws : list int) : bytes :=
  match ws with [] => [] | w :: r => le_enc 7 (Uint63.to_Z w) ++ words_to_bytes r end.
Definition B (n : Z) (ws : list int) : bytes := firstn (Z.to_nat n) (words_to_bytes ws).
Fixpoint bytes_to_words (fuel : nat) (b : bytes) : list int :=
  match fuel with
  | O => []
  | S f => match b with [] => [] | _ => Uint63.of_Z (le_dec (firstn 7 b)) :: bytes_to_words f (skipn 7 b) end
  end.
Definition unB (b : bytes) : Z * list int := (Z.of_nat (length b), bytes_to_words (length b) b).

(* ------------------------------------------------------------------ slicing *)
Definition slice (off len : Z) (f : bytes) : bytes :=
  firstn (Z.to_nat len) (skipn (Z.to_nat off) f).

Definition blen (b : bytes) : Z := Z.of_nat (length b).

(* np.fromfile(f, dtype of k bytes, count=cnt): as many whole items as available, at most cnt.
   Returns the bytes of the items read and the remaining bytes. *)
Definition read_items (k cnt : Z) (b : bytes) : bytes * bytes :=
  let n := Z.min (Z.max cnt 0) (blen b / k) in
  (firstn (Z.to_nat (n * k)) b, skipn (Z.to_nat (n * k)) b).

Fixpoint chunk4 (b : bytes) : list bytes :=
  match b with
  | a :: b1 :: c :: d :: r => [a; b1; c; d] :: chunk4 r
  | _ => []
  end.

(* ------------------------------------------------------------------ headers *)
Inductive skind := SScalar | SRect.

(* header dict of the handle + dtype: nVar and, for Rectilinear, the coordinate payloads of the
   axes (8 bytes per point).  Grid sizes are DERIVED from the coordinates (as in the code). *)
Record header := mkHeader { h_kind : skind; h_dtype : Z; h_nVar : Z; h_coords : list bytes }.

Definition sid (k : skind) : Z := match k with SScalar => 0 | SRect => 1 end.

Definition itemSize (dt : Z) : Z :=
  match dt with 0 => 8 | 1 => 16 | 2 => 16 | 3 => 32 | 4 => 4 | 5 => 8 | _ => 0 end.
Definition dtype_known (dt : Z) : bool := (0 <=? dt) && (dt <=? 5).

Definition gridSizes (h : header) : list Z := map (fun c => blen c / 8) (h_coords h).
Definition dim (h : header) : Z := Z.of_nat (length (h_coords h)).
Definition prodZ (l : list Z) : Z := fold_right Z.mul 1 l.

Definition hInfos (h : header) : bytes :=
  match h_kind h with
  | SScalar => le_enc 8 (h_nVar h)
  | SRect => le_enc 4 (h_nVar h) ++ le_enc 4 (Z.of_nat (length (h_coords h)))
             ++ flat_map (le_enc 4) (gridSizes h) ++ concat (h_coords h)
  end.

Definition hBase (h : header) : bytes := le_enc 1 (sid (h_kind h)) ++ le_enc 1 (h_dtype h).
Definition header_bytes (h : header) : bytes := hBase h ++ hInfos h.

Definition hSize (h : header) : Z :=
  match h_kind h with
  | SScalar => 2 + 8
  | SRect => 2 + 4 * (2 + Z.of_nat (length (h_coords h))) + blen (concat (h_coords h))
  end.

Definition nItems (h : header) : Z :=
  match h_kind h with
  | SScalar => h_nVar h
  | SRect => h_nVar h * prodZ (gridSizes h)
  end.

Definition tSize : Z := 8.
Definition fSize (h : header) : Z := nItems h * itemSize (h_dtype h).
Definition recSize (h : header) : Z := tSize + fSize h.

(* headers the writer accepts without overflow and that describe whole coordinates *)
Definition wf_header (h : header) : Prop :=
  dtype_known (h_dtype h) = true /\ 0 <= h_nVar h /\
  match h_kind h with
  | SScalar => h_coords h = [] /\ in_range 8 (h_nVar h)
  | SRect => in_range 4 (h_nVar h) /\ in_range 4 (Z.of_nat (length (h_coords h))) /\
             Forall (fun c => (blen c) mod 8 = 0 /\ in_range 4 (blen c / 8)) (h_coords h)
  end.

Inductive err := EAssert | EExists | ENotFound | EValue | EKey | EType.
Inductive result (A : Type) := Ok (a : A) | Err (e : err).
Arguments Ok {A} a. Arguments Err {A} e.

(* readHeader of Rectilinear: read the coordinates axis by axis (leniently) *)
Fixpoint read_coords (sizes : list Z) (b : bytes) : list bytes * bytes :=
  match sizes with
  | [] => ([], b)
  | n :: sizes' => let '(c, r) := read_items 8 n b in
                   let '(cs, r') := read_coords sizes' r in (c :: cs, r')
  end.

(* FieldsIO.fromFile: returns the header of the new handle and the unread rest of the file *)
Definition decode_header_rest (f : bytes) : result (header * bytes) :=
  let '(b2, r) := read_items 1 2 f in
  match b2 with
  | [s; d] =>
      let s := dec_int [s] in let d := dec_int [d] in
      if negb (dtype_known d) then Err EKey else
      if s =? 0 then
        let '(v, r1) := read_items 8 1 r in
        if blen v =? 8 then Ok (mkHeader SScalar d (dec_int v) [], r1) else Err EValue
      else if s =? 1 then
        let '(v, r1) := read_items 4 2 r in
        if blen v =? 8 then
          let nVar := dec_int (firstn 4 v) in
          let dm := dec_int (skipn 4 v) in
          let '(g, r2) := read_items 4 dm r1 in
          let '(cs, r3) := read_coords (map dec_int (chunk4 g)) r2 in
          Ok (mkHeader SRect d nVar cs, r3)
        else Err EValue
      else Err EKey
  | _ => Err EValue
  end.

Definition decode_header (f : bytes) : result header :=
  match decode_header_rest f with Ok (h, _) => Ok h | Err e => Err e end.

(* ------------------------------------------------------------------ records *)
Definition nFieldsL (hS rS : Z) (f : bytes) : Z := (blen f - hS) / rS.
Definition nFields (h : header) (f : bytes) : Z := nFieldsL (hSize h) (recSize h) f.

(* FieldsIO.formatIndex; both asserts map to the same error *)
Definition formatIndex (n idx : Z) : option Z :=
  let i := if idx <? 0 then n + idx else idx in
  if (i <? n) && (0 <=? i) then Some i else None.

Definition readRecL (hS fS : Z) (f : bytes) (idx : Z) : option (bytes * bytes) :=
  match formatIndex (nFieldsL hS (tSize + fS) f) idx with
  | None => None
  | Some i => let off := hS + i * (tSize + fS) in
              Some (slice off tSize f, slice (off + tSize) fS f)
  end.

Definition timesL (hS fS : Z) (f : bytes) : list bytes :=
  map (fun i => slice (hS + Z.of_nat i * (tSize + fS)) tSize f)
      (seq 0 (Z.to_nat (nFieldsL hS (tSize + fS) f))).

Definition rec_bytes (r : bytes * bytes) : bytes := fst r ++ snd r.
Definition wf_rec (fS : Z) (r : bytes * bytes) : Prop := blen (fst r) = tSize /\ blen (snd r) = fS.

(* Rectilinear with an empty coordinate list: np.prod([]) is the FLOAT 1.0, so nItems/fSize are
   floats; sizes still compare equal but seek/fromfile reject the float offset (TypeError) *)
Definition is0d (h : header) : bool :=
  match h_kind h, h_coords h with SRect, [] => true | _, _ => false end.

Definition readField (h : header) (f : bytes) (idx : Z) : result (bytes * bytes) :=
  match readRecL (hSize h) (fSize h) f idx with
  | None => Err EAssert
  | Some r => if is0d h then Err EType else Ok r
  end.

Definition time (h : header) (f : bytes) (idx : Z) : result bytes :=
  match readRecL (hSize h) (fSize h) f idx with
  | None => Err EAssert
  | Some r => if is0d h then Err EType else Ok (fst r)
  end.

Definition times (h : header) (f : bytes) : result (list bytes) :=
  if is0d h && (2 <=? nFields h f) then Err EType else Ok (timesL (hSize h) (fSize h) f).

(* ------------------------------------------------------------------ writing *)
(* Raw     = the pinned code: open(fileName, "ab") and write at the end of the file;
   Aligned = the repaired code: write at hSize + nFields*recSize (start of the first incomplete
             record), i.e. a torn tail left by an interrupted append is overwritten. *)
Inductive add_mode := Raw | Aligned.

Definition addBytes (m : add_mode) (h : header) (f : bytes) (t p : bytes) : result bytes :=
  match m with
  | Raw => Ok (f ++ t ++ p)
  | Aligned => let off := hSize h + nFields h f * recSize h in
               if off <? 0 then Err EValue else Ok (firstn (Z.to_nat off) f ++ t ++ p)
  end.

Record handle := mkHandle { hd : header; inited : bool }.
Record state := mkState { file : option bytes; handles : list handle }.

Inductive res :=
| ROk | RErr (e : err) | RNum (n : Z) | RRec (t p : bytes) | RTimes (ts : bytes)
| RHdr (k : skind) (dt nVar : Z) (coords : list bytes).

Inductive snap := SKeep | SAbsent | SFile (b : bytes).

Inductive op :=
| ONew (h : header)                               (* cls(dtype, fileName); setHeader(...) *)
| OInit (k : nat) (allow : bool)                  (* FieldsIO.ALLOW_OVERWRITE = allow; handle k .initialize() *)
| OOpen                                           (* FieldsIO.fromFile(fileName): new handle on success *)
| OAdd (k : nat) (dt nitems : Z) (t p : bytes)    (* handle k .addField(t, array of dtype dt with nitems values) *)
| ORead (k : nat) (idx : Z)
| OTime (k : nat) (idx : Z)
| OTimes (k : nat)
| ONFields (k : nat)
| OTrunc (n : Z)                                  (* crash simulation: only the first n bytes survive *)
| ORemove.

Definition set_handle (l : list handle) (k : nat) (h : handle) : list handle :=
  firstn k l ++ h :: skipn (S k) l.

Definition snap_of (f : option bytes) : snap :=
  match f with None => SAbsent | Some b => SFile b end.

Definition dummy_handle := mkHandle (mkHeader SScalar 0 0 []) false.

Definition step (m : add_mode) (s : state) (o : op) : state * res * snap :=
  let hk k := nth k (handles s) dummy_handle in
  match o with
  | ONew h => (mkState (file s) (handles s ++ [mkHandle h false]), ROk, SKeep)
  | OInit k allow =>
      let H := hk k in
      if inited H then (s, RErr EAssert, SKeep)
      else match file s, allow with
           | Some _, false => (s, RErr EExists, snap_of (file s))
           | _, _ => let f' := Some (header_bytes (hd H)) in
                     (mkState f' (set_handle (handles s) k (mkHandle (hd H) true)), ROk, snap_of f')
           end
  | OOpen =>
      match file s with
      | None => (s, RErr ENotFound, SKeep)
      | Some f => match decode_header f with
                  | Err e => (s, RErr e, SKeep)
                  | Ok h => (mkState (file s) (handles s ++ [mkHandle h true]),
                             RHdr (h_kind h) (h_dtype h) (h_nVar h) (h_coords h), SKeep)
                  end
      end
  | OAdd k dt nitems t p =>
      let H := hk k in
      if negb (inited H) || negb (dt =? h_dtype (hd H)) || negb (nitems =? nItems (hd H))
      then (s, RErr EAssert, snap_of (file s))
      else match file s with
           | None => match m with
                     | Raw => let f' := Some (t ++ p) in (mkState f' (handles s), ROk, snap_of f')
                     | Aligned => (s, RErr ENotFound, SAbsent)
                     end
           | Some f => match addBytes m (hd H) f t p with
                       | Ok f' => (mkState (Some f') (handles s), ROk, snap_of (Some f'))
                       | Err e => (s, RErr e, snap_of (file s))
                       end
           end
  | ORead k idx =>
      match file s with
      | None => (s, RErr ENotFound, SKeep)
      | Some f => match readField (hd (hk k)) f idx with
                  | Ok (t, p) => (s, RRec t p, SKeep)
                  | Err e => (s, RErr e, SKeep)
                  end
      end
  | OTime k idx =>
      match file s with
      | None => (s, RErr ENotFound, SKeep)
      | Some f => match time (hd (hk k)) f idx with
                  | Ok t => (s, RTimes t, SKeep)
                  | Err e => (s, RErr e, SKeep)
                  end
      end
  | OTimes k =>
      match file s with
      | None => (s, RErr ENotFound, SKeep)
      | Some f => match times (hd (hk k)) f with
                  | Ok ts => (s, RTimes (concat ts), SKeep)
                  | Err e => (s, RErr e, SKeep)
                  end
      end
  | ONFields k =>
      match file s with
      | None => (s, RErr ENotFound, SKeep)
      | Some f => (s, RNum (nFields (hd (hk k)) f), SKeep)
      end
  | OTrunc n =>
      match file s with
      | None => (s, ROk, SAbsent)
      | Some f => let f' := Some (firstn (Z.to_nat n) f) in (mkState f' (handles s), ROk, snap_of f')
      end
  | ORemove => (mkState None (handles s), ROk, SAbsent)
  end.

(* printable forms: uniform tuples (tag, a, b, block lengths, blocks as 7-byte words, see [unB]) that
   the harness reads back with Python's literal parser *)
Definition ptuple : Type := Z * Z * Z * list Z * list (list int).
Definition err_code (e : err) : Z :=
  match e with EAssert => 1 | EExists => 2 | ENotFound => 3 | EValue => 4 | EKey => 5 | EType => 6 end.
Definition blocks (bs : list bytes) : list Z * list (list int) := (map blen bs, map (fun b => snd (unB b)) bs).
Definition show_res (r : res) : ptuple :=
  match r with
  | ROk => (0, 0, 0, [], [])
  | RErr e => (1, err_code e, 0, [], [])
  | RNum n => (2, n, 0, [], [])
  | RRec t p => let '(l, w) := blocks [t; p] in (3, 0, 0, l, w)
  | RTimes ts => let '(l, w) := blocks [ts] in (4, 0, 0, l, w)
  | RHdr k dt nv cs => let '(l, w) := blocks cs in (5 + sid k, dt, nv, l, w)
  end.
Definition show_snap (s : snap) : ptuple :=
  match s with
  | SKeep => (0, 0, 0, [], [])
  | SAbsent => (1, 0, 0, [], [])
  | SFile b => let '(l, w) := blocks [b] in (2, 0, 0, l, w)
  end.

Fixpoint run (m : add_mode) (s : state) (ops : list op) : list (res * snap) :=
  match ops with
  | [] => []
  | o :: ops' => let '(s', r, sn) := step m s o in (r, sn) :: run m s' ops'
  end.

Definition init_state := mkState None [].
Definition run0 (m : add_mode) (ops : list op) : list (ptuple * ptuple) :=
  map (fun rs => (show_res (fst rs), show_snap (snd rs))) (run m init_state ops).
