(* C05 — collocation tables: the validator [check_coll] (pattern A).
   A [coll_table] is the exact dyadic image of the public attributes of one live
   pySDC.core.collocation.CollBase object (nodes, weights, Qmat, Smat, delta_m, order, end-point
   flags) together with what Sweeper.__init__ makes of do_coll_update.  All arithmetic is exact
   dyadic arithmetic; no proofs here (see Proofs/CollocProofs.v). *)
From Coq Require Import ZArith QArith List Bool Lia.
From PySDC Require Import Base.Dyadic Base.DyadicFast.
Import ListNotations.
Open Scope Z_scope.

Record coll_table := CT {
  ct_a : dy;                    (* tleft *)
  ct_b : dy;                    (* tright *)
  ct_nodes : list dy;           (* coll.nodes, M entries *)
  ct_weights : list dy;         (* coll.weights *)
  ct_Q : list (list dy);        (* coll.Qmat, (M+1) x (M+1) *)
  ct_S : list (list dy);        (* coll.Smat *)
  ct_delta : list dy;           (* coll.delta_m *)
  ct_order : nat;               (* coll.order *)
  ct_left : bool;               (* coll.left_is_node *)
  ct_right : bool;              (* coll.right_is_node *)
  ct_upd_in : bool;             (* do_coll_update as requested by the user *)
  ct_upd_out : bool;            (* sweeper.params.do_coll_update after Sweeper.__init__ *)
  ct_rtol : dy;                 (* relative tolerance of the moment conditions *)
  ct_stol : dy                  (* relative tolerance of the (single rounding) difference relations *)
}.

(* floor(log2 (b - a)): the moments are taken in the variable (x - a) * 2^-e in [0, 2) *)
Definition scale_exp (a b : dy) : Z :=
  let h := dsub b a in Z.log2 (Z.abs (dm h)) + de h.
Definition sig (a b : dy) : dy := dpow2 (- scale_exp a b).
Definition hat (a s x : dy) : dy := dmul (dsub x a) s.

(* sum_i w_i * x_i^k   and   sum_i |w_i| * |x_i|^k *)
Fixpoint dmoment (w x : list dy) (k : nat) : dy :=
  match w, x with
  | wi :: w', xi :: x' => dadd (dmul wi (dpow xi k)) (dmoment w' x' k)
  | _, _ => d0
  end.
Fixpoint dmoment_abs (w x : list dy) (k : nat) : dy :=
  match w, x with
  | wi :: w', xi :: x' => dadd (dabs (dmul wi (dpow xi k))) (dmoment_abs w' x' k)
  | _, _ => d0
  end.

(* | (k+1) * sum_i w_i x_i^k  -  top^(k+1) |  <=  (k+1) * rtol * sum_i |w_i| |x_i|^k
   i.e. the rule integrates x^k over [0, top] exactly up to the backward-error shaped tolerance *)
Definition check_mom (w x : list dy) (top rtol : dy) (k : nat) : bool :=
  let k1 := dZ (Z.of_nat (S k)) in
  dleb (dabs (dsub (dmul k1 (dmoment w x k)) (dpow top (S k))))
       (dmul k1 (dmul rtol (dmoment_abs w x k))).

Definition check_rule (w x : list dy) (top rtol : dy) (n : nat) : bool :=
  forallb (check_mom w x top rtol) (seq 0 n).

(* ---- the same rule check, organised for speed: one shared table of node powers, the moment and its
   absolute version from the same products, alignment by shifts (Base/DyadicFast).  Proved equal to
   [check_rule] in Proofs/CollocProofs.v ([check_rule_fast_eq]). *)
Fixpoint zipmul (xs ps : list dy) : list dy :=
  match xs, ps with x :: xs', p :: ps' => dmul x p :: zipmul xs' ps' | _, _ => [] end.

(* rows pk, x*pk, x^2*pk, ... (n rows) *)
Fixpoint powtab_from (xs pk : list dy) (n : nat) : list (list dy) :=
  match n with O => [] | S n' => pk :: powtab_from xs (zipmul xs pk) n' end.
Definition powtab (xs : list dy) (n : nat) : list (list dy) := powtab_from xs (map (fun x => dpow x 0) xs) n.

Fixpoint fdot (w p : list dy) : dy * dy :=
  match w, p with
  | wi :: w', pi :: p' =>
      let t := dmul wi pi in let '(s, sa) := fdot w' p' in (fadd t s, fadd (dabs t) sa)
  | _, _ => (d0, d0)
  end.

Fixpoint check_rule_from (w : list dy) (pows : list (list dy)) (rtol : dy) (k : nat) (topk1 : dy) (top : dy) : bool :=
  match pows with
  | [] => true
  | pk :: rest =>
      let '(m, ma) := fdot w pk in
      let k1 := dZ (Z.of_nat (S k)) in
      fleb (dabs (fsub (dmul k1 m) topk1)) (dmul k1 (dmul rtol ma))
      && check_rule_from w rest rtol (S k) (dmul top topk1) top
  end.
Definition check_rule_fast (w : list dy) (pows : list (list dy)) (top rtol : dy) : bool :=
  check_rule_from w pows rtol 0 (dpow top 1) top.

Definition first_bad_mom (w x : list dy) (top rtol : dy) (n : nat) : option nat :=
  find (fun k => negb (check_mom w x top rtol k)) (seq 0 n).

Fixpoint increasing (l : list dy) : bool :=
  match l with
  | x :: l' => match l' with y :: _ => dltb x y && increasing l' | [] => true end
  | [] => true
  end.

Definition ent (A : list (list dy)) (i j : nat) : dy := nth j (nth i A []) d0.
Definition all_zero (l : list dy) : bool := forallb (fun x => deqb x d0) l.
Definition close (tol scale x y : dy) : bool := dleb (dabs (dsub x y)) (dmul tol scale).

Section Checks.
  Variable t : coll_table.
  Let a := ct_a t.
  Let b := ct_b t.
  Let M := length (ct_nodes t).
  Let s := sig a b.

  Definition ct_xhat : list dy := map (hat a s) (ct_nodes t).
  Definition ct_top : dy := hat a s b.
  Definition ct_what : list dy := map (fun w => dmul w s) (ct_weights t).
  (* row m of Qmat[:, 1:], scaled *)
  Definition ct_qhat (m : nat) : list dy := map (fun w => dmul w s) (tl (nth m (ct_Q t) [])).

  Definition chk_shape : bool :=
    (0 <? M)%nat && Nat.eqb (length (ct_weights t)) M && Nat.eqb (length (ct_delta t)) M
    && Nat.eqb (length (ct_Q t)) (S M) && Nat.eqb (length (ct_S t)) (S M)
    && forallb (fun r => Nat.eqb (length r) (S M)) (ct_Q t)
    && forallb (fun r => Nat.eqb (length r) (S M)) (ct_S t).

  Definition chk_nodes : bool :=
    dltb a b && increasing (ct_nodes t)
    && dleb a (hd a (ct_nodes t)) && dleb (last (ct_nodes t) b) b
    && Bool.eqb (deqb (hd a (ct_nodes t)) a) (ct_left t)
    && Bool.eqb (deqb (last (ct_nodes t) b) b) (ct_right t).

  Definition chk_weights : bool :=
    check_rule_fast ct_what (powtab ct_xhat (ct_order t)) ct_top (ct_rtol t).

  (* m = 0 .. M-1 : row m+1 of Qmat integrates to node m *)
  Definition chk_Qrow (pows : list (list dy)) (m : nat) : bool :=
    check_rule_fast (ct_qhat (S m)) pows (nth m ct_xhat d0) (ct_rtol t).
  Definition chk_Q : bool := let pows := powtab ct_xhat M in forallb (chk_Qrow pows) (seq 0 M).

  Definition chk_pad : bool :=
    all_zero (nth 0 (ct_Q t) []) && forallb (fun r => deqb (hd d0 r) d0) (ct_Q t)
    && all_zero (nth 0 (ct_S t) []) && forallb (fun r => deqb (hd d0 r) d0) (ct_S t).

  (* S[m+1][j] = Q[m+1][j] - Q[m][j] up to one rounding *)
  Definition chk_S_entry (m j : nat) : bool :=
    close (ct_stol t) (dadd (dabs (ent (ct_Q t) (S m) j)) (dabs (ent (ct_Q t) m j)))
          (ent (ct_S t) (S m) j) (dsub (ent (ct_Q t) (S m) j) (ent (ct_Q t) m j)).
  Definition chk_S : bool :=
    forallb (fun m => forallb (chk_S_entry m) (seq 0 (S M))) (seq 0 M).

  (* delta_m[m] = nodes[m] - (tleft :: nodes)[m] up to one rounding *)
  Definition chk_delta_entry (m : nat) : bool :=
    let x := nth m (ct_nodes t) d0 in
    let p := nth m (a :: ct_nodes t) d0 in
    close (ct_stol t) (dadd (dabs x) (dabs p)) (nth m (ct_delta t) d0) (dsub x p).
  Definition chk_delta : bool := forallb chk_delta_entry (seq 0 M).

  Definition chk_upd : bool := Bool.eqb (ct_upd_out t) (ct_upd_in t || negb (ct_right t)).

  Definition check_coll : bool :=
    chk_shape && chk_nodes && chk_weights && chk_Q && chk_pad && chk_S && chk_delta && chk_upd.

  (* diagnostics: which clause fails *)
  Definition check_coll_diag : list bool :=
    [chk_shape; chk_nodes; chk_weights; chk_Q; chk_pad; chk_S; chk_delta; chk_upd].
  Definition bad_weight_mom : option nat := first_bad_mom ct_what ct_xhat ct_top (ct_rtol t) (ct_order t).
  Definition bad_Q_mom : list (nat * nat) :=
    flat_map (fun m => match first_bad_mom (ct_qhat (S m)) ct_xhat (nth m ct_xhat d0) (ct_rtol t) M with
                       | Some k => [(m, k)] | None => [] end) (seq 0 M).
End Checks.

(* ---------------- affine law against the table of the same rule on the reference interval ------ *)
(* r : table for [0,1] (any reference), t : table for [a,b]; h = b - a.
     nodes:   | x_i - (a + h xi_i) |  <= ntol * (|a| + |b|)
     weights: | w_i - h om_i |        <= wtol * h * sum_j |om_j|
     Q, S rows likewise with the 1-norm of the reference row *)
Definition l1 (l : list dy) : dy := dsum (map dabs l).

Definition chk_aff_row (h wtol : dy) (rw tw : list dy) : bool :=
  Nat.eqb (length rw) (length tw) &&
  forallb (fun p => close wtol (dmul h (l1 rw)) (snd p) (dmul h (fst p))) (combine rw tw).

Definition check_affine (r t : coll_table) (ntol wtol : dy) : bool :=
  let a := ct_a t in let b := ct_b t in let h := dsub b a in
  let ra := ct_a r in let rh := dsub (ct_b r) (ct_a r) in
  deqb ra d0 && deqb rh d1 &&
  Nat.eqb (length (ct_nodes r)) (length (ct_nodes t)) &&
  forallb (fun p => close ntol (dadd (dabs a) (dabs b)) (snd p) (dadd a (dmul h (fst p))))
          (combine (ct_nodes r) (ct_nodes t)) &&
  chk_aff_row h wtol (ct_weights r) (ct_weights t) &&
  Nat.eqb (length (ct_Q r)) (length (ct_Q t)) &&
  forallb (fun p => chk_aff_row h wtol (fst p) (snd p)) (combine (ct_Q r) (ct_Q t)) &&
  Nat.eqb (length (ct_S r)) (length (ct_S t)) &&
  forallb (fun p => chk_aff_row h wtol (fst p) (snd p)) (combine (ct_S r) (ct_S t)) &&
  Nat.eqb (ct_order r) (ct_order t) && Bool.eqb (ct_left r) (ct_left t) && Bool.eqb (ct_right r) (ct_right t).

(* ---------------- the collocation-update switch of Sweeper.__init__, also under re-initialisation ---- *)
(* What the constructor must leave in params.do_coll_update: a function of the quadrature type's
   right_is_node and of the value the user passed with THIS call only. *)
Definition upd_flag (right_is_node user : bool) : bool := user || negb right_is_node.

(* One sweeper object initialised repeatedly (sweeper.__init__(params) as AdaptiveCollocation does):
   the flag observable after each initialisation. History independent by construction. *)
Definition reinit_flags (calls : list (bool * bool)) : list bool :=
  map (fun c => upd_flag (fst c) (snd c)) calls.

Fixpoint bools_eqb (x y : list bool) : bool :=
  match x, y with
  | [], [] => true
  | a :: x', b :: y' => Bool.eqb a b && bools_eqb x' y'
  | _, _ => false
  end.

(* calls = (right_is_node, user do_coll_update) per initialisation; obs = flag read after each *)
Definition check_reinit (calls : list (bool * bool)) (obs : list bool) : bool :=
  bools_eqb (reinit_flags calls) obs.
