(* C01 / C07 / C10 — numerical model of a BLOCK of time-parallel steps (MSSDC / PFASST) on a hierarchy of levels:
   the state of every (step, level) and the four primitive operations the controller composes —
     Sweep p l     one sweep of step p on level l                (sweeper.update_nodes)
     Send p l      step p computes its end value on level l (send_full: sweeper.compute_end_point — the last node, or the
                   quadrature u0 + dt sum_m w_m f_m (+ tau) when the right end is not a node / do_coll_update is set)
     Recv p l      step p takes the end value step p-1 has SENT on level l as its initial value (recv_full)
     Restrict p l  level l -> l+1 of step p                        (BaseTransfer.restrict)
     Prolong p l   level l+1 -> l of step p                        (BaseTransfer.prolong / prolong_f)
   A schedule is a list of operations; pfasst_iteration is the schedule of ONE iteration of controller_nonMPI with all steps
   running (it_check communication, it_down, it_coarse, it_up, it_fine), for any number of steps and levels.
   Validity flags track whether a (step, level) entry has been initialised from valid data (coarse levels start invalid). *)
From Coq Require Import List Arith Bool.
From PySDC Require Import Model.Sweep Model.Transfer Model.MultiLevel.
Import ListNotations.

Section Block.
  Context {K : Type} (kO : K) (kadd kmul ksub : K -> K -> K) (keqb : K -> K -> bool).
  Context {X : Type}.
  Notation V := (X -> K).
  Variable imex : bool.
  Variable lev : nat -> @level K X.          (* level l (0 = finest) *)
  Variable xf : nat -> @xfer K X.            (* transfer between level l and l+1 *)
  Variable tstart : nat -> K.                (* start time of step p *)
  Record endp := { erin : bool; edcu : bool; ew : nat -> K }.   (* right_is_node, do_coll_update, coll.weights *)
  Variable lend : nat -> endp.               (* end-point configuration of level l *)

  Record lvst := { su : nat -> V; sf : nat -> nat -> V; stau : nat -> option V;
                   suold : nat -> V; sfold : nat -> nat -> V;
                   suend : V; ssent : bool;      (* level.uend and whether it has been computed from valid data *)
                   svalid : bool }.
  Definition bstate := nat -> nat -> lvst.   (* step, level *)

  Inductive op := Sweep (p l : nat) | Send (p l : nat) | Recv (p l : nat) | Restrict (p l : nat) | Prolong (p l : nat).

  Definition end_value (l : nat) (s : lvst) : V :=
    end_point kO kadd kmul (lM (lev l)) (ldt (lev l)) (ew (lend l)) (nparts imex) (erin (lend l)) (edcu (lend l)) (su s) (sf s) (stau s).

  Definition bupd (B : bstate) (p l : nat) (s : lvst) : bstate :=
    fun p' l' => if Nat.eqb p' p && Nat.eqb l' l then s else B p' l'.

  Definition do_op (B : bstate) (o : op) : bstate :=
    match o with
    | Sweep p l =>
        let s := B p l in
        let r := sweep1 kO kadd kmul ksub keqb (tstart p) imex (lev l) (stau s) (su s, sf s) in
        bupd B p l {| su := fst r; sf := snd r; stau := stau s; suold := suold s; sfold := sfold s;
                      suend := suend s; ssent := ssent s; svalid := svalid s |}
    | Send p l =>
        let s := B p l in
        bupd B p l {| su := su s; sf := sf s; stau := stau s; suold := suold s; sfold := sfold s;
                      suend := end_value l s; ssent := svalid s; svalid := svalid s |}
    | Recv p l =>
        match p with
        | 0 => B
        | S q =>
            let s := B p l in
            let src := B q l in
            let u0 := suend src in
            bupd B p l {| su := upd (su s) 0 u0; sf := upd (sf s) 0 (lfeval (lev l) (tstart p) u0); stau := stau s;
                          suold := suold s; sfold := sfold s; suend := suend s; ssent := ssent s;
                          svalid := svalid s && (svalid src && ssent src) |}
        end
    | Restrict p l =>
        let s := B p l in
        let G := restrict_to kO kadd kmul ksub (tstart p) imex (xf l) (lev l) (lev (S l)) (stau s) (su s, sf s) in
        bupd B p (S l) {| su := Gu G; sf := Gf G; stau := Gtau G; suold := Guold G; sfold := Gfold G;
                          suend := suend (B p (S l)); ssent := false; svalid := svalid s |}
    | Prolong p l =>
        let s := B p l in
        let c := B p (S l) in
        let G' := {| Gu := su c; Gf := sf c; Gtau := stau c; Guold := suold c; Gfold := sfold c |} in
        let r := prolong_from kadd kmul ksub (tstart p) (xf l) (lev l) (lev (S l)) G' (su s, sf s) in
        bupd B p l {| su := fst r; sf := snd r; stau := stau s; suold := suold s; sfold := sfold s;
                      suend := suend s; ssent := ssent s; svalid := svalid s && svalid c |}
    end.

  Definition run_ops (ops : list op) (B : bstate) : bstate := fold_left do_op ops B.

  (* ---------------------------------------------------------------- the controller's schedule *)
  Definition for_steps (P : nat) (f : nat -> list op) : list op := flat_map f (seq 0 P).
  Definition comm_all (P l : nat) : list op := for_steps P (fun p => [Send p l; Recv p l]).
  Definition sweep_all (P l : nat) : list op := for_steps P (fun p => [Sweep p l]).
  Fixpoint repeat_ops (n : nat) (ops : list op) : list op := match n with 0 => [] | S n' => ops ++ repeat_ops n' ops end.

  (* it_check: send + recv on the finest level, steps in order (the residual computed there does not change the state) *)
  Definition it_check_ops (P : nat) : list op := comm_all P 0.
  (* it_down: restrict 0->1; for l = 1..L-2: nsweeps[l] x (comm, sweeps); restrict l->l+1 *)
  Definition it_down_ops (P L : nat) (nsw : nat -> nat) : list op :=
    for_steps P (fun p => [Restrict p 0])
    ++ flat_map (fun l => repeat_ops (nsw l) (comm_all P l ++ sweep_all P l) ++ for_steps P (fun p => [Restrict p l])) (seq 1 (L - 2)).
  (* it_coarse: steps in order: recv, sweep, send (Gauss-Seidel on the coarsest level) *)
  Definition it_coarse_ops (P L : nat) : list op := for_steps P (fun p => [Recv p (L - 1); Sweep p (L - 1); Send p (L - 1)]).
  (* it_up: for l = L-1..1: prolong l->l-1; if l-1 > 0: nsweeps[l-1] x (comm, sweeps) *)
  Definition it_up_ops (P L : nat) (nsw : nat -> nat) : list op :=
    flat_map (fun l => for_steps P (fun p => [Prolong p (l - 1)])
                       ++ (if Nat.ltb 0 (l - 1) then repeat_ops (nsw (l - 1)) (comm_all P (l - 1) ++ sweep_all P (l - 1)) else []))
             (rev (seq 1 (L - 1))).
  (* it_fine: nsweeps[0] x (comm on all steps, then sweeps on all steps)  (Jacobi on the finest level) *)
  Definition it_fine_ops (P : nat) (nsw : nat -> nat) : list op := repeat_ops (nsw 0) (comm_all P 0 ++ sweep_all P 0).

  (* one iteration with all steps running:
       L >= 2 (MLSDC / PFASST):     IT_CHECK, IT_DOWN, IT_COARSE, IT_UP, IT_FINE
       L = 1, Jacobi (mssdc_jac):   IT_CHECK, IT_FINE
       L = 1, Gauss-Seidel:         IT_CHECK, IT_COARSE *)
  Definition iteration_body (P L : nat) (nsw : nat -> nat) (jacobi : bool) : list op :=
    if Nat.ltb 1 L
    then it_down_ops P L nsw ++ it_coarse_ops P L ++ it_up_ops P L nsw ++ it_fine_ops P nsw
    else if jacobi then it_fine_ops P nsw
         else it_coarse_ops P 1.
  Definition pfasst_iteration (P L : nat) (nsw : nat -> nat) (jacobi : bool) : list op :=
    it_check_ops P ++ iteration_body P L nsw jacobi.

  (* ---------------------------------------------------------------- the predictors of controller_nonMPI.predict *)
  Inductive predictor := PredNone | PredFineOnly | PredBurnIn.
  (* pfasst_burnin: restrict every step down to the coarsest level; q = 0..P-1: (steps p >= q: coarse sweep, send), (steps p > q: recv);
     per step: prolong up to the finest level, send, recv; then one fine sweep on every step *)
  Definition burnin_ops (P L : nat) : list op :=
    for_steps P (fun p => map (fun l => Restrict p l) (seq 0 (L - 1)))
    ++ flat_map (fun q => flat_map (fun p => [Sweep p (L - 1); Send p (L - 1)]) (seq q (P - q))
                          ++ flat_map (fun p => [Recv p (L - 1)]) (seq (S q) (P - S q))) (seq 0 P)
    ++ for_steps P (fun p => map (fun l => Prolong p (l - 1)) (rev (seq 1 (L - 1))) ++ [Send p 0; Recv p 0])
    ++ sweep_all P 0.
  Definition predict_ops (P L : nat) (pt : predictor) : list op :=
    match pt with PredNone => [] | PredFineOnly => sweep_all P 0 | PredBurnIn => burnin_ops P L end.
End Block.
