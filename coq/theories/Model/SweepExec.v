(* Executable instance of Model/Sweep.v over Qc (canonical rationals, Leibniz equality) with
   X := nat (component index), used by the correspondence check: the harness runs the real sweeper
   classes under fractions.Fraction on the same data and the kernel compares every output exactly.

   Problem family (harness/exact.py): part p of the right-hand side is
       f_p(u,t)_x = lam_p[x]*u_x + mu_p[x]*u_x^2 + c_p[x]*t
   (mu only on explicit parts), with the exact implicit solves
       solve_p(rhs, a, _, t)_x = (rhs_x + a*c_p[x]*t) / (1 - a*lam_p[x]). *)
From Coq Require Import List Arith Bool ZArith QArith Qcanon.
From PySDC Require Import Model.Sweep Model.Verlet.
Import ListNotations.
Local Open Scope Qc_scope.

Definition q (z : Z) (p : positive) : Qc := Q2Qc (z # p).

Definition nthq (l : list Qc) (i : nat) : Qc := nth i l 0.
Definition mat (l : list (list Qc)) (i j : nat) : Qc := nthq (nth i l []) j.
Definition vec_of (l : list Qc) : nat -> Qc := nthq l.
Definition nodevec_of (l : list (list Qc)) : nat -> nat -> Qc := fun m => nthq (nth m l []).

Inductive kind := GI | IMEX | EXPL | MI.

Record prob := {
  p_dim : nat;
  p_lam : list (list Qc);   (* per part *)
  p_mu  : list (list Qc);
  p_c   : list (list Qc);
}.

(* memoisation: under vm_compute (call by value) the list is computed once, when the vector is built;
   extensionally memo d v x = v x for x < d *)
Definition memo (d : nat) (v : nat -> Qc) : nat -> Qc :=
  let l := map v (seq 0 d) in fun x => nth x l 0.

Definition feval_raw (P : prob) (t : Qc) (u : nat -> Qc) (p : nat) : nat -> Qc :=
  fun x => mat (p_lam P) p x * u x + mat (p_mu P) p x * u x * u x + mat (p_c P) p x * t.

Definition feval_of (P : prob) (t : Qc) (u : nat -> Qc) : nat -> nat -> Qc :=
  let f0 := memo (p_dim P) (feval_raw P t u 0) in
  let f1 := memo (p_dim P) (feval_raw P t u 1) in
  fun p => if Nat.eqb p 0 then f0 else f1.

Definition solve_of (P : prob) (p : nat) (rhs : nat -> Qc) (a : Qc) (_ : nat -> Qc) (t : Qc) : nat -> Qc :=
  memo (p_dim P) (fun x => (rhs x + a * mat (p_c P) p x * t) / (1 - a * mat (p_lam P) p x)).

Record case := {
  c_kind : kind;
  c_M : nat;
  c_dt : Qc; c_t0 : Qc;
  c_nodes : list Qc;                (* index 0 unused (0), 1..M *)
  c_Q : list (list Qc);             (* (M+1) x (M+1) *)
  c_w : list Qc;                    (* index 0 unused *)
  c_QA : list (list Qc);            (* QI / QE(expl) / Q1 *)
  c_QB : list (list Qc);            (* QE (imex) / Q2 *)
  c_prob : prob;
  c_u : list (list Qc);             (* nodes 0..M *)
  c_f : list (list (list Qc));      (* node -> part -> comps *)
  c_tau : list (option (list Qc));  (* index 0 unused, 1..M *)
  c_rin : bool; c_docoll : bool;
  c_mass : list Qc;                 (* diagonal mass matrix (imex_1st_order_mass only) *)
  c_level0 : bool;
}.

Definition Qc_eqb (a b : Qc) : bool := Qeq_bool a b.

Section Run.
  Variable C : case.
  Let M := c_M C.
  Let P := c_prob C.
  Let np := match c_kind C with GI | EXPL => 1%nat | _ => 2%nat end.
  Let u := nodevec_of (c_u C).
  Let f : nat -> nat -> nat -> Qc := fun m p => nthq (nth p (nth m (c_f C) []) []).
  Let tau : nat -> option (nat -> Qc) := fun m => option_map vec_of (nth m (c_tau C) None).
  Let Qm := mat (c_Q C).
  Let QA := mat (c_QA C).
  Let QB := mat (c_QB C).

  Definition run_update : (nat -> nat -> Qc) * (nat -> nat -> nat -> Qc) :=
    match c_kind C with
    | GI => gi_update 0 Qcplus Qcmult Qcminus Qc_eqb M (c_dt C) (c_t0 C) (nthq (c_nodes C)) Qm
                      (solve_of P) (feval_of P) QA u f tau
    | IMEX => imex_update 0 Qcplus Qcmult Qcminus M (c_dt C) (c_t0 C) (nthq (c_nodes C)) Qm
                      (solve_of P) (feval_of P) QA QB u f tau
    | EXPL => expl_update 0 Qcplus Qcmult Qcminus M (c_dt C) (c_t0 C) (nthq (c_nodes C)) Qm
                      (feval_of P) QA u f tau
    | MI => mi_update 0 Qcplus Qcmult Qcminus M (c_dt C) (c_t0 C) (nthq (c_nodes C)) Qm
                      (solve_of P) (feval_of P) QA QB u f tau
    end.

  Definition comps (v : nat -> Qc) : list Qc := map v (seq 0 (p_dim P)).

  (* observables, flattened in a fixed order:
     u_new[1..M], f_new[1..M][parts], integrate(old f)[1..M], residual_vec(new)[1..M], uend(new) *)
  Definition run_case : list Qc :=
    let '(un, fn) := run_update in
    let us := flat_map (fun m => comps (un m)) (seq 1 M) in
    let fs := flat_map (fun m => flat_map (fun p => comps (fn m p)) (seq 0 np)) (seq 1 M) in
    let ints := flat_map (fun m => comps (integrate 0 Qcplus Qcmult M (c_dt C) Qm np f m)) (seq 1 M) in
    let res := flat_map (fun m => comps (residual_vec 0 Qcplus Qcmult Qcminus M (c_dt C) Qm np un fn tau m)) (seq 1 M) in
    let ue := comps (end_point 0 Qcplus Qcmult M (c_dt C) (nthq (c_w C)) np (c_rin C) (c_docoll C) un fn tau) in
    us ++ fs ++ ints ++ res ++ ue.
End Run.

Fixpoint first_diff (i : nat) (a b : list Qc) : option nat :=
  match a, b with
  | [], [] => None
  | x :: a', y :: b' => if Qc_eqb x y then first_diff (S i) a' b' else Some i
  | _, _ => Some i
  end.

(* -1 = agree; otherwise index of the first differing observable *)
Definition check_case (ce : case * list Qc) : Z :=
  match first_diff 0 (run_case (fst ce)) (snd ce) with None => (-1)%Z | Some i => Z.of_nat i end.

(* Runge-Kutta (non-IMEX) sweepers: c_QA holds the Butcher matrix in pySDC layout; observables = stage values *)
Definition run_rk (C : case) : list Qc :=
  let P := c_prob C in
  let '(un, _) := rk_update 0 Qcplus Qcmult Qc_eqb (c_M C) (c_dt C) (c_t0 C) (nthq (c_nodes C)) (solve_of P) (feval_of P)
                            1 (fun _ => mat (c_QA C)) (nodevec_of (c_u C))
                            (fun m p => nthq (nth p (nth m (c_f C) []) [])) in
  flat_map (fun m => map (un m) (seq 0 (p_dim P))) (seq 1 (c_M C)).

Definition check_rk_case (ce : case * list Qc) : Z :=
  match first_diff 0 (run_rk (fst ce)) (snd ce) with None => (-1)%Z | Some i => Z.of_nat i end.

(* imex_1st_order_mass: diagonal mass matrix, mass-aware implicit solve (mass - a*lam) w = rhs + a*c*t *)
Definition run_mass (C : case) : list Qc :=
  let P := c_prob C in
  let d := p_dim P in
  let massop := fun (v : nat -> Qc) => memo d (fun x => nthq (c_mass C) x * v x) in
  let msolve := fun (p : nat) (rhs : nat -> Qc) (a : Qc) (_ : nat -> Qc) (t : Qc) =>
                  memo d (fun x => (rhs x + a * mat (p_c P) p x * t) / (nthq (c_mass C) x - a * mat (p_lam P) p x)) in
  let '(un, fn) := mass_update 0 Qcplus Qcmult Qcminus (c_M C) (c_dt C) (c_t0 C) (nthq (c_nodes C)) (mat (c_Q C)) msolve (feval_of P)
                              (mat (c_QA C)) (mat (c_QB C)) massop (c_level0 C) (nodevec_of (c_u C))
                              (fun m p => nthq (nth p (nth m (c_f C) []) []))
                              (fun m => option_map vec_of (nth m (c_tau C) None)) in
  flat_map (fun m => map (un m) (seq 0 d)) (seq 1 (c_M C)) ++
  flat_map (fun m => flat_map (fun p => map (fn m p) (seq 0 d)) (seq 0 2)) (seq 1 (c_M C)).

Definition check_mass_case (ce : case * list Qc) : Z :=
  match first_diff 0 (run_mass (fst ce)) (snd ce) with None => (-1)%Z | Some i => Z.of_nat i end.

(* verlet sweeper on the linear oscillator  x'' = -k x  (scalar), no tau *)
Record vcase := {
  v_M : nat; v_dt : Qc; v_t0 : Qc; v_nodes : list Qc;
  v_Q : list (list Qc); v_QQ : list (list Qc); v_Qx : list (list Qc); v_QT : list (list Qc);
  v_k : Qc; v_p : list Qc; v_v : list Qc; v_f : list Qc;
  v_w : list Qc; v_qQ : list Qc;                    (* coll.weights, sweeper.qQ; index 0 unused *)
  v_taup : list (option Qc); v_tauv : list (option Qc);   (* index 0 unused *)
  v_rin : bool; v_dcu : bool;
}.
(* observables: new positions, velocities, accelerations at nodes 1..M; integrate() of the new state (pos, vel parts);
   compute_end_point() of the new state (pos, vel) *)
Definition run_verlet (C : vcase) : list Qc :=
  let cst := fun (l : list Qc) (m : nat) => memo 1 (fun _ => nthq l m) in
  let otau := fun (l : list (option Qc)) (m : nat) => option_map (fun q => memo 1 (fun _ => q)) (nth m l None) in
  let fe := fun (_ : Qc) (pos _vel : nat -> Qc) => memo 1 (fun x => - (v_k C) * pos x) in
  let '(pn, vn, fn) := verlet_update 0 Qcplus Qcmult Qcminus (v_M C) (v_dt C) (v_t0 C) (nthq (v_nodes C))
                          (mat (v_Q C)) (mat (v_QQ C)) (mat (v_Qx C)) (mat (v_QT C)) fe
                          (cst (v_p C)) (cst (v_v C)) (cst (v_f C)) (otau (v_taup C)) (otau (v_tauv C)) in
  let e := verlet_end_point Qcplus Qcmult (v_M C) (v_dt C) (nthq (v_w C)) (nthq (v_qQ C)) (v_rin C) (v_dcu C)
                            pn vn fn (otau (v_taup C)) (otau (v_tauv C)) in
  map (fun m => pn m 0%nat) (seq 1 (v_M C)) ++ map (fun m => vn m 0%nat) (seq 1 (v_M C)) ++ map (fun m => fn m 0%nat) (seq 1 (v_M C))
  ++ map (fun m => vint_pos 0 Qcplus Qcmult (v_M C) (v_dt C) (mat (v_Q C)) (mat (v_QQ C)) (vn 0%nat) fn m 0%nat) (seq 1 (v_M C))
  ++ map (fun m => vint_vel 0 Qcplus Qcmult (v_M C) (v_dt C) (mat (v_Q C)) fn m 0%nat) (seq 1 (v_M C))
  ++ [fst e 0%nat; snd e 0%nat].
Definition check_verlet_case (ce : vcase * list Qc) : Z :=
  match first_diff 0 (run_verlet (fst ce)) (snd ce) with None => (-1)%Z | Some i => Z.of_nat i end.
