(* C13 — executable model of pySDC's numpy-based data types as a heap of buffers.

   What is modelled (from pySDC/implementations/datatype_classes/{mesh,particles}.py and
   pySDC/projects/DAE/misc/meshDAE.py, behaviour probed on the pinned tree with numpy 2.x):

   * a buffer store  id -> list of cells  (cells are Gaussian integers (re, im); a real dtype keeps
     im = 0); array objects are descriptors (object id, class tag, dtype, shape, buffer, offset) of a
     C-contiguous window of a buffer; names are bound to values (arrays, particles, fields, numbers);
   * mesh.__new__ : fresh object filled with a value / copy-construction cls(other) (fresh buffer,
     class = the class called, shape and dtype of the argument);
   * mesh.__array_ufunc__ : strips the subclass from the inputs, DROPS `out`, calls the ndarray
     ufunc and views the fresh result as type(self) where self is the first override numpy selects
     (first argument, inputs then outputs, whose class is a proper subclass of mesh; else mesh);
   * augmented assignment  a op= y  = ufunc with out=(a,) + rebinding the name (never in place);
   * indexing by [:], [lo:hi], [i] on the first axis (views sharing the buffer / scalars),
     __setitem__ on the same selections with numpy's broadcast-to-target and complex->real cast
     (the only writer);
   * MultiComponentMesh.__getattr__ : component c is  self[c].view(mesh)  (shares the buffer) when
     shape[0] = number of components, AttributeError otherwise;
   * mesh.__abs__ = max |cell| (returned squared for complex cells, to stay exact);
   * particles / fields: copy constructor, __add__, __sub__, __rmul__ (float only), __abs__,
     including the quirk that the result of arithmetic SHARES the q and m arrays of the left
     operand (p.m = self.m) while the copy constructor copies them;
   * ndarray.copy(), np.sum(x), np.sum(x, axis=0).
   No proofs in this file. *)
From Coq Require Import ZArith List Bool Arith.
Import ListNotations.

Definition cell := (Z * Z)%type.
Definition c0 : cell := (0, 0)%Z.

Inductive dtype := DReal | DComplex.
Inductive kind := KNd | KMesh | KImex | KComp2 | KDAE | KPos | KVel | KAcc | KElec | KMagn.
Inductive ckind := CArr (k : kind) | CPart | CFld.
Inductive stag := SInt | SFloat | SComplex.
Inductive ntag := NPyFloat | NNpFloat | NNpComplex | NAbsSq.
Inductive err := EValue | EType | EData | EAttr | EIndex | ENotImpl | EName | EUnsupported.
Inductive res := ROk | RErr (e : err).

Definition kind_code (k : kind) : Z :=
  match k with KNd => 0 | KMesh => 1 | KImex => 2 | KComp2 => 3 | KDAE => 4 | KPos => 5 | KVel => 6
             | KAcc => 7 | KElec => 8 | KMagn => 9 end%Z.
Definition kind_eqb (a b : kind) := Z.eqb (kind_code a) (kind_code b).
Definition dt_code (d : dtype) : Z := match d with DReal => 0 | DComplex => 1 end%Z.
Definition is_cplx (d : dtype) := match d with DReal => false | DComplex => true end.
Definition dt_of (c : bool) := if c then DComplex else DReal.
Definition ntag_code (t : ntag) : Z :=
  match t with NPyFloat => 0 | NNpFloat => 1 | NNpComplex => 2 | NAbsSq => 3 end%Z.
Definition err_code (e : err) : Z :=
  match e with EValue => 1 | EType => 2 | EData => 3 | EAttr => 4 | EIndex => 5 | ENotImpl => 6
             | EName => 7 | EUnsupported => 99 end%Z.
Definition res_code (r : res) : Z := match r with ROk => 0%Z | RErr e => err_code e end.

(* classes deriving from MultiComponentMesh with two components *)
Definition is_multi (k : kind) := match k with KImex | KComp2 | KDAE => true | _ => false end.

Record arr := mkArr { a_oid : nat; a_kind : kind; a_dt : dtype; a_shape : list nat; a_buf : nat; a_idx : list nat }.

Inductive value :=
| VArr (a : arr)
| VPart (oid : nat) (pos vel q m : arr)
| VFld (oid : nat) (el mg : arr)
| VNum (t : ntag) (c : cell).

Record heap := mkHeap { bufs : list (list cell); noid : nat; env : list (nat * value) }.
Definition empty_heap := mkHeap [] 0 [].

(* ---------------------------------------------------------------- names *)
Fixpoint lookup (n : nat) (e : list (nat * value)) : option value :=
  match e with [] => None | (m, v) :: e' => if n =? m then Some v else lookup n e' end.
Fixpoint remove_name (n : nat) (e : list (nat * value)) : list (nat * value) :=
  match e with [] => [] | (m, v) :: e' => if n =? m then remove_name n e' else (m, v) :: remove_name n e' end.
Definition bind (n : nat) (v : value) (e : list (nat * value)) := (n, v) :: remove_name n e.

(* ---------------------------------------------------------------- shapes, reading *)
Definition size (s : list nat) : nat := fold_right Nat.mul 1 s.
(* an array reads the cells of its buffer at the positions a_idx (in C order of its shape): views of any
   stride, orientation or transposition are index maps into the one buffer *)
Definition read_at (l : list cell) (ps : list nat) : list cell := map (fun i => nth i l c0) ps.
Definition read_arr (bs : list (list cell)) (a : arr) : list cell := read_at (nth (a_buf a) bs []) (a_idx a).

Fixpoint set_nth {A} (l : list A) (i : nat) (x : A) : list A :=
  match l, i with [] , _ => [] | _ :: t, O => x :: t | h :: t, S j => h :: set_nth t j x end.
(* write cells cs at positions ps of a list (positions beyond the end do not exist) *)
Fixpoint write_at (l : list cell) (ps : list nat) (cs : list cell) : list cell :=
  match ps, cs with
  | p :: ps', c :: cs' => write_at (set_nth l p c) ps' cs'
  | _, _ => l
  end.
Definition write_buf (bs : list (list cell)) (b : nat) (ps : list nat) (new : list cell) : list (list cell) :=
  set_nth bs b (write_at (nth b bs []) ps new).

(* numpy broadcasting on reversed shapes (least significant axis first) *)
Fixpoint bshape_rev (a b : list nat) : option (list nat) :=
  match a, b with
  | [], _ => Some b
  | _, [] => Some a
  | x :: a', y :: b' =>
      match bshape_rev a' b' with
      | None => None
      | Some r => if x =? y then Some (x :: r) else if x =? 1 then Some (y :: r) else if y =? 1 then Some (x :: r) else None
      end
  end.
Definition bshape (a b : list nat) : option (list nat) := option_map (@rev nat) (bshape_rev (rev a) (rev b)).

(* flat index into a source of (reversed) shape trev for flat index k of a result of (reversed) shape srev *)
Fixpoint src_index (srev trev : list nat) (k : nat) : nat :=
  match srev, trev with
  | sd :: s', td :: t' => (if td =? 1 then 0 else k mod sd) + td * src_index s' t' (k / sd)
  | _, _ => 0
  end.
Definition bcast_cells (s t : list nat) (cells : list cell) : list cell :=
  map (fun k => nth (src_index (rev s) (rev t) k) cells c0) (seq 0 (size s)).

(* ---------------------------------------------------------------- cell arithmetic *)
Inductive ufn := UAdd | USub | UMul | UNeg | UConj | USquare | UAbs | UPos | UMax.
Definition arity (f : ufn) : nat := match f with UAdd | USub | UMul | UMax => 2 | _ => 1 end.
Local Open Scope Z_scope.
Definition cmul (x y : cell) : cell := (fst x * fst y - snd x * snd y, fst x * snd y + snd x * fst y).
Definition cell_op1 (f : ufn) (x : cell) : cell :=
  match f with
  | UNeg => (- fst x, - snd x)
  | UConj => (fst x, - snd x)
  | USquare => cmul x x
  | UAbs => (Z.abs (fst x), 0)
  | _ => x
  end.
Definition cell_op2 (f : ufn) (x y : cell) : cell :=
  match f with
  | UAdd => (fst x + fst y, snd x + snd y)
  | USub => (fst x - fst y, snd x - snd y)
  | UMul => cmul x y
  | UMax => (Z.max (fst x) (fst y), 0)
  | _ => x
  end.
Definition cast (d : dtype) (c : cell) : cell := match d with DReal => (fst c, 0) | DComplex => c end.
Definition maxabs (l : list Z) : Z := fold_right (fun c m => Z.max (Z.abs c) m) 0 l.
Definition normsq (c : cell) : Z := fst c * fst c + snd c * snd c.
Definition maxsq (l : list cell) : Z := fold_right (fun c m => Z.max (normsq c) m) 0 l.
Definition csum (l : list cell) : cell := fold_right (fun c s => (fst c + fst s, snd c + snd s)) c0 l.
Local Close Scope Z_scope.

(* ---------------------------------------------------------------- operands *)
Inductive operand := ON (n : nat) | OS (t : stag) (c : cell) | OA (dt : dtype) (sh : list nat) (cells : list cell).
Inductive opval := PVal (v : value) | PScal (t : stag) (c : cell) | PLit (dt : dtype) (sh : list nat) (cells : list cell).
Definition eval_operand (h : heap) (o : operand) : option opval :=
  match o with
  | ON n => option_map PVal (lookup n (env h))
  | OS t c => Some (PScal t c)
  | OA dt sh cs => Some (PLit dt sh cs)
  end.

(* what a ufunc sees of an argument: class (None for python scalars), complex?, shape, cells *)
Record ufarg := mkUf { u_kind : option kind; u_cplx : bool; u_shape : list nat; u_cells : list cell }.
Definition as_ufarg (bs : list (list cell)) (p : opval) : option ufarg :=
  match p with
  | PVal (VArr a) => Some (mkUf (Some (a_kind a)) (is_cplx (a_dt a)) (a_shape a) (read_arr bs a))
  | PVal _ => None
  | PScal t c => Some (mkUf None (match t with SComplex => true | _ => false end) [] [c])
  | PLit dt sh cs => if length cs =? size sh then Some (mkUf (Some KNd) (is_cplx dt) sh cs) else None
  end.

(* numpy's choice of the __array_ufunc__ override: subclasses before superclasses, else left to
   right; every class here except mesh itself is a direct or indirect proper subclass of mesh and
   unrelated to the others, so the winner is the first non-mesh mesh-class, else mesh. *)
Definition is_meshclass (k : kind) := match k with KNd => false | _ => true end.
Definition is_submesh (k : kind) := match k with KNd | KMesh => false | _ => true end.
Fixpoint first_kind (p : kind -> bool) (ks : list (option kind)) : option kind :=
  match ks with
  | [] => None
  | Some k :: t => if p k then Some k else first_kind p t
  | None :: t => first_kind p t
  end.
Definition resolve_kind (ks : list (option kind)) : option kind :=
  match first_kind is_submesh ks with
  | Some k => Some k
  | None => first_kind is_meshclass ks
  end.

Definition ufunc_compute (f : ufn) (args : list ufarg) : option (bool * list nat * list cell) :=
  match args with
  | [x] =>
      if arity f =? 1 then
        Some (match f with UAbs => false | _ => u_cplx x end, u_shape x, map (cell_op1 f) (u_cells x))
      else None
  | [x; y] =>
      if arity f =? 2 then
        match bshape (u_shape x) (u_shape y) with
        | None => None
        | Some s =>
            Some (u_cplx x || u_cplx y, s,
                  map (fun xy => cell_op2 f (fst xy) (snd xy))
                      (combine (bcast_cells s (u_shape x) (u_cells x)) (bcast_cells s (u_shape y) (u_cells y))))
        end
      else None
  | _ => None
  end.

(* inexact / order-less combinations are outside the model *)
Definition uf_supported (f : ufn) (args : list ufarg) : bool :=
  match f with
  | UAbs | UMax => negb (existsb u_cplx args)
  | _ => true
  end.

(* ---------------------------------------------------------------- results *)
Definition ok_bind (h : heap) (extra : list (list cell)) (d : nat) (v : value) (k : nat) : heap * res :=
  (mkHeap (bufs h ++ extra) (noid h + k) (bind d v (env h)), ROk).
Definition fail (h : heap) (e : err) : heap * res := (h, RErr e).

(* the result of a ufunc as a value: (class, dtype, shape, cells) or an error *)
Definition ufunc_value (bs : list (list cell)) (f : ufn) (args outs : list opval) : err + (kind * dtype * list nat * list cell) :=
  let conv := map (as_ufarg bs) in
  if forallb (fun o => match o with Some _ => true | None => false end) (conv args ++ conv outs) then
    let ua := flat_map (fun o => match o with Some u => [u] | None => [] end) (conv args) in
    let uo := flat_map (fun o => match o with Some u => [u] | None => [] end) (conv outs) in
    match resolve_kind (map u_kind (ua ++ uo)) with
    | None => inl EUnsupported                      (* plain numpy: `out` would be honoured *)
    | Some k =>
        if length ua =? arity f then
          if uf_supported f ua then
            match ufunc_compute f ua with
            | None => inl EValue                    (* operands could not be broadcast together *)
            | Some (c, s, cells) => inr (k, dt_of c, s, cells)
            end
          else inl EUnsupported
        else inl EUnsupported
    end
  else inl EUnsupported.

(* cells a target window of dtype dt and shape sh receives from a source (numpy setitem):
   extra leading axes of length 1 of the source are dropped, then it must broadcast TO sh *)
Fixpoint strip_ones (n : nat) (s : list nat) : list nat :=
  match n, s with
  | S n', 1 :: t => strip_ones n' t
  | _, _ => s
  end.
Definition shape_eqb (a b : list nat) : bool := (length a =? length b) && forallb (fun xy => fst xy =? snd xy) (combine a b).
Definition assign_cells (dt : dtype) (sh : list nat) (sdt : bool) (ssh : list nat) (cells : list cell) : option (list cell) :=
  let ssh' := strip_ones (length ssh - length sh) ssh in
  match bshape sh ssh' with
  | Some r => if shape_eqb r sh then Some (map (cast dt) (bcast_cells sh ssh' cells)) else None
  | None => None
  end.

(* ---------------------------------------------------------------- selections on the first axis *)
Inductive sel := SAll | SRange (lo hi : nat) | SIdx (i : nat).
Inductive region := RegArr (sh : list nat) (idx : list nat) | RegCell (p : nat).
Definition sub (l : list nat) (off n : nat) : list nat := firstn n (skipn off l).
Definition select (a : arr) (s : sel) : err + region :=
  match a_shape a with
  | [] => inl EUnsupported
  | n :: t =>
      let row := size t in
      match s with
      | SAll => inr (RegArr (n :: t) (a_idx a))
      | SRange lo hi => let lo' := Nat.min lo n in let hi' := Nat.min hi n in
                        inr (RegArr ((hi' - lo') :: t) (sub (a_idx a) (lo' * row) ((hi' - lo') * row)))
      | SIdx i => if i <? n then
                    match t with [] => inr (RegCell (nth i (a_idx a) 0)) | _ => inr (RegArr t (sub (a_idx a) (i * row) row)) end
                  else inl EIndex
      end
  end.
Definition region_shape (r : region) := match r with RegArr sh _ => sh | RegCell _ => [] end.
Definition region_idx (r : region) := match r with RegArr _ idx => idx | RegCell p => [p] end.

(* ---------------------------------------------------------------- operations *)
Inductive op :=
| ONew (d : nat) (k : kind) (dt : dtype) (sh : list nat) (val : Z)        (* d = cls((sh, None, dtype), val) *)
| ONewPart (d : nat) (sh : list nat) (vp vv vq vm : Z)                    (* d = particles(init, val=(vp,vv,vq,vm)), real dtype *)
| ONewFld (d : nat) (sh : list nat) (ve vm : Z)                           (* d = fields(init, val=(ve,vm)) *)
| OCopy (d : nat) (k : ckind) (s : nat)                                   (* d = cls(s) *)
| OAssign (d s : nat)                                                     (* d = s *)
| OUfunc (d : nat) (f : ufn) (args : list operand) (out : option nat)     (* d = np.f(args..., out=out) *)
| OBin (d : nat) (f : ufn) (x y : operand)                                (* d = x op y *)
| OUn (d : nat) (f : ufn) (x : operand)                                   (* d = op x   (-x, +x, np.f(x)) *)
| OIop (d : nat) (f : ufn) (y : operand)                                  (* d op= y *)
| OSet (d : nat) (s : sel) (src : operand)                                (* d[s] = src *)
| OGet (d s : nat) (sl : sel)                                             (* d = s[sl] *)
| OComp (d s c : nat)                                                     (* d = s.<component c> *)
| OAbs (d s : nat)                                                        (* d = abs(s) *)
| OMethCopy (d s : nat)                                                   (* d = s.copy() *)
| OSum (d s : nat)                                                        (* d = np.sum(s) *)
| OSum0 (d s : nat)                                                       (* d = np.sum(s, axis=0) *)
| OView (d s : nat) (perm : list nat) (sl : list (Z * Z * nat))           (* d = s.transpose(perm)[start:stop:step, ...]
                                                                             per result axis (start, step, count); any stride,
                                                                             negative steps, sub-blocks, transposition *)
| ODel (d : nat).                                                         (* del d *)

Definition is_setitem (o : op) := match o with OSet _ _ _ => true | _ => false end.
(* the name an operation (re)binds; OSet binds none *)
Definition dst (o : op) : nat :=
  match o with
  | ONew d _ _ _ _ | ONewPart d _ _ _ _ _ | ONewFld d _ _ _ | OCopy d _ _ | OAssign d _ | OUfunc d _ _ _
  | OBin d _ _ _ | OUn d _ _ | OIop d _ _ | OSet d _ _ | OGet d _ _ | OComp d _ _ | OAbs d _ | OMethCopy d _
  | OSum d _ | OSum0 d _ | OView d _ _ _ | ODel d => d
  end.

(* a new array owning the whole of a new buffer of n cells (memory layout of fresh arrays - C or F order -
   is not observable through the operations below) *)
Definition fresh_arr (h : heap) (i : nat) (nb : nat) (k : kind) (dt : dtype) (sh : list nat) (n : nat) : arr :=
  mkArr (noid h + i) k dt sh (length (bufs h) + nb) (seq 0 n).

Definition zc (z : Z) : cell := (z, 0%Z).

(* ---- general basic-indexing views: positions (in C order of the result) inside the source's own C order *)
Definition stride (sh : list nat) (p : nat) : nat := size (skipn (S p) sh).
(* one result axis: (stride and extent of the source axis it runs over, start, step, count) *)
Definition vaxis := (nat * nat * Z * Z * nat)%type.
Definition axis_ok (x : vaxis) : bool :=
  let '(st, n, s0, sp, c) := x in
  match c with
  | O => true
  | S c' => ((0 <=? s0) && (s0 <? Z.of_nat n) && (0 <=? s0 + Z.of_nat c' * sp) && (s0 + Z.of_nat c' * sp <? Z.of_nat n))%Z
  end.
Fixpoint gather (axes : list vaxis) (base : Z) : list Z :=
  match axes with
  | [] => [base]
  | (st, _, s0, sp, c) :: t => flat_map (fun j => gather t (base + (s0 + Z.of_nat j * sp) * Z.of_nat st)%Z) (seq 0 c)
  end.
Fixpoint nodupb (l : list nat) : bool :=
  match l with [] => true | x :: t => negb (existsb (Nat.eqb x) t) && nodupb t end.
Definition is_perm (perm : list nat) (n : nat) : bool :=
  (length perm =? n) && forallb (fun k => existsb (Nat.eqb k) perm) (seq 0 n).
(* shape and positions of  a.transpose(perm)[slices] ; None when the request is not a valid in-range view *)
Definition view_of (a : arr) (perm : list nat) (sl : list (Z * Z * nat)) : option (list nat * list nat) :=
  let sh := a_shape a in
  if is_perm perm (length sh) && (length sl =? length sh) && (length (a_idx a) =? size sh) then
    let axes := map (fun ps => let '(p, (s0, sp, c)) := ps in (stride sh p, nth p sh 0, s0, sp, c)) (combine perm sl) in
    if forallb axis_ok axes then
      let pos := map Z.to_nat (gather axes 0%Z) in
      let idx := map (fun p => nth p (a_idx a) 0) pos in
      let nsh := map (fun x => snd x) sl in
      if forallb (fun p => p <? length (a_idx a)) pos && nodupb idx && (length idx =? size nsh) then Some (nsh, idx) else None
    else None
  else None.
Definition last_dim (sh : list nat) := last sh 1.

(* a ufunc call binding its result *)
Definition do_ufunc (h : heap) (d : nat) (f : ufn) (args outs : list opval) : heap * res :=
  match ufunc_value (bufs h) f args outs with
  | inl e => fail h e
  | inr (k, dt, s, cells) => ok_bind h [cells] d (VArr (fresh_arr h 0 0 k dt s (length cells))) 1
  end.

(* particles.__add__/__sub__/__rmul__: p = particles(self); p.pos[:] = <expr on pos>; p.vel[:] = ...;
   p.m = self.m; p.q = self.q.  [e1]/[e2] are the right-hand sides as (cplx, shape, cells). *)
Definition part_result (h : heap) (d : nat) (pos vel q m : arr)
           (e1 e2 : option (bool * list nat * list cell)) : heap * res :=
  match e1, e2 with
  | Some (c1, s1, x1), Some (c2, s2, x2) =>
      match assign_cells (a_dt pos) (a_shape pos) c1 s1 x1 with
      | None => fail h EValue
      | Some np =>
          match assign_cells (a_dt vel) (a_shape vel) c2 s2 x2 with
          | None => fail h EValue
          | Some nv =>
              ok_bind h [np; nv] d
                      (VPart (noid h) (fresh_arr h 1 0 KPos (a_dt pos) (a_shape pos) (length np))
                             (fresh_arr h 2 1 KVel (a_dt vel) (a_shape vel) (length nv)) q m) 3
          end
      end
  | _, _ => fail h EValue
  end.
Definition fld_result (h : heap) (d : nat) (el mg : arr)
           (e1 e2 : option (bool * list nat * list cell)) : heap * res :=
  match e1, e2 with
  | Some (c1, s1, x1), Some (c2, s2, x2) =>
      match assign_cells (a_dt el) (a_shape el) c1 s1 x1 with
      | None => fail h EValue
      | Some ne =>
          match assign_cells (a_dt mg) (a_shape mg) c2 s2 x2 with
          | None => fail h EValue
          | Some nm =>
              ok_bind h [ne; nm] d
                      (VFld (noid h) (fresh_arr h 1 0 KElec (a_dt el) (a_shape el) (length ne))
                            (fresh_arr h 2 1 KMagn (a_dt mg) (a_shape mg) (length nm))) 3
          end
      end
  | _, _ => fail h EValue
  end.
Definition uf_of_arr (bs : list (list cell)) (a : arr) : ufarg :=
  mkUf (Some (a_kind a)) (is_cplx (a_dt a)) (a_shape a) (read_arr bs a).
Definition uf_scal (c : cell) : ufarg := mkUf None false [] [c].

(* binary operator on two evaluated operands *)
Definition do_bin (h : heap) (d : nat) (f : ufn) (x y : opval) : heap * res :=
  let bs := bufs h in
  match x, y with
  | PVal (VPart _ p1 v1 q1 m1), PVal (VPart _ p2 v2 _ _) =>
      match f with
      | UAdd | USub =>
          part_result h d p1 v1 q1 m1 (ufunc_compute f [uf_of_arr bs p1; uf_of_arr bs p2])
                      (ufunc_compute f [uf_of_arr bs v1; uf_of_arr bs v2])
      | _ => fail h EType
      end
  | PVal (VFld _ e1 g1), PVal (VFld _ e2 g2) =>
      match f with
      | UAdd | USub =>
          fld_result h d e1 g1 (ufunc_compute f [uf_of_arr bs e1; uf_of_arr bs e2])
                     (ufunc_compute f [uf_of_arr bs g1; uf_of_arr bs g2])
      | _ => fail h EType
      end
  | PScal t c, PVal (VPart _ p1 v1 q1 m1) =>
      match f, t with
      | UMul, SFloat => part_result h d p1 v1 q1 m1 (ufunc_compute UMul [uf_scal c; uf_of_arr bs p1])
                                    (ufunc_compute UMul [uf_scal c; uf_of_arr bs v1])
      | UMul, _ => fail h EData
      | _, _ => fail h EType
      end
  | PScal t c, PVal (VFld _ e1 g1) =>
      match f, t with
      | UMul, SFloat => fld_result h d e1 g1 (ufunc_compute UMul [uf_scal c; uf_of_arr bs e1])
                                   (ufunc_compute UMul [uf_scal c; uf_of_arr bs g1])
      | UMul, _ => fail h EData
      | _, _ => fail h EType
      end
  | PVal (VPart _ _ _ _ _), PScal _ _ | PVal (VFld _ _ _), PScal _ _
  | PVal (VPart _ _ _ _ _), PVal (VFld _ _ _) | PVal (VFld _ _ _), PVal (VPart _ _ _ _ _) =>
      match f with UAdd | USub => fail h EData | _ => fail h EType end
  | PVal (VArr _), PVal (VArr _) | PVal (VArr _), PScal _ _ | PVal (VArr _), PLit _ _ _
  | PScal _ _, PVal (VArr _) | PLit _ _ _, PVal (VArr _) =>
      if arity f =? 2 then do_ufunc h d f [x; y] [] else fail h EUnsupported
  | _, _ => fail h EUnsupported
  end.

Definition exec (h : heap) (o : op) : heap * res :=
  let bs := bufs h in
  match o with
  | ONew d k dt sh val =>
      if is_meshclass k then
        let sh' := if is_multi k then 2 :: sh else sh in
        ok_bind h [repeat (zc val) (size sh')] d (VArr (fresh_arr h 0 0 k dt sh' (size sh'))) 1
      else fail h EUnsupported
  | ONewPart d sh vp vv vq vm =>
      let n := last_dim sh in
      ok_bind h [repeat (zc vp) (size sh); repeat (zc vv) (size sh); repeat (zc vq) n; repeat (zc vm) n] d
              (VPart (noid h) (fresh_arr h 1 0 KPos DReal sh (size sh)) (fresh_arr h 2 1 KVel DReal sh (size sh))
                     (fresh_arr h 3 2 KNd DReal [n] n) (fresh_arr h 4 3 KNd DReal [n] n)) 5
  | ONewFld d sh ve vm =>
      ok_bind h [repeat (zc ve) (size sh); repeat (zc vm) (size sh)] d
              (VFld (noid h) (fresh_arr h 1 0 KElec DReal sh (size sh)) (fresh_arr h 2 1 KMagn DReal sh (size sh))) 3
  | OCopy d ck s =>
      match lookup s (env h) with
      | None => fail h EName
      | Some v =>
          match ck, v with
          | CArr k, VArr a =>
              if is_meshclass k then
                if is_meshclass (a_kind a) then
                  ok_bind h [read_arr bs a] d (VArr (fresh_arr h 0 0 k (a_dt a) (a_shape a) (length (a_idx a)))) 1
                else fail h ENotImpl
              else fail h EUnsupported
          | CArr k, _ => if is_meshclass k then fail h ENotImpl else fail h EUnsupported
          | CPart, VPart _ p v q m =>
              if is_meshclass (a_kind p) && is_meshclass (a_kind v) then
                ok_bind h [read_arr bs p; read_arr bs v; read_arr bs q; read_arr bs m] d
                        (VPart (noid h) (fresh_arr h 1 0 KPos (a_dt p) (a_shape p) (length (a_idx p)))
                               (fresh_arr h 2 1 KVel (a_dt v) (a_shape v) (length (a_idx v)))
                               (fresh_arr h 3 2 (a_kind q) (a_dt q) (a_shape q) (length (a_idx q)))
                               (fresh_arr h 4 3 (a_kind m) (a_dt m) (a_shape m) (length (a_idx m)))) 5
              else fail h ENotImpl
          | CFld, VFld _ e g =>
              if is_meshclass (a_kind e) && is_meshclass (a_kind g) then
                ok_bind h [read_arr bs e; read_arr bs g] d
                        (VFld (noid h) (fresh_arr h 1 0 KElec (a_dt e) (a_shape e) (length (a_idx e))) (fresh_arr h 2 1 KMagn (a_dt g) (a_shape g) (length (a_idx g)))) 3
              else fail h ENotImpl
          | _, _ => fail h EData
          end
      end
  | OAssign d s =>
      match lookup s (env h) with
      | None => fail h EName
      | Some v => ok_bind h [] d v 0
      end
  | OUfunc d f args out =>
      match fold_right (fun o acc => match eval_operand h o, acc with Some p, Some l => Some (p :: l) | _, _ => None end)
                       (Some []) args,
            match out with None => Some [] | Some n => option_map (fun v => [PVal v]) (lookup n (env h)) end with
      | Some pa, Some po => do_ufunc h d f pa po
      | _, _ => fail h EName
      end
  | OBin d f x y =>
      match eval_operand h x, eval_operand h y with
      | Some px, Some py => do_bin h d f px py
      | _, _ => fail h EName
      end
  | OUn d f x =>
      match eval_operand h x with
      | None => fail h EName
      | Some (PVal (VArr a)) => if arity f =? 1 then do_ufunc h d f [PVal (VArr a)] [] else fail h EUnsupported
      | Some (PVal (VPart _ _ _ _ _)) | Some (PVal (VFld _ _ _)) => fail h EType
      | Some _ => fail h EUnsupported
      end
  | OIop d f y =>
      match lookup d (env h), eval_operand h y with
      | Some (VArr a), Some py =>
          (* ndarray.__iop__(a, y) = np.f(a, y, out=(a,)); the result is bound to the name *)
          match py with
          | PVal (VArr _) | PScal _ _ | PLit _ _ _ =>
              if arity f =? 2 then do_ufunc h d f [PVal (VArr a); py] [PVal (VArr a)] else fail h EUnsupported
          | _ => fail h EUnsupported
          end
      | Some v, Some py =>
          (* no __iadd__ etc. on particles/fields: falls back to the binary operator *)
          match v with
          | VNum _ _ => fail h EUnsupported
          | _ => do_bin h d f (PVal v) py
          end
      | _, _ => fail h EName
      end
  | OSet d s src =>
      match lookup d (env h), eval_operand h src with
      | Some (VArr a), Some ps =>
          match select a s with
          | inl e => fail h e
          | inr r =>
              match as_ufarg bs ps with
              | None => fail h EUnsupported
              | Some u =>
                  match r, u_kind u, u_shape u with
                  | RegCell _, Some _, _ => fail h EValue           (* setting an array element with a sequence *)
                  | _, _, _ =>
                      if (match u_kind u with None => u_cplx u | Some _ => false end) && negb (is_cplx (a_dt a))
                      then fail h EType                              (* python complex into a real array *)
                      else
                        match assign_cells (a_dt a) (region_shape r) (u_cplx u) (u_shape u) (u_cells u) with
                        | None => fail h EValue
                        | Some cells => (mkHeap (write_buf bs (a_buf a) (region_idx r) cells) (noid h) (env h), ROk)
                        end
                  end
              end
          end
      | Some (VNum _ _), Some _ => fail h EUnsupported
      | Some _, Some _ => fail h EType
      | _, _ => fail h EName
      end
  | OGet d s sl =>
      match lookup s (env h) with
      | None => fail h EName
      | Some (VArr a) =>
          match select a sl with
          | inl e => fail h e
          | inr (RegArr sh idx) => ok_bind h [] d (VArr (mkArr (noid h) (a_kind a) (a_dt a) sh (a_buf a) idx)) 1
          | inr (RegCell off) =>
              ok_bind h [] d (VNum (if is_cplx (a_dt a) then NNpComplex else NNpFloat) (nth off (nth (a_buf a) bs []) c0)) 0
          end
      | Some (VNum _ _) => fail h EUnsupported
      | Some _ => fail h EType
      end
  | OComp d s c =>
      match lookup s (env h) with
      | None => fail h EName
      | Some (VArr a) =>
          if is_multi (a_kind a) && (c <? 2) then
            match a_shape a with
            | 2 :: (_ :: _) => ok_bind h [] d (VArr (mkArr (noid h) KMesh (a_dt a) (tl (a_shape a)) (a_buf a) (sub (a_idx a) (c * size (tl (a_shape a))) (size (tl (a_shape a)))))) 1
            | [2] => fail h EUnsupported
            | _ => fail h EAttr
            end
          else fail h EAttr
      | Some (VPart _ p v q m) =>
          match c with
          | 0 => ok_bind h [] d (VArr p) 0 | 1 => ok_bind h [] d (VArr v) 0
          | 2 => ok_bind h [] d (VArr q) 0 | 3 => ok_bind h [] d (VArr m) 0
          | _ => fail h EAttr
          end
      | Some (VFld _ e g) =>
          match c with
          | 0 => ok_bind h [] d (VArr e) 0 | 1 => ok_bind h [] d (VArr g) 0
          | _ => fail h EAttr
          end
      | Some (VNum _ _) => fail h EUnsupported
      end
  | OAbs d s =>
      match lookup s (env h) with
      | None => fail h EName
      | Some (VArr a) =>
          if is_meshclass (a_kind a) then
            match read_arr bs a with
            | [] => fail h EValue                                  (* zero-size array to reduction maximum *)
            | cells =>
                if is_cplx (a_dt a) then ok_bind h [] d (VNum NAbsSq (maxsq cells, 0%Z)) 0
                else ok_bind h [] d (VNum NPyFloat (maxabs (map fst cells), 0%Z)) 0
            end
          else fail h EUnsupported
      | Some (VPart _ p v _ _) =>
          if is_meshclass (a_kind p) && is_meshclass (a_kind v) && negb (is_cplx (a_dt p)) && negb (is_cplx (a_dt v)) then
            match read_arr bs p, read_arr bs v with
            | [], _ | _, [] => fail h EValue
            | cp, cv => ok_bind h [] d (VNum NNpFloat (Z.max (maxabs (map fst cp)) (maxabs (map fst cv)), 0%Z)) 0
            end
          else fail h EUnsupported
      | Some (VFld _ _ _) => fail h EType
      | Some (VNum _ _) => fail h EUnsupported
      end
  | OMethCopy d s =>
      match lookup s (env h) with
      | None => fail h EName
      | Some (VArr a) => ok_bind h [read_arr bs a] d (VArr (fresh_arr h 0 0 (a_kind a) (a_dt a) (a_shape a) (length (a_idx a)))) 1
      | Some (VNum _ _) => fail h EUnsupported
      | Some _ => fail h EAttr
      end
  | OSum d s =>
      match lookup s (env h) with
      | None => fail h EName
      | Some (VArr a) =>
          if is_meshclass (a_kind a) then
            ok_bind h [] d (VNum (if is_cplx (a_dt a) then NNpComplex else NNpFloat) (csum (read_arr bs a))) 0
          else fail h EUnsupported
      | Some _ => fail h EUnsupported
      end
  | OSum0 d s =>
      match lookup s (env h) with
      | None => fail h EName
      | Some (VArr a) =>
          if is_meshclass (a_kind a) then
            match a_shape a with
            | n :: (_ :: _) =>
                let row := size (tl (a_shape a)) in
                let cells := read_arr bs a in
                ok_bind h [map (fun j => csum (map (fun i => nth (i * row + j) cells c0) (seq 0 n))) (seq 0 row)] d
                        (VArr (fresh_arr h 0 0 (a_kind a) (a_dt a) (tl (a_shape a)) row)) 1
            | _ => fail h EUnsupported
            end
          else fail h EUnsupported
      | Some _ => fail h EUnsupported
      end
  | OView d s perm sl =>
      match lookup s (env h) with
      | None => fail h EName
      | Some (VArr a) =>
          match view_of a perm sl with
          | Some (nsh, idx) => ok_bind h [] d (VArr (mkArr (noid h) (a_kind a) (a_dt a) nsh (a_buf a) idx)) 1
          | None => fail h EUnsupported
          end
      | Some (VNum _ _) => fail h EUnsupported
      | Some _ => fail h EType
      end
  | ODel d =>
      match lookup d (env h) with
      | None => fail h EName
      | Some _ => (mkHeap (bufs h) (noid h) (remove_name d (env h)), ROk)
      end
  end.

Definition exec_seq (h : heap) (ops : list op) : heap := fold_left (fun h o => fst (exec h o)) ops h.

(* ---------------------------------------------------------------- observation (what the harness compares) *)
Local Open Scope Z_scope.
Definition enc_cells (l : list cell) : list Z := flat_map (fun c => [fst c; snd c]) l.
Definition enc_arr (bs : list (list cell)) (a : arr) : list Z :=
  [kind_code (a_kind a); dt_code (a_dt a); Z.of_nat (length (a_shape a))] ++ map Z.of_nat (a_shape a)
  ++ enc_cells (read_arr bs a).
Definition enc_value (bs : list (list cell)) (v : option value) : list Z :=
  match v with
  | None => [0]
  | Some (VArr a) => 1 :: enc_arr bs a
  | Some (VPart _ p v q m) => 2 :: enc_arr bs p ++ enc_arr bs v ++ enc_arr bs q ++ enc_arr bs m
  | Some (VFld _ e g) => 3 :: enc_arr bs e ++ enc_arr bs g
  | Some (VNum t c) => [4; ntag_code t; fst c; snd c]
  end.
Local Close Scope Z_scope.

(* objects in canonical order: per name, the object itself then its array attributes.
   (object id, Some (buffer, positions)) ; numbers carry no identity *)
Definition obj := (nat * option (nat * list nat))%type.
Definition obj_of_arr (a : arr) : obj := (a_oid a, Some (a_buf a, a_idx a)).
Definition objs_of_value (v : option value) : list obj :=
  match v with
  | Some (VArr a) => [obj_of_arr a]
  | Some (VPart o p v q m) => [(o, None); obj_of_arr p; obj_of_arr v; obj_of_arr q; obj_of_arr m]
  | Some (VFld o e g) => [(o, None); obj_of_arr e; obj_of_arr g]
  | _ => []
  end.
Definition overlap (x y : obj) : bool :=
  match snd x, snd y with
  | Some (b1, i1), Some (b2, i2) => (b1 =? b2) && existsb (fun i => existsb (Nat.eqb i) i2) i1
  | _, _ => false
  end.
Fixpoint index_of_oid (o : nat) (l : list obj) (i : nat) : nat :=
  match l with [] => i | x :: t => if fst x =? o then i else index_of_oid o t (S i) end.
Fixpoint pairs_from (i : nat) (x : obj) (j : nat) (l : list obj) : list Z :=
  match l with
  | [] => []
  | y :: t => (if overlap x y then [Z.of_nat i; Z.of_nat j] else []) ++ pairs_from i x (S j) t
  end.
Fixpoint share_pairs (i : nat) (l : list obj) : list Z :=
  match l with [] => [] | x :: t => pairs_from i x (S i) t ++ share_pairs (S i) t end.

(* full observable state for names 0 .. pool-1: values, identity classes, memory-sharing pairs *)
Definition dump (pool : nat) (h : heap) : list Z :=
  let vals := map (fun n => lookup n (env h)) (seq 0 pool) in
  let objs := flat_map objs_of_value vals in
  flat_map (enc_value (bufs h)) vals
  ++ [(-1)%Z] ++ map (fun x => Z.of_nat (index_of_oid (fst x) objs 0)) objs
  ++ [(-2)%Z] ++ share_pairs 0 objs.

Fixpoint zlist_eqb (a b : list Z) : bool :=
  match a, b with [], [] => true | x :: a', y :: b' => Z.eqb x y && zlist_eqb a' b' | _, _ => false end.

(* run a trace of (operation, expected result code, expected dump); None = all steps agree,
   Some (i, code, dump) = the model's observation at the first disagreeing step *)
Fixpoint check_trace (pool : nat) (h : heap) (i : nat) (tr : list (op * Z * list Z)) : option (nat * Z * list Z) :=
  match tr with
  | [] => None
  | (o, code, exp) :: t =>
      let '(h', r) := exec h o in
      let dm := dump pool h' in
      if Z.eqb (res_code r) code && zlist_eqb dm exp then check_trace pool h' (S i) t
      else Some (i, res_code r, dm)
  end.
