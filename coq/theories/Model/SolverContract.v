(* C12 — the solver contract the sweepers rely on, as an executable certificate checker.

   pySDC/core/problem.py: solve_system(rhs, factor, u0, t) must return u with
        u - factor * f_impl(u, t) = rhs
   (to the configured solver tolerance, on every degree of freedom that is not a boundary /
   constraint row).  Nothing of the ~55 Newton / CG / GMRES / direct solvers is modelled here;
   instead the OUTPUT of every solver is validated: floats enter as exact dyadics (Base/Dyadic.v),
   the operator of a linear class as a sparse matrix of dyadics, and the checkers below evaluate
   the residual exactly.  Proofs/SolverContractProofs.v proves the checkers sound.

   Representation: vectors = lists of dyadics, sparse matrices = lists of rows, a row = list of
   (column, value); duplicates in a row add up.  Complex systems are embedded by the harness as
   real systems of twice the size. *)
From Coq Require Import ZArith QArith Qabs List Bool.
From PySDC Require Import Base.Dyadic.
Import ListNotations.

Definition vec := list dy.
Definition srow := list (nat * dy).
Definition smat := list srow.

Definition vget (u : vec) (j : nat) : dy := nth j u d0.

(* exported tables carry column indices as binary integers (cheap to parse); converted here *)
Definition zrows (A : list (list (Z * dy))) : smat :=
  map (map (fun '(j, a) => (Z.to_nat j, a))) A.

Fixpoint row_dot (r : srow) (u : vec) : dy :=
  match r with
  | [] => d0
  | (j, a) :: r' => dadd (dmul a (vget u j)) (row_dot r' u)
  end.

Fixpoint row_absdot (r : srow) (u : vec) : dy :=
  match r with
  | [] => d0
  | (j, a) :: r' => dadd (dmul (dabs a) (dabs (vget u j))) (row_absdot r' u)
  end.

Definition dmax (a b : dy) : dy := if dleb a b then b else a.

(* ------------------------------------------------------------------ Q-level meaning *)

(* exact rational value of  sum_j a_ij * u_j  for the dyadic images *)
Fixpoint Qrow_dot (r : srow) (u : vec) : Q :=
  match r with
  | [] => 0
  | (j, a) :: r' => D2Q a * D2Q (vget u j) + Qrow_dot r' u
  end.

(* residual of the solver contract in row i:  u_i - factor * (A u)_i - rhs_i  *)
Definition Qresid (A : smat) (factor : dy) (rhs u : vec) (i : nat) : Q :=
  D2Q (vget u i) - D2Q factor * Qrow_dot (nth i A []) u - D2Q (vget rhs i).

(* THE CONTRACT as a relation: every row i whose mask bit is true (an ordinary degree of
   freedom; false = boundary / constraint row, certified separately by [lin_holds]) has a
   residual of at most tol. *)
Definition contract_holds (A : smat) (factor : dy) (rhs u : vec) (mask : list bool) (tol : Q) : Prop :=
  length u = length A /\ length rhs = length A /\ length mask = length A /\
  forall i, (i < length A)%nat -> nth i mask false = true ->
    (Qabs (Qresid A factor rhs u i) <= tol)%Q.

(* general linear rows  G u = b  (constraint rows, boundary rows, systems with mass matrix) *)
Definition lin_holds (G : smat) (b u : vec) (tol : Q) : Prop :=
  length b = length G /\
  forall i, (i < length G)%nat ->
    (Qabs (Qrow_dot (nth i G []) u - D2Q (vget b i)) <= tol)%Q.

(* ------------------------------------------------------------------ checkers *)

Fixpoint all_le_masked (l : list dy) (mask : list bool) (tol : dy) : bool :=
  match l, mask with
  | [], [] => true
  | x :: l', m :: mask' => (negb m || dleb (dabs x) tol) && all_le_masked l' mask' tol
  | _, _ => false
  end.

Fixpoint all_le (l : list dy) (tol : dy) : bool :=
  match l with
  | [] => true
  | x :: l' => dleb (dabs x) tol && all_le l' tol
  end.

(* residuals  u_i - factor*(A u)_i - rhs_i  row by row *)
Fixpoint solve_resid (factor : dy) (uall : vec) (A : smat) (us rhs : vec) : list dy :=
  match A, us, rhs with
  | r :: A', ui :: us', bi :: rhs' =>
      dsub (dsub ui (dmul factor (row_dot r uall))) bi :: solve_resid factor uall A' us' rhs'
  | _, _, _ => []
  end.

(* magnitudes  |u_i| + |rhs_i| + |factor| * sum_j |a_ij||u_j|  row by row *)
Fixpoint solve_scales (factor : dy) (uall : vec) (A : smat) (us rhs : vec) : list dy :=
  match A, us, rhs with
  | r :: A', ui :: us', bi :: rhs' =>
      dadd (dadd (dabs ui) (dabs bi)) (dmul (dabs factor) (row_absdot r uall))
        :: solve_scales factor uall A' us' rhs'
  | _, _, _ => []
  end.

Definition dmaxl (l : list dy) : dy := fold_right dmax d0 l.

(* tolerance used by the certificate:  atol + rtol * max_i scale_i  (norm-wise backward error
   of a stable solve: c * eps * (1 + |factor| |A|) |u|) *)
Definition cert_tol (A : smat) (factor : dy) (rhs u : vec) (atol rtol : dy) : dy :=
  dadd atol (dmul rtol (dmaxl (solve_scales factor u A u rhs))).

Definition check_solve_cert (A : smat) (factor : dy) (rhs u : vec) (mask : list bool)
           (atol rtol : dy) : bool :=
  Nat.eqb (length u) (length A) && Nat.eqb (length rhs) (length A) &&
  Nat.eqb (length mask) (length A) &&
  all_le_masked (solve_resid factor u A u rhs) mask (cert_tol A factor rhs u atol rtol).

(* diagnostics: largest |residual| over unmasked rows and the tolerance, as dyadics *)
Fixpoint max_abs_masked (l : list dy) (mask : list bool) : dy :=
  match l, mask with
  | x :: l', m :: mask' => if m then dmax (dabs x) (max_abs_masked l' mask') else max_abs_masked l' mask'
  | _, _ => d0
  end.

Definition solve_cert_worst (A : smat) (factor : dy) (rhs u : vec) (mask : list bool) : dy :=
  max_abs_masked (solve_resid factor u A u rhs) mask.

(* general linear rows *)
Fixpoint lin_resid (uall : vec) (G : smat) (b : vec) : list dy :=
  match G, b with
  | r :: G', bi :: b' => dsub (row_dot r uall) bi :: lin_resid uall G' b'
  | _, _ => []
  end.

Fixpoint lin_scales (uall : vec) (G : smat) (b : vec) : list dy :=
  match G, b with
  | r :: G', bi :: b' => dadd (dabs bi) (row_absdot r uall) :: lin_scales uall G' b'
  | _, _ => []
  end.

Definition lin_tol (G : smat) (b u : vec) (atol rtol : dy) : dy :=
  dadd atol (dmul rtol (dmaxl (lin_scales u G b))).

Definition check_lin_cert (G : smat) (b u : vec) (atol rtol : dy) : bool :=
  Nat.eqb (length b) (length G) && all_le (lin_resid u G b) (lin_tol G b u atol rtol).

Definition lin_cert_worst (G : smat) (b u : vec) : dy :=
  fold_right (fun x acc => dmax (dabs x) acc) d0 (lin_resid u G b).

(* operator application certificate:  f = A u  (ties eval_f's implicit part to the exported operator) *)
Definition check_apply_cert (A : smat) (u f : vec) (atol rtol : dy) : bool :=
  check_lin_cert A f u atol rtol.

(* vector-only residual certificate against the implementation's own f values:
   |u_i - factor * f_i - rhs_i| <= tol  on unmasked rows (nonlinear classes) *)
Fixpoint vec_resid (factor : dy) (us fs rhs : vec) : list dy :=
  match us, fs, rhs with
  | ui :: us', fi :: fs', bi :: rhs' => dsub (dsub ui (dmul factor fi)) bi :: vec_resid factor us' fs' rhs'
  | _, _, _ => []
  end.

Definition check_resid_cert (factor : dy) (rhs u f : vec) (mask : list bool) (tol : dy) : bool :=
  Nat.eqb (length f) (length u) && Nat.eqb (length rhs) (length u) && Nat.eqb (length mask) (length u) &&
  all_le_masked (vec_resid factor u f rhs) mask tol.

Definition resid_cert_worst (factor : dy) (rhs u f : vec) (mask : list bool) : dy :=
  max_abs_masked (vec_resid factor u f rhs) mask.

(* split certificate:  f_impl + f_expl = f_full  entrywise within tol (sum of several pieces) *)
Fixpoint vadd (a b : vec) : vec :=
  match a, b with
  | x :: a', y :: b' => dadd x y :: vadd a' b'
  | _, _ => []
  end.

Fixpoint vsub (a b : vec) : vec :=
  match a, b with
  | x :: a', y :: b' => dsub x y :: vsub a' b'
  | _, _ => []
  end.

Definition check_split_cert (f1 f2 ffull : vec) (tol : dy) : bool :=
  Nat.eqb (length f1) (length ffull) && Nat.eqb (length f2) (length ffull) &&
  all_le (vsub (vadd f1 f2) ffull) tol.

Definition split_cert_worst (f1 f2 ffull : vec) : dy :=
  fold_right (fun x acc => dmax (dabs x) acc) d0 (vsub (vadd f1 f2) ffull).

(* ------------------------------------------------------------------ dense systems, inverse certificate *)

Definition dmat := list (list dy).

Fixpoint ddot (r u : list dy) : dy :=
  match r, u with
  | a :: r', x :: u' => dadd (dmul a x) (ddot r' u')
  | _, _ => d0
  end.

Fixpoint dabs_sum (r : list dy) : dy :=
  match r with [] => d0 | a :: r' => dadd (dabs a) (dabs_sum r') end.

(* s + c * r  (lengths are checked by the validator) *)
Fixpoint vaxpy (c : dy) (r s : list dy) : list dy :=
  match r, s with
  | a :: r', x :: s' => dadd (dmul c a) x :: vaxpy c r' s'
  | _, _ => []
  end.

Definition dzeros (n : nat) : list dy := repeat d0 n.

(* row vector times matrix:  sum_j b_j * row_j(G)  *)
Fixpoint vec_mat (n : nat) (b : list dy) (G : dmat) : list dy :=
  match b, G with
  | bj :: b', r :: G' => vaxpy bj r (vec_mat n b' G')
  | _, _ => dzeros n
  end.

(* c - e_i *)
Fixpoint sub_unit (c : list dy) (i : nat) : list dy :=
  match c, i with
  | [], _ => []
  | x :: c', O => dsub x d1 :: c'
  | x :: c', S i' => x :: sub_unit c' i'
  end.

Definition rows_have_length (n : nat) (G : dmat) : bool := forallb (fun r => Nat.eqb (length r) n) G.

(* row i of B:  sum_k |(B G)_ik - delta_ik| <= delta   and   sum_j |B_ij| <= beta *)
Definition inverse_row_ok (n : nat) (G : dmat) (delta beta : dy) (i : nat) (b : list dy) : bool :=
  dleb (dabs_sum (sub_unit (vec_mat n b G) i)) delta && dleb (dabs_sum b) beta.

Fixpoint inverse_rows_ok (n : nat) (G : dmat) (delta beta : dy) (i : nat) (B : dmat) : bool :=
  match B with
  | [] => true
  | b :: B' => inverse_row_ok n G delta beta i b && inverse_rows_ok n G delta beta (S i) B'
  end.

(* B is an approximate left inverse of G:  ||B G - I||_inf <= delta < 1,  ||B||_inf <= beta *)
Definition check_inverse_cert (G B : dmat) (delta beta : dy) : bool :=
  let n := length G in
  Nat.eqb (length B) n && rows_have_length n G && rows_have_length n B &&
  dltb delta d1 && dleb d0 delta && dleb d0 beta &&
  inverse_rows_ok n G delta beta 0 B.

(* dense residual certificate  |G u - b|_i <= tol  for all rows *)
Fixpoint dense_resid (uall : list dy) (G : dmat) (b : list dy) : list dy :=
  match G, b with
  | r :: G', bi :: b' => dsub (ddot r uall) bi :: dense_resid uall G' b'
  | _, _ => []
  end.

Definition check_dense_cert (G : dmat) (b u : list dy) (tol : dy) : bool :=
  Nat.eqb (length b) (length G) && Nat.eqb (length u) (length G) &&
  rows_have_length (length G) G && dleb d0 tol && all_le (dense_resid u G b) tol.

(* dense image of  I - factor * A  for a sparse A with n rows (columns >= n are dropped, the
   validator [cols_below] rejects such matrices) *)
Fixpoint dense_row_of (n : nat) (r : srow) : list dy :=
  match r with
  | [] => dzeros n
  | (j, a) :: r' =>
      let rest := dense_row_of n r' in
      firstn j rest ++ match skipn j rest with [] => [] | x :: tl => dadd a x :: tl end
  end.

Definition cols_below (n : nat) (A : smat) : bool :=
  forallb (fun r => forallb (fun '(j, _) => Nat.ltb j n) r) A.

Fixpoint densify_rows (n : nat) (factor : dy) (i : nat) (A : smat) : dmat :=
  match A with
  | [] => []
  | r :: A' =>
      (* e_i - factor * row *)
      vaxpy (dopp factor) (dense_row_of n r)
            (map dopp (sub_unit (dzeros n) i))
        :: densify_rows n factor (S i) A'
  end.

Definition densify (factor : dy) (A : smat) : dmat := densify_rows (length A) factor 0 A.

(* dyadic max-norm of u - v *)
Definition vdist (u v : list dy) : dy := fold_right (fun x acc => dmax (dabs x) acc) d0 (vsub u v).
