(* C04 — order of SDC iterations and of Runge-Kutta sweepers on the Dahlquist equation.
   Two layers, no proofs here (see Proofs/OrderProofs.v):
   (1) the mathematical layer over Q: vectors/matrices as functions, finite sums, the stage system
       Y = 1 + z A Y, the formal Taylor coefficients of the stability function, the formal power
       series of k preconditioned SDC sweeps, the bivariate IMEX coefficient table;
   (2) the executable layer over exact dyadics: the same coefficient computations on tables
       regenerated from the live sweeper classes, and the validators check_order / check_embedded /
       check_order_imex / check_embedded_imex. *)
From Coq Require Import ZArith QArith List Bool Lia.
From PySDC Require Import Base.Dyadic Base.DyadicFast.
Import ListNotations.

(* ================= (1) mathematical layer ===================================================== *)
Open Scope Q_scope.

Definition vec := nat -> Q.
Definition mat := nat -> nat -> Q.

Fixpoint bigsum (n : nat) (f : nat -> Q) : Q :=
  match n with O => 0 | S n' => bigsum n' f + f n' end.

Definition mv (n : nat) (A : mat) (x : vec) : vec := fun i => bigsum n (fun j => A i j * x j).
Definition vdot (n : nat) (b x : vec) : Q := bigsum n (fun j => b j * x j).
Fixpoint mpow (n : nat) (A : mat) (k : nat) (x : vec) : vec :=
  match k with O => x | S k' => mv n A (mpow n A k' x) end.
Definition ones : vec := fun _ => 1.
Definition vzero : vec := fun _ => 0.
Definition msub (A B : mat) : mat := fun i j => A i j - B i j.
Definition madd (A B : mat) : mat := fun i j => A i j + B i j.
Definition mscal (c : Q) (A : mat) : mat := fun i j => c * A i j.

Fixpoint zpow (z : Q) (k : nat) : Q := match k with O => 1 | S k' => z * zpow z k' end.

(* Taylor coefficient j of  R(z) = 1 + z b^T (I - z A)^{-1} 1  (formal power series) *)
Definition stab_coef (n : nat) (A : mat) (b : vec) (j : nat) : Q :=
  match j with O => 1 | S j' => vdot n b (mpow n A j' ones) end.
(* ... and of the last stage  Y_{n-1}  (stiffly accurate methods, SDC without collocation update) *)
Definition stage_coef (n : nat) (A : mat) (i j : nat) : Q := mpow n A j ones i.

(* formal power series (in z) of the k-th SDC iterate on the Dahlquist equation from the spread
   initial guess:  (I - z QD_k) U^{k+1} = 1 + z (Q - QD_k) U^k,  U^0 = 1.
   Tser k m  = coefficient of z^m of U^k  (QD may depend on the sweep number) *)
Fixpoint Tser (n : nat) (Qm : mat) (QD : nat -> mat) (k : nat) : nat -> vec :=
  match k with
  | O => fun m => match m with O => ones | S _ => vzero end
  | S k' =>
      fix F (m : nat) : vec :=
        match m with
        | O => ones
        | S m' => fun i => mv n (QD k') (F m') i + mv n (msub Qm (QD k')) (Tser n Qm QD k' m') i
        end
  end.

(* Taylor coefficients of uend/u0 after k sweeps: collocation update / last node *)
Definition sdc_coef_upd (n : nat) (Qm : mat) (QD : nat -> mat) (w : vec) (k j : nat) : Q :=
  match j with O => 1 | S j' => vdot n w (Tser n Qm QD k j') end.
Definition sdc_coef_last (n : nat) (Qm : mat) (QD : nat -> mat) (k j : nat) : Q :=
  Tser n Qm QD k j (n - 1)%nat.

(* IMEX: stages Y = 1 + zI AI Y + zE AE Y.  V a b = sum over all words with a letters I and b letters E
   of the corresponding matrix product applied to 1 *)
Fixpoint Vtab (n : nat) (AI AE : mat) (a : nat) : nat -> vec :=
  match a with
  | O => fix G (b : nat) : vec := match b with O => ones | S b' => mv n AE (G b') end
  | S a' =>
      fix G (b : nat) : vec :=
        match b with
        | O => mv n AI (Vtab n AI AE a' O)
        | S b' => fun i => mv n AI (Vtab n AI AE a' (S b')) i + mv n AE (G b') i
        end
  end.

(* coefficient of zI^a zE^b of  R = 1 + (zI bI + zE bE)^T Y *)
Definition imex_coef (n : nat) (AI AE : mat) (bI bE : vec) (a b : nat) : Q :=
  match a, b with
  | O, O => 1
  | S a', O => vdot n bI (Vtab n AI AE a' O)
  | O, S b' => vdot n bE (Vtab n AI AE O b')
  | S a', S b' => vdot n bI (Vtab n AI AE a' (S b')) + vdot n bE (Vtab n AI AE (S a') b')
  end.

Fixpoint qfact (n : nat) : Q := match n with O => 1 | S n' => inject_Z (Z.of_nat n) * qfact n' end.

(* ================= (2) executable layer over dyadics ========================================== *)
Open Scope Z_scope.

Fixpoint ddot (r x : list dy) : dy :=
  match r, x with a :: r', b :: x' => fadd (dmul a b) (ddot r' x') | _, _ => d0 end.
Definition dmv (A : list (list dy)) (x : list dy) : list dy := map (fun r => ddot r x) A.
Fixpoint dvadd (x y : list dy) : list dy :=
  match x, y with a :: x', b :: y' => fadd a b :: dvadd x' y' | _, _ => [] end.
Definition dmsub (A B : list (list dy)) : list (list dy) :=
  map (fun p => map (fun q => fsub (fst q) (snd q)) (combine (fst p) (snd p))) (combine A B).
Definition dones (n : nat) : list dy := repeat d1 n.

(* [1; A 1; A^2 1; ...] (p vectors) *)
Fixpoint dpowers (A : list (list dy)) (x : list dy) (p : nat) : list (list dy) :=
  match p with O => [] | S p' => x :: dpowers A (dmv A x) p' end.

(* coefficients 1..p of the stability function: b . A^(j-1) 1 *)
Definition dstab_coefs (A : list (list dy)) (b : list dy) (p : nat) : list dy :=
  map (ddot b) (dpowers A (dones (length A)) p).

Fixpoint zfact (n : nat) : Z := match n with O => 1 | S n' => Z.of_nat n * zfact n' end.

(* | j! c - 1 | <= j! tol *)
Definition coef_ok (tol : dy) (j : nat) (c : dy) : bool :=
  let f := dZ (zfact j) in fleb (dabs (fsub (dmul f c) d1)) (dmul f tol).

Fixpoint coefs_ok_from (tol : dy) (j : nat) (cs : list dy) : bool :=
  match cs with [] => true | c :: cs' => coef_ok tol j c && coefs_ok_from tol (S j) cs' end.

Definition square (n : nat) (A : list (list dy)) : bool :=
  Nat.eqb (length A) n && forallb (fun r => Nat.eqb (length r) n) A.

(* order validator: Taylor coefficients 1..p of 1 + z b (I - zA)^-1 1 agree with 1/j! within tol *)
Definition check_order (A : list (list dy)) (b : list dy) (p : nat) (tol : dy) : bool :=
  square (length A) A && Nat.eqb (length b) (length A) &&
  coefs_ok_from tol 1 (dstab_coefs A b p).

(* general linear-functional series:  | t_j * (b . A^j g) - 1 | <= t_j tol  for the given positive integers t_j
   (used for Runge-Kutta-Nystrom tableaux, where the targets are 1/(2j+s)!) *)
Fixpoint series_ok (tol : dy) (cs : list dy) (ts : list Z) : bool :=
  match cs, ts with
  | c :: cs', t :: ts' =>
      (0 <? t) && fleb (dabs (fsub (dmul (dZ t) c) d1)) (dmul (dZ t) tol) && series_ok tol cs' ts'
  | _, [] => true
  | [], _ :: _ => false
  end.
Definition check_series (A : list (list dy)) (b g : list dy) (ts : list Z) (tol : dy) : bool :=
  square (length A) A && Nat.eqb (length b) (length A) && Nat.eqb (length g) (length A) &&
  series_ok tol (map (ddot b) (dpowers A g (length ts))) ts.

(* embedded pair: (b1 - b2) . A^(j-1) 1 = 0 (within tol) for j = 1 .. q-1, so that
   uend - u_secondary = O(z^q) with q = get_update_order() *)
Definition check_embedded (A : list (list dy)) (b1 b2 : list dy) (q : nat) (tol : dy) : bool :=
  square (length A) A && Nat.eqb (length b1) (length A) && Nat.eqb (length b2) (length A) &&
  forallb (fun v => fleb (dabs (fsub (ddot b1 v) (ddot b2 v))) tol) (dpowers A (dones (length A)) (q - 1)).

(* ---- SDC series on tables: rows k = 0..K of columns m = 0..N-1 (vectors) ---- *)
(* next row from the previous one: F 0 = 1, F (m+1) = QD (F m) + (Q - QD) (prev m) *)
Fixpoint dser_row (QD QmD : list (list dy)) (prev : list (list dy)) (cur : list dy) : list (list dy) :=
  match prev with
  | [] => []
  | pm :: prev' => cur :: dser_row QD QmD prev' (dvadd (dmv QD cur) (dmv QmD pm))
  end.
Definition dser_row0 (n N : nat) : list (list dy) :=
  match N with O => [] | S N' => dones n :: repeat (repeat d0 n) N' end.
(* QDs : the preconditioner of sweep 1, 2, ... (one entry per sweep) *)
Fixpoint dser (Qm : list (list dy)) (QDs : list (list (list dy))) (row : list (list dy)) : list (list (list dy)) :=
  match QDs with
  | [] => [row]
  | QD :: rest => row :: dser Qm rest (dser_row QD (dmsub Qm QD) row (dones (length Qm)))
  end.
(* coefficient lists of uend/u0 for k = 0 .. length QDs, j = 0 .. N-1 *)
Definition dsdc_coefs_upd (Qm : list (list dy)) (QDs : list (list (list dy))) (w : list dy) (N : nat) : list (list dy) :=
  map (fun row => d1 :: map (ddot w) (removelast row)) (dser Qm QDs (dser_row0 (length Qm) N)).
Definition dsdc_coefs_last (Qm : list (list dy)) (QDs : list (list (list dy))) (N : nat) : list (list dy) :=
  map (fun row => map (fun v => last v d0) row) (dser Qm QDs (dser_row0 (length Qm) N)).

(* ---- IMEX bivariate table, same recursion as [Vtab] (orders are <= 5, so no memoisation needed) ---- *)
Fixpoint dVt (AI AE : list (list dy)) (n : nat) (a : nat) : nat -> list dy :=
  match a with
  | O => fix G (b : nat) : list dy := match b with O => dones n | S b' => dmv AE (G b') end
  | S a' =>
      fix G (b : nat) : list dy :=
        match b with
        | O => dmv AI (dVt AI AE n a' O)
        | S b' => dvadd (dmv AI (dVt AI AE n a' (S b'))) (dmv AE (G b'))
        end
  end.

Definition dimex_coef (AI AE : list (list dy)) (bI bE : list dy) (a b : nat) : dy :=
  let n := length AI in
  match a, b with
  | O, O => d1
  | S a', O => ddot bI (dVt AI AE n a' O)
  | O, S b' => ddot bE (dVt AI AE n O b')
  | S a', S b' => fadd (ddot bI (dVt AI AE n a' (S b'))) (ddot bE (dVt AI AE n (S a') b'))
  end.

(* all (a, b) with a + b <= p *)
Definition pairs_upto (p : nat) : list (nat * nat) :=
  flat_map (fun a => map (fun b => (a, b)) (seq 0 (S p - a))) (seq 0 (S p)).

(* | a! b! c_ab - 1 | <= a! b! tol  for all 0 <= a + b <= p *)
Definition check_order_imex (AI AE : list (list dy)) (bI bE : list dy) (p : nat) (tol : dy) : bool :=
  let n := length AI in
  square n AI && square n AE && Nat.eqb (length bI) n && Nat.eqb (length bE) n &&
  forallb (fun ab => let f := dZ (zfact (fst ab) * zfact (snd ab)) in
                     fleb (dabs (fsub (dmul f (dimex_coef AI AE bI bE (fst ab) (snd ab))) d1)) (dmul f tol))
          (pairs_upto p).

(* embedded IMEX pair: coefficients of uend - u_secondary vanish for 0 <= a + b < q *)
Definition check_embedded_imex (AI AE : list (list dy)) (bI1 bE1 bI2 bE2 : list dy) (q : nat) (tol : dy) : bool :=
  let n := length AI in
  square n AI && square n AE && Nat.eqb (length bI1) n && Nat.eqb (length bE1) n
  && Nat.eqb (length bI2) n && Nat.eqb (length bE2) n &&
  forallb (fun ab => fleb (dabs (fsub (dimex_coef AI AE bI1 bE1 (fst ab) (snd ab)) (dimex_coef AI AE bI2 bE2 (fst ab) (snd ab)))) tol)
          (pairs_upto (q - 1)).
