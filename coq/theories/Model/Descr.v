(* C20 — interpretation of a description and rejection of invalid setups: executable model.
   Mirrors (pinned tree)
     pySDC/core/step.py            Step.__dict_to_list, Step.__generate_hierarchy
     pySDC/core/level.py           _Pars (defaults, dt_initial), Level.__init__ (sweeper first, problem second)
     pySDC/core/sweeper.py         Sweeper.__init__ checks, _Pars, predict / compute_residual name checks
     pySDC/implementations/sweeper_classes/generic_implicit.py  (QI default, get_Qdelta_implicit lookup)
     pySDC/core/collocation.py     CollBase.__init__ checks
     pySDC/implementations/controller_classes/controller_nonMPI.py  __init__ checks, predict()
     pySDC/core/controller.py      add_convergence_controller / setup_convergence_controllers
     pySDC/core/convergence_controller.py  setup() (user parameters override)
     pySDC/helpers/pysdc_helper.py FrozenClass.__setattr__/add_attr
     pySDC/core/common.py          RegisterParams.__setattr__
   No proofs here (Proofs/DescrProofs.v). *)
From Coq Require Import String List ZArith Bool Arith Lia.
Import ListNotations.
Open Scope string_scope.

(* ------------------------------------------------------------------ values *)

(* Python values as far as the anchored code looks at them.  AFlt m e is the float m*2^e;
   AObj n is any other object (class, array, tuple, ...) identified by a registry index kept by
   the harness.  Reserved indices: see oBaseTransfer, oEmptyTuple, oCollBase. *)
Inductive atom := AInt (z : Z) | AFlt (m e : Z) | AStr (s : string) | ABool (b : bool) | ANone | AObj (n : nat).

Definition oBaseTransfer := AObj 0.
Definition oEmptyTuple := AObj 1.
Definition oCollBase := AObj 2.

Definition atom_eqb (a b : atom) : bool :=
  match a, b with
  | AInt x, AInt y => Z.eqb x y
  | AFlt m e, AFlt m' e' => Z.eqb m m' && Z.eqb e e'
  | AStr s, AStr t => String.eqb s t
  | ABool x, ABool y => Bool.eqb x y
  | ANone, ANone => true
  | AObj n, AObj m => Nat.eqb n m
  | _, _ => false
  end.

(* a description entry is either a bare value or a Python list (type(v) is list); tuples and
   arrays are bare values *)
Inductive pv (V : Type) := Scalar (v : V) | PList (vs : list V).
Arguments Scalar {V} v.
Arguments PList {V} vs.

(* Python dict with string keys: association list, keys pairwise distinct, insertion ordered *)
Definition dict (V : Type) := list (string * V).

Fixpoint lookup {V} (k : string) (d : dict V) : option V :=
  match d with
  | [] => None
  | (k', v) :: r => if String.eqb k k' then Some v else lookup k r
  end.

Definition has {V} (k : string) (d : dict V) : bool := match lookup k d with Some _ => true | None => false end.
Definition lookup_or {V} (k : string) (d : dict V) (dflt : V) : V := match lookup k d with Some v => v | None => dflt end.

(* d[k] = v *)
Fixpoint dset {V} (k : string) (v : V) (d : dict V) : dict V :=
  match d with
  | [] => [(k, v)]
  | (k', v') :: r => if String.eqb k k' then (k, v) :: r else (k', v') :: dset k v r
  end.

(* {**d1, **d2}; also the loop  for k, v in d2.items(): setattr(obj, k, v)  on an object whose
   attributes are d1 *)
Definition dupdate {V} (d1 d2 : dict V) : dict V := fold_left (fun d kv => dset (fst kv) (snd kv) d) d2 d1.

Fixpoint dremove {V} (k : string) (d : dict V) : dict V :=
  match d with
  | [] => []
  | (k', v) :: r => if String.eqb k k' then dremove k r else (k', v) :: dremove k r
  end.

Definition keys {V} (d : dict V) : list string := map fst d.
Definition mem_str (s : string) (l : list string) : bool := existsb (String.eqb s) l.

(* ------------------------------------------------------------------ Step.__dict_to_list *)

Section DictToList.
  Context {V : Type}.

  (* max_val = 1; for v in values: if type(v) is list: max_val = max(max_val, len(v)) *)
  Definition max_val (d : dict (pv V)) : nat :=
    fold_left (fun m kv => match snd kv with PList vs => Nat.max m (length vs) | Scalar _ => m end) d 1.

  (* v if not a list else v[min(l, len(v) - 1)];  for an empty list the index is -1 -> IndexError
     (nat subtraction gives index 0, which nth_error rejects on [] just the same) *)
  Definition sel (l : nat) (p : pv V) : option V :=
    match p with
    | Scalar v => Some v
    | PList vs => nth_error vs (Nat.min l (length vs - 1))
    end.

  Fixpoint row (l : nat) (d : dict (pv V)) : option (dict V) :=
    match d with
    | [] => Some []
    | (k, p) :: r =>
        match sel l p, row l r with
        | Some v, Some r' => Some ((k, v) :: r')
        | _, _ => None
        end
    end.

  Fixpoint all_some {A} (l : list (option A)) : option (list A) :=
    match l with
    | [] => Some []
    | None :: _ => None
    | Some x :: r => match all_some r with Some r' => Some (x :: r') | None => None end
    end.

  (* None = IndexError (some list-valued entry is empty) *)
  Definition dict_to_list (d : dict (pv V)) : option (list (dict V)) :=
    all_some (map (fun l => row l d) (seq 0 (max_val d))).
End DictToList.

(* ------------------------------------------------------------------ errors *)

Inductive exn := ParameterError | ControllerError | CollocationError | TransferError | KeyError | TypeError
               | IndexError | AssertionError | NotImplementedError | ReadOnlyError.

(* which check fired (diagnostics; the exception class is what is compared with the code) *)
Inductive reason :=
  | RPredictFlag | RLoggerLevel | RDeprecated (k : string) | RMissing (k : string) | REmptyList (k : string)
  | RNoSpaceTransfer | RNumNodesMissing (lvl : nat) | RNumNodes (lvl : nat) | RNumNodesType (lvl : nat) | RQuadType (lvl : nat) | RNodeType (lvl : nat)
  | RQI (lvl : nat) | RProblemKey (lvl : nat) (k : string) | RProblemClass (lvl : nat) | RTransferOrder (lvl : nat)
  | RStepParamsDump | RPfasstRightNode | RCoarseSweeps
  | RDtNone | RInitialGuess | RPredictType | RPredictFmg | RResidualType (lvl : nat) | RMaxiterNone.

Definition err := (exn * reason)%type.

Inductive phase := Construct | FirstUse.

(* the exception class and the phase that belong to each kind of detected fault *)
Definition exn_of_reason (r : reason) : exn :=
  match r with
  | RPredictFlag | RPfasstRightNode | RCoarseSweeps | RPredictType => ControllerError
  | RLoggerLevel => AssertionError
  | RDeprecated _ | RMissing _ | RNoSpaceTransfer | RNumNodesMissing _ | RInitialGuess | RResidualType _ => ParameterError
  | REmptyList _ => IndexError
  | RNumNodes _ | RQuadType _ | RNodeType _ => CollocationError
  | RQI _ | RStepParamsDump => KeyError
  | RNumNodesType _ | RProblemKey _ _ | RProblemClass _ | RDtNone | RMaxiterNone => TypeError
  | RTransferOrder _ => TransferError
  | RPredictFmg => NotImplementedError
  end.

Definition phase_of_reason (r : reason) : phase :=
  match r with
  | RDtNone | RInitialGuess | RPredictType | RPredictFmg | RResidualType _ | RMaxiterNone => FirstUse
  | _ => Construct
  end.

(* ------------------------------------------------------------------ description *)

(* value of an entry of the description: a bare value / list, or a dict (of bare values / lists) *)
Inductive dval := DV (p : pv atom) | DD (d : dict (pv atom)).
Definition descr := dict dval.

(* value of an entry of one element of descr_list *)
Inductive oval := OA (a : atom) | OD (d : dict atom) | ODP (d : dict (pv atom)).

(* contracts of the libraries / classes that are plugged in (regenerated from the live tree by the harness) *)
Record env := {
  e_quad : list string;          (* qmat quadrature types *)
  e_node : list string;          (* qmat node types *)
  e_QI : list string;            (* keys of qmat.qdelta.QDELTA_GENERATORS *)
  e_pkeys : list (nat * list string)   (* problem class (registry index) -> keyword arguments of its __init__ *)
}.

Definition get_dd (k : string) (d : descr) : dict (pv atom) :=
  match lookup k d with Some (DD x) => x | _ => [] end.

(* Python truthiness of description entries, as used by `not descr_new['space_transfer_class']` *)
Definition truthy_atom (a : atom) : bool :=
  match a with
  | AInt z => negb (Z.eqb z 0) | AFlt m _ => negb (Z.eqb m 0) | AStr s => negb (String.eqb s "")
  | ABool b => b | ANone => false | AObj _ => true
  end.
Definition truthy_dval (v : dval) : bool :=
  match v with
  | DV (Scalar a) => truthy_atom a
  | DV (PList vs) => match vs with [] => false | _ => true end
  | DD d => match d with [] => false | _ => true end
  end.

Definition essential_keys := ["problem_class"; "sweeper_class"; "sweeper_params"; "level_params"].
Definition converted_keys := ["problem_params"; "level_params"; "sweeper_params"].

(* descr[k] = descr.get(k, default) *)
Definition set_default (k : string) (v : dval) (d : descr) : descr := if has k d then d else dset k v d.

Definition with_defaults (d : descr) : descr :=
  set_default "space_transfer_params" (DD [])
    (set_default "space_transfer_class" (DD [])
      (set_default "base_transfer_params" (DD [])
        (set_default "base_transfer_class" (DV (Scalar oBaseTransfer))
          (set_default "problem_params" (DD []) d)))).

Definition first_err (l : list (option err)) : option err :=
  fold_right (fun c acc => match c with Some e => Some e | None => acc end) None l.

Definition check_deprecated (d : descr) : option err :=
  first_err (map (fun k => if has k d then Some (ParameterError, RDeprecated k) else None) ["dtype_u"; "dtype_f"]).

Definition check_essential (d : descr) : option err :=
  first_err (map (fun k => if has k d then None else Some (ParameterError, RMissing k)) essential_keys).

(* outer dictionary descr_new: the three parameter dicts replaced by their per-level lists *)
Definition outer_entry (pl ll sl : list (dict atom)) (kv : string * dval) : string * pv oval :=
  let k := fst kv in
  (k,
   if String.eqb k "problem_params" then PList (map OD pl)
   else if String.eqb k "level_params" then PList (map OD ll)
   else if String.eqb k "sweeper_params" then PList (map OD sl)
   else match snd kv with
        | DV (Scalar a) => Scalar (OA a)
        | DV (PList vs) => PList (map OA vs)
        | DD x => Scalar (ODP x)
        end).

Definition or_err {A} (o : option A) (e : err) : err + A := match o with Some x => inr x | None => inl e end.

(* Step.__generate_hierarchy up to (not including) the instantiation of the levels *)
Definition gen_hier (d0 : descr) : err + list (dict oval) :=
  match check_deprecated d0 with Some e => inl e | None =>
  match check_essential d0 with Some e => inl e | None =>
  let d := with_defaults d0 in
  match dict_to_list (get_dd "problem_params" d) with None => inl (IndexError, REmptyList "problem_params") | Some pl =>
  match dict_to_list (get_dd "level_params" d) with None => inl (IndexError, REmptyList "level_params") | Some ll =>
  match dict_to_list (get_dd "sweeper_params" d) with None => inl (IndexError, REmptyList "sweeper_params") | Some sl =>
  match dict_to_list (map (outer_entry pl ll sl) d) with None => inl (IndexError, REmptyList "description") | Some dl =>
  if (1 <? length dl)%nat && negb (truthy_dval (lookup_or "space_transfer_class" d (DD [])))
  then inl (ParameterError, RNoSpaceTransfer)
  else inr dl
  end end end end end end.

(* ------------------------------------------------------------------ levels *)

Record level_inst := {
  lv_pcls : atom;                (* problem class *)
  lv_scls : atom;                (* sweeper class *)
  lv_lp : dict atom;             (* vars(level.params) *)
  lv_sp : dict atom;             (* vars(level.sweep.params) *)
  lv_pp : dict atom;             (* keyword arguments the problem was instantiated with *)
  lv_right_is_node : bool
}.

Definition oval_atom (o : option oval) : atom := match o with Some (OA a) => a | _ => ANone end.
Definition oval_dict (o : option oval) : dict atom := match o with Some (OD d) => d | _ => [] end.
Definition oval_pdict (o : option oval) : dict (pv atom) := match o with Some (ODP d) => d | _ => [] end.

(* level._Pars *)
Definition level_defaults : dict atom :=
  [("dt", ANone); ("dt_initial", ANone); ("restol", AFlt (-1) 0); ("nsweeps", AInt 1); ("residual_type", AStr "full_abs")].

(* dt * 1.0 *)
Definition times_one (a : atom) : atom := match a with AInt z => AFlt z 0 | _ => a end.

Definition level_pars (user : dict atom) : dict atom :=
  let p := dupdate level_defaults user in
  dset "dt_initial" (times_one (lookup_or "dt" p ANone)) p.

(* sweeper._Pars *)
Definition sweeper_defaults : dict atom :=
  [("do_coll_update", ABool false); ("initial_guess", AStr "spread"); ("skip_residual_computation", oEmptyTuple)].

Definition in_names (a : atom) (names : list string) : bool :=
  match a with AStr s => mem_str s names | _ => false end.

Definition right_node_types := ["LOBATTO"; "RADAU-RIGHT"].

(* the params dict after generic_implicit.__init__ (QI default) ... *)
Definition sweeper_p0 (user : dict atom) : dict atom :=
  if has "QI" user then user else dset "QI" (AStr "IE") user.

(* ... and after Sweeper.__init__ (collocation_class default; random_seed for the random initial guess) *)
Definition sweeper_dict (user : dict atom) : dict atom :=
  let p0 := sweeper_p0 user in
  let p1 := if has "collocation_class" p0 then p0 else dset "collocation_class" oCollBase p0 in
  if atom_eqb (lookup_or "initial_guess" p1 (AStr "spread")) (AStr "random")
  then dset "random_seed" (lookup_or "random_seed" p1 (AInt 1984)) p1 else p1.

(* generic_implicit.__init__ + Sweeper.__init__ + CollBase.__init__ + get_Qdelta_implicit *)
Definition inst_sweeper (E : env) (l : nat) (user : dict atom) : err + (dict atom * bool) :=
  if negb (has "num_nodes" (sweeper_p0 user)) then inl (ParameterError, RNumNodesMissing l) else
  let p2 := sweeper_dict user in
  let pars := dupdate sweeper_defaults (dremove "collocation_class" p2) in
  match lookup_or "num_nodes" p2 ANone with
  | AInt z =>
      if (z <=? 0)%Z then inl (CollocationError, RNumNodes l) else
      let qt := lookup_or "quad_type" p2 ANone in
      if negb (in_names (lookup_or "node_type" p2 (AStr "LEGENDRE")) (e_node E)) then inl (CollocationError, RNodeType l) else
      if negb (in_names qt (e_quad E)) then inl (CollocationError, RQuadType l) else
      let rnode := in_names qt right_node_types in
      let pars' := if negb rnode && negb (truthy_atom (lookup_or "do_coll_update" pars (ABool false)))
                   then dset "do_coll_update" (ABool true) pars else pars in
      (* self.params.QI: attribute set from the entry params['QI'] (keys of a dict are distinct) *)
      if negb (in_names (lookup_or "QI" p2 ANone) (e_QI E)) then inl (KeyError, RQI l) else
      inr (pars', rnode)
  | _ => inl (TypeError, RNumNodesType l)
  end.

(* problem_class(kwargs = problem_params) *)
Definition inst_problem (E : env) (l : nat) (cls : atom) (pp : dict atom) : option err :=
  match cls with
  | AObj c =>
      match find (fun e => Nat.eqb (fst e) c) (e_pkeys E) with
      | Some (_, allowed) =>
          match find (fun k => negb (mem_str k allowed)) (keys pp) with
          | Some k => Some (TypeError, RProblemKey l k)
          | None => None
          end
      | None => Some (TypeError, RProblemClass l)
      end
  | _ => Some (TypeError, RProblemClass l)
  end.

Definition zodd (a : atom) : bool := match a with AInt z => Z.odd z | _ => false end.

(* connect_levels -> BaseTransfer.__init__ -> mesh_to_mesh.__init__ (its two parameter checks) *)
Definition inst_transfer (l : nat) (dl : dict oval) : option err :=
  let stp := oval_pdict (lookup "space_transfer_params" dl) in
  let get k := match lookup k stp with Some (Scalar a) => a | _ => AInt 2 end in
  if zodd (get "rorder") || zodd (get "iorder") then Some (TransferError, RTransferOrder l) else None.

(* Level.__init__ for level l (sweeper, then problem), then connect_levels when l > 0 *)
Definition inst_level (E : env) (l : nat) (dl : dict oval) : err + level_inst :=
  let lp := level_pars (oval_dict (lookup "level_params" dl)) in
  match inst_sweeper E l (oval_dict (lookup "sweeper_params" dl)) with
  | inl e => inl e
  | inr (sp, rnode) =>
      let pcls := oval_atom (lookup "problem_class" dl) in
      let pp := oval_dict (lookup "problem_params" dl) in
      match inst_problem E l pcls pp with
      | Some e => inl e
      | None =>
          match (if (0 <? l)%nat then inst_transfer l dl else None) with
          | Some e => inl e
          | None => inr {| lv_pcls := pcls; lv_scls := oval_atom (lookup "sweeper_class" dl);
                           lv_lp := lp; lv_sp := sp; lv_pp := pp; lv_right_is_node := rnode |}
          end
      end
  end.

Fixpoint inst_levels (E : env) (l : nat) (dls : list (dict oval)) : err + list level_inst :=
  match dls with
  | [] => inr []
  | dl :: r =>
      match inst_level E l dl with
      | inl e => inl e
      | inr L => match inst_levels E (S l) r with inl e => inl e | inr Ls => inr (L :: Ls) end
      end
  end.

(* ------------------------------------------------------------------ controller_nonMPI.__init__ *)

Definition is_int (a : atom) : bool := match a with AInt _ => true | _ => false end.

(* before Step(description): the predict flag, Controller.__init__ (logger level assertion) *)
Definition pre_checks (cp : dict atom) : option err :=
  if has "predict" cp then Some (ControllerError, RPredictFlag)
  else if negb (is_int (lookup_or "logger_level" cp (AInt 20))) then Some (AssertionError, RLoggerLevel)
  else None.

Definition int_gt1 (a : atom) : bool := match a with AInt z => (1 <? z)%Z | _ => false end.

(* after the steps exist: dump_setup reads description['step_params']; PFASST needs the right
   end point as node on every level; not more than one sweep on the coarsest level *)
Definition post_checks (nprocs : nat) (cp : dict atom) (d : descr) (lvs : list level_inst) : option err :=
  if truthy_atom (lookup_or "dump_setup" cp (ABool true)) && negb (has "step_params" d)
  then Some (KeyError, RStepParamsDump)
  else if (1 <? nprocs)%nat && (1 <? length lvs)%nat && negb (forallb lv_right_is_node lvs)
  then Some (ControllerError, RPfasstRightNode)
  else if (1 <? length lvs)%nat && int_gt1 (lookup_or "nsweeps" (lv_lp (last lvs (Build_level_inst ANone ANone [] [] [] true))) ANone)
  then Some (ControllerError, RCoarseSweeps)
  else None.

(* ------------------------------------------------------------------ first use (one block of run()) *)

Definition initial_guesses := ["spread"; "copy"; "zero"; "random"].
Definition residual_types := ["full_abs"; "last_abs"; "full_rel"; "last_rel"].

Definition is_none (a : atom) : bool := match a with ANone => true | _ => false end.
Definition dt_none (L : level_inst) : bool := is_none (lookup_or "dt" (lv_lp L) ANone).

Definition step_maxiter (d : descr) : atom :=
  match lookup "maxiter" (get_dd "step_params" d) with Some (Scalar a) => a | _ => ANone end.

Fixpoint check_residual_types (l : nat) (lvs : list level_inst) : option err :=
  match lvs with
  | [] => None
  | L :: r => if in_names (lookup_or "residual_type" (lv_lp L) ANone) residual_types
              then check_residual_types (S l) r else Some (ParameterError, RResidualType l)
  end.

(* order of events in the first block: time bookkeeping (dt of the steps), sweeper.predict on the
   finest level (initial guess), controller.predict (multi-level only), residual on the finest
   level, CheckConvergence (maxiter), then the coarser levels' residuals on the way down.
   Assumes dt is given on all levels or on none. *)
Definition first_use (nprocs : nat) (cp : dict atom) (d : descr) (lvs : list level_inst) : option err :=
  match lvs with
  | [] => None
  | L0 :: coarse =>
      let nodt := existsb dt_none lvs in
      let ig := lookup_or "initial_guess" (lv_sp L0) ANone in
      let pt := lookup_or "predict_type" cp ANone in
      if (1 <? nprocs)%nat && nodt then Some (TypeError, RDtNone) else
      if negb (in_names ig initial_guesses) then Some (ParameterError, RInitialGuess) else
      if atom_eqb ig (AStr "spread") && nodt then Some (TypeError, RDtNone) else
      match (match coarse with
             | [] => None
             | _ => if is_none pt then None
                    else if atom_eqb pt (AStr "fine_only") || atom_eqb pt (AStr "pfasst_burnin")
                         then (if nodt then Some (TypeError, RDtNone) else None)
                    else if atom_eqb pt (AStr "fmg") then Some (NotImplementedError, RPredictFmg)
                    else Some (ControllerError, RPredictType)
             end) with
      | Some e => Some e
      | None =>
          if nodt then Some (TypeError, RDtNone) else
          match check_residual_types 0 [L0] with
          | Some e => Some e
          | None =>
              match step_maxiter d with
              | AInt m => if (m <=? 0)%Z then None else check_residual_types 1 coarse
              | _ => Some (TypeError, RMaxiterNone)
              end
          end
      end
  end.

(* ------------------------------------------------------------------ the whole construction *)

Inductive outcome := Built (lvs : list level_inst) | Rejected (ph : phase) (e : exn) (why : reason).

Definition build (E : env) (nprocs : nat) (cp : dict atom) (d : descr) : outcome :=
  match pre_checks cp with Some e => Rejected Construct (fst e) (snd e) | None =>
  match gen_hier d with inl e => Rejected Construct (fst e) (snd e) | inr dls =>
  match inst_levels E 0 dls with inl e => Rejected Construct (fst e) (snd e) | inr lvs =>
  match post_checks nprocs cp d lvs with Some e => Rejected Construct (fst e) (snd e) | None =>
  match first_use nprocs cp d lvs with Some e => Rejected FirstUse (fst e) (snd e) | None =>
  Built lvs
  end end end end end.

(* the number of levels the description denotes, as the property states it: the longest list among
   the list-valued entries of the description and of its three per-level parameter dicts (at least 1) *)
Definition list_lengths {V} (d : dict (pv V)) : list nat :=
  flat_map (fun kv => match snd kv with PList vs => [length vs] | Scalar _ => [] end) d.

Definition outer_list_lengths (d : descr) : list nat :=
  flat_map (fun kv => if mem_str (fst kv) converted_keys then []
                      else match snd kv with DV (PList vs) => [length vs] | _ => [] end) d.

Definition nlevels (d : descr) : nat :=
  fold_right Nat.max 1%nat
    (outer_list_lengths d ++ list_lengths (get_dd "problem_params" d) ++ list_lengths (get_dd "level_params" d)
       ++ list_lengths (get_dd "sweeper_params" d)).

(* ------------------------------------------------------------------ convergence controllers *)

(* A convergence-controller class as far as registration is concerned: identity, the defaults its
   setup() merges under the supplied parameters, and the controllers its dependencies() adds
   (each with the parameters it passes).  Rose tree = unfolding of the dependency calls. *)
Inductive cctree := CC (cid : nat) (defaults : dict atom) (deps : list (dict atom * cctree)).

Record ccinst := { ci_id : nat; ci_params : dict atom }.

Definition user_params (user : list (nat * dict atom)) (c : nat) : dict atom :=
  match find (fun e => Nat.eqb (fst e) c) user with Some (_, p) => p | None => [] end.

Definition cc_pars_defaults : dict atom := [("control_order", AInt 0); ("useMPI", ANone)].

(* Controller.add_convergence_controller(cls, params) with allow_double = False:
     params = {**params, 'useMPI': useMPI}
     if cls not in [type(me) for me in self.convergence_controllers]:
         instance = cls(self, params, description)      # setup(); then dependencies() -> recursive adds
         self.convergence_controllers.append(instance)
   setup() returns {**defaults, **{**params, **description['convergence_controllers'].get(cls, {})}}
   and Pars() puts that over control_order = 0, useMPI = None. *)
Fixpoint cc_add (user : list (nat * dict atom)) (useMPI : atom) (st : list ccinst) (passed : dict atom) (c : cctree) : list ccinst :=
  match c with
  | CC cid defaults deps =>
      if existsb (fun i => Nat.eqb (ci_id i) cid) st then st
      else
        let params := dupdate cc_pars_defaults (dupdate defaults (dupdate (dset "useMPI" useMPI passed) (user_params user cid))) in
        let st' := fold_left (fun s pd => cc_add user useMPI s (fst pd) (snd pd)) deps st in
        st' ++ [{| ci_id := cid; ci_params := params |}]
  end.

(* setup_convergence_controllers (user-supplied ones, in dict order, with their own parameters),
   then the controller's base convergence controllers *)
Definition cc_build (user : list (nat * dict atom)) (useMPI : atom) (classes : list cctree) (base : list cctree) : list ccinst :=
  let cls_of c := match c with CC cid _ _ => cid end in
  let st := fold_left (fun s c => cc_add user useMPI s (user_params user (cls_of c)) c) classes [] in
  fold_left (fun s c => cc_add user useMPI s [] c) base st.

Definition control_order (i : ccinst) : Z :=
  match lookup "control_order" (ci_params i) with Some (AInt z) => z | _ => 0%Z end.

(* np.argsort(orders) as a stable insertion sort on (key, index) pairs *)
Fixpoint insert_by (x : Z * nat) (l : list (Z * nat)) : list (Z * nat) :=
  match l with
  | [] => [x]
  | y :: r => if (fst x <? fst y)%Z then x :: l else y :: insert_by x r
  end.

Definition argsort (ks : list Z) : list nat :=
  map snd (fold_left (fun acc x => insert_by x acc) (combine ks (seq 0 (length ks))) []).

Definition cc_order (st : list ccinst) : list nat := argsort (map control_order st).

(* the controllers in the order in which the controller calls them *)
Definition cc_call_sequence (st : list ccinst) : list ccinst :=
  flat_map (fun i => match nth_error st i with Some c => [c] | None => [] end) (cc_order st).

(* ------------------------------------------------------------------ frozen classes, read-only parameters *)

(* FrozenClass instance: attribute names allowed through add_attr (class-level `attrs`), names that
   resolve on the class itself (methods, `attrs`, ...: hasattr is true for them), instance fields *)
Record frozen := { fz_attrs : list string; fz_class : list string; fz_fields : list string; fz_frozen : bool }.

Definition fz_hasattr (o : frozen) (k : string) : bool :=
  mem_str k (fz_fields o) || mem_str k (fz_class o) || mem_str k (fz_attrs o).

(* FrozenClass.__setattr__ *)
Definition fz_setattr (o : frozen) (k : string) : exn + frozen :=
  if fz_frozen o && negb (mem_str k (fz_attrs o) || fz_hasattr o k) then inl TypeError
  else inr {| fz_attrs := fz_attrs o; fz_class := fz_class o;
              fz_fields := if mem_str k (fz_fields o) then fz_fields o else fz_fields o ++ [k];
              fz_frozen := fz_frozen o |}.

(* FrozenClass.add_attr(key, raise_error_if_exists) *)
Definition fz_add_attr (o : frozen) (k : string) (raise_if_exists : bool) : exn + frozen :=
  if mem_str k (fz_attrs o) then (if raise_if_exists then inl TypeError else inr o)
  else inr {| fz_attrs := fz_attrs o ++ [k]; fz_class := fz_class o; fz_fields := fz_fields o; fz_frozen := fz_frozen o |}.

Inductive fz_op := FSet (k : string) | FAdd (k : string) (r : bool) | FHas (k : string).

(* run a script; result per operation: None = fine / Some e = raised e;  FHas reports hasattr as
   Some TypeError-free boolean via the second component *)
Fixpoint fz_run (o : frozen) (ops : list fz_op) : list (option exn * bool) :=
  match ops with
  | [] => []
  | FSet k :: r => match fz_setattr o k with inl e => (Some e, false) :: fz_run o r | inr o' => (None, true) :: fz_run o' r end
  | FAdd k b :: r => match fz_add_attr o k b with inl e => (Some e, false) :: fz_run o r | inr o' => (None, true) :: fz_run o' r end
  | FHas k :: r => (None, fz_hasattr o k) :: fz_run o r
  end.

(* RegisterParams.__setattr__ *)
Definition rp_setattr (read_only : list string) (k : string) : option exn :=
  if mem_str k read_only then Some ReadOnlyError else None.

(* RegisterParams._makeAttributeAndRegister: every call (parent __init__, child __init__, ...) EXTENDS the
   instance's registries: after the calls, the read-only names are the union of the names of all
   calls with readOnly=True (first component), the others those of the calls with readOnly=False *)
Definition rp_register (calls : list (list string * bool)) : list string * list string :=
  fold_left (fun (reg : list string * list string) (c : list string * bool) =>
               if snd c then ((fst reg ++ fst c)%list, snd reg) else (fst reg, (snd reg ++ fst c)%list)) calls ([], []).

(* prob.params lists every registered name *)
Definition rp_params (calls : list (list string * bool)) : list string :=
  (fst (rp_register calls) ++ snd (rp_register calls))%list.
