(* C18 — n-D assembly of get_finite_difference_matrix (dim = 2, 3): Kronecker sums of the 1-D matrix with identities,
   as entry functions over flat (row-major) indices.  Proofs in Proofs/FDndProofs.v. *)
From Coq Require Import Arith List.

Section FDnd.
  Context {K : Type} (kO kI : K) (kadd kmul : K -> K -> K).

  Fixpoint sumn (f : nat -> K) (n : nat) : K :=
    match n with 0 => kO | S n' => kadd (sumn f n') (f n') end.

  Definition delta (a b : nat) : K := if Nat.eqb a b then kI else kO.            (* sp.eye *)
  (* sp.kron(A, B) with B of size nb x nb *)
  Definition kron (nb : nat) (A B : nat -> nat -> K) (r c : nat) : K :=
    kmul (A (r / nb) (c / nb)) (B (r mod nb) (c mod nb)).

  (* sp.kron(A, B) with a rectangular B of shape nbr x nbc (n-D space transfer matrices of C11: kron of 1-D interpolation matrices) *)
  Definition kron_rect (nbr nbc : nat) (A B : nat -> nat -> K) (r c : nat) : K :=
    kmul (A (r / nbr) (c / nbc)) (B (r mod nbr) (c mod nbc)).

  (* dim == 2:  kron(A, eye(n)) + kron(eye(n), A) *)
  Definition fd2_entry (n : nat) (A : nat -> nat -> K) (r c : nat) : K :=
    kadd (kron n A delta r c) (kron n delta A r c).
  (* dim == 3:  kron(A, eye(n^2)) + kron(eye(n^2), A) + kron(kron(eye(n), A), eye(n)) *)
  Definition fd3_entry (n : nat) (A : nat -> nat -> K) (r c : nat) : K :=
    kadd (kadd (kron (n * n) A delta r c) (kron n delta A r c)) (kron n (kron n delta A) delta r c).
End FDnd.
