(* C15 — ParaDiag: executable model, generic over the number type.

   Mirrors
     pySDC/helpers/ParaDiagHelper.py          get_FFT_matrix, get_E_matrix, get_J_matrix, get_J_inv_matrix,
                                              get_weighted_FFT_matrix, get_weighted_iFFT_matrix, get_H_matrix,
                                              get_G_inv_matrix
     pySDC/implementations/sweeper_classes/ParaDiagSweepers.py   QDiagonalization.mat_vec / update_nodes
                                              (ignore_ic = True), Sweeper.compute_residual for a linear problem
     pySDC/implementations/controller_classes/controller_ParaDiag_nonMPI.py   apply_matrix, it_ParaDiag

   The number type is a parameter (carrier + operations, no laws here): the theorems in
   Proofs/ParaDiagProofs.v are proved for every field; the instance over the Gaussian rationals at
   the end of this file is what the kernel evaluates for the exact comparison with the live code.

   Matrices are functions  nat -> nat -> F  used on indices below an explicit size; vectors in space
   are  nat -> F, the values on the collocation nodes of one step are  nat -> nat -> F  (node, space),
   the values of a block of steps are  nat -> nat -> nat -> F  (step, node, space).

   What stands for what (irrational / library-computed quantities enter as parameters):
     s    = 1/sqrt(N)                 om  = exp(-2 pi i/N)         omi = conj(om) = 1/om
     gi   = alpha^(-1/N)  (get_J_matrix has gi^k on the diagonal; get_J_inv_matrix 1/(gi^k))
     w, Sm, Smi = numpy.linalg.eig / inv of Q G^-1 (QDiagonalization.computeDiagonalization)
     Ginv = scipy.sparse.linalg.inv(G)             solve = problem.solve_jacobian for a linear problem
   No proofs in this file. *)
From Coq Require Import Arith Bool List.
Import ListNotations.

Section Model.
Variable F : Type.
Variables (f0 f1 : F) (fadd fmul fsub : F -> F -> F) (fopp : F -> F) (fdiv : F -> F -> F).

Fixpoint sumn (n : nat) (f : nat -> F) : F :=
  match n with O => f0 | S k => fadd (sumn k f) (f k) end.

Fixpoint fpow (x : F) (n : nat) : F :=
  match n with O => f1 | S k => fmul x (fpow x k) end.

Definition delta (i j : nat) : F := if Nat.eqb i j then f1 else f0.

Definition mat := nat -> nat -> F.

Definition mmul (n : nat) (A B : mat) : mat :=
  fun i j => sumn n (fun k => fmul (A i k) (B k j)).

(* ---------------------------------------------------------------- ParaDiagHelper.py *)

(* get_FFT_matrix(N)[j,k] = exp(-2 pi i j k / N) / sqrt(N) *)
Definition fft_mat (s om : F) : mat := fun j k => fmul (fpow om (j * k)) s.
(* numpy.conjugate(get_FFT_matrix(N)) *)
Definition ifft_mat (s omi : F) : mat := fun j k => fmul (fpow omi (j * k)) s.

(* get_J_matrix: diag(gamma), gamma_k = alpha^(-k/N) *)
Definition J_mat (gi : F) : mat := fun j k => if Nat.eqb j k then fpow gi k else f0.
(* get_J_inv_matrix: diag(1/gamma) *)
Definition Jinv_mat (gi : F) : mat := fun j k => if Nat.eqb j k then fdiv f1 (fpow gi k) else f0.

(* get_weighted_FFT_matrix = get_FFT_matrix @ get_J_inv_matrix *)
Definition wfft (N : nat) (s om gi : F) : mat := mmul N (fft_mat s om) (Jinv_mat gi).
(* get_weighted_iFFT_matrix = get_J_matrix @ conj(get_FFT_matrix) *)
Definition wifft (N : nat) (s omi gi : F) : mat := mmul N (J_mat gi) (ifft_mat s omi).

(* get_E_matrix: -1 on the first lower subdiagonal, then E[0,-1] = -alpha is assigned (for N = 1 this is
   entry (0,0) of an otherwise zero 1x1 matrix) *)
Definition E_mat (N : nat) (alpha : F) : mat := fun i j =>
  if Nat.eqb i 0 && Nat.eqb (S j) N then fopp alpha
  else if Nat.eqb i (S j) then fopp f1 else f0.

(* get_H_matrix: ones in the last column *)
Definition H_mat (M : nat) : mat := fun i j => if Nat.eqb (S j) M then f1 else f0.

(* get_G_inv_matrix: diags = fft(1/gamma * E_alpha[:,0], norm='backward'), entry l *)
Definition G_diag (N : nat) (alpha om gi : F) (l : nat) : F :=
  sumn N (fun k => fmul (fmul (fdiv f1 (fpow gi k)) (E_mat N alpha k 0)) (fpow om (k * l))).

(* G = diags[l] * H + I_M *)
Definition G_mat (M : nat) (d : F) : mat := fun i j => fadd (fmul d (H_mat M i j)) (delta i j).

(* closed form of the inverse the code obtains from scipy.sparse.linalg.inv (1/G for M = 1) *)
Definition G_inv_cf (M : nat) (d : F) : mat :=
  fun i j => fsub (delta i j) (fmul (fdiv d (fadd f1 d)) (H_mat M i j)).

(* closed forms proved equal to the products above (Proofs) *)
Definition wfft_cf (s om gi : F) : mat := fun j k => fmul (fmul (fpow om (j * k)) s) (fdiv f1 (fpow gi k)).
Definition wifft_cf (s omi gi : F) : mat := fun j k => fmul (fpow gi j) (fmul (fpow omi (j * k)) s).
Definition d_fac (om gi : F) (l : nat) : F := fopp (fmul (fdiv f1 gi) (fpow om l)).

(* ---------------------------------------------------------------- sweeper (one step) *)

Definition vec := nat -> F.
Definition nodesv := nat -> vec.

(* QDiagonalization.mat_vec *)
Definition mat_vec (M : nat) (A : mat) (v : nodesv) : nodesv :=
  fun m i => sumn M (fun j => fmul (A m j) (v j i)).

(* A u for the n x n matrix A of the linear problem *)
Definition apply_A (n : nat) (A : mat) (v : vec) : vec :=
  fun i => sumn n (fun j => fmul (A i j) (v j)).

(* QDiagonalization.update_nodes, ignore_ic = True: returns level.increment *)
Definition qdiag_update (M : nat) (dt : F) (w : nat -> F) (Sm Smi Ginv : mat)
           (solve : F -> vec -> vec) (r : nodesv) : nodesv :=
  let x1 := mat_vec M Smi r in
  let x2 := fun m => solve (fmul (w m) dt) (x1 m) in
  let z := mat_vec M Sm x2 in
  mat_vec M Ginv z.

(* Sweeper.compute_residual for f(u,t) = A u + g(t):  integrate() + u[0] - u[m+1]  *)
Definition residual (M n : nat) (dt : F) (Q A : mat) (g : nodesv) (u0 : vec) (u : nodesv) : nodesv :=
  fun m i => fadd (sumn M (fun j => fmul (fmul dt (Q m j)) (fadd (apply_A n A (u j) i) (g j i))))
                  (fsub (u0 i) (u m i)).

(* compute_end_point for RADAU-RIGHT without collocation update: copy of the last node *)
Definition uend (M : nat) (u : nodesv) : vec := u (pred M).

(* ---------------------------------------------------------------- controller (block of L steps) *)

Definition stepsv := nat -> nodesv.

(* controller_ParaDiag_nonMPI.apply_matrix *)
Definition apply_matrix (L : nat) (T : mat) (x : stepsv) : stepsv :=
  fun l m i => sumn L (fun l' => fmul (T l l') (x l' m i)).

(* initial value of step l in compute_all_at_once_residual *)
Definition step_ic (M : nat) (u0 : vec) (u : stepsv) (l : nat) : vec :=
  match l with O => u0 | S p => uend M (u p) end.

Definition block_residual (M n : nat) (dt : F) (Q A : mat) (g : stepsv) (u0 : vec) (u : stepsv) : stepsv :=
  fun l => residual M n dt Q A (g l) (step_ic M u0 u l) (u l).

(* increment of one it_ParaDiag: residual -> FFT_in_time -> local update_nodes -> iFFT_in_time *)
Definition paradiag_increment (L M n : nat) (dt : F) (Q A : mat) (g : stepsv) (W V : mat)
           (w : nat -> nat -> F) (Sm Smi Ginv : nat -> mat) (solve : F -> vec -> vec)
           (u0 : vec) (u : stepsv) : stepsv :=
  let r := block_residual M n dt Q A g u0 u in
  let rhat := apply_matrix L W r in
  let xhat := fun l => qdiag_update M dt (w l) (Sm l) (Smi l) (Ginv l) solve (rhat l) in
  apply_matrix L V xhat.

(* update_solution *)
Definition paradiag_iter (L M n : nat) (dt : F) (Q A : mat) (g : stepsv) (W V : mat)
           (w : nat -> nat -> F) (Sm Smi Ginv : nat -> mat) (solve : F -> vec -> vec)
           (u0 : vec) (u : stepsv) : stepsv :=
  let inc := paradiag_increment L M n dt Q A g W V w Sm Smi Ginv solve u0 u in
  fun l m i => fadd (u l m i) (inc l m i).

Fixpoint paradiag_iters (k : nat) (L M n : nat) (dt : F) (Q A : mat) (g : stepsv) (W V : mat)
           (w : nat -> nat -> F) (Sm Smi Ginv : nat -> mat) (solve : F -> vec -> vec)
           (u0 : vec) (u : stepsv) : stepsv :=
  match k with
  | O => u
  | S k' => paradiag_iters k' L M n dt Q A g W V w Sm Smi Ginv solve u0
                        (paradiag_iter L M n dt Q A g W V w Sm Smi Ginv solve u0 u)
  end.

(* tabulation helpers for printing *)
Definition tab1 (n : nat) (f : nat -> F) : list F := map f (seq 0 n).
Definition tab2 (n m : nat) (A : mat) : list (list F) := map (fun i => map (A i) (seq 0 m)) (seq 0 n).

End Model.


(* ---------------------------------------------------------------- exact executable instance: Q(i)

   Gaussian rationals as pairs of canonical rationals (Leibniz equality).  For N in {1,2,4} the N-th
   roots of unity are Gaussian (1; -1; -i), so with alpha = r^N, gi = 1/r the helper's matrices have
   exact images here (up to the normalisation s = 1/sqrt N, rational for N in {1,4}; for N = 2 the
   check compares the unnormalised matrices, s := 1). *)
From Coq Require Import QArith Qcanon.

Definition GQ := (Qc * Qc)%type.
Definition g0 : GQ := (0%Qc, 0%Qc).
Definition g1 : GQ := (1%Qc, 0%Qc).
Definition gI : GQ := (0%Qc, 1%Qc).
Definition gadd (x y : GQ) : GQ := ((fst x + fst y)%Qc, (snd x + snd y)%Qc).
Definition gsub (x y : GQ) : GQ := ((fst x - fst y)%Qc, (snd x - snd y)%Qc).
Definition gopp (x : GQ) : GQ := ((- fst x)%Qc, (- snd x)%Qc).
Definition gmul (x y : GQ) : GQ :=
  ((fst x * fst y - snd x * snd y)%Qc, (fst x * snd y + snd x * fst y)%Qc).
Definition gnorm2 (x : GQ) : Qc := (fst x * fst x + snd x * snd x)%Qc.
Definition ginv (x : GQ) : GQ := ((fst x / gnorm2 x)%Qc, (- snd x / gnorm2 x)%Qc).
Definition gdiv (x y : GQ) : GQ := gmul x (ginv y).
Definition gofQ (q : Q) : GQ := (Q2Qc q, 0%Qc).
Definition gout (x : GQ) : Q * Q := (this (fst x), this (snd x)).

(* exp(-2 pi i / N) and its conjugate for N | 4 (anything else: 1, never used) *)
Definition gq_om (N : nat) : GQ :=
  match N with 2%nat => gopp g1 | 4%nat => gopp gI | _ => g1 end.
Definition gq_omi (N : nat) : GQ :=
  match N with 2%nat => gopp g1 | 4%nat => gI | _ => g1 end.

Definition gq_wfft (N : nat) (s gi : GQ) := wfft GQ g0 g1 gadd gmul gdiv N s (gq_om N) gi.
Definition gq_wifft (N : nat) (s gi : GQ) := wifft GQ g0 g1 gadd gmul N s (gq_omi N) gi.
Definition gq_E (N : nat) (alpha : GQ) := E_mat GQ g0 g1 gopp N alpha.
Definition gq_mmul (N : nat) (A B : mat GQ) := mmul GQ g0 gadd gmul N A B.
Definition gq_G_diag (N : nat) (alpha gi : GQ) (l : nat) := G_diag GQ g0 g1 gadd gmul gopp gdiv N alpha (gq_om N) gi l.
Definition gq_G_inv (M : nat) (d : GQ) := G_inv_cf GQ g0 g1 gadd gmul gsub gdiv M d.
Definition gq_tab2 (n m : nat) (A : mat GQ) : list (list (Q * Q)) :=
  map (fun i => map (fun j => gout (A i j)) (seq 0 m)) (seq 0 n).

(* integer output format for the harness (Coq prints some Q literals in hexadecimal notation) *)
Definition goutz (x : GQ) : (Z * Z) * (Z * Z) :=
  ((Qnum (this (fst x)), Zpos (Qden (this (fst x)))), (Qnum (this (snd x)), Zpos (Qden (this (snd x))))).
Definition ginz (p : (Z * Z) * (Z * Z)) : GQ :=
  (Q2Qc (fst (fst p) # Z.to_pos (snd (fst p))), Q2Qc (fst (snd p) # Z.to_pos (snd (snd p)))).
Definition gq_tab2z (n m : nat) (A : mat GQ) : list (list ((Z * Z) * (Z * Z))) :=
  map (fun i => map (fun j => goutz (A i j)) (seq 0 m)) (seq 0 n).

(* ---------------------------------------------------------------- sweeper state and the public set_G_inv

   QDiagonalization keeps FOUR things that update_nodes reads: params.G_inv and the diagonalisation
   (w, S, S_inv) of Q G^-1.  set_G_inv stores the factor and recomputes the diagonalisation from it;
   __init__ is set_G_inv applied to params['G_inv'] (identity by default).  computeDiagonalization
   (numpy.linalg.eig + inv) is an oracle [eig] here. *)
Section SweeperState.
Variable F : Type.
Variables (f0 : F) (fadd fmul : F -> F -> F).
Variable eig : mat F -> (nat -> F) * mat F * mat F.

Record qd_state := { st_Ginv : mat F; st_w : nat -> F; st_S : mat F; st_Si : mat F }.

Definition set_G_inv (M : nat) (Q : mat F) (st : qd_state) (g : mat F) : qd_state :=
  let '(w, Sm, Smi) := eig (mmul F f0 fadd fmul M Q g) in
  {| st_Ginv := g; st_w := w; st_S := Sm; st_Si := Smi |}.

(* update_nodes reading the state *)
Definition update_nodes_st (M : nat) (dt : F) (st : qd_state) (solve : F -> vec F -> vec F) (r : nodesv F) : nodesv F :=
  qdiag_update F f0 fadd fmul M dt (st_w st) (st_S st) (st_Si st) (st_Ginv st) solve r.
End SweeperState.
