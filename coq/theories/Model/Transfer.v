(* C10 — executable model of pySDC/core/base_transfer.py (BaseTransfer.restrict / prolong / prolong_f)
   on top of Model/Sweep.v.  Fine data live on component index set Xf, coarse data on Xc; the space
   transfer operators Rs, Ps are arbitrary functions here (linearity is a hypothesis of the proofs).
   Node-indexed data: nat -> _, index 0 = initial value; Rcoll n m / Pcoll n m are indexed by the
   1-based node numbers (the code's Rcoll[n-1, m-1]). *)
From Coq Require Import List Arith Bool.
From PySDC Require Import Model.Sweep.
Import ListNotations.

Section TransferModel.
  Context {K : Type} (kO : K) (kadd kmul ksub : K -> K -> K).
  Context {Xf Xc : Type}.
  Notation Vf := (Xf -> K).
  Notation Vc := (Xc -> K).

  Variable Mf Mc : nat.
  Variable dtf dtc t0 : K.                      (* fine and coarse levels of one step share time and (normally) dt *)
  Variable nodes_c : nat -> K.
  Variable Qf Qc : nat -> nat -> K.
  Variable np : nat.
  Variable feval_c : K -> Vc -> nat -> Vc.
  Variable feval_f : K -> Vf -> nat -> Vf.
  Variable nodes_f : nat -> K.
  Variable Rs : Vf -> Vc.
  Variable Ps : Vc -> Vf.
  Variable Rcoll Pcoll : nat -> nat -> K.

  (* sum_{m=1..Mf} Rcoll n m * Rs (g m)   — the shape of both Rcoll loops in restrict() *)
  Definition rcomb (g : nat -> Vf) (n : nat) : Vc :=
    accum kadd (vzero kO) 1 Mf (fun m => vscale kmul (Rcoll n m) (Rs (g m))).

  Record coarse := { Gu : nat -> Vc; Gf : nat -> nat -> Vc; Gtau : nat -> option Vc;
                     Guold : nat -> Vc; Gfold : nat -> nat -> Vc }.

  Definition restrict (Fu : nat -> Vf) (Ff : nat -> nat -> Vf) (Ftau : nat -> option Vf) : coarse :=
    let gu := fun n => if Nat.eqb n 0 then Rs (Fu 0) else rcomb Fu n in
    let gf := fun n => feval_c (if Nat.eqb n 0 then t0 else tnode kadd kmul dtc t0 nodes_c n) (gu n) in
    let tauG := integrate kO kadd kmul Mc dtc Qc np gf in
    let tauF := integrate kO kadd kmul Mf dtf Qf np Ff in
    let tau0 := fun n => vsub ksub (rcomb tauF n) (tauG n) in
    let tau := match Ftau 1 with
               | Some _ => fun n => vadd kadd (tau0 n)
                                      (rcomb (fun m => match Ftau m with Some t => t | None => vzero kO end) n)
               | None => tau0
               end in
    {| Gu := gu; Gf := gf; Gtau := fun n => Some (tau n); Guold := gu; Gfold := gf |}.

  (* prolong(): F.u[n] += sum_m Pcoll[n,m] * Ps(G.u[m] - G.uold[m]),  then f re-evaluated *)
  Definition prolong_u (G : coarse) (Fu : nat -> Vf) : nat -> Vf :=
    fun n => if Nat.eqb n 0 then Fu 0 else
      accum kadd (Fu n) 1 Mc (fun m => vscale kmul (Pcoll n m) (Ps (vsub ksub (Gu G m) (Guold G m)))).
  Definition prolong (G : coarse) (Fu : nat -> Vf) (Ff : nat -> nat -> Vf) : (nat -> Vf) * (nat -> nat -> Vf) :=
    let u' := prolong_u G Fu in
    (u', fun n => if Nat.eqb n 0 then Ff 0 else feval_f (tnode kadd kmul dtf t0 nodes_f n) (u' n)).

  (* prolong_f(): values and right-hand sides both get the interpolated coarse correction *)
  Definition prolong_f (G : coarse) (Fu : nat -> Vf) (Ff : nat -> nat -> Vf) : (nat -> Vf) * (nat -> nat -> Vf) :=
    (prolong_u G Fu,
     fun n p => if Nat.eqb n 0 then Ff 0 p else
       accum kadd (Ff n p) 1 Mc (fun m => vscale kmul (Pcoll n m) (Ps (vsub ksub (Gf G m p) (Gfold G m p))))).
End TransferModel.
