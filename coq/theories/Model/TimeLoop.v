(* C06 — executable model of the time/slot bookkeeping of controller_nonMPI.run
   (and of controller_ParaDiag_nonMPI.run, which differs by one rule: flag `paradiag`).

   Source mirrored: /repo/pySDC/implementations/controller_classes/controller_nonMPI.py, run():
     time   = [t0 + sum(MS[j].dt for j in range(p)) for p in slots]        -> init_times
     active = [time[p] < Tend - 10*eps for p in slots]                      -> act_flags
     active_slots = compress(slots, active)                                 -> compress
     while any(active): block; restart_at; uend / time[first] update; prepare_next_block (new dt);
                        time[active_slots[i]] = time[active_slots[i]-1] + MS[active_slots[i]-1].dt;
                        active, active_slots recomputed                      -> block_step / loop
   The index expressions are mirrored LITERALLY (time[restart_at], MS[restart_at], active_slots[i]-1), so the
   model does not assume that the active slots form a prefix; it records whether they did (s_pfx).

   Generic in the number type T (add, sub, ltb, zero: no laws) and in the value type V.  The block itself
   (pfasst + the convergence controllers) is an ORACLE giving, per block: the restart flags, u[0] and uend of
   every active step at the end of the block, and the step sizes of all steps after prepare_next_block. *)
From Coq Require Import List Bool Arith.
Import ListNotations.

Section TimeLoop.
Variables T V : Type.
Variables (add sub : T -> T -> T) (ltb : T -> T -> bool) (zero : T).
(* Python's built-in sum() over the step sizes (start value 0).  For floats this is NOT the left fold of +:
   since CPython 3.12 sum() uses Neumaier compensated summation (see `neumaier` below). *)
Variable sumT : list T -> T.
Variable dV : V.
Variable paradiag : bool.

Fixpoint upd {A} (i : nat) (x : A) (l : list A) : list A :=
  match l, i with
  | [], _ => []
  | _ :: t, 0 => x :: t
  | h :: t, S j => h :: upd j x t
  end.

Definition psum (dts : list T) (p : nat) : T := sumT (firstn p dts).

Definition init_times (t0 : T) (dts : list T) : list T :=
  map (fun p => add t0 (psum dts p)) (seq 0 (length dts)).

Definition act_flags (thr : T) (times : list T) : list bool :=
  let a := map (fun t => ltb t thr) times in
  if paradiag && existsb (fun b => b) a && negb (forallb (fun b => b) a)
  then map (fun _ => true) a else a.

Definition compress (flags : list bool) : list nat :=
  filter (fun p => nth p flags false) (seq 0 (length flags)).

Fixpoint first_true (l : list bool) : option nat :=
  match l with
  | [] => None
  | true :: _ => Some 0
  | false :: t => match first_true t with Some i => Some (S i) | None => None end
  end.

Record blockout := mkBO {
  bo_restart : list bool;      (* S.status.restart of the active steps *)
  bo_u0 : list V;              (* levels[0].u[0] of the active steps when the block is finished *)
  bo_uend : list V;            (* levels[0].uend *)
  bo_newdt : list T }.         (* S.dt of ALL steps after prepare_next_block *)

(* block number, active slots, times of all slots, step sizes of all slots, value handed to restart_block *)
Variable oracle : nat -> list nat -> list T -> list T -> V -> blockout.

(* one finished (accepted) step *)
Record acc := mkAcc { a_block : nat; a_slot : nat; a_start : T; a_dt : T; a_u0 : V; a_uend : V }.

Record state := mkSt {
  s_time : list T; s_dt : list T;
  s_u0 : list V; s_ue : list V;          (* per slot: MS[p].levels[0].u[0] / .uend *)
  s_acc : list acc;
  s_pfx : bool;                          (* the active slots were 0..a-1 in every block so far *)
  s_blocks : nat;
  s_log : list (list nat * list T) }.    (* per block: active slots and the time list at its start *)

Fixpoint nat_list_eqb (a b : list nat) : bool :=
  match a, b with
  | [], [] => true
  | x :: a', y :: b' => (x =? y) && nat_list_eqb a' b'
  | _, _ => false
  end.

(* for i in range(1, len(active_slots)): time[as[i]] = time[as[i]-1] + MS[as[i]-1].dt *)
Definition chain_times (asl : list nat) (dts times : list T) : list T :=
  fold_left (fun tm a => upd a (add (nth (a - 1) tm zero) (nth (a - 1) dts zero)) tm) (tl asl) times.

(* write the per-step values of the active steps into the per-slot arrays *)
Fixpoint scatter (asl : list nat) (vals : list V) (arr : list V) : list V :=
  match asl, vals with
  | a :: asl', v :: vals' => scatter asl' vals' (upd a v arr)
  | _, _ => arr
  end.

Definition block_step (st : state) (asl : list nat) (uin : V) : state * V :=
  let b := s_blocks st in
  let times := s_time st in
  let dts := s_dt st in
  let bo := oracle b asl times dts uin in
  let u0s := scatter asl (bo_u0 bo) (s_u0 st) in
  let ues := scatter asl (bo_uend bo) (s_ue st) in
  let len := length asl in
  let first := hd 0 asl in
  let lst := last asl 0 in
  let r := match first_true (bo_restart bo) with Some i => i | None => len end in
  let '(uend', time') :=
    match first_true (bo_restart bo) with
    | Some i => (nth i u0s dV, upd first (nth i times zero) times)                  (* MS[restart_at], time[restart_at] *)
    | None => (nth lst ues dV, upd first (add (nth lst times zero) (nth lst dts zero)) times)
    end in
  let newacc :=
    map (fun j => let a := nth j asl 0 in
                  mkAcc b a (nth a times zero) (nth a dts zero) (nth j (bo_u0 bo) dV) (nth j (bo_uend bo) dV))
        (seq 0 (Nat.min r len)) in                                                   (* MS_active[:restart_at] *)
  let dts' := bo_newdt bo in
  let times'' := chain_times asl dts' time' in
  (mkSt times'' dts' u0s ues (s_acc st ++ newacc)
        (s_pfx st && nat_list_eqb asl (seq 0 len)) (S b) (s_log st ++ [(asl, times)]), uend').

Inductive result :=
| Finished (uend : V) (st : state)
| NothingToDo                       (* ControllerError('Nothing to do, check t0, dt and Tend.') *)
| OutOfFuel (st : state).

(* while any(active): ... *)
Fixpoint loop (fuel : nat) (thr : T) (st : state) (u : V) : result :=
  match fuel with
  | 0 => OutOfFuel st
  | S f =>
      let flags := act_flags thr (s_time st) in
      if existsb (fun b => b) flags then
        let '(st', u') := block_step st (compress flags) u in
        loop f thr st' u'
      else Finished u st
  end.

Definition run (fuel : nat) (t0 tend tol : T) (dts : list T) (u0 : V) : result :=
  let thr := sub tend tol in
  let times := init_times t0 dts in
  let st := mkSt times dts (map (fun _ => dV) dts) (map (fun _ => dV) dts) [] true 0 [] in
  if existsb (fun b => b) (act_flags thr times) then loop fuel thr st u0 else NothingToDo.

End TimeLoop.

Arguments psum {T}. Arguments init_times {T}. Arguments act_flags {T}. Arguments chain_times {T}.
Arguments scatter {V}. Arguments block_step {T V}. Arguments loop {T V}. Arguments run {T V}.
Arguments mkBO {T V}.
Arguments bo_restart {T V}. Arguments bo_u0 {T V}. Arguments bo_uend {T V}. Arguments bo_newdt {T V}.
Arguments a_block {T V}. Arguments a_slot {T V}. Arguments a_start {T V}. Arguments a_dt {T V}.
Arguments a_u0 {T V}. Arguments a_uend {T V}.
Arguments s_time {T V}. Arguments s_dt {T V}. Arguments s_u0 {T V}. Arguments s_ue {T V}.
Arguments s_acc {T V}. Arguments s_pfx {T V}. Arguments s_blocks {T V}. Arguments s_log {T V}.
Arguments mkAcc {T V}.
Arguments mkSt {T V}.
Arguments Finished {T V}.
Arguments NothingToDo {T V}.
Arguments OutOfFuel {T V}.

(* ------------------------------------------------------------------ IEEE double instance (primitive floats) *)
From Coq Require PrimFloat.

(* CPython >= 3.12, Python/bltinmodule.c builtin_sum_impl, float branch (Neumaier):
     t = f + x; if (fabs(f) >= fabs(x)) c += (f - t) + x; else c += (x - t) + f; f = t;
     at the end: if (c && isfinite(c)) f += c *)
Definition neumaier (l : list PrimFloat.float) : PrimFloat.float :=
  let step (st : PrimFloat.float * PrimFloat.float) (x : PrimFloat.float) :=
    let '(f, c) := st in
    let t := PrimFloat.add f x in
    (t, if PrimFloat.leb (PrimFloat.abs x) (PrimFloat.abs f)
        then PrimFloat.add c (PrimFloat.add (PrimFloat.sub f t) x)
        else PrimFloat.add c (PrimFloat.add (PrimFloat.sub x t) f)) in
  let '(f, c) := fold_left step l (PrimFloat.zero, PrimFloat.zero) in
  if negb (PrimFloat.eqb c PrimFloat.zero) && PrimFloat.ltb (PrimFloat.abs c) PrimFloat.infinity
  then PrimFloat.add f c else f.

(* naive left fold ((0 + d0) + d1) + ... : Python < 3.12, and exact arithmetic *)
Definition fold_sum {T} (add : T -> T -> T) (zero : T) (l : list T) : T := fold_left add l zero.

Definition frun (paradiag : bool) (oracle : nat -> list nat -> list PrimFloat.float -> list PrimFloat.float -> nat -> blockout PrimFloat.float nat) :=
  run PrimFloat.add PrimFloat.sub PrimFloat.ltb PrimFloat.zero neumaier 0 paradiag oracle.

(* oracle given as a table indexed by the block number *)
Definition table_oracle {T V} (tab : list (blockout T V)) (dflt : blockout T V)
  : nat -> list nat -> list T -> list T -> V -> blockout T V :=
  fun b _ _ _ _ => nth b tab dflt.

(* fixed step size, no restarts: every block keeps dts; values are irrelevant *)
Definition fixed_oracle {T} (dts : list T) : nat -> list nat -> list T -> list T -> nat -> blockout T nat :=
  fun b asl _ _ _ => mkBO (map (fun _ => false) asl) (map (fun _ => 0) asl) (map (fun _ => 0) asl) dts.

(* step sizes never change, no restarts; the values count the steps: step j of a block started from u turns
   u + j into u + j + 1 (satisfies the block contract) *)
Definition counting_oracle {T} : nat -> list nat -> list T -> list T -> nat -> blockout T nat :=
  fun b asl _ dts u =>
    mkBO (map (fun _ => false) asl) (map (fun j => u + j) (seq 0 (length asl)))
         (map (fun j => u + S j) (seq 0 (length asl))) dts.

Fixpoint flist_eqb (a b : list PrimFloat.float) : bool :=
  match a, b with
  | [], [] => true
  | x :: a', y :: b' => PrimFloat.eqb x y && flist_eqb a' b'
  | _, _ => false
  end.
