(* C09 — restarts and step-size control: executable model.

   Mirrors, for a single-level block Gauss-Seidel run in which every step of a block finishes at
   iteration maxiter (restol < 0, the regime Adaptivity.check_parameters demands):

     pySDC/implementations/convergence_controller_classes/basic_restarting.py
         BasicRestartingNonMPI.determine_restart (with its buffers), .prepare_next_block  — AS WRITTEN,
         one call per step, each call reading the counters the previous calls already overwrote
     pySDC/implementations/convergence_controller_classes/adaptivity.py
         AdaptivityBase.compute_optimal_step_size / determine_restart, Adaptivity.get_new_step_size
     pySDC/implementations/convergence_controller_classes/step_size_limiter.py
         StepSizeLimiter.get_new_step_size, StepSizeSlopeLimiter.get_new_step_size
     pySDC/implementations/convergence_controller_classes/spread_step_sizes.py
         SpreadStepSizesBlockwiseNonMPI.get_step_from_which_to_spread / prepare_next_block — AS WRITTEN,
         one call per step, each call reading the step sizes the previous calls already overwrote
     pySDC/implementations/controller_classes/controller_nonMPI.py
         it_check (per step: every convergence controller in control order), run (block bookkeeping)

   The number type is a parameter ([num T]): PrimFloat for the bit-exact correspondence with the
   real controller, Q for the theorems that need order laws, Z for small examples.  The only operation
   of the code that is not modelled is `**` : its result enters as data ([i_pw]).
   No proofs here (Proofs/ConvCtrlProofs.v). *)
From Coq Require Import List Bool Arith ZArith QArith Qabs PrimFloat Uint63.
Import ListNotations.
Local Open Scope nat_scope.

Set Implicit Arguments.

(* ---------------------------------------------------------------- number interface *)
Record num (T : Type) := Num {
  nadd : T -> T -> T;
  nsub : T -> T -> T;
  nmul : T -> T -> T;
  ndiv : T -> T -> T;
  nltb : T -> T -> bool;        (* Python  a < b  *)
  nleb : T -> T -> bool;        (* Python  a <= b *)
  neqb : T -> T -> bool;        (* Python  a == b *)
  nabs : T -> T;
  nofnat : nat -> T;            (* int -> float conversion of small ints *)
  n0 : T;
  n1 : T }.

(* ---------------------------------------------------------------- generic list helpers *)
Fixpoint upd {A} (l : list A) (i : nat) (v : A) : list A :=
  match l, i with
  | [], _ => []
  | _ :: t, O => v :: t
  | h :: t, S i' => h :: upd t i' v
  end.

(* index of the first true, np.where(restarts)[0][0] *)
Fixpoint first_true (l : list bool) : option nat :=
  match l with
  | [] => None
  | true :: _ => Some 0
  | false :: t => option_map S (first_true t)
  end.

(* length of the maximal all-true prefix *)
Fixpoint true_prefix (l : list bool) : nat :=
  match l with
  | true :: t => S (true_prefix t)
  | _ => 0
  end.

Section Model.
Variable T : Type.
Variable N : num T.

Notation "a +! b" := (nadd N a b) (at level 50, left associativity).
Notation "a -! b" := (nsub N a b) (at level 50, left associativity).
Notation "a *! b" := (nmul N a b) (at level 40, left associativity).
Notation "a /! b" := (ndiv N a b) (at level 40, left associativity).
Notation "a <! b" := (nltb N a b) (at level 70).
Notation "a <=! b" := (nleb N a b) (at level 70).

(* Python's min([a, b]) / max([a, b]) : the first extremal element wins *)
Definition pmin (a b : T) : T := if b <! a then b else a.
Definition pmax (a b : T) : T := if a <! b then b else a.

(* ---------------------------------------------------------------- configuration *)
(* the convergence controllers that act in it_check, in the order control_order dictates *)
Inductive stage := SScripted | SAdapt | SSlope | SLimit | SRestart.

Record cfg := Cfg {
  c_order : list stage;          (* call order, read from the live controller *)
  c_max_restarts : nat;
  c_crash : bool;                (* crash_after_max_restarts *)
  c_rffs : bool;                 (* restart_from_first_step; spread_from_first_restarted = negb c_rffs *)
  c_e_tol : T;
  c_beta : T;
  c_slope_min : T;
  c_slope_max : option T;        (* None = np.inf *)
  c_rel_min_slope : T;
  c_dt_min : T;
  c_dt_max : option T;           (* None = np.inf *)
  c_overwrite : bool;            (* overwrite_to_reach_Tend *)
  c_Tend : T;
  c_ten_eps : T;                 (* 10 * np.finfo(float).eps *)
  c_big : T;                     (* 1e9 *)
  c_dt_initial : T }.

(* what the scripted controller injects for one step in one it_check pass, plus the value of
   (e_tol / err) ** (1.0 / order) as Python computed it for this err *)
Record inj := Inj { i_req : bool; i_err : T; i_pw : T; i_dtn : option T }.

(* block-local status of a step: S.status.restart, L.status.dt_new, L.status.error_embedded_estimate *)
Record sstate := SState { s_restart : bool; s_dtnew : option T; s_err : option T }.
Definition sstate0 := SState false None None.

(* persistent per-slot data: time[p], MS[p].dt, MS[p].status.restarts_in_a_row (one list each) *)
Record gstate := GState { g_times : list T; g_dts : list T; g_riars : list nat }.

(* ---------------------------------------------------------------- step-size proposals *)
(* AdaptivityBase.compute_optimal_step_size:  beta * dt * (e_tol / e_est) ** (1.0 / order) *)
Definition optimal_dt (c : cfg) (dt pw : T) : T := c_beta c *! dt *! pw.

(* StepSizeSlopeLimiter.get_new_step_size *)
Definition slope_limit (c : cfg) (dt : T) (restart : bool) (d : T) : T :=
  let ratio := d /! dt in
  if ratio <! c_slope_min c then dt *! c_slope_min c
  else if match c_slope_max c with Some m => m <! ratio | None => false end
       then match c_slope_max c with Some m => dt *! m | None => d end
  else if (nabs N (ratio -! n1 N) <! c_rel_min_slope c) && negb restart then dt
  else d.

(* StepSizeLimiter.get_new_step_size *)
Definition abs_limit (c : cfg) (d : T) : T :=
  if d <! c_dt_min c then c_dt_min c
  else match c_dt_max c with
       | Some m => if m <! d then m else d
       | None => d
       end.

(* ---------------------------------------------------------------- it_check: one step, one controller *)
(* buffers of BasicRestartingNonMPI: (restart, max_restart_reached) *)
Definition buffers := (bool * bool)%type.

(* BasicRestartingNonMPI.determine_restart; None = ConvergenceError *)
Definition restart_stage (c : cfg) (first : bool) (riar : nat) (buf : buffers) (r : bool)
  : option (buffers * bool) :=
  let '(br, bm) := buf in
  let bm' := if first then c_max_restarts c <=? riar else bm in
  if first && bm' && r && c_crash c then None
  else
    let br' := r || br in
    Some ((br', bm'), (r || br') && negb bm').

Definition apply_stage (c : cfg) (final first : bool) (riar : nat) (dt : T) (i : inj)
           (st : stage) (bs : buffers * sstate) : option (buffers * sstate) :=
  let '(buf, s) := bs in
  match st with
  | SScripted =>
      (* post_iteration_processing: error estimate and (optionally) dt_new; determine_restart: request *)
      Some (buf, SState (s_restart s || i_req i)
                        (match i_dtn i with Some d => Some d | None => s_dtnew s end)
                        (Some (i_err i)))
  | SAdapt =>
      (* get_new_step_size if iter == maxiter; determine_restart if iter >= maxiter: e_est >= e_tol *)
      if final then
        match s_err s with
        | Some e => Some (buf, SState (s_restart s || (c_e_tol c <=! e)) (Some (optimal_dt c dt (i_pw i))) (s_err s))
        | None => Some (buf, s)
        end
      else Some (buf, s)
  | SSlope =>
      Some (buf, SState (s_restart s) (option_map (slope_limit c dt (s_restart s)) (s_dtnew s)) (s_err s))
  | SLimit =>
      Some (buf, SState (s_restart s) (option_map (abs_limit c) (s_dtnew s)) (s_err s))
  | SRestart =>
      match restart_stage c first riar buf (s_restart s) with
      | None => None
      | Some (buf', r') => Some (buf', SState r' (s_dtnew s) (s_err s))
      end
  end.

Fixpoint apply_stages (c : cfg) (final first : bool) (riar : nat) (dt : T) (i : inj)
         (sts : list stage) (bs : buffers * sstate) : option (buffers * sstate) :=
  match sts with
  | [] => Some bs
  | st :: rest =>
      match apply_stage c final first riar dt i st bs with
      | None => None
      | Some bs' => apply_stages c final first riar dt i rest bs'
      end
  end.

(* the `for S in local_MS_running` loop of it_check over the active steps *)
Fixpoint pass_steps (c : cfg) (final : bool) (idx : nat) (riars : list nat) (dts : list T) (injs : list inj)
         (ss : list sstate) (buf : buffers) : option (buffers * list sstate) :=
  match riars, dts, injs, ss with
  | riar :: riars', dt :: dts', i :: injs', s :: ss' =>
      match apply_stages c final (idx =? 0) riar dt i (c_order c) (buf, s) with
      | None => None
      | Some (buf', s') =>
          match pass_steps c final (S idx) riars' dts' injs' ss' buf' with
          | None => None
          | Some (buf'', rest) => Some (buf'', s' :: rest)
          end
      end
  | _, _, _, _ => Some (buf, [])
  end.

Definition set_restart (b : bool) (s : sstate) : sstate := SState b (s_dtnew s) (s_err s).

(* one it_check; the `if S.status.last and restart_from_first_step and not max_restart_reached`
   branch runs while the last step is processed and overwrites the flag of every step;
   buffers are reset afterwards (reset_buffers_nonMPI) *)
Definition it_pass (c : cfg) (final : bool) (riars : list nat) (dts : list T) (injs : list inj) (ss : list sstate)
  : option (list sstate) :=
  match pass_steps c final 0 riars dts injs ss (false, false) with
  | None => None
  | Some ((br, bm), ss') =>
      if c_rffs c && negb bm && existsb (fun st => match st with SRestart => true | _ => false end) (c_order c)
      then Some (map (set_restart br) ss') else Some ss'
  end.

(* all it_check passes of one block attempt: iterations 0 .. maxiter, the last one is `final` *)
Fixpoint run_passes (c : cfg) (riars : list nat) (dts : list T) (passes : list (list inj)) (ss : list sstate)
  : option (list sstate) :=
  match passes with
  | [] => Some ss
  | [p] => it_pass c true riars dts p ss
  | p :: rest =>
      match it_pass c false riars dts p ss with
      | None => None
      | Some ss' => run_passes c riars dts rest ss'
      end
  end.

(* ---------------------------------------------------------------- prepare_next_block *)
(* BasicRestartingNonMPI.prepare_next_block, called for S = MS[0], MS[1], ... in turn; [riars] is the
   CURRENT list of counters (already modified by the earlier calls) *)
Definition riar_step (size : nat) (flags : list bool) (i : nat) (riars : list nat) : list nat :=
  let restart_from := match first_true flags with Some j => j | None => size - 1 end in
  if i <? restart_from then upd riars (restart_from - i) 0
  else upd riars (i - restart_from) (if nth i flags false then nth i riars 0 + 1 else 0).

Definition riar_update (size : nat) (flags : list bool) (riars : list nat) : list nat :=
  fold_left (fun rs i => riar_step size flags i rs) (seq 0 size) riars.

(* np.argmin over a non-empty list: first index of the minimum *)
Fixpoint argmin_from (best : T) (bi : nat) (i : nat) (l : list T) : nat :=
  match l with
  | [] => bi
  | x :: t => if x <! best then argmin_from x i (S i) t else argmin_from best bi (S i) t
  end.
Definition argmin (l : list T) : nat :=
  match l with [] => 0 | x :: t => argmin_from x 0 1 t end.

(* SpreadStepSizesBlockwiseNonMPI.get_step_from_which_to_spread: (spread_from_step, restart_at) *)
Definition spread_from (c : cfg) (size : nat) (flags : list bool) (dtnews : list (option T)) : nat * nat :=
  match first_true flags with
  | Some r =>
      if negb (c_rffs c) then (r, r)
      else
        let new_steps := map (fun d => match d with
                                       | Some x => if neqb N x (n0 N) then c_big c else x
                                       | None => c_big c end) dtnews in
        (r + argmin (skipn r new_steps), r)
  | None => (size - 1, size - 1)
  end.

(* SpreadStepSizesBlockwiseNonMPI.prepare_next_block for step i; [dts] is the CURRENT list of step
   sizes (already modified by the earlier calls), [times] the already updated time list *)
Definition spread_step (c : cfg) (size : nat) (flags : list bool) (dtnews : list (option T))
           (times : list T) (i : nat) (dts : list T) : list T :=
  let '(sf, r) := spread_from c size flags dtnews in
  let dt_all_r := match r with O => n0 N | S _ => nth r dts (n0 N) end in
  let base := match nth sf dtnews None with Some d => d | None => nth sf dts (n0 N) end in
  let new :=
    if c_overwrite c then
      let dt_max := (c_Tend c -! nth r times (n0 N) -! dt_all_r) /! nofnat N size in
      pmin base (pmax dt_max (c_dt_initial c))
    else base in
  upd dts i new.

Definition spread_update (c : cfg) (size : nat) (flags : list bool) (dtnews : list (option T))
           (times : list T) (dts : list T) : list T :=
  fold_left (fun ds i => spread_step c size flags dtnews times i ds) (seq 0 size) dts.

(* time[active_slots[i]] = time[active_slots[i] - 1] + MS[active_slots[i] - 1].dt, i = 1 .. size-1 *)
Definition time_step (dts : list T) (i : nat) (times : list T) : list T :=
  upd times i (nth (i - 1) times (n0 N) +! nth (i - 1) dts (n0 N)).
Definition times_update (size : nat) (dts : list T) (times : list T) : list T :=
  fold_left (fun ts i => time_step dts i ts) (seq 1 (size - 1)) times.

(* ---------------------------------------------------------------- the block bookkeeping of run() *)
Record block_out := BlockOut {
  bo_restart_at : nat;            (* index of the first restarted step, = size if none *)
  bo_token : Z;                   (* identity of the value the next block starts from *)
  bo_state : gstate;              (* all slots after prepare_next_block and the time update *)
  bo_active : nat;                (* number of active slots of the next block *)
  bo_prefix_ok : bool }.          (* the active slots of the next block are 0 .. bo_active-1 *)

(* [g] all slots (the first [size] are active), [ss] final status of the active steps,
   [u0s]/[uends] identity tokens of levels[0].u[0] and levels[0].uend of the active steps *)
Definition next_block (c : cfg) (size : nat) (g : gstate) (ss : list sstate)
           (u0s uends : list Z) : block_out :=
  let flags := map s_restart ss in
  let dtnews := map s_dtnew ss in
  let times := g_times g in
  let dts := g_dts g in
  let riars := g_riars g in
  let restart_at := match first_true flags with Some j => j | None => size end in
  let '(tok, t0) :=
    match first_true flags with
    | Some j => (nth j u0s (-1)%Z, nth j times (n0 N))
    | None => (nth (size - 1) uends (-1)%Z, nth (size - 1) times (n0 N) +! nth (size - 1) dts (n0 N))
    end in
  let times1 := upd times 0 t0 in
  let riars' := riar_update size flags riars in
  let dts' := spread_update c size flags dtnews times1 dts in
  let times2 := times_update size dts' times1 in
  let thr := c_Tend c -! c_ten_eps c in
  let act := map (fun t => t <! thr) times2 in
  let k := true_prefix act in
  BlockOut restart_at tok (GState times2 dts' riars') k (forallb negb (skipn k act)).

(* ---------------------------------------------------------------- whole runs *)
(* script of one block attempt: the injections of every pass for every slot, and the observed
   identity tokens of u[0] / uend per slot *)
Record attempt := Attempt { a_passes : list (list inj); a_u0s : list Z; a_uends : list Z }.

Inductive outcome := Done (tok : Z) | Raised | OutOfScript | Unsupported.

(* what the recording hook sees of one block attempt *)
Record block_trace := BlockTrace {
  bt_pre : gstate;                            (* active slots at pre_step *)
  bt_post : list sstate;                      (* status of the active steps at post_step *)
  bt_next : Z }.                              (* token the next block starts from *)

Definition active_part (size : nat) (g : gstate) : gstate :=
  GState (firstn size (g_times g)) (firstn size (g_dts g)) (firstn size (g_riars g)).

Fixpoint run_blocks (c : cfg) (script : list attempt) (size : nat) (g : gstate)
  : list block_trace * outcome :=
  match script with
  | [] => ([], OutOfScript)
  | a :: rest =>
      let act := active_part size g in
      match run_passes c (g_riars act) (g_dts act) (map (firstn size) (a_passes a)) (repeat sstate0 size) with
      | None => ([BlockTrace act [] (-1)%Z], Raised)
      | Some ss =>
          let bo := next_block c size g ss (a_u0s a) (a_uends a) in
          let tr := BlockTrace act ss (bo_token bo) in
          if negb (bo_prefix_ok bo) then ([tr], Unsupported)
          else if bo_active bo =? 0 then ([tr], Done (bo_token bo))
          else let '(trs, o) := run_blocks c rest (bo_active bo) (bo_state bo) in (tr :: trs, o)
      end
  end.

(* initial state of run(): time[p] = t0 + sum(MS[j].dt for j < p), every dt = dt_initial, counters 0 *)
(* Python: t0 + sum(dt for j in range(p)), the sum accumulated from the int 0 *)
Fixpoint init_times (t0 : T) (acc : option T) (dt : T) (n : nat) : list T :=
  match n with
  | O => []
  | S n' =>
      match acc with
      | None => t0 :: init_times t0 (Some dt) dt n'
      | Some a => (t0 +! a) :: init_times t0 (Some (a +! dt)) dt n'
      end
  end.

Definition init_state (c : cfg) (t0 : T) (np : nat) : gstate :=
  GState (init_times t0 None (c_dt_initial c) np) (repeat (c_dt_initial c) np) (repeat 0 np).

Definition run (c : cfg) (t0 : T) (np : nat) (script : list attempt) : list block_trace * outcome :=
  let sls := init_state c t0 np in
  let thr := c_Tend c -! c_ten_eps c in
  let act := map (fun t => t <! thr) (g_times sls) in
  let k := true_prefix act in
  if negb (forallb negb (skipn k act)) then ([], Unsupported)
  else if k =? 0 then ([], Unsupported)      (* ControllerError('Nothing to do ...') *)
  else run_blocks c script k sls.

End Model.

(* ---------------------------------------------------------------- avoid_restarts *)
Section AvoidRestarts.
Variable T : Type.
Variable N : num T.

(* AdaptivityBase.determine_restart including its `avoid_restarts` branch, one call:
   (S.status.restart, S.status.force_continue) before -> after.
   [more] = max(L.status.iter_to_convergence), [rho] = max(L.status.contraction_factor), [order] = coll.order *)
Definition adapt_decide (c : cfg T) (avoid : bool) (iter maxiter more order : nat) (e rho : T)
           (restart fc : bool) : bool * bool :=
  if maxiter <=? iter then
    if nleb N (c_e_tol c) e then
      if avoid then
        let k_final := iter + more in
        if nltb N (n1 N) rho then (true, fc)
        else if 2 * maxiter <? k_final then (true, fc)
        else if order <? k_final then (true, fc)
        else (restart, true)
      else (true, fc)
    else (restart, fc)
  else (restart, fc).

(* CheckConvergence.check_convergence for restol < 0, no e_tol on the level:
   (iter_converged or force_done) and not force_continue *)
Definition step_done (iter maxiter : nat) (force_done fc : bool) : bool :=
  ((maxiter <=? iter) || force_done) && negb fc.

End AvoidRestarts.

(* ---------------------------------------------------------------- instances *)
Definition num_float : num float :=
  Num PrimFloat.add PrimFloat.sub PrimFloat.mul PrimFloat.div PrimFloat.ltb PrimFloat.leb PrimFloat.eqb
      PrimFloat.abs (fun n => PrimFloat.of_uint63 (Uint63.of_Z (Z.of_nat n))) PrimFloat.zero PrimFloat.one.

Definition Qltb (a b : Q) : bool := negb (Qle_bool b a).
Definition num_Q : num Q :=
  Num Qplus Qminus Qmult Qdiv Qltb Qle_bool Qeq_bool Qabs (fun n => inject_Z (Z.of_nat n)) 0%Q 1%Q.

Definition num_Z : num Z :=
  Num Z.add Z.sub Z.mul Z.div Z.ltb Z.leb Z.eqb Z.abs Z.of_nat 0%Z 1%Z.

(* exact image of a float for printing: (class, mantissa, exponent) with value = mantissa * 2^exponent;
   class 0 finite, 1 +inf, 2 -inf, 3 nan *)
Definition f2dy (f : float) : list Z :=
  if PrimFloat.is_nan f then [3; 0; 0]%Z
  else if PrimFloat.eqb f PrimFloat.infinity then [1; 0; 0]%Z
  else if PrimFloat.eqb f PrimFloat.neg_infinity then [2; 0; 0]%Z
  else if PrimFloat.eqb f PrimFloat.zero then [0; 0; 0]%Z
  else
    let (m, e) := PrimFloat.frshiftexp f in
    [0; (if PrimFloat.ltb f PrimFloat.zero then -1 else 1) * Uint63.to_Z (PrimFloat.normfr_mantissa m);
     Uint63.to_Z e - 2101 - 53]%Z.

(* encoders used by the generated correspondence files (exact integers only) *)
Definition enc_g (g : gstate float) : list (list Z) * list (list Z) * list Z :=
  (map f2dy (g_times g), map f2dy (g_dts g), map Z.of_nat (g_riars g)).
Definition enc_ss (s : sstate float) : bool * (Z * list Z) :=
  (s_restart s, match s_dtnew s with Some d => (1%Z, f2dy d) | None => (0%Z, [0; 0; 0]%Z) end).
Definition enc_bt (b : block_trace float) := (enc_g (bt_pre b), map enc_ss (bt_post b), bt_next b).
Definition enc_out (o : outcome) : Z * Z :=
  match o with Done t => (0, t) | Raised => (1, 0) | OutOfScript => (2, 0) | Unsupported => (3, 0) end%Z.
Definition run_float (x : cfg float * float * nat * list (attempt float)) :=
  let '(c, t0, np, script) := x in
  let '(trs, o) := run num_float c t0 np script in (map enc_bt trs, enc_out o).
