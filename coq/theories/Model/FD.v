(* C18 — finite-difference stencils and matrices: executable model + validators.
   Mirrors pySDC/helpers/problem_helper.py (get_steps, the periodic branch of
   get_finite_difference_matrix). Proofs live in Proofs/FDProofs.v. *)
From Coq Require Import ZArith QArith List Bool Lia.
From PySDC Require Import Base.Dyadic.
Import ListNotations.
Open Scope Z_scope.

Inductive stencil_type := Center | Forward | Backward | Upwind.

Definition zrange (lo : Z) (n : nat) : list Z := map (fun i => lo + Z.of_nat i) (seq 0 n).

(* number of stencil points, as get_steps computes it *)
Definition steps_n (derivative order : Z) (st : stencil_type) : Z :=
  match st with
  | Center => order + derivative - ((derivative + 1) mod 2)
  | _ => order + derivative
  end.

(* offsets in the order get_steps returns them *)
Definition get_steps (derivative order : Z) (st : stencil_type) : list Z :=
  let n := steps_n derivative order st in
  match st with
  | Center => zrange (- (n / 2)) (Z.to_nat n)
  | Forward => zrange 0 (Z.to_nat n)
  | Backward => map Z.opp (zrange 0 (Z.to_nat n))
  | Upwind =>
      if n <=? 3 then map Z.opp (zrange 0 (Z.to_nat n))
      else zrange (- (n - 2)) (Z.to_nat (n - 1)) ++ [1]
  end.

Fixpoint zfact (n : nat) : Z := match n with O => 1 | S n' => Z.of_nat n * zfact n' end.

(* k-th moment  sum_i w_i * s_i^k  and its absolute version *)
Fixpoint smoment (steps : list Z) (w : list dy) (k : nat) : dy :=
  match steps, w with
  | s :: steps', wi :: w' => dadd (dmul wi (dpow (dZ s) k)) (smoment steps' w' k)
  | _, _ => d0
  end.

Fixpoint smoment_abs (steps : list Z) (w : list dy) (k : nat) : dy :=
  match steps, w with
  | s :: steps', wi :: w' => dadd (dmul (dabs wi) (dpow (dZ (Z.abs s)) k)) (smoment_abs steps' w' k)
  | _, _ => d0
  end.

Definition target (d k : nat) : dy := if Nat.eqb k d then dZ (zfact d) else d0.

(* validator: all n moment conditions hold up to  rtol * sum_i |w_i| |s_i|^k  *)
Definition check_moment (steps : list Z) (w : list dy) (d : nat) (rtol : dy) (k : nat) : bool :=
  dleb (dabs (dsub (smoment steps w k) (target d k))) (dmul rtol (smoment_abs steps w k)).

Definition check_stencil (steps : list Z) (w : list dy) (d : nat) (rtol : dy) : bool :=
  Nat.eqb (length steps) (length w) &&
  forallb (check_moment steps w d rtol) (seq 0 (length steps)).

(* index of the first failing moment (for diagnostics) *)
Definition first_bad_moment (steps : list Z) (w : list dy) (d : nat) (rtol : dy) : option nat :=
  find (fun k => negb (check_moment steps w d rtol k)) (seq 0 (length steps)).

(* ---------------- Neumann boundary rows ----------------------------------------------------- *)
(* A Neumann row of get_finite_difference_matrix acts on interior samples AND on the prescribed boundary derivative
   (through the boundary vector b):  L(p) = sum_i w_i p(x + s_i h) + c * h * p'(x + g h).
   Its k-th moment (p = ((y-x)/h)^k) is  sum_i w_i s_i^k + c * k * g^(k-1). *)
Definition dmoment (g : Z) (k : nat) : dy :=
  match k with O => d0 | S k' => dmul (dZ (Z.of_nat k)) (dpow (dZ g) k') end.
Definition nmoment (steps : list Z) (w : list dy) (c : dy) (g : Z) (k : nat) : dy :=
  dadd (smoment steps w k) (dmul c (dmoment g k)).
Definition nmoment_abs (steps : list Z) (w : list dy) (c : dy) (g : Z) (k : nat) : dy :=
  dadd (smoment_abs steps w k) (dmul (dabs c) (dmoment (Z.abs g) k)).
Definition check_nmoment (steps : list Z) (w : list dy) (c : dy) (g : Z) (d : nat) (rtol : dy) (k : nat) : bool :=
  dleb (dabs (dsub (nmoment steps w c g k) (target d k))) (dmul rtol (nmoment_abs steps w c g k)).
(* n = number of polynomial coefficients (degree + 1) up to which exactness is claimed *)
Definition check_neumann_row (steps : list Z) (w : list dy) (c : dy) (g : Z) (d : nat) (rtol : dy) (n : nat) : bool :=
  Nat.eqb (length steps) (length w) && forallb (check_nmoment steps w c g d rtol) (seq 0 n).

(* ---------------- periodic matrix, as the source builds it --------------------------------- *)

(* entry (r, c) of  coeff * eye(size, k)  *)
Definition eye_entry (size k r c : Z) : bool := (c =? r + k) && (0 <=? c) && (c <? size).

Definition periodic_entry_1 (size r c s : Z) (wi : dy) : dy :=
  let a := if eye_entry size s r c then wi else d0 in
  let b := if (0 <? s) && eye_entry size (- size + s) r c then wi else d0 in
  let c' := if (s <? 0) && eye_entry size (size + s) r c then wi else d0 in
  dadd (dadd a b) c'.

Fixpoint periodic_entry (size r c : Z) (steps : list Z) (w : list dy) : dy :=
  match steps, w with
  | s :: steps', wi :: w' => dadd (periodic_entry_1 size r c s wi) (periodic_entry size r c steps' w')
  | _, _ => d0
  end.

Definition periodic_matrix (size : nat) (steps : list Z) (w : list dy) : list (list dy) :=
  map (fun r => map (fun c => periodic_entry (Z.of_nat size) r c steps w) (zrange 0 size)) (zrange 0 size).

(* the pattern the property promises: weight i sits in column (r + s_i) mod size *)
Fixpoint wrap_entry (size r c : Z) (steps : list Z) (w : list dy) : dy :=
  match steps, w with
  | s :: steps', wi :: w' =>
      dadd (if (r + s) mod size =? c then wi else d0) (wrap_entry size r c steps' w')
  | _, _ => d0
  end.

Definition steps_small (size : Z) (steps : list Z) : bool :=
  forallb (fun s => Z.abs s <? size) steps.

(* exact comparison of an implementation matrix with the model (canonical: by value) *)
Definition mat_eqb (A B : list (list dy)) : bool :=
  Nat.eqb (length A) (length B) &&
  forallb (fun p => Nat.eqb (length (fst p)) (length (snd p)) &&
                    forallb (fun q => deqb (fst q) (snd q)) (combine (fst p) (snd p)))
          (combine A B).

(* interior/non-periodic band, as sp.diags(coeff, steps) builds it *)
Fixpoint band_entry (r c : Z) (steps : list Z) (w : list dy) : dy :=
  match steps, w with
  | s :: steps', wi :: w' => dadd (if c =? r + s then wi else d0) (band_entry r c steps' w')
  | _, _ => d0
  end.
