(* Executable Qc instance of Model/Block.v for the correspondence check: ONE iteration of the real controller_nonMPI on a
   block of P time-parallel steps with L levels (exact rational run) against the schedule pfasst_iteration, kernel-evaluated. *)
From Coq Require Import List Arith Bool ZArith QArith Qcanon.
From PySDC Require Import Model.Sweep Model.SweepExec Model.Transfer Model.TransferExec Model.MultiLevel Model.MultiLevelExec Model.Block.
Import ListNotations.
Local Open Scope Qc_scope.

Record bcase := {
  b_t0 : Qc; b_dt : Qc; b_imex : bool; b_jacobi : bool;
  b_mode : nat;                                 (* 0: one iteration from the pre_iteration state; 1 / 2: the fine_only / pfasst_burnin predictor from the pre_predict
                                                   state; 3: two iterations (state carried between iterations) *)
  b_levels : list mlevel;                       (* level 0 first; ml_pre / ml_post unused, ml_pre = nsweeps of the level *)
  b_xfers : list mxfer;                         (* transfer l <-> l+1 *)
  b_ends : list (bool * bool * list Qc);        (* per level: right_is_node, do_coll_update, weights (index 0 unused) *)
  b_u : list (list (list Qc));                  (* [step][node 0..M][comp] fine values at pre_iteration (after IT_CHECK's communication) *)
  b_f : list (list (list (list Qc)));           (* [step][node][part][comp] *)
}.

Definition dummy_level : mlevel :=
  {| ml_M := 0; ml_dt := 0; ml_nodes := []; ml_Q := []; ml_QI := []; ml_QE := [];
     ml_prob := {| p_dim := 0; p_lam := []; p_mu := []; p_c := [] |}; ml_pre := 0; ml_post := 0 |}.
Definition dummy_xfer : mxfer :=
  {| mx_df := 0; mx_dc := 0; mx_Rs := []; mx_Ps := []; mx_Rcoll := []; mx_Pcoll := []; mx_finter := false |}.

Section BRun.
  Variable C : bcase.
  Let P := length (b_u C).
  Let L := length (b_levels C).
  Let lev := fun l => level_of (nth l (b_levels C) dummy_level).
  Let xf := fun l => xfer_of (nth l (b_xfers C) dummy_xfer).
  Let tstart := fun p : nat => b_t0 C + Q2Qc (inject_Z (Z.of_nat p)) * b_dt C.
  Let nsw := fun l => ml_pre (nth l (b_levels C) dummy_level).
  Let lend := fun l => let '(r, d, w) := nth l (b_ends C) (true, false, []) in {| erin := r; edcu := d; ew := nthq w |}.
  Let init : @bstate Qc nat :=
    fun p l => match l with
               | O => {| su := nodevec_of (nth p (b_u C) []); sf := fun m q => nthq (nth q (nth m (nth p (b_f C) []) []) []);
                         stau := fun _ => None; suold := fun _ _ => 0; sfold := fun _ _ _ => 0;
                         suend := fun _ => 0; ssent := false; svalid := Nat.ltb p P |}
               | S _ => {| su := fun _ _ => 0; sf := fun _ _ _ => 0; stau := fun _ => None; suold := fun _ _ => 0;
                           sfold := fun _ _ _ => 0; suend := fun _ => 0; ssent := false; svalid := false |}
               end.

  (* the stages of one iteration after IT_CHECK, followed by the communication of the next IT_CHECK (where post_iteration is
     observed) *)
  Definition b_ops : list (@op) :=
    match b_mode C with
    | 0%nat => iteration_body P L nsw (b_jacobi C) ++ it_check_ops P
    | 1%nat => predict_ops P L PredFineOnly
    | 2%nat => predict_ops P L PredBurnIn
    | _ => repeat_ops 2 (iteration_body P L nsw (b_jacobi C) ++ it_check_ops P)      (* two iterations *)
    end.

  Definition b_run : list Qc :=
    let B := run_ops 0 Qcplus Qcmult Qcminus Qc_eqb (b_imex C) lev xf tstart lend b_ops init in
    let L0 := nth 0 (b_levels C) dummy_level in
    let d := p_dim (ml_prob L0) in
    let npp := if b_imex C then 2%nat else 1%nat in
    flat_map (fun p => flat_map (fun m => compsd d (su (B p 0%nat) m)) (seq 0 (S (ml_M L0)))
                       ++ flat_map (fun m => flat_map (fun q => compsd d (sf (B p 0%nat) m q)) (seq 0 npp)) (seq 1 (ml_M L0)))
             (seq 0 P)
    (* validity flags of every (step, level): 1 = the entry was produced from valid data only *)
    ++ flat_map (fun p => map (fun l => if svalid (B p l) then 1 else 0) (seq 0 L)) (seq 0 P).
End BRun.

Definition check_bcase (ce : bcase * list Qc) : Z :=
  match first_diff 0 (b_run (fst ce)) (snd ce) with None => (-1)%Z | Some i => Z.of_nat i end.
