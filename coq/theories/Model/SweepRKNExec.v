(* Executable instance of Model/SweepRKN.v over Qc with X := nat, used by the correspondence check
   (harness/c02_rkn.py): the REAL RungeKuttaNystrom classes run on the real particles / fields /
   acceleration data types holding fractions.Fraction entries, on the problem family
       eval_f(u,t):   elec_x = u.q_x*(lamE[x]*pos_x + kE[x]*vel_x) + u.m_x*cE[x]*t ,   magn_x = bB[x] + cB[x]*t
       build_f(f,u,t): acc_x = (u.q_x/u.m_x)*(f.elec_x + g[x]*u.vel_x*f.magn_x) + d[x]*t
       boris_solver(c,dt,fo,fn,u0): vel_x = u0.vel_x + (u0.q_x/u0.m_x)*dt*(fo.elec_x/4 + 3*fn.elec_x/4) + c_x
                                            + s[x]*dt*u0.vel_x*(fo.magn_x - 2*fn.magn_x) + r[x]*dt*u0.pos_x
   (deliberately sensitive to every argument — including the charge q and mass m the particle OBJECT handed over
   carries —, to both times the sweeper passes and to the order of the field arguments), and the kernel compares
   every observable exactly. *)
From Coq Require Import List Arith Bool ZArith QArith Qcanon.
From PySDC Require Import Model.Sweep Model.SweepExec Model.SweepRKN.
Import ListNotations.
Local Open Scope Qc_scope.

Record qfld := { elec : nat -> Qc; magn : nat -> Qc }.
Record qattr := { aq : nat -> Qc; am : nat -> Qc }.       (* particles.q, particles.m *)

Record rkncase := {
  k_M : nat; k_dt : Qc; k_t0 : Qc;
  k_nodes : list Qc;                        (* coll.nodes, indices 0..M *)
  k_QI : list (list Qc); k_Qx : list (list Qc);
  k_impl : bool;
  k_dim : nat;
  k_lamE : list Qc; k_kE : list Qc; k_cE : list Qc; k_bB : list Qc; k_cB : list Qc;
  k_g : list Qc; k_d : list Qc; k_s : list Qc; k_r : list Qc;
  k_p : list (list Qc); k_v : list (list Qc);      (* positions / velocities of nodes 0..M *)
  k_q : list (list Qc); k_m : list (list Qc);      (* charges / masses of the particle objects in nodes 0..M *)
  k_fe : list (list Qc); k_fm : list (list Qc);    (* fields of nodes 0..M *)
}.

Section RunRKN.
  Variable C : rkncase.
  Let d := k_dim C.
  Definition rkn_feval (a : qattr) (p v : nat -> Qc) (t : Qc) : qfld :=
    {| elec := memo d (fun x => aq a x * (nthq (k_lamE C) x * p x + nthq (k_kE C) x * v x) + am a x * nthq (k_cE C) x * t);
       magn := memo d (fun x => nthq (k_bB C) x + nthq (k_cB C) x * t) |}.
  Definition rkn_build_f (f : qfld) (a : qattr) (p v : nat -> Qc) (t : Qc) : nat -> Qc :=
    memo d (fun x => (aq a x / am a x) * (elec f x + nthq (k_g C) x * v x * magn f x) + nthq (k_d C) x * t).
  Definition rkn_boris (c : nat -> Qc) (dt : Qc) (fo fn : qfld) (a : qattr) (p0 v0 : nat -> Qc) : nat -> Qc :=
    memo d (fun x => v0 x + (aq a x / am a x) * dt * (elec fo x * q 1 4 + elec fn x * q 3 4) + c x
                     + nthq (k_s C) x * dt * v0 x * (magn fo x - q 2 1 * magn fn x) + nthq (k_r C) x * dt * p0 x).

  Definition run_rkn_state : @rkn_st Qc nat qfld qattr :=
    rkn_update 0 Qcplus Qcmult (k_M C) (k_dt C) (k_t0 C) (nthq (k_nodes C)) (mat (k_QI C)) (mat (k_Qx C)) (k_impl C)
               rkn_feval rkn_build_f rkn_boris
               {| ra := fun m => {| aq := nodevec_of (k_q C) m; am := nodevec_of (k_m C) m |};
                  rp := nodevec_of (k_p C); rv := nodevec_of (k_v C);
                  rf := fun m => {| elec := nodevec_of (k_fe C) m; magn := nodevec_of (k_fm C) m |} |}.

  (* observables: new positions [1..M], velocities [1..M], charges and masses [0..M], fields [0..M] (elec, magn), uend (pos, vel, q, m) *)
  Definition run_rkn : list Qc :=
    let r := run_rkn_state in
    let cs := fun (v : nat -> Qc) => map v (seq 0 d) in
    let e := rkn_end_point (k_M C) r in
    let ea := rkn_end_attr (k_M C) r in
    flat_map (fun m => cs (rp r m)) (seq 1 (k_M C)) ++ flat_map (fun m => cs (rv r m)) (seq 1 (k_M C))
    ++ flat_map (fun m => cs (aq (ra r m)) ++ cs (am (ra r m))) (seq 0 (S (k_M C)))
    ++ flat_map (fun m => cs (elec (rf r m)) ++ cs (magn (rf r m))) (seq 0 (S (k_M C)))
    ++ cs (fst e) ++ cs (snd e) ++ cs (aq ea) ++ cs (am ea).
End RunRKN.

Definition check_rkn_case (ce : rkncase * list Qc) : Z :=
  match first_diff 0 (run_rkn (fst ce)) (snd ce) with None => (-1)%Z | Some i => Z.of_nat i end.
