(* Executable instance of Model/SweepDAE.v over Qc, used by the exact correspondence check
   harness/c02_dae.py: the real FullyImplicitDAE / SemiImplicitDAE / RungeKuttaDAE classes are run under
   fractions.Fraction on the same data and the kernel compares every observable exactly.

   Problem family: dense linear DAE in implicit form on n = 2*nv unknowns (MeshDAE has shape (2, nv): the nv
   differential components first, then the nv algebraic ones)
        F(u, du, t)_i = sum_j A[i][j] u_j + sum_j B[i][j] du_j + c_i t + d_i .
   Solver: the system handed over by the sweeper is affine; the solver PROBES it (at 0 and at the unit
   vectors), assembles the Jacobian and solves by Gauss-Jordan elimination over Qc — exactly what the exact
   problem class of the harness does in Fractions; a nonsingular system has one root, so both agree iff
   the model hands over the same function as the real sweeper. *)
From Coq Require Import List Arith Bool ZArith QArith Qcanon.
From PySDC Require Import Model.Sweep Model.SweepDAE Model.SweepExec.
Import ListNotations.
Local Open Scope Qc_scope.

Record dprob := {
  d_n : nat;
  d_A : list (list Qc);
  d_B : list (list Qc);
  d_c : list Qc;
  d_d : list Qc;
}.

Definition dotl (r v : list Qc) : Qc := fold_left (fun s ab => s + fst ab * snd ab) (combine r v) 0.

Definition evalF_flat (P : dprob) (u du : nat -> Qc) (t : Qc) : nat -> Qc :=
  let n := d_n P in
  let ul := map u (seq 0 n) in
  let dl := map du (seq 0 n) in
  let res := map (fun i => dotl (nth i (d_A P) []) ul + dotl (nth i (d_B P) []) dl + nthq (d_c P) i * t + nthq (d_d P) i)
                 (seq 0 n) in
  fun x => nth x res 0.

(* ---------------------------------------------------------------- exact affine solver *)
Definition row_sub (r p : list Qc) (c : Qc) : list Qc := map (fun ab => fst ab - c * snd ab) (combine r p).

Fixpoint find_pivot (k : nat) (rows : list (list Qc)) : option (list Qc * list (list Qc)) :=
  match rows with
  | [] => None
  | r :: rs =>
      if Qc_eqb (nthq r k) 0
      then match find_pivot k rs with Some (p, rest) => Some (p, r :: rest) | None => None end
      else Some (r, rs)
  end.

Fixpoint gauss_steps (ks : list nat) (done todo : list (list Qc)) : option (list (list Qc)) :=
  match ks with
  | [] => Some done
  | k :: ks' =>
      match find_pivot k todo with
      | None => None
      | Some (p, rest) =>
          let pk := nthq p k in
          let p' := map (fun a => a / pk) p in
          let elim := fun r => row_sub r p' (nthq r k) in
          gauss_steps ks' (map elim done ++ [p']) (map elim rest)
      end
  end.

(* rows: n rows of length n+1 (augmented); result: the solution vector *)
Definition gauss (n : nat) (rows : list (list Qc)) : option (list Qc) :=
  option_map (map (fun r => nthq r n)) (gauss_steps (seq 0 n) [] rows).

Definition affine_solve (n : nat) (sys : (nat -> Qc) -> (nat -> Qc)) : nat -> Qc :=
  let b := map (sys (fun _ => 0)) (seq 0 n) in
  let cols := map (fun j => map (sys (fun x => if Nat.eqb x j then 1 else 0)) (seq 0 n)) (seq 0 n) in
  let rows := map (fun i => map (fun cj => nthq cj i - nthq b i) cols ++ [ - nthq b i ]) (seq 0 n) in
  match gauss n rows with
  | Some w => fun x => nth x w 0
  | None => fun _ => 0
  end.

(* probe = false: the exact solver.  probe = true: a "solver" that violates the contract on purpose and returns
     sys(guess) + 2*guess + 3*u_approx + factor + 7*t
   so that EVERY argument of every solve_system call (in particular the initial guess, which an exact solver
   ignores) shows up in the observables; the model is generic in `solve`, so the correspondence must hold. *)
Definition solve_flat (probe : bool) (n : nat) (sys : (nat -> Qc) -> (nat -> Qc)) (ua : nat -> Qc) (a : Qc) (g : nat -> Qc) (t : Qc)
  : nat -> Qc :=
  if probe then let sg := sys g in memo n (fun x => sg x + q 2 1 * g x + q 3 1 * ua x + a + q 7 1 * t)
  else affine_solve n sys.

(* meshes (diff, alg) <-> flat vectors *)
Definition dmesh := ((nat -> Qc) * (nat -> Qc))%type.
Definition flat (nv : nat) (v : dmesh) : nat -> Qc := fun x => if Nat.ltb x nv then fst v x else snd v (x - nv)%nat.
Definition unflat (nv : nat) (w : nat -> Qc) : dmesh := (fun i => w i, fun i => w (nv + i)%nat).

Definition evalF_mesh (P : dprob) (nv : nat) (u du : dmesh) (t : Qc) : dmesh :=
  unflat nv (evalF_flat P (flat nv u) (flat nv du) t).
Definition solve_mesh (probe : bool) (nv : nat) (sys : dmesh -> dmesh) (ua : dmesh) (a : Qc) (g : dmesh) (t : Qc) : dmesh :=
  unflat nv (solve_flat probe (2 * nv) (fun w => flat nv (sys (unflat nv w))) (flat nv ua) a (memo (2 * nv) (flat nv g)) t).

(* norms: abs() of the data type = max-norm; max() of Python *)
Definition qabs (x : Qc) : Qc := if Qle_bool 0 x then x else - x.
Definition qmax (a b : Qc) : Qc := if Qle_bool a b then b else a.
Definition norm_flat (n : nat) (v : nat -> Qc) : Qc := maxl 0 qmax (map (fun x => qabs (v x)) (seq 0 n)).

Inductive dkind := KFI | KSI | KRK.

Record dcase := {
  dc_kind : dkind;
  dc_M : nat;
  dc_nv : nat;                        (* components per part; n = 2*nv *)
  dc_dt : Qc; dc_t0 : Qc;
  dc_nodes : list Qc;                 (* index m = time node of node/stage m (index 0 unused) *)
  dc_Q : list (list Qc);              (* coll.Qmat, (M+1) x (M+1) *)
  dc_QI : list (list Qc);             (* sweeper.QI *)
  dc_w : list Qc;                     (* coll.weights, index 0 unused *)
  dc_prob : dprob;
  dc_u : list (list Qc);              (* nodes 0..M, flat *)
  dc_f : list (list Qc);              (* derivatives, nodes 0..M, flat *)
  dc_rin : bool; dc_dcu : bool;
  dc_rt : restype; dc_skip : bool; dc_oldres : option Qc;
  dc_spread : bool;
  dc_probe : bool;                    (* which solver, see solve_flat *)
}.

Section RunDAE.
  Variable C : dcase.
  Let M := dc_M C.
  Let nv := dc_nv C.
  Let n := (2 * nv)%nat.
  Let P := dc_prob C.
  Let dt := dc_dt C.
  Let t0 := dc_t0 C.
  Let nd := nthq (dc_nodes C).
  Let Qm := mat (dc_Q C).
  Let QIm := mat (dc_QI C).
  Let u : nat -> nat -> Qc := nodevec_of (dc_u C).
  Let f : nat -> nat -> Qc := nodevec_of (dc_f C).
  Let um : nat -> dmesh := fun m => unflat nv (u m).
  Let fm : nat -> dmesh := fun m => unflat nv (f m).

  Definition dcomps (v : nat -> Qc) : list Qc := map v (seq 0 n).
  Definition mcomps (v : dmesh) : list Qc := dcomps (flat nv v).
  Definition oq (o : option Qc) : list Qc := match o with Some x => [x] | None => [] end.

  (* observables, flattened in a fixed order:
       integrate(old)[1..M], u_new[1..M], f_new[1..M], residual vectors(new)[1..M], status.residual,
       uend (absent when compute_end_point raises), predict: u[1..M], f[0..M] *)
  Definition run_fi : list Qc :=
    let ev := evalF_flat P in
    let '(un, fn) := fi_update 0 Qcplus Qcmult Qcminus M dt t0 nd Qm QIm ev (solve_flat (dc_probe C) n) u f in
    let ints := flat_map (fun m => dcomps (dae_integrate 0 Qcplus Qcmult M dt Qm f m)) (seq 1 M) in
    let us := flat_map (fun m => dcomps (un m)) (seq 1 M) in
    let fs := flat_map (fun m => dcomps (fn m)) (seq 1 M) in
    let res := flat_map (fun m => dcomps (dae_residual_vec Qcplus Qcmult dt t0 nd ev un fn m)) (seq 1 M) in
    let st := dae_residual Qcplus Qcmult M dt t0 nd ev 0 qmax Qcdiv (norm_flat n) (dc_rt C) (dc_skip C) (dc_oldres C) un fn in
    let ue := match dae_end_point 0 Qcplus Qcmult M dt (nthq (dc_w C)) (dc_rin C) (dc_dcu C) un fn (fun _ => None) with
              | Some e => dcomps e | None => [] end in
    let '(up, fp) := fi_predict 0 M (dc_spread C) u f in
    ints ++ us ++ fs ++ res ++ [st] ++ ue
    ++ flat_map (fun m => dcomps (up m)) (seq 1 M) ++ flat_map (fun m => dcomps (fp m)) (seq 0 (S M)).

  Definition run_si : list Qc :=
    let ev := evalF_mesh P nv in
    let '(un, fn) := si_update 0 Qcplus Qcmult Qcminus M dt t0 nd Qm QIm ev (solve_mesh (dc_probe C) nv) um fm in
    let ints := flat_map (fun m => mcomps (si_integrate 0 Qcplus Qcmult M dt Qm fm m)) (seq 1 M) in
    let us := flat_map (fun m => mcomps (un m)) (seq 1 M) in
    let fs := flat_map (fun m => mcomps (fn m)) (seq 1 M) in
    let res := flat_map (fun m => mcomps (si_residual_vec Qcplus Qcmult dt t0 nd ev un fn m)) (seq 1 M) in
    let st := si_residual Qcplus Qcmult M dt t0 nd ev 0 qmax Qcdiv (fun v => norm_flat n (flat nv v))
                          (dc_rt C) (dc_skip C) (dc_oldres C) un fn in
    let ue := if negb (dc_rin C) || dc_dcu C then [] else mcomps (un M) in
    let '(up, fp) := si_predict 0 M (dc_spread C) um fm in
    ints ++ us ++ fs ++ res ++ [st] ++ ue
    ++ flat_map (fun m => mcomps (up m)) (seq 1 M) ++ flat_map (fun m => mcomps (fp m)) (seq 0 (S M)).

  (* RungeKuttaDAE: integrate(old), stage values, stage derivatives *)
  Definition run_rk : list Qc :=
    let ev := evalF_flat P in
    let '(un, kn) := rkdae_update 0 Qcplus Qcmult M dt t0 nd Qm QIm ev (solve_flat (dc_probe C) n) u f in
    flat_map (fun m => dcomps (dae_integrate 0 Qcplus Qcmult M dt Qm f m)) (seq 1 M)
    ++ flat_map (fun m => dcomps (un m)) (seq 1 M) ++ flat_map (fun m => dcomps (kn m)) (seq 1 M).

  Definition run_dae : list Qc :=
    match dc_kind C with KFI => run_fi | KSI => run_si | KRK => run_rk end.
End RunDAE.

(* -1 = agree; otherwise index of the first differing observable *)
Definition check_dae_case (ce : dcase * list Qc) : Z :=
  match first_diff 0 (run_dae (fst ce)) (snd ce) with None => (-1)%Z | Some i => Z.of_nat i end.
