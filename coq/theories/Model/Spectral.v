(* C17 — spectral helper matrices: executable model.
   Mirrors pySDC/helpers/spectral_helper.py:
     ChebychevHelper   : get_differentiation_matrix, get_conv (T2U, U2T, D2T, T2D), get_integration_matrix,
                         get_integration_weights, get_integ_BC_row, get_Dirichlet_BC_row, get_Neumann_BC_row, get_norm
     UltrasphericalHelper : get_differentiation_matrix, get_S, get_basis_change_matrix (forward), get_integration_matrix,
                         get_integration_constant
     FFTHelper         : get_wavenumbers (fftfreq ordering), get_differentiation_matrix, get_integration_matrix,
                         get_integration_weights / get_integ_BC_row, get_Nyquist_mode_index
     SpectralHelper    : expand_matrix_ND (Kronecker products with identities)
   Matrices are entry functions nat -> nat -> Q (row, column), tabulated to lists for comparison with the
   matrices extracted from the live code.  Polynomials are coefficient lists over Q (lowest degree first;
   evaluation is Base.Poly.peval).  Proofs live in Proofs/SpectralProofs.v. *)
From Coq Require Import ZArith QArith Qabs List Bool Lia.
From PySDC Require Import Base.Dyadic Base.Poly.
Import ListNotations.
Open Scope Q_scope.

(* ------------------------------------------------------------------ numbers, sums *)

Definition Qn (n : nat) : Q := inject_Z (Z.of_nat n).

(* sum_{m < n} f m *)
Fixpoint bigsum (f : nat -> Q) (n : nat) : Q :=
  match n with O => 0 | S n' => bigsum f n' + f n' end.

Definition sgn (n : nat) : Q := if Nat.even n then 1 else -(1).     (* (-1)^n *)

Fixpoint Qpown (a : Q) (n : nat) : Q := match n with O => 1 | S n' => a * Qpown a n' end.

Fixpoint factQ (n : nat) : Q := match n with O => 1 | S n' => Qn n * factQ n' end.

(* ------------------------------------------------------------------ polynomials (coefficient lists) *)

Definition coef (p : list Q) (n : nat) : Q := nth n p 0.

Fixpoint padd (p q : list Q) : list Q :=
  match p, q with
  | [], _ => q
  | _, [] => p
  | a :: p', b :: q' => (a + b) :: padd p' q'
  end.
Definition pscale (a : Q) (p : list Q) : list Q := map (Qmult a) p.
Definition pX (p : list Q) : list Q := 0 :: p.
Definition psub (p q : list Q) : list Q := padd p (pscale (-(1)) q).

(* formal derivative: coefficient m of p' is (m+1) p_{m+1} *)
Fixpoint pderiv_from (k : nat) (p : list Q) : list Q :=
  match p with [] => [] | a :: p' => (Qn k * a) :: pderiv_from (S k) p' end.
Definition pderiv (p : list Q) : list Q := match p with [] => [] | _ :: p' => pderiv_from 1 p' end.

(* formal antiderivative with zero constant term *)
Fixpoint pint_from (k : nat) (p : list Q) : list Q :=
  match p with [] => [] | a :: p' => (a / Qn k) :: pint_from (S k) p' end.
Definition pint (p : list Q) : list Q := 0 :: pint_from 1 p.

Definition peq (p q : list Q) : Prop := forall n, coef p n == coef q n.

(* sum_{j<n} c_j * basis_j  as a polynomial *)
Fixpoint pseries (basis : nat -> list Q) (c : nat -> Q) (n : nat) : list Q :=
  match n with O => [] | S n' => padd (pseries basis c n') (pscale (c n') (basis n')) end.

(* affine substitution p(a X + b): the interval map  x = (y - off) / fac  is  a = 1/fac, b = -off/fac *)
Definition plin (a b : Q) (q : list Q) : list Q := padd (pscale a (pX q)) (pscale b q).     (* (a X + b) q *)
Fixpoint linpow (a b : Q) (j : nat) : list Q := match j with O => [1] | S j' => plin a b (linpow a b j') end.
Definition pcomp_aff (a b : Q) (p : list Q) : list Q := pseries (linpow a b) (coef p) (length p).   (* p(a X + b) *)


(* ------------------------------------------------------------------ Chebyshev / Gegenbauer polynomials *)

(* (P_n, P_{n+1}) for the three-term recurrence  P_{n+2} = 2 x P_{n+1} - P_n  *)
Fixpoint cheb_pair (p0 p1 : list Q) (n : nat) : list Q * list Q :=
  match n with
  | O => (p0, p1)
  | S n' => let '(a, b) := cheb_pair p0 p1 n' in (b, psub (pscale 2 (pX b)) a)
  end.
Definition chebT (n : nat) : list Q := fst (cheb_pair [1] [0; 1] n).
Definition chebU (n : nat) : list Q := fst (cheb_pair [1] [0; 2] n).

(* Gegenbauer C^(lam)_n :  (n+2) C_{n+2} = 2 (n+1+lam) x C_{n+1} - (n+2 lam) C_n,  C_0 = 1, C_1 = 2 lam x
   (coefficients kept in lowest terms: Qred is the identity up to Qeq) *)
Fixpoint geg_pair (lam : nat) (n : nat) : list Q * list Q :=
  match n with
  | O => ([1], [0; 2 * Qn lam])
  | S n' => let '(a, b) := geg_pair lam n' in
            (b, map Qred (pscale (1 / Qn (n' + 2))
                  (psub (pscale (2 * Qn (n' + 1 + lam)) (pX b)) (pscale (Qn (n' + 2 * lam)) a))))
  end.
Definition geg (lam n : nat) : list Q := fst (geg_pair lam n).

(* evaluation through the recurrence (used for grids: x is the exact image of a float) *)
Fixpoint chebT_vals_aux (x a b : Q) (n : nat) : list Q :=
  match n with O => [] | S n' => a :: chebT_vals_aux x b (2 * x * b - a) n' end.
Definition chebT_vals (x : Q) (n : nat) : list Q := chebT_vals_aux x 1 x n.   (* [T_0 x; ...; T_{n-1} x] *)

(* ------------------------------------------------------------------ matrices *)

Definition mat := nat -> nat -> Q.

Definition tab (N : nat) (M : mat) : list (list Q) :=
  map (fun k => map (fun j => M k j) (seq 0 N)) (seq 0 N).
Definition tabv (N : nat) (v : nat -> Q) : list Q := map v (seq 0 N).

Definition mI : mat := fun k j => if Nat.eqb k j then 1 else 0.
Definition mmul (N : nat) (A B : mat) : mat := fun k j => bigsum (fun m => A k m * B m j) N.
Fixpoint mpow (N : nat) (A : mat) (p : nat) : mat :=
  match p with O => mI | S p' => mmul N A (mpow N A p') end.
(* evaluation-friendly variants: list-of-rows products that skip zero terms and reduce fractions
   (entrywise Qeq-equal to the pure versions: SpectralProofs.lmul_correct) *)
Definition qadd_fast (a b : Q) : Q :=
  if (Qnum b =? 0)%Z then a else if (Qnum a =? 0)%Z then b else Qred (a + b).
Fixpoint vaxpy (a : Q) (x y : list Q) : list Q :=       (* y + a x *)
  match x, y with
  | xi :: x', yi :: y' => (if (Qnum xi =? 0)%Z then yi else qadd_fast yi (a * xi)) :: vaxpy a x' y'
  | _, _ => y
  end.
Definition lrow (N : nat) (arow : nat -> Q) (B : list (list Q)) : list Q :=
  fold_left (fun acc mb => let a := arow (fst mb) in if (Qnum a =? 0)%Z then acc else vaxpy a (snd mb) acc)
            (combine (seq 0 N) B) (repeat 0 N).
Definition lmul (N : nat) (A : mat) (B : list (list Q)) : list (list Q) := map (fun k => lrow N (A k) B) (seq 0 N).
Fixpoint lpow (N : nat) (A : mat) (p : nat) : list (list Q) :=
  match p with O => tab N mI | S p' => lmul N A (lpow N A p') end.
Definition tget (t : list (list Q)) : mat := fun k j => nth j (nth k t []) 0.
Definition mscale (a : Q) (A : mat) : mat := fun k j => a * A k j.
Definition mv (N : nat) (M : mat) (c : nat -> Q) : nat -> Q := fun k => bigsum (fun j => M k j * c j) N.

(* ---- ChebychevHelper ---- *)

(* get_differentiation_matrix:  D[k, j] = 2 j ((j - k) % 2) for k < j;  D[0, :] /= 2 *)
Definition DT : mat := fun k j =>
  if (k <? j)%nat && Nat.odd (j - k) then (if Nat.eqb k 0 then Qn j else 2 * Qn j) else 0.
(* csc_matrix(matrix_power(D, p)) / lin_trf_fac ** p *)
Definition DTp (N : nat) (fac : Q) (p : nat) : mat := fun k j => mpow N DT p k j / Qpown fac p.
Definition DTp_tab (N : nat) (fac : Q) (p : nat) : list (list Q) :=
  let s := / Qpown fac p in map (map (fun q => q * s)) (lpow N DT p).

(* get_conv('T2U'): (eye(N) - eye(N, k=2)) / 2 with column 0 doubled *)
Definition T2U : mat := fun k j =>
  if Nat.eqb k j then (if Nat.eqb k 0 then 1 else 1 # 2)
  else if Nat.eqb (k + 2) j then -(1 # 2) else 0.
(* its inverse in closed form *)
Definition U2T : mat := fun k j =>
  if (k <=? j)%nat && Nat.even (j - k) then (if Nat.eqb k 0 then 1 else 2) else 0.
(* get_conv('D2T') = get_Dirichlet_recombination_matrix: eye(N) - eye(N, k=2);  inverse T2D *)
Definition D2T : mat := fun k j =>
  if Nat.eqb k j then 1 else if Nat.eqb (k + 2) j then -(1) else 0.
Definition T2D : mat := fun k j => if (k <=? j)%nat && Nat.even (j - k) then 1 else 0.

(* get_integration_matrix(lbnd=0):  S = diags(1/(n+1), -1) @ T2U,  then
   S[0, 1::2] = (n / (2 (n+1)))[1::2] * (-1)^m / append([1], arange(N//2 - 1) + 1) * lin_trf_fac   (j = 2m+1) *)
Definition ST (fac : Q) : mat := fun k j =>
  match k with
  | O => if Nat.odd j
         then let m := (j / 2)%nat in
              Qn j / (2 * Qn (j + 1)) * sgn m / (if Nat.eqb m 0 then 1 else Qn m) * fac
         else 0
  | S k' => T2U k' j / Qn k
  end.

(* get_integration_weights:  ((-1)^n + 1), [2:] /= 1 - n^2, all /= 2 / L *)
Definition wT (L : Q) : nat -> Q := fun n =>
  (sgn n + 1) / (if (n <? 2)%nat then 1 else 1 - Qn n * Qn n) / (2 / L).

(* get_integ_BC_row *)
Definition integ_row : nat -> Q := fun n =>
  match n with O => 2 | S O => 0 | _ => (sgn n + 1) / (1 - Qn n * Qn n) end.

(* get_Dirichlet_BC_row(x), x in {-1, 0, 1} (reference coordinates) *)
Inductive bpt := Bm1 | B0 | Bp1.
Definition bpt_Q (b : bpt) : Q := match b with Bm1 => -(1) | B0 => 0 | Bp1 => 1 end.
Definition dir_row (b : bpt) : nat -> Q := fun n =>
  match b with
  | Bm1 => sgn n
  | Bp1 => 1
  | B0 => if Nat.even n then sgn (n / 2) else 0
  end.
(* get_Neumann_BC_row(x), x in {-1, 1} *)
Definition neu_row (b : bpt) : nat -> Q := fun n =>
  match b with
  | Bm1 => match n with O => 0 | S n' => Qn n * Qn n * sgn n' end
  | _ => Qn n * Qn n
  end.

(* get_norm *)
Definition normT (N : nat) : nat -> Q := fun n => if Nat.eqb n 0 then 1 / Qn N / 2 else 1 / Qn N.

(* ---- UltrasphericalHelper ---- *)

(* get_differentiation_matrix(p): 2^(p-1) (p-1)! diags(arange(N-p)+p, offsets=p) / fac^p *)
Definition UD (fac : Q) (p : nat) : mat := fun k j =>
  if Nat.eqb (k + p) j then Qpown 2 (p - 1) * factQ (p - 1) * Qn j / Qpown fac p else 0.

(* get_S(lmbda) *)
Definition US (lam : nat) : mat :=
  match lam with
  | O => T2U
  | _ => fun k j =>
           if Nat.eqb k j then Qn lam / Qn (lam + k)
           else if Nat.eqb (k + 2) j then - (Qn lam / Qn (lam + j)) else 0
  end.

(* get_basis_change_matrix(p_in = lo, p_out = lo + d), forward direction: S_{lo+d-1} ... S_{lo} *)
Fixpoint Ubc (N : nat) (lo d : nat) : mat :=
  match d with O => mI | S d' => mmul N (US (lo + d')) (Ubc N lo d') end.
Fixpoint Ubc_tab (N : nat) (lo d : nat) : list (list Q) :=
  match d with O => tab N mI | S d' => lmul N (US (lo + d')) (Ubc_tab N lo d') end.

(* closed form of the inverse of S_lam (the code obtains backward basis changes by sparse inversion):
   C^(lam+1)_n = sum_{k <= n, k = n mod 2} (lam + k)/lam C^(lam)_k   (lam = 0: U2T) *)
Definition USinv (lam : nat) : mat :=
  match lam with
  | O => U2T
  | _ => fun k j => if (k <=? j)%nat && Nat.even (j - k) then Qn (lam + k) / Qn lam else 0
  end.
(* get_basis_change_matrix(p_in = lo + d, p_out = lo):  S_lo^-1 ... S_{lo+d-1}^-1 *)
Fixpoint Ubc_inv (N : nat) (lo d : nat) : mat :=
  match d with O => mI | S d' => mmul N (USinv lo) (Ubc_inv N (S lo) d') end.
Fixpoint Ubc_inv_tab (N : nat) (lo d : nat) : list (list Q) :=
  match d with O => tab N mI | S d' => lmul N (USinv lo) (Ubc_inv_tab N (S lo) d') end.

(* get_integration_matrix: diags(1/(n+1), -1) @ S_0 * fac *)
Definition USint (fac : Q) : mat := fun k j =>
  match k with O => 0 | S k' => T2U k' j / Qn k * fac end.

(* get_integration_constant: sum_{k >= 1} u_k (-1)^(k-1) *)
Definition Uint_const (N : nat) (u : nat -> Q) : Q := bigsum (fun i => u (S i) * sgn i) (N - 1).

(* ---- FFTHelper ---- *)

(* fftfreq(N, 1/N): 0, 1, ..., -2, -1 *)
Definition wavenum (N j : nat) : Z := if (2 * j <? N)%nat then Z.of_nat j else (Z.of_nat j - Z.of_nat N)%Z.

Definition C := (Q * Q)%type.
Definition cmul (a b : C) : C := (fst a * fst b - snd a * snd b, fst a * snd b + snd a * fst b).
Fixpoint cpow (a : C) (n : nat) : C := match n with O => (1, 0) | S n' => cmul a (cpow a n') end.
Definition cinv (a : C) : C :=
  let d := fst a * fst a + snd a * snd a in (fst a / d, - snd a / d).

(* get_differentiation_matrix(p): diag (i k)^p with k = wavenum * g, g = 2 pi / L as computed by the code *)
Definition FD (N : nat) (g : Q) (p : nat) : nat -> C := fun j => cpow (0, inject_Z (wavenum N j) * g) p.
(* get_integration_matrix(p): k[0] := i L;  diag (1 / (i k))^p *)
Definition FS (N : nat) (g L : Q) (p : nat) : nat -> C := fun j =>
  match j with
  | O => cpow (cinv (cmul (0, 1) (0, L))) p
  | _ => cpow (cinv (0, inject_Z (wavenum N j) * g)) p
  end.
(* get_integration_weights / get_integ_BC_row: L / N in mode 0 *)
Definition wF (N : nat) (L : Q) : nat -> Q := fun j => match j with O => L / Qn N | _ => 0 end.
(* get_Nyquist_mode_index (even N): index of the smallest wavenumber *)
Definition nyquist (N : nat) : nat := (N / 2)%nat.

(* ---- SpectralHelper.expand_matrix_ND: Kronecker products ---- *)

(* kron(A, B) with B of size n2 x n2 *)
Definition kron (n2 : nat) (A B : mat) : mat := fun r c =>
  A (r / n2)%nat (c / n2)%nat * B (r mod n2)%nat (c mod n2)%nat.

(* ------------------------------------------------------------------ comparison with extracted tables *)

(* |d - q| <= 2^t |q| , evaluated without gcd/division *)
Definition q_close (t : Z) (d : dy) (q : Q) : bool :=
  let a := Qnum q in let b := Zpos (Qden q) in
  dleb (dabs (dsub (dmul d (dZ b)) (dZ a))) (dmul (dpow2 t) (dabs (dZ a))).
Definition q_exact (d : dy) (q : Q) : bool :=
  deqb (dmul d (dZ (Zpos (Qden q)))) (dZ (Qnum q)).

Fixpoint pos_is_pow2 (p : positive) : bool :=
  match p with xH => true | xO p' => pos_is_pow2 p' | xI _ => false end.

(* the rule of the tie: model zeros must be exact zeros (sparsity), model values that are dyadic must be
   matched exactly when [ex] is set (reference interval / power-of-two maps), everything else within 2^t *)
Definition entry_ok (ex : bool) (t : Z) (d : dy) (q : Q) : bool :=
  if (Qnum q =? 0)%Z then (dm d =? 0)%Z
  else if ex && pos_is_pow2 (Qden q) then q_exact d q
  else q_close t d q.

(* numerically inverted matrices: |d - q| <= 2^t (|q| + 1) *)
Definition entry_ok_inv (t : Z) (d : dy) (q : Q) : bool :=
  let a := Qnum q in let b := Zpos (Qden q) in
  dleb (dabs (dsub (dmul d (dZ b)) (dZ a))) (dmul (dpow2 t) (dadd (dabs (dZ a)) (dZ b))).

Fixpoint row_bad (ok : dy -> Q -> bool) (j : nat) (r : list dy) (m : list Q) : option nat :=
  match r, m with
  | [], [] => None
  | d :: r', q :: m' => if ok d q then row_bad ok (S j) r' m' else Some j
  | _, _ => Some j
  end.
Fixpoint mat_bad (ok : dy -> Q -> bool) (k : nat) (A : list (list dy)) (M : list (list Q)) : option (nat * nat) :=
  match A, M with
  | [], [] => None
  | r :: A', m :: M' =>
      match row_bad ok 0 r m with Some j => Some (k, j) | None => mat_bad ok (S k) A' M' end
  | _, _ => Some (k, 0%nat)
  end.
(* result code printed to the harness: (-1,-1) = ok, else first bad (row, col) *)
Definition mat_res (r : option (nat * nat)) : Z * Z :=
  match r with None => (-1, -1)%Z | Some (k, j) => (Z.of_nat k, Z.of_nat j) end.
Definition mat_cmp (ex : bool) (t : Z) (A : list (list dy)) (M : list (list Q)) : Z * Z :=
  mat_res (mat_bad (entry_ok ex t) 0 A M).
Definition mat_cmp_inv (t : Z) (A : list (list dy)) (M : list (list Q)) : Z * Z :=
  mat_res (mat_bad (entry_ok_inv t) 0 A M).
Definition vec_cmp (ex : bool) (t : Z) (v : list dy) (m : list Q) : Z * Z :=
  match row_bad (entry_ok ex t) 0 v m with None => (-1, -1)%Z | Some j => (0, Z.of_nat j)%Z end.

(* ---- grids and transforms (dyadic arithmetic: exact, no gcd) ---- *)

(* addition/comparison of dyadics with shift-based alignment (Base.Dyadic aligns by multiplying with 2^k, which is
   quadratic on the several-thousand-bit values T_k(x) takes here); equal to dadd/dleb/dltb (SpectralProofs) *)
Definition falign (a b : dy) : Z * Z * Z :=
  let e := Z.min (de a) (de b) in (Z.shiftl (dm a) (de a - e), Z.shiftl (dm b) (de b - e), e).
Definition fadd (a b : dy) : dy := let '(x, y, e) := falign a b in Dy (x + y) e.
Definition fsub (a b : dy) : dy := fadd a (dopp b).
Definition fleb (a b : dy) : bool := let '(x, y, _) := falign a b in (x <=? y)%Z.
Definition fltb (a b : dy) : bool := let '(x, y, _) := falign a b in (x <? y)%Z.

(* [T_0 x; ...; T_{n-1} x] through the recurrence *)
Fixpoint dT_vals_aux (x a b : dy) (n : nat) : list dy :=
  match n with O => [] | S n' => a :: dT_vals_aux x b (fsub (dmul (dmul (dZ 2) x) b) a) n' end.
Definition dT_vals (x : dy) (n : nat) : list dy := dT_vals_aux x d1 x n.
Definition dT_at (N : nat) (x : dy) : dy := nth N (dT_vals x (S N)) d0.

Fixpoint dstrictly_decreasing (l : list dy) : bool :=
  match l with
  | a :: ((b :: _) as l') => fltb b a && dstrictly_decreasing l'
  | _ => true
  end.
(* Chebyshev-Gauss grid validator: N strictly decreasing points inside (-1, 1), each a root of T_N within tol
   (N distinct approximate roots of the degree-N polynomial T_N, in decreasing order, identify the nodes) *)
Definition grid_ok (tol : dy) (N : nat) (xs : list dy) : bool :=
  Nat.eqb (length xs) N && dstrictly_decreasing xs &&
  forallb (fun x => fleb (dabs (dT_at N x)) tol && fltb (dZ (-1)) x && fltb x d1) xs.

(* sum_k c_k T_k(x) *)
Fixpoint ddot (c v : list dy) : dy :=
  match c, v with a :: c', b :: v' => fadd (dmul a b) (ddot c' v') | _, _ => d0 end.
Definition dcheb_eval (c : list dy) (x : dy) : dy := ddot c (dT_vals x (length c)).
(* itransform(c) = values of the Chebyshev series on the grid, within tol *)
Fixpoint eval_bad (tol : dy) (c : list dy) (i : nat) (xs us : list dy) : option nat :=
  match xs, us with
  | [], [] => None
  | x :: xs', u :: us' =>
      if fleb (dabs (fsub u (dcheb_eval c x))) tol then eval_bad tol c (S i) xs' us' else Some i
  | _, _ => Some i
  end.
Definition eval_cmp (tol : dy) (c xs us : list dy) : Z * Z :=
  match eval_bad tol c 0 xs us with None => (-1, -1)%Z | Some i => (1, Z.of_nat i)%Z end.
Definition grid_cmp (tol : dy) (N : nat) (xs : list dy) : Z * Z :=
  if grid_ok tol N xs then (-1, -1)%Z else (2, 0)%Z.
